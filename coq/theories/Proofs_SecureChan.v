(* Proofs_SecureChan.v - lemmas about Model_SecureChan (network/secure.go). *)
From Goloop Require Import lib.Bytes Model_SecureChan.
From Coq Require Import ZifyBool ZifyN ZifyNat.
Ltac Zify.zify_post_hook ::= Z.div_mod_to_equations.
Open Scope N_scope.

Definition prefix (a b : bytes) : Prop := exists r, b = a ++ r.

Lemma prefix_refl a : prefix a a.
Proof. exists []. now rewrite app_nil_r. Qed.
Lemma prefix_nil a : prefix [] a.
Proof. now exists a. Qed.
Lemma prefix_app_l a b c : prefix b c -> prefix (a ++ b) (a ++ c).
Proof. intros [r ->]. exists r. now rewrite app_assoc. Qed.
Lemma prefix_trans a b c : prefix a b -> prefix b c -> prefix a c.
Proof. intros [r ->] [s ->]. exists (r ++ s). now rewrite app_assoc. Qed.
Lemma prefix_app_r a b : prefix a (a ++ b).
Proof. now exists b. Qed.

(* ------------------------------------------------------------------ *)
(* frames of a Write                                                    *)
Definition okp (p : bytes) : Prop := (1 <= length p <= frame_size)%nat.

Lemma frame_size_pos : (1 <= frame_size)%nat.
Proof. unfold frame_size. lia. Qed.
Lemma frame_size_small : N.of_nat frame_size < 65536.
Proof. unfold frame_size. lia. Qed.

Lemma chunks_spec : forall fuel b, (length b <= fuel)%nat ->
  concat (chunks fuel b) = b /\ Forall okp (chunks fuel b).
Proof.
  induction fuel as [|f IH]; intros b Hl.
  - destruct b; [|cbn in Hl; lia]. cbn. split; constructor.
  - destruct b as [|x b'] eqn:Eb.
    + cbn. split; constructor.
    + rewrite <- Eb in *. assert (Hne : (1 <= length b)%nat) by (subst b; cbn; lia).
      assert (Hs : (length (skipn frame_size b) <= f)%nat).
      { rewrite skipn_length. pose proof frame_size_pos. lia. }
      destruct (IH _ Hs) as [Hc Hf].
      assert (E : chunks (S f) b = firstn frame_size b :: chunks f (skipn frame_size b)).
      { subst b. reflexivity. }
      rewrite E. split.
      * cbn [concat]. rewrite Hc. apply firstn_skipn.
      * constructor; [|exact Hf]. unfold okp. rewrite firstn_length.
        pose proof frame_size_pos. lia.
Qed.

Lemma split_frames_concat b : concat (split_frames b) = b.
Proof. apply (chunks_spec (length b) b). lia. Qed.
Lemma split_frames_ok b : Forall okp (split_frames b).
Proof. apply (chunks_spec (length b) b). lia. Qed.

(* ------------------------------------------------------------------ *)
(* nonce counters                                                       *)
Lemma iter_inc_S k n : iter_inc (S k) n = iter_inc k (inc_nonce n).
Proof. reflexivity. Qed.
Lemma iter_inc_add a b n : iter_inc (a + b) n = iter_inc b (iter_inc a n).
Proof. revert n; induction a; intros; cbn; auto. Qed.
Lemma iter_inc_S' k n : iter_inc (S k) n = inc_nonce (iter_inc k n).
Proof. replace (S k) with (k + 1)%nat by lia. now rewrite iter_inc_add. Qed.

Fixpoint le_val (l : bytes) : N := match l with [] => 0 | b :: r => b + 256 * le_val r end.
Definition all_bytes (l : bytes) : Prop := Forall (fun b => b < 256) l.

Lemma pow_S n : 256 ^ N.of_nat (S n) = 256 * 256 ^ N.of_nat n.
Proof. now rewrite Nat2N.inj_succ, N.pow_succ_r'. Qed.
Lemma pow_pos n : 0 < 256 ^ N.of_nat n.
Proof. apply N.neq_0_lt_0. apply N.pow_nonzero. lia. Qed.

Lemma inc_rev_length l : length (inc_rev l) = length l.
Proof. induction l as [|b r IH]; [reflexivity|]. cbn. destruct (_ =? 0); cbn; now rewrite ?IH. Qed.

Lemma inc_rev_ok l : all_bytes l -> all_bytes (inc_rev l).
Proof.
  induction 1 as [|b r Hb Hr IH]; [constructor|]. cbn.
  destruct ((b + 1) mod 256 =? 0) eqn:E; constructor; auto; lia.
Qed.

Lemma le_val_bound l : all_bytes l -> le_val l < 256 ^ N.of_nat (length l).
Proof.
  induction 1 as [|b r Hb Hr IH]; [cbn; lia|]. cbn [le_val length]. rewrite pow_S. lia.
Qed.

Lemma inc_rev_val l : all_bytes l -> le_val (inc_rev l) = (le_val l + 1) mod 256 ^ N.of_nat (length l).
Proof.
  induction 1 as [|b r Hb Hr IH]; [reflexivity|]. cbn [inc_rev le_val length]. rewrite pow_S.
  pose proof (le_val_bound r Hr) as Hv. pose proof (pow_pos (length r)) as HP.
  set (P := 256 ^ N.of_nat (length r)) in *. set (v := le_val r) in *.
  destruct ((b + 1) mod 256 =? 0) eqn:E.
  - cbn [le_val]. rewrite IH. assert (b = 255) by lia. subst b.
    replace (255 + 256 * v + 1) with (256 * (v + 1)) by lia.
    rewrite N.mul_mod_distr_l by lia. lia.
  - cbn [le_val]. rewrite (N.mod_small (b + 1) 256) by lia. rewrite (N.mod_small _ (256 * P)) by lia. lia.
Qed.

Lemma le_val_inj : forall l1 l2, length l1 = length l2 -> all_bytes l1 -> all_bytes l2 ->
  le_val l1 = le_val l2 -> l1 = l2.
Proof.
  induction l1 as [|a r IH]; intros [|b s] Hl H1 H2 Hv; try discriminate; [reflexivity|].
  apply Forall_cons_iff in H1 as [Ha H1]. apply Forall_cons_iff in H2 as [Hb H2].
  cbn [le_val] in Hv. injection Hl as Hl.
  assert (a = b /\ le_val r = le_val s) as [-> Hr] by lia.
  f_equal. now apply IH.
Qed.

Definition nonce_val (n : bytes) : N := le_val (rev n).

Lemma all_bytes_rev l : all_bytes l -> all_bytes (rev l).
Proof. intros H. apply Forall_rev. exact H. Qed.

Lemma inc_nonce_length n : length (inc_nonce n) = length n.
Proof. unfold inc_nonce. now rewrite rev_length, inc_rev_length, rev_length. Qed.
Lemma inc_nonce_ok n : all_bytes n -> all_bytes (inc_nonce n).
Proof. intros H. unfold inc_nonce. apply all_bytes_rev, inc_rev_ok, all_bytes_rev, H. Qed.
Lemma inc_nonce_val n : all_bytes n ->
  nonce_val (inc_nonce n) = (nonce_val n + 1) mod 256 ^ N.of_nat (length n).
Proof.
  intros H. unfold nonce_val, inc_nonce. rewrite rev_involutive, inc_rev_val by now apply all_bytes_rev.
  now rewrite rev_length.
Qed.

Lemma iter_inc_length k : forall n, length (iter_inc k n) = length n.
Proof. induction k; intros n; cbn; [reflexivity|]. now rewrite IHk, inc_nonce_length. Qed.
Lemma iter_inc_ok k : forall n, all_bytes n -> all_bytes (iter_inc k n).
Proof. induction k; intros n H; cbn; [exact H|]. apply IHk, inc_nonce_ok, H. Qed.
Lemma iter_inc_val k : forall n, all_bytes n ->
  nonce_val (iter_inc k n) = (nonce_val n + N.of_nat k) mod 256 ^ N.of_nat (length n).
Proof.
  induction k; intros n H.
  - cbn [iter_inc]. rewrite N.add_0_r. symmetry. apply N.mod_small.
    unfold nonce_val. rewrite <- rev_length. apply le_val_bound, all_bytes_rev, H.
  - cbn [iter_inc]. rewrite IHk by now apply inc_nonce_ok. rewrite inc_nonce_val by exact H.
    rewrite inc_nonce_length. pose proof (pow_pos (length n)).
    rewrite N.add_mod_idemp_l by lia. f_equal. lia.
Qed.

Lemma mod_shift_inj M a d : 0 < M -> d < M -> (a + d) mod M = a mod M -> d = 0.
Proof.
  intros HM Hd E. rewrite <- N.add_mod_idemp_l in E by lia.
  pose proof (N.mod_upper_bound a M ltac:(lia)) as Hr. set (r := a mod M) in *.
  destruct (N.lt_ge_cases (r + d) M) as [Hlt|Hge].
  - rewrite N.mod_small in E by exact Hlt. lia.
  - assert (E2 : (r + d) mod M = r + d - M).
    { symmetry. apply (N.mod_unique _ _ 1); lia. }
    lia.
Qed.

Lemma iter_inc_inj n i j : all_bytes n ->
  N.of_nat i < 256 ^ N.of_nat (length n) -> N.of_nat j < 256 ^ N.of_nat (length n) ->
  iter_inc i n = iter_inc j n -> i = j.
Proof.
  intros H Hi Hj E. apply (f_equal nonce_val) in E. rewrite !iter_inc_val in E by exact H.
  pose proof (pow_pos (length n)) as HP. set (M := 256 ^ N.of_nat (length n)) in *.
  destruct (Nat.le_ge_cases i j) as [Hle|Hle].
  - assert (N.of_nat (j - i) = 0); [|lia].
    apply (mod_shift_inj M (nonce_val n + N.of_nat i)); [lia|lia|].
    rewrite E. f_equal. lia.
  - assert (N.of_nat (i - j) = 0); [|lia].
    apply (mod_shift_inj M (nonce_val n + N.of_nat j)); [lia|lia|].
    rewrite <- E. f_equal. lia.
Qed.

Lemma app_same_len (a c b d : bytes) : length a = length c -> a ++ b = c ++ d -> a = c.
Proof.
  revert c; induction a as [|x a IH]; intros [|y c] Hl H; try discriminate; [reflexivity|].
  cbn in H. injection H as -> H. injection Hl as Hl. f_equal. now apply IH.
Qed.

Lemma take_rest (size : nat) (l : bytes) : firstn size l ++ skipn (length (firstn size l)) l = l.
Proof.
  rewrite firstn_length. destruct (Nat.le_ge_cases size (length l)).
  - rewrite Nat.min_l by lia. apply firstn_skipn.
  - rewrite Nat.min_r by lia. rewrite firstn_all2, skipn_all by lia. apply app_nil_r.
Qed.
Lemma take_nonempty (size : nat) (l : bytes) : (0 < size)%nat -> l <> [] -> firstn size l <> [].
Proof. destruct size; [lia|]. destruct l; [congruence|]. cbn. congruence. Qed.

Section AEAD.
  Variable seal : bytes -> bytes -> bytes -> bytes.
  Variable open : bytes -> bytes -> bytes -> option bytes.
  Variable overhead : nat.

  Notation seal_frames := (seal_frames seal).
  Notation write := (write seal).
  Notation parse_frame := (parse_frame overhead).
  Notation read := (read open overhead).
  Notation read_all := (read_all open overhead).
  Notation read_all_stop := (read_all_stop open overhead).
  Notation step := (step seal open overhead).
  Notation run := (run seal open overhead).

  Hypothesis seal_len : forall k n p, length (seal k n p) = (length p + overhead)%nat.

  Definition enc_frames (key nonce : bytes) (ps : list bytes) : bytes :=
    concat (fst (seal_frames key nonce ps)).

  Lemma seal_frames_cons key n p r :
    seal_frames key n (p :: r) =
    ((hdr (length p) ++ seal key n p) :: fst (seal_frames key (inc_nonce n) r),
     snd (seal_frames key (inc_nonce n) r)).
  Proof. cbn. now destruct (seal_frames key (inc_nonce n) r). Qed.

  Lemma seal_frames_snd key : forall ps n, snd (seal_frames key n ps) = iter_inc (length ps) n.
  Proof.
    induction ps as [|p r IH]; intros n; [reflexivity|].
    rewrite seal_frames_cons. cbn [snd length iter_inc]. apply IH.
  Qed.

  Lemma seal_frames_app key : forall ps qs n,
    fst (seal_frames key n (ps ++ qs)) =
    fst (seal_frames key n ps) ++ fst (seal_frames key (iter_inc (length ps) n) qs).
  Proof.
    induction ps as [|p r IH]; intros qs n; [reflexivity|].
    rewrite <- app_comm_cons, !seal_frames_cons. cbn [fst length iter_inc app].
    now rewrite IH.
  Qed.

  Lemma enc_frames_nil key n : enc_frames key n [] = [].
  Proof. reflexivity. Qed.
  Lemma enc_frames_cons key n p r :
    enc_frames key n (p :: r) = hdr (length p) ++ seal key n p ++ enc_frames key (inc_nonce n) r.
  Proof. unfold enc_frames. rewrite seal_frames_cons. cbn [fst concat]. now rewrite app_assoc. Qed.
  Lemma enc_frames_app key n ps qs :
    enc_frames key n (ps ++ qs) = enc_frames key n ps ++ enc_frames key (iter_inc (length ps) n) qs.
  Proof. unfold enc_frames. now rewrite seal_frames_app, concat_app. Qed.

  (* ---------------- parsing one honest frame ---------------- *)
  Lemma hdr_val len : N.of_nat len < 65536 ->
    exists a b, hdr len = [a; b; 0; 0] /\ a * 256 + b = N.of_nat len.
  Proof.
    intros H. unfold hdr. rewrite N.mod_small by exact H.
    eexists _, _. split; [reflexivity|]. lia.
  Qed.

  Lemma parse_frame_frame (p s rest : bytes) :
    N.of_nat (length p) < 65536 -> length s = (length p + overhead)%nat ->
    parse_frame (hdr (length p) ++ s ++ rest) = PFrame (N.of_nat (length p)) s rest.
  Proof.
    intros Hp Hs. destruct (hdr_val _ Hp) as (a & b & -> & Hab).
    cbn [app parse_frame Model_SecureChan.parse_frame]. rewrite Hab, Nat2N.id.
    rewrite app_length.
    destruct (Nat.ltb_spec (length s + length rest) (length p + overhead)); [lia|].
    rewrite <- Hs. f_equal.
    - rewrite firstn_app, Nat.sub_diag, firstn_all. cbn. now rewrite app_nil_r.
    - rewrite skipn_app, Nat.sub_diag, skipn_all. reflexivity.
  Qed.

  Lemma okp_small (p : bytes) : okp p -> N.of_nat (length p) < 65536.
  Proof. unfold okp. pose proof frame_size_small. lia. Qed.

  (* ---------------- the honest channel ---------------- *)
  Section HONEST.
    Hypothesis open_seal : forall k n p, open k n (seal k n p) = Some p.

    Definition res_ok (closed : bool) (size : nat) (res : rres) : Prop :=
      r_n res = N.of_nat (length (r_data res)) /\ (length (r_data res) <= size)%nat /\
      (r_err res = None \/
       (r_data res = [] /\ r_err res = Some (if closed then EEof else EBlock))).

    Lemma read_honest key st ps closed size : Forall okp ps ->
      forall res st' w', read key st (enc_frames key (rs_nonce st) ps) closed size = (res, st', w') ->
      exists ps', w' = enc_frames key (rs_nonce st') ps' /\ Forall okp ps' /\
        rs_pending st ++ concat ps = r_data res ++ rs_pending st' ++ concat ps' /\
        iter_inc (length ps') (rs_nonce st') = iter_inc (length ps) (rs_nonce st) /\
        res_ok closed size res /\
        (r_err res <> None -> rs_pending st = [] /\ ps = []) /\
        ((0 < size)%nat -> rs_pending st ++ concat ps <> [] -> r_data res <> []).
    Proof.
      intros Hok res st' w'. unfold read, Model_SecureChan.read, read_v.
      destruct (rs_pending st) as [|x pend] eqn:Ep.
      - destruct ps as [|p r].
        + rewrite enc_frames_nil. cbn. intros E; inversion E; subst; clear E.
          exists []. cbn [r_data r_n r_err mk_res concat length app iter_inc]. rewrite Ep.
          split; [reflexivity|]. split; [constructor|]. split; [reflexivity|]. split; [reflexivity|].
          split; [|split].
          * unfold res_ok. cbn. split; [reflexivity|]. split; [lia|]. right. now split.
          * intros _. now split.
          * intros _ H. now elim H.
        + rewrite enc_frames_cons. inversion Hok as [|? ? Hp Hr]; subst.
          rewrite (parse_frame_frame p (seal key (rs_nonce st) p)) by (auto using okp_small).
          rewrite open_seal. intros E; inversion E; subst; clear E.
          cbn [rs_nonce rs_pending r_data r_n r_err mk_res].
          exists r. split; [reflexivity|]. split; [exact Hr|]. split; [|split; [|split; [|split]]].
          * cbn [concat app]. rewrite !app_assoc. f_equal. apply (eq_sym (take_rest size p)).
          * reflexivity.
          * unfold res_ok. cbn [r_data r_n r_err]. split; [reflexivity|]. split; [apply firstn_le_length|]. now left.
          * cbn. intros H. now elim H.
          * intros Hs _. apply take_nonempty; [exact Hs|]. unfold okp in Hp. destruct p; cbn in Hp; [lia|congruence].
      - intros E; inversion E; subst; clear E. cbn [rs_nonce rs_pending r_data r_n r_err mk_res].
        exists ps. split; [reflexivity|]. split; [exact Hok|]. split; [|split; [|split; [|split]]].
        + rewrite !app_assoc. f_equal. apply (eq_sym (take_rest size _)).
        + reflexivity.
        + unfold res_ok. cbn [r_data r_n r_err]. split; [reflexivity|]. split; [apply firstn_le_length|]. now left.
        + cbn. intros H. now elim H.
        + intros Hs _. apply take_nonempty; [exact Hs|congruence].
    Qed.

    Lemma read_all_cons key st w closed s r :
      read_all key st w closed (s :: r) =
      let '(res, st', w') := read key st w closed s in res :: read_all key st' w' closed r.
    Proof. reflexivity. Qed.

    Definition count_pos (sizes : list nat) : nat := length (filter (fun s => (0 <? s)%nat) sizes).

    Lemma read_all_honest key closed : forall sizes st ps, Forall okp ps ->
      let rs := read_all key st (enc_frames key (rs_nonce st) ps) closed sizes in
      Forall2 (res_ok closed) sizes rs /\
      prefix (delivered rs) (rs_pending st ++ concat ps) /\
      ((length (rs_pending st ++ concat ps) <= count_pos sizes)%nat ->
       delivered rs = rs_pending st ++ concat ps).
    Proof.
      induction sizes as [|s r IH]; intros st ps Hok.
      - cbn. split; [constructor|]. split; [apply prefix_nil|].
        intros H. destruct (rs_pending st ++ concat ps); [reflexivity|cbn in H; lia].
      - cbn zeta. rewrite read_all_cons.
        destruct (read key st (enc_frames key (rs_nonce st) ps) closed s) as [[res st'] w'] eqn:E.
        destruct (read_honest key st ps closed s Hok _ _ _ E) as (ps' & -> & Hok' & Hav & _ & Hres & _ & Hprog).
        specialize (IH st' ps' Hok'). cbn zeta in IH. destruct IH as (IH1 & IH2 & IH3).
        unfold delivered in *. cbn [map concat].
        split; [constructor; assumption|]. split.
        + rewrite Hav. apply prefix_app_l. exact IH2.
        + intros Hlen. rewrite Hav. f_equal. apply IH3.
          rewrite Hav in Hlen. rewrite app_length in Hlen. unfold count_pos in *. cbn [filter] in Hlen.
          destruct (Nat.ltb_spec 0 s) as [Hs|Hs].
          * cbn [length] in Hlen.
            destruct (rs_pending st ++ concat ps) as [|y l] eqn:Eav.
            -- symmetry in Hav. apply app_eq_nil in Hav. destruct Hav as [_ ->]. cbn. lia.
            -- assert (r_data res <> []) by (apply Hprog; [exact Hs|congruence]).
               destruct (r_data res); [congruence|]. cbn [length] in Hlen. lia.
          * destruct Hres as (_ & Hle & _). lia.
    Qed.

    Lemma write_all_enc key : forall ws n,
      fst (write_all seal key n ws) = enc_frames key n (concat (map split_frames ws)) /\
      snd (write_all seal key n ws) = iter_inc (length (concat (map split_frames ws))) n.
    Proof.
      induction ws as [|b r IH]; intros n; [split; reflexivity|].
      cbn [write_all map concat]. unfold write, Model_SecureChan.write.
      destruct (seal_frames key n (split_frames b)) as [fs n1] eqn:E1.
      specialize (IH n1). destruct (write_all seal key n1 r) as [w n2]. cbn [fst snd] in *.
      destruct IH as [-> ->].
      assert (En1 : n1 = iter_inc (length (split_frames b)) n).
      { rewrite <- seal_frames_snd with (key := key). now rewrite E1. }
      rewrite enc_frames_app, app_length, iter_inc_add, <- En1. split; [|reflexivity].
      f_equal. unfold enc_frames. now rewrite E1.
    Qed.

    Lemma concat_split_all (ws : list bytes) : concat (concat (map split_frames ws)) = concat ws.
    Proof.
      induction ws as [|b r IH]; [reflexivity|]. cbn [map concat].
      now rewrite concat_app, split_frames_concat, IH.
    Qed.
    Lemma split_all_ok (ws : list bytes) : Forall okp (concat (map split_frames ws)).
    Proof.
      induction ws as [|b r IH]; [constructor|]. cbn [map concat].
      apply Forall_app. split; [apply split_frames_ok|exact IH].
    Qed.

    (* sequential form: all writes, then all reads *)
    Lemma stream_faithful key n0 (writes : list bytes) closed (sizes : list nat) :
      let wire := fst (write_all seal key n0 writes) in
      let rs := read_all key {| rs_nonce := n0; rs_pending := [] |} wire closed sizes in
      Forall2 (res_ok closed) sizes rs /\
      prefix (delivered rs) (concat writes) /\
      ((length (concat writes) <= count_pos sizes)%nat -> delivered rs = concat writes).
    Proof.
      cbn zeta. rewrite (proj1 (write_all_enc key writes n0)).
      pose proof (read_all_honest key closed sizes {| rs_nonce := n0; rs_pending := [] |}
                    (concat (map split_frames writes)) (split_all_ok writes)) as H.
      cbn [rs_nonce rs_pending app] in H. rewrite concat_split_all in H. exact H.
    Qed.

    (* a Read with an empty buffer returns nothing and loses nothing *)
    Lemma read_zero key st ps closed : Forall okp ps ->
      forall res st' w', read key st (enc_frames key (rs_nonce st) ps) closed 0 = (res, st', w') ->
      r_data res = [] /\ r_n res = 0 /\
      exists ps', w' = enc_frames key (rs_nonce st') ps' /\ Forall okp ps' /\
                  rs_pending st' ++ concat ps' = rs_pending st ++ concat ps.
    Proof.
      intros Hok res st' w' E.
      destruct (read_honest key st ps closed 0 Hok _ _ _ E) as (ps' & Hw & Hok' & Hav & _ & (Hn & Hle & _) & _).
      assert (Hd : r_data res = []) by (destruct (r_data res); [reflexivity|cbn in Hle; lia]).
      rewrite Hd in *. cbn in Hav, Hn. split; [reflexivity|]. split; [exact Hn|].
      exists ps'. now repeat split.
    Qed.

    (* interleaved form *)
    Definition inv (c : chan) (W D : bytes) : Prop :=
      exists ps, Forall okp ps /\
        c_wire c = enc_frames (c_key c) (rs_nonce (c_rst c)) ps /\
        c_wnonce c = iter_inc (length ps) (rs_nonce (c_rst c)) /\
        D ++ rs_pending (c_rst c) ++ concat ps = W.

    Definition out_ok (o : op) (x : out) : Prop :=
      match o, x with
      | OWrite b, OutW n => n = length b
      | OWrite _, OutWClosed => True
      | ORead size, OutR r => exists closed, res_ok closed size r
      | OClose, OutC => True
      | _, _ => False
      end.

    Lemma step_honest c o W D : inv c W D ->
      forall c' x, step c o = (c', x) ->
      inv c' (W ++ op_written (c_closed c) o) (D ++ out_data x) /\ out_ok o x /\
      c_closed c' = (match o with OClose => true | _ => c_closed c end).
    Proof.
      intros (ps & Hok & Hw & Hn & HW) c' x. destruct o as [b|size|]; cbn [step Model_SecureChan.step].
      - destruct (c_closed c) eqn:Ec.
        + intros E; inversion E; subst; clear E. cbn. rewrite !app_nil_r. split; [|split; [exact I|exact Ec]].
          exists ps. now repeat split.
        + unfold write, Model_SecureChan.write.
          destruct (seal_frames (c_key c) (c_wnonce c) (split_frames b)) as [fs n'] eqn:E1.
          intros E; inversion E; subst; clear E. cbn [out_data op_written]. rewrite app_nil_r.
          split; [|split; [reflexivity|reflexivity]].
          exists (ps ++ split_frames b). cbn [c_wire c_key c_rst c_wnonce].
          split; [apply Forall_app; split; [exact Hok|apply split_frames_ok]|].
          split; [|split].
          * rewrite Hw, enc_frames_app, <- Hn. f_equal. unfold enc_frames. now rewrite E1.
          * rewrite app_length, iter_inc_add, <- Hn.
            rewrite <- seal_frames_snd with (key := c_key c). now rewrite E1.
          * rewrite concat_app, split_frames_concat. now rewrite <- !app_assoc.
      - destruct (read (c_key c) (c_rst c) (c_wire c) (c_closed c) size) as [[res st'] w'] eqn:E1.
        intros E; inversion E; subst; clear E. cbn [out_data op_written c_closed]. rewrite app_nil_r.
        rewrite Hw in E1.
        destruct (read_honest _ _ _ _ _ Hok _ _ _ E1) as (ps' & Hw' & Hok' & Hav & Hit & Hres & _).
        split; [|split; [exists (c_closed c); exact Hres|reflexivity]].
        exists ps'. cbn [c_wire c_key c_rst c_wnonce]. split; [exact Hok'|]. split; [exact Hw'|].
        split; [now rewrite Hit|]. rewrite <- app_assoc, <- Hav. reflexivity.
      - intros E; inversion E; subst; clear E. cbn. rewrite !app_nil_r. split; [|split; [exact I|reflexivity]].
        exists ps. now repeat split.
    Qed.

    Lemma run_honest : forall ops c W D, inv c W D ->
      forall outs c', run c ops = (outs, c') ->
      inv c' (W ++ written (c_closed c) ops) (D ++ concat (map out_data outs)) /\ Forall2 out_ok ops outs.
    Proof.
      induction ops as [|o r IH]; intros c W D Hinv outs c'.
      - cbn. intros E; inversion E; subst. cbn. rewrite !app_nil_r. split; [exact Hinv|constructor].
      - cbn [run Model_SecureChan.run].
        destruct (step c o) as [c1 x] eqn:E1. destruct (run c1 r) as [xs c2] eqn:E2.
        intros E; inversion E; subst; clear E.
        destruct (step_honest c o W D Hinv _ _ E1) as (Hinv1 & Hout & Hcl).
        destruct (IH _ _ _ Hinv1 _ _ E2) as (Hinv2 & Hall).
        split; [|constructor; assumption].
        cbn [map concat]. rewrite Hcl in Hinv2.
        replace (W ++ written (c_closed c) (o :: r)) with
          ((W ++ op_written (c_closed c) o) ++ written (match o with OClose => true | _ => c_closed c end) r).
        + now rewrite <- !app_assoc in *.
        + rewrite <- app_assoc. f_equal. destruct o; cbn; auto.
    Qed.

    Lemma stream_faithful_interleaved key n0 ops :
      forall outs c', run (chan_init key n0) ops = (outs, c') ->
      prefix (concat (map out_data outs)) (written false ops) /\ Forall2 out_ok ops outs.
    Proof.
      intros outs c' E.
      assert (Hinv : inv (chan_init key n0) [] []).
      { exists []. cbn. repeat split; constructor. }
      destruct (run_honest ops _ _ _ Hinv _ _ E) as ((ps & _ & _ & _ & HW) & Hall).
      split; [|exact Hall]. cbn in HW. rewrite <- HW. apply prefix_app_r.
    Qed.
  End HONEST.

  (* ---------------- adversarial wire ---------------- *)
  (* the ciphertexts the writer produced for the plaintext frames qs: (nonce, plaintext, sealed) *)
  Fixpoint genuine (key nonce : bytes) (qs : list bytes) : list (bytes * bytes * bytes) :=
    match qs with
    | [] => []
    | p :: r => (nonce, p, seal key nonce p) :: genuine key (inc_nonce nonce) r
    end.

  Lemma genuine_In key : forall qs m n p c,
    In (n, p, c) (genuine key m qs) <->
    exists i, nth_error qs i = Some p /\ n = iter_inc i m /\ c = seal key n p.
  Proof.
    induction qs as [|q r IH]; intros m n p c; cbn [genuine In].
    - split; [tauto|]. intros (i & H & _). destruct i; discriminate.
    - split.
      + intros [E|H].
        * inversion E; subst. exists 0%nat. now repeat split.
        * apply IH in H as (i & H1 & H2 & H3). exists (S i). now repeat split.
      + intros ([|i] & H1 & H2 & H3).
        * left. cbn in H1, H2. inversion H1; subst. reflexivity.
        * right. apply IH. exists i. now repeat split.
  Qed.

  Lemma parse_frame_inv w n sealed rest : parse_frame w = PFrame n sealed rest ->
    exists a b x y, w = a :: b :: x :: y :: sealed ++ rest /\ n = a * 256 + b /\
                    length sealed = (N.to_nat n + overhead)%nat.
  Proof.
    unfold parse_frame, Model_SecureChan.parse_frame.
    destruct w as [|a [|b [|x [|y w1]]]]; try discriminate.
    destruct (Nat.ltb_spec (length w1) (N.to_nat (a * 256 + b) + overhead)); [discriminate|].
    intros E; inversion E; subst; clear E. exists a, b, x, y.
    rewrite firstn_skipn. split; [reflexivity|]. split; [reflexivity|].
    rewrite firstn_length. lia.
  Qed.

  Lemma firstn_S_nth (l : list bytes) j p : nth_error l j = Some p -> firstn (S j) l = firstn j l ++ [p].
  Proof.
    revert j; induction l as [|a l IH]; intros [|j] H; try discriminate.
    - cbn in H. inversion H; subst. reflexivity.
    - cbn in H. change (firstn (S (S j)) (a :: l)) with (a :: firstn (S j) l). rewrite (IH _ H). reflexivity.
  Qed.

  Lemma concat_firstn_prefix (l : list bytes) j : prefix (concat (firstn j l)) (concat l).
  Proof. exists (concat (skipn j l)). now rewrite <- concat_app, firstn_skipn. Qed.

  Section ADVERSARY.
    Variables (key n0 : bytes) (ps : list bytes).
    (* ideal AEAD for a key with one writer: under this key exactly the
       ciphertexts the writer produced open, each under its own nonce, to its own plaintext *)
    Hypothesis ideal : forall n c p, open key n c = Some p <-> In (n, p, c) (genuine key n0 ps).
    Hypothesis ps_ok : Forall okp ps.
    Hypothesis n0_ok : all_bytes n0.
    Hypothesis no_wrap : N.of_nat (length ps) < 256 ^ N.of_nat (length n0).

    Lemma open_at j plain sealed : (j <= length ps)%nat ->
      open key (iter_inc j n0) sealed = Some plain ->
      nth_error ps j = Some plain /\ sealed = seal key (iter_inc j n0) plain.
    Proof.
      intros Hj H. apply ideal, genuine_In in H as (i & H1 & H2 & H3).
      assert (Hi : (i < length ps)%nat) by (apply nth_error_Some; congruence).
      assert (j = i) by (apply (iter_inc_inj n0); [exact n0_ok|lia|lia|exact H2]).
      subst i. now split.
    Qed.

    Lemma open_genuine j p : nth_error ps j = Some p ->
      open key (iter_inc j n0) (seal key (iter_inc j n0) p) = Some p.
    Proof. intros H. apply ideal, genuine_In. exists j. now repeat split. Qed.

    Definition rinv (st : rstate) (D : bytes) (j : nat) : Prop :=
      (j <= length ps)%nat /\ rs_nonce st = iter_inc j n0 /\ D ++ rs_pending st = concat (firstn j ps).

    (* the wire begins with the genuine i-th frame (header bytes 2 and 3 are not looked at) *)
    Definition genuine_start (i : nat) (w : bytes) : Prop :=
      exists a b x y p rest, w = a :: b :: x :: y :: seal key (iter_inc i n0) p ++ rest /\
        nth_error ps i = Some p /\ a * 256 + b = N.of_nat (length p).

    Lemma read_adv st D j w closed size : rinv st D j ->
      forall res st' w', read key st w closed size = (res, st', w') ->
      (exists j', rinv st' (D ++ r_data res) j') /\
      r_n res = N.of_nat (length (r_data res)) /\ (length (r_data res) <= size)%nat /\
      (r_err res <> None -> r_data res = [] /\ r_n res = 0 /\ st' = st /\ (w' = w \/ w' = [] \/ r_err res = Some EAuth)) /\
      (r_err res = None -> rs_pending st = [] -> genuine_start j w).
    Proof.
      intros (Hj & Hn & HD) res st' w'. unfold read, Model_SecureChan.read, read_v.
      destruct (rs_pending st) as [|x pend] eqn:Ep.
      - destruct (parse_frame w) as [| |n none|n sealed rest] eqn:P.
        + intros [= <- <- <-]. cbn. rewrite app_nil_r.
          split; [exists j; unfold rinv; rewrite Ep; auto|]. split; [reflexivity|]. split; [lia|].
          split; [intros _; repeat split; auto|discriminate].
        + intros [= <- <- <-]. cbn. rewrite app_nil_r.
          split; [exists j; unfold rinv; rewrite Ep; auto|]. split; [reflexivity|]. split; [lia|].
          split; [intros _; repeat split; auto|discriminate].
        + intros [= <- <- <-]. cbn. rewrite app_nil_r.
          split; [exists j; unfold rinv; rewrite Ep; auto|]. split; [reflexivity|]. split; [lia|].
          split; [intros _; repeat split; auto|discriminate].
        + destruct (open key (rs_nonce st) sealed) as [plain|] eqn:O.
          * intros [= <- <- <-]. cbn [r_data r_n r_err mk_res].
            rewrite Hn in O. destruct (open_at j plain sealed Hj O) as (Hnth & Hs).
            assert (Hlt : (j < length ps)%nat) by (apply nth_error_Some; congruence).
            split; [|split; [reflexivity|split; [apply firstn_le_length|split; [congruence|]]]].
            -- exists (S j). unfold rinv. cbn [rs_nonce rs_pending]. split; [lia|].
               split; [now rewrite Hn, iter_inc_S'|].
               rewrite <- app_assoc, take_rest, (firstn_S_nth _ _ _ Hnth), concat_app. cbn [concat].
               rewrite app_nil_r in *. now rewrite HD.
            -- intros _ _. apply parse_frame_inv in P as (a & b & x & y & Hw & Hnab & Hlen).
               exists a, b, x, y, plain, rest. subst sealed. split; [exact Hw|]. split; [exact Hnth|].
               rewrite seal_len in Hlen. lia.
          * intros [= <- <- <-]. cbn. rewrite app_nil_r.
            split; [exists j; unfold rinv; rewrite Ep; auto|]. split; [reflexivity|]. split; [lia|].
            split; [intros _; repeat split; auto|discriminate].
      - intros [= <- <- <-]. cbn [r_data r_n r_err mk_res].
        split; [|split; [reflexivity|split; [apply firstn_le_length|split; [congruence|discriminate]]]].
        exists j. unfold rinv. cbn [rs_nonce rs_pending]. split; [exact Hj|]. split; [exact Hn|].
        now rewrite <- app_assoc, take_rest.
    Qed.

    Definition res_sane (size : nat) (r : rres) : Prop :=
      r_n r = N.of_nat (length (r_data r)) /\ (length (r_data r) <= size)%nat /\
      (r_err r <> None -> r_data r = [] /\ r_n r = 0).

    Lemma rinv_prefix st D j : rinv st D j -> prefix D (concat ps).
    Proof.
      intros (_ & _ & HD). eapply prefix_trans; [|apply (concat_firstn_prefix ps j)].
      rewrite <- HD. apply prefix_app_r.
    Qed.

    (* whatever bytes are on the wire: only a prefix of the written stream is ever delivered *)
    Lemma adv_prefix closed : forall sizes st D j w, rinv st D j ->
      let rs := read_all key st w closed sizes in
      prefix (D ++ delivered rs) (concat ps) /\ Forall2 res_sane sizes rs.
    Proof.
      induction sizes as [|s r IH]; intros st D j w Hinv.
      - cbn. rewrite app_nil_r. split; [eapply rinv_prefix; eauto|constructor].
      - cbn zeta. rewrite read_all_cons.
        destruct (read key st w closed s) as [[res st'] w'] eqn:E.
        destruct (read_adv st D j w closed s Hinv _ _ _ E) as ((j' & Hinv') & Hn & Hle & Herr & _).
        destruct (IH st' (D ++ r_data res) j' w' Hinv') as (IH1 & IH2).
        unfold delivered in *. cbn [map concat]. rewrite app_assoc. split; [exact IH1|].
        constructor; [|exact IH2]. split; [exact Hn|]. split; [exact Hle|].
        intros H. destruct (Herr H) as (? & ? & _). now split.
    Qed.

    Lemma read_all_stop_cons st w closed s r :
      read_all_stop key st w closed (s :: r) =
      let '(res, st', w') := read key st w closed s in
      if hard_err res then [res] else res :: read_all_stop key st' w' closed r.
    Proof. reflexivity. Qed.

    (* a consumer that closes at the first error receives nothing from the
       position where the wire stops being the genuine frame sequence *)
    Lemma tamper_stop closed : forall sizes done qs post st D w,
      ps = done ++ qs ++ post ->
      rs_nonce st = iter_inc (length done) n0 -> D ++ rs_pending st = concat done ->
      ~ genuine_start (length (done ++ qs)) w ->
      prefix (D ++ delivered (read_all_stop key st (enc_frames key (iter_inc (length done) n0) qs ++ w) closed sizes))
             (concat (done ++ qs)).
    Proof.
      induction sizes as [|s r IH]; intros done qs post st D w Hps Hn HD Hng.
      - cbn. rewrite app_nil_r, concat_app, <- HD, <- app_assoc. apply prefix_app_r.
      - rewrite read_all_stop_cons.
        assert (Hinv : rinv st D (length done)).
        { unfold rinv. rewrite Hps. rewrite app_length. split; [lia|]. split; [exact Hn|].
          rewrite firstn_app, Nat.sub_diag, firstn_all. cbn. now rewrite app_nil_r. }
        destruct (rs_pending st) as [|x pend] eqn:Ep.
        + rewrite app_nil_r in HD. destruct qs as [|p qs'].
          * (* at the tamper point *)
            rewrite enc_frames_nil. cbn [app].
            destruct (read key st w closed s) as [[res st'] w'] eqn:E.
            destruct (read_adv st D _ w closed s Hinv _ _ _ E) as (_ & _ & _ & Herr & Hacc).
            destruct (r_err res) as [e|] eqn:Ee.
            -- destruct (Herr ltac:(congruence)) as (Hd & _ & -> & Hw').
               destruct (hard_err res) eqn:Hh.
               ++ unfold delivered. cbn. rewrite Hd, !app_nil_r, <- HD. apply prefix_refl.
               ++ unfold delivered in *. cbn [map concat]. rewrite Hd. cbn [app].
                  assert (Hng' : ~ genuine_start (length (done ++ [])) w').
                  { destruct Hw' as [->|[->|He]]; [exact Hng| |].
                    - intros (a & b & x & y & p & rest & Hx & _). discriminate.
                    - unfold hard_err in Hh. rewrite Ee in Hh. inversion He; subst. discriminate. }
                  assert (HD' : D ++ rs_pending st = concat done) by (now rewrite Ep, app_nil_r).
                  specialize (IH done [] post st D w' Hps Hn HD' Hng').
                  rewrite enc_frames_nil in IH. exact IH.
            -- exfalso. apply Hng. rewrite app_nil_r. apply Hacc; [reflexivity|exact Ep].
          * (* an untouched frame *)
            assert (Hnth : nth_error ps (length done) = Some p).
            { rewrite Hps, nth_error_app2, Nat.sub_diag by lia. reflexivity. }
            assert (Hp : okp p).
            { rewrite Forall_forall in ps_ok. apply ps_ok. rewrite Hps. apply in_or_app. right. now left. }
            rewrite enc_frames_cons, <- !app_assoc.
            unfold read at 1, Model_SecureChan.read, read_v. rewrite Ep.
            rewrite (parse_frame_frame p (seal key (iter_inc (length done) n0) p)) by (auto using okp_small).
            rewrite Hn, (open_genuine _ _ Hnth).
            cbn [hard_err r_err mk_res]. unfold delivered. cbn [map concat r_data].
            rewrite app_assoc.
            replace (length (firstn s p)) with (length (firstn s p)) by reflexivity.
            specialize (IH (done ++ [p]) qs' post
                          {| rs_nonce := inc_nonce (iter_inc (length done) n0);
                             rs_pending := skipn (length (firstn s p)) p |}
                          (D ++ firstn s p) w).
            rewrite app_length in IH. cbn [length rs_nonce rs_pending] in IH.
            replace (length done + 1)%nat with (S (length done)) in IH by lia.
            rewrite iter_inc_S' in IH. rewrite <- !app_assoc in IH. cbn [app] in IH.
            unfold delivered in IH. cbn [r_data mk_res]. rewrite <- app_assoc. apply IH.
            -- exact Hps.
            -- reflexivity.
            -- rewrite take_rest, concat_app. cbn [concat]. rewrite app_nil_r, <- HD. reflexivity.
            -- exact Hng.
        + unfold read at 1, Model_SecureChan.read, read_v. rewrite Ep.
          cbn [hard_err r_err mk_res]. unfold delivered. cbn [map concat r_data]. rewrite app_assoc.
          apply (IH done qs post); [exact Hps|exact Hn| |exact Hng].
          cbn [rs_pending r_data mk_res]. rewrite <- app_assoc, take_rest. exact HD.
    Qed.

    (* the Read that meets a position where the genuine frame is not present fails *)
    Lemma tamper_read_fails i w closed size : (i <= length ps)%nat -> ~ genuine_start i w ->
      forall res st' w', read key {| rs_nonce := iter_inc i n0; rs_pending := [] |} w closed size = (res, st', w') ->
      r_err res <> None /\ r_data res = [] /\ r_n res = 0 /\ rs_nonce st' = iter_inc i n0.
    Proof.
      intros Hi Hng res st' w' E.
      assert (Hinv : rinv {| rs_nonce := iter_inc i n0; rs_pending := [] |} (concat (firstn i ps)) i).
      { unfold rinv. cbn. now rewrite app_nil_r. }
      destruct (read_adv _ _ _ w closed size Hinv _ _ _ E) as (_ & _ & _ & Herr & Hacc).
      destruct (r_err res) eqn:Ee.
      - destruct (Herr ltac:(congruence)) as (? & ? & -> & _). repeat split; auto; congruence.
      - exfalso. apply Hng, Hacc; reflexivity.
    Qed.

    (* the kinds of tampering: what stands at position i is not the genuine frame i *)
    Lemma not_genuine_modified_sealed i a b x y s' rest p :
      nth_error ps i = Some p -> length s' = length (seal key (iter_inc i n0) p) ->
      s' <> seal key (iter_inc i n0) p -> ~ genuine_start i (a :: b :: x :: y :: s' ++ rest).
    Proof.
      intros Hnth Hl Hne (a' & b' & x' & y' & p' & rest' & Hw & Hnth' & _).
      rewrite Hnth in Hnth'. inversion Hnth'; subst p'. inversion Hw as [[Ha Hb Hx Hy Hs]].
      apply Hne. now apply (app_same_len _ _ _ _ Hl Hs).
    Qed.

    Lemma not_genuine_modified_length i a b x y rest' p :
      nth_error ps i = Some p -> a * 256 + b <> N.of_nat (length p) ->
      ~ genuine_start i (a :: b :: x :: y :: rest').
    Proof.
      intros Hnth Hne (a' & b' & x' & y' & p' & rest & Hw & Hnth' & Hab).
      rewrite Hnth in Hnth'. inversion Hnth'; subst p'. inversion Hw; subst. now apply Hne.
    Qed.

    (* dropped / duplicated / reordered: frame j stands where frame i is expected *)
    Lemma not_genuine_other_frame i j pi pj rest :
      nth_error ps i = Some pi -> nth_error ps j = Some pj ->
      hdr (length pj) ++ seal key (iter_inc j n0) pj <> hdr (length pi) ++ seal key (iter_inc i n0) pi ->
      ~ genuine_start i (hdr (length pj) ++ seal key (iter_inc j n0) pj ++ rest).
    Proof.
      intros Hi Hj Hne (a & b & x & y & p & rest' & Hw & Hnth & Hab).
      rewrite Hi in Hnth. inversion Hnth; subst p. apply Hne.
      assert (Hpi : okp pi) by (rewrite Forall_forall in ps_ok; apply ps_ok; eapply nth_error_In; eauto).
      assert (Hpj : okp pj) by (rewrite Forall_forall in ps_ok; apply ps_ok; eapply nth_error_In; eauto).
      destruct (hdr_val _ (okp_small _ Hpj)) as (a1 & b1 & Eh & Hv). rewrite Eh in *.
      cbn [app] in Hw. inversion Hw as [[Ha Hb Hx Hy Hs]]. subst a1 b1 x y.
      assert (Hlen : length pj = length pi) by lia.
      destruct (hdr_val _ (okp_small _ Hpi)) as (a2 & b2 & Eh2 & Hv2).
      assert (Ehh : hdr (length pi) = [a; b; 0; 0]) by (rewrite <- Hlen; exact Eh).
      rewrite Ehh. cbn [app]. do 4 f_equal.
      assert (Hl2 : length (seal key (iter_inc j n0) pj) = length (seal key (iter_inc i n0) pi))
        by (rewrite !seal_len; lia).
      apply (app_same_len _ _ _ _ Hl2 Hs).
    Qed.
  End ADVERSARY.
End AEAD.

(* ------------------------------------------------------------------ *)
(* key setup                                                            *)
Lemma is_lower_anti p q d1 d2 : p <> q -> is_lower p q d1 = negb (is_lower q p d2).
Proof.
  destruct p as [px py], q as [qx qy]. intros Hne. unfold is_lower. cbn [pk_x pk_y].
  destruct (N.ltb_spec px qx), (N.ltb_spec qx px), (N.eqb_spec qx px), (N.eqb_spec px qx);
    try lia; try reflexivity.
  destruct (N.ltb_spec py qy), (N.ltb_spec qy py), (N.eqb_spec qy py), (N.eqb_spec py qy);
    try lia; try reflexivity.
  exfalso. apply Hne. congruence.
Qed.

Lemma is_lower_same p d : is_lower p p d = d.
Proof.
  destruct p as [px py]. unfold is_lower. cbn [pk_x pk_y].
  rewrite !N.ltb_irrefl, !N.eqb_refl. reflexivity.
Qed.

Section KEYS.
  Variable priv : Type.
  Variable shared : Type.
  Variable pub_of : priv -> pubkey.
  Variable ecdh : priv -> pubkey -> shared.
  Variable kdf : shared -> nat -> nat -> bytes.
  Hypothesis ecdh_comm : forall a b, ecdh a (pub_of b) = ecdh b (pub_of a).
  Hypothesis kdf_inj : forall z len i j, kdf z len i = kdf z len j -> i = j.

  Notation setup := (setup priv shared pub_of ecdh kdf).

  Lemma directions_gen a b da db sa num ka kb :
    (pub_of a <> pub_of b \/ da = negb db) ->
    setup a (Some (pub_of b)) da sa num = Some ka ->
    setup b (Some (pub_of a)) db sa num = Some kb ->
    k_extra ka = k_extra kb /\ k_secret ka = k_secret kb /\
    forall ina outa inb outb,
      conn_secrets ka sa = Some (ina, outa) -> conn_secrets kb sa = Some (inb, outb) ->
      outa = inb /\ ina = outb /\ ((2 <= num)%nat -> outa <> ina).
  Proof.
    intros Hd Ha Hb. unfold setup, Model_SecureChan.setup in *.
    inversion Ha; subst ka; clear Ha. inversion Hb; subst kb; clear Hb.
    cbn [k_extra k_secret k_lower]. rewrite (ecdh_comm b a).
    split; [reflexivity|]. split; [reflexivity|].
    assert (Hl : is_lower (pub_of a) (pub_of b) da = negb (is_lower (pub_of b) (pub_of a) db)).
    { destruct (N.eq_dec (pk_x (pub_of a)) (pk_x (pub_of b))) as [Ex|Ex];
      [destruct (N.eq_dec (pk_y (pub_of a)) (pk_y (pub_of b))) as [Ey|Ey]|].
      - assert (E : pub_of a = pub_of b) by (destruct (pub_of a), (pub_of b); cbn in *; congruence).
        rewrite E, !is_lower_same. destruct Hd as [Hd|Hd]; [now elim Hd|exact Hd].
      - apply is_lower_anti. congruence.
      - apply is_lower_anti. congruence. }
    intros ina outa inb outb. unfold conn_secrets. cbn [k_secret k_lower]. rewrite Hl.
    destruct sa; try discriminate;
    (destruct num as [|[|n]]; cbn [seq map]; try discriminate;
     [intros [= <- <-] [= <- <-]; repeat split; auto; lia|
      destruct (is_lower (pub_of b) (pub_of a) db); cbn [negb];
      intros [= <- <-] [= <- <-]; repeat split; auto; intros _ E; apply kdf_inj in E; discriminate]).
  Qed.
End KEYS.

(* ------------------------------------------------------------------ *)
(* the stand-in AEAD meets the hypotheses of the honest-channel theorems *)
Lemma toy_tag_length oh k n p : length (toy_tag oh k n p) = oh.
Proof. unfold toy_tag. now rewrite map_length, seq_length. Qed.
Lemma toy_seal_len oh k n p : length (toy_seal oh k n p) = (length p + oh)%nat.
Proof. unfold toy_seal. now rewrite app_length, toy_tag_length. Qed.
Lemma toy_open_seal oh k n p : toy_open oh k n (toy_seal oh k n p) = Some p.
Proof.
  unfold toy_open. rewrite toy_seal_len.
  replace (length p + oh - oh)%nat with (length p) by lia.
  assert (E : firstn (length p) (toy_seal oh k n p) = p).
  { unfold toy_seal. rewrite firstn_app, Nat.sub_diag, firstn_all. cbn. apply app_nil_r. }
  rewrite E, bytes_eqb_refl.
  destruct (Nat.leb_spec oh (length p + oh)); [reflexivity|lia].
Qed.

(* the table AEAD is ideal for its table when a nonce occurs once *)
Lemma tbl_open_ideal tbl key :
  (forall n p c p' c', In (n, p, c) tbl -> In (n, p', c') tbl -> p = p' /\ c = c') ->
  forall n c p, tbl_open tbl key n c = Some p <-> In (n, p, c) tbl.
Proof.
  intros Hf n c p. unfold tbl_open. split.
  - destruct (find _ tbl) as [[[n1 p1] c1]|] eqn:E; [|discriminate].
    apply find_some in E as [Hin Hb]. cbn [fst snd] in *.
    apply andb_true_iff in Hb as [H1 H2]. apply bytes_eqb_eq in H1, H2. subst.
    intros [= <-]. exact Hin.
  - intros Hin. destruct (find _ tbl) as [[[n1 p1] c1]|] eqn:E.
    + apply find_some in E as [Hin1 Hb]. cbn [fst snd] in *.
      apply andb_true_iff in Hb as [H1 H2]. apply bytes_eqb_eq in H1, H2. subst.
      destruct (Hf _ _ _ _ _ Hin Hin1) as [-> _]. reflexivity.
    + exfalso. pose proof (find_none _ _ E _ Hin) as Hb. cbn [fst snd] in Hb.
      rewrite !bytes_eqb_refl in Hb. discriminate.
Qed.

(* ------------------------------------------------------------------ *)
(* non-vacuity: concrete values meeting the hypotheses                   *)
Definition ex_key : bytes := [9; 9; 9].
Definition ex_n0 : bytes := [0;0;0;0;0;0;0;0;0;0;255;255].      (* next to a two-byte carry *)
Definition ex_ps : list bytes := [[1;2;3]; [4;5]; [6]].
Definition ex_tbl := genuine (toy_seal 16) ex_key ex_n0 ex_ps.

Example ex_adversary_hyps :
  (forall n c p, tbl_open ex_tbl ex_key n c = Some p <-> In (n, p, c) (genuine (toy_seal 16) ex_key ex_n0 ex_ps)) /\
  Forall okp ex_ps /\ all_bytes ex_n0 /\ N.of_nat (length ex_ps) < 256 ^ N.of_nat (length ex_n0).
Proof.
  split; [|split; [|split]].
  - apply tbl_open_ideal. unfold ex_tbl. vm_compute genuine.
    intros n p c p' c' H1 H2. cbn [In] in H1, H2.
    repeat match goal with H : _ \/ _ |- _ => destruct H | H : False |- _ => elim H end;
      match goal with H1 : _ = _, H2 : _ = _ |- _ => inversion H1; inversion H2; subst; try discriminate; auto end.
  - repeat constructor; unfold frame_size; cbn; lia.
  - repeat constructor.
  - vm_compute. reflexivity.
Qed.

(* the four kinds of tampering on the example, with the table AEAD: the read
   that meets the tampered position fails, earlier frames are delivered *)
Definition ex_frames := fst (seal_frames (toy_seal 16) ex_key ex_n0 ex_ps).
Definition ex_read (w : list bytes) :=
  map (fun r => (r_data r, r_err r))
      (read_all (tbl_open ex_tbl) 16 ex_key {| rs_nonce := ex_n0; rs_pending := [] |} (concat w) true [8;8;8;8]%nat).

Example ex_honest : ex_read ex_frames = [([1;2;3], None); ([4;5], None); ([6], None); ([], Some EEof)].
Proof. vm_compute. reflexivity. Qed.
Example ex_dropped : match ex_frames with [f0; f1; f2] => ex_read [f0; f2] | _ => [] end
  = [([1;2;3], None); ([], Some EAuth); ([], Some EEof); ([], Some EEof)].
Proof. vm_compute. reflexivity. Qed.
Example ex_duplicated : match ex_frames with [f0; f1; f2] => ex_read [f0; f0; f1; f2] | _ => [] end
  = [([1;2;3], None); ([], Some EAuth); ([4;5], None); ([6], None)].
Proof. vm_compute. reflexivity. Qed.
Example ex_swapped : match ex_frames with [f0; f1; f2] => ex_read [f1; f0; f2] | _ => [] end
  = [([], Some EAuth); ([1;2;3], None); ([], Some EAuth); ([], Some EEof)].
Proof. vm_compute. reflexivity. Qed.
Example ex_modified : match ex_frames with [f0; f1; f2] => ex_read [f0; firstn 5 f1 ++ [77] ++ skipn 6 f1; f2] | _ => [] end
  = [([1;2;3], None); ([], Some EAuth); ([], Some EAuth); ([], Some EEof)].
Proof. vm_compute. reflexivity. Qed.

(* ------------------------------------------------------------------ *)
(* refutation of the two earlier variants of SecureAead.Read            *)
Definition ex_zero12 : bytes := repeat 0 12.
Definition ex_st0 := {| rs_nonce := ex_zero12; rs_pending := [] |}.
Definition ex_write10 : bytes := [1;2;3;4;5;6;7;8;9;10].
Definition ex_wire10 := fst (write_all (toy_seal 16) ex_key ex_zero12 [ex_write10]).

(* before 735c6b7: one 10-byte write read with a 4-byte buffer *)
Lemma prefix_variant_refuted :
  let rs := read_all_v (toy_open 16) 16 VPreFix ex_key ex_st0 ex_wire10 true [4;4;4;4]%nat in
  (exists r, In r rs /\ N.of_nat 4 < r_n r) /\ delivered rs <> ex_write10 /\ delivered rs = [1;2;3;4].
Proof.
  vm_compute. split; [|split; [discriminate|reflexivity]].
  eexists. split; [left; reflexivity|]. reflexivity.
Qed.
(* the current code on the same input *)
Example current_on_same_input :
  map (fun r => (r_n r, r_data r)) (read_all (toy_open 16) 16 ex_key ex_st0 ex_wire10 true [4;4;4;4]%nat)
  = [(4, [1;2;3;4]); (4, [5;6;7;8]); (2, [9;10]); (0, [])].
Proof. vm_compute. reflexivity. Qed.

(* before 089424b: a frame with one flipped ciphertext byte, 4-byte buffer:
   n = 10 is returned together with the error although nothing was copied *)
Definition ex_wire10_flipped := firstn 6 ex_wire10 ++ [200] ++ skipn 7 ex_wire10.
Lemma errn_variant_refuted :
  let rs := read_all_v (toy_open 16) 16 VErrN ex_key ex_st0 ex_wire10_flipped true [4]%nat in
  exists r, rs = [r] /\ r_err r = Some EAuth /\ r_data r = [] /\ r_n r = 10 /\ N.of_nat 4 < r_n r.
Proof. vm_compute. eexists. repeat split. Qed.
Example current_on_flipped :
  map (fun r => (r_n r, r_data r, r_err r)) (read_all (toy_open 16) 16 ex_key ex_st0 ex_wire10_flipped true [4]%nat)
  = [(0, [], Some EAuth)].
Proof. vm_compute. reflexivity. Qed.

(* ------------------------------------------------------------------ *)
(* the tamper / reorder statement in one piece                          *)
Lemma tamper_reorder_rejected :
  forall (seal : bytes -> bytes -> bytes -> bytes) (open : bytes -> bytes -> bytes -> option bytes)
         (overhead : nat),
  (forall k n p, length (seal k n p) = (length p + overhead)%nat) ->
  forall (key n0 : bytes) (writes : list bytes),
  let ps := concat (map split_frames writes) in
  let st0 := {| rs_nonce := n0; rs_pending := [] |} in
  (forall n c p, open key n c = Some p <-> In (n, p, c) (genuine seal key n0 ps)) ->
  all_bytes n0 -> N.of_nat (length ps) < 256 ^ N.of_nat (length n0) ->
  (forall (w : bytes) (closed : bool) (sizes : list nat),
     let rs := read_all open overhead key st0 w closed sizes in
     prefix (delivered rs) (concat writes) /\ Forall2 res_sane sizes rs) /\
  (forall (i : nat) (w : bytes) (closed : bool) (sizes : list nat),
     (i <= length ps)%nat -> ~ genuine_start seal key n0 ps i w ->
     prefix (delivered (read_all_stop open overhead key st0
                          (enc_frames seal key n0 (firstn i ps) ++ w) closed sizes))
            (concat (firstn i ps))) /\
  (forall (i : nat) (w : bytes) (closed : bool) (size : nat),
     (i <= length ps)%nat -> ~ genuine_start seal key n0 ps i w ->
     forall res st' w',
       read open overhead key {| rs_nonce := iter_inc i n0; rs_pending := [] |} w closed size = (res, st', w') ->
       r_err res <> None /\ r_data res = [] /\ r_n res = 0 /\ rs_nonce st' = iter_inc i n0) /\
  (forall (i : nat) (a b x y : N) (s' rest : bytes) (p : bytes),
     nth_error ps i = Some p -> length s' = length (seal key (iter_inc i n0) p) ->
     s' <> seal key (iter_inc i n0) p ->
     ~ genuine_start seal key n0 ps i (a :: b :: x :: y :: s' ++ rest)) /\
  (forall (i : nat) (a b x y : N) (rest : bytes) (p : bytes),
     nth_error ps i = Some p -> a * 256 + b <> N.of_nat (length p) ->
     ~ genuine_start seal key n0 ps i (a :: b :: x :: y :: rest)) /\
  (forall (i j : nat) (pi pj : bytes) (rest : bytes),
     nth_error ps i = Some pi -> nth_error ps j = Some pj ->
     hdr (length pj) ++ seal key (iter_inc j n0) pj <> hdr (length pi) ++ seal key (iter_inc i n0) pi ->
     ~ genuine_start seal key n0 ps i (hdr (length pj) ++ seal key (iter_inc j n0) pj ++ rest)).
Proof.
  intros seal open overhead Hlen key n0 writes ps st0 Hideal Hn0 Hwrap.
  assert (Hok : Forall okp ps) by apply split_all_ok.
  split; [|split; [|split; [|split; [|split]]]].
  - intros w closed sizes.
    assert (Hinv : rinv n0 ps st0 [] 0) by (unfold rinv; cbn; repeat split; lia).
    pose proof (adv_prefix seal open overhead Hlen key n0 ps Hideal Hn0 Hwrap closed sizes st0 [] 0%nat w Hinv) as H.
    cbn zeta in *. cbn [app] in H. unfold ps in H at 1. rewrite concat_split_all in H. exact H.
  - intros i w closed sizes Hi Hng.
    pose proof (tamper_stop seal open overhead Hlen key n0 ps Hideal Hok Hn0 Hwrap closed sizes
                  [] (firstn i ps) (skipn i ps) st0 [] w) as H.
    cbn [app length iter_inc] in H. rewrite firstn_length, Nat.min_l in H by exact Hi.
    apply H; auto. now rewrite firstn_skipn.
  - intros i w closed size Hi Hng.
    exact (tamper_read_fails seal open overhead Hlen key n0 ps Hideal Hn0 Hwrap i w closed size Hi Hng).
  - intros i a b x y s' rest p. apply not_genuine_modified_sealed.
  - intros i a b x y rest p. apply not_genuine_modified_length.
  - intros i j pi pj rest.
    exact (not_genuine_other_frame seal open overhead Hlen key n0 ps Hideal Hok Hwrap i j pi pj rest).
Qed.

(* non-vacuity of the remaining hypothesis sets *)
Example ex_honest_hyps :
  (forall k n p, length (toy_seal 16 k n p) = (length p + 16)%nat) /\
  (forall k n p, toy_open 16 k n (toy_seal 16 k n p) = Some p).
Proof. split; [apply toy_seal_len|apply toy_open_seal]. Qed.

(* 2500 bytes in one Write (three frames), buffers of 1000, 1, 0 and 2000 bytes *)
Example ex_big_write :
  let w := repeat 7 2500 in
  let wire := fst (write_all (toy_seal 16) ex_key ex_n0 [w]) in
  map (fun r => (r_n r, r_err r))
      (read_all (toy_open 16) 16 ex_key {| rs_nonce := ex_n0; rs_pending := [] |} wire false
                [1000; 1; 0; 2000; 2000; 2000; 5]%nat)
  = [(1000, None); (1, None); (0, None); (23, None); (1024, None); (452, None); (0, Some EBlock)].
Proof. vm_compute. reflexivity. Qed.

Definition ex_pub_of (d : N) : pubkey := {| pk_x := d; pk_y := d * d |}.
Definition ex_ecdh (d : N) (p : pubkey) : N := d * pk_x p.
Definition ex_kdf (z : N) (len i : nat) : bytes := [z; N.of_nat len; N.of_nat i].
Example ex_keys_hyps :
  (forall a b, ex_ecdh a (ex_pub_of b) = ex_ecdh b (ex_pub_of a)) /\
  (forall z len i j, ex_kdf z len i = ex_kdf z len j -> i = j) /\
  ex_pub_of 3 <> ex_pub_of 5 /\
  exists ka kb,
    setup N N ex_pub_of ex_ecdh ex_kdf 3 (Some (ex_pub_of 5)) false SuiteChaCha 2 = Some ka /\
    setup N N ex_pub_of ex_ecdh ex_kdf 5 (Some (ex_pub_of 3)) true SuiteChaCha 2 = Some kb /\
    conn_secrets ka SuiteChaCha = Some ([15; 32; 0], [15; 32; 1]) /\
    conn_secrets kb SuiteChaCha = Some ([15; 32; 1], [15; 32; 0]).
Proof.
  split; [intros; unfold ex_ecdh, ex_pub_of; cbn; lia|].
  split; [intros z len i j E; unfold ex_kdf in E; inversion E; lia|].
  split; [discriminate|].
  eexists _, _. repeat split.
Qed.
