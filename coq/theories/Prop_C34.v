(* Property C34 -- staking operations conserve ICX and keep stake accounting consistent.
   Only the property theorems; proofs are in Proofs_Staking.v, the model in Model_Staking.v.
   [run cfg (genesis bals) ops] is the state after ANY sequence of operations (transfers,
   setStake, setDelegation, setBond, setBonderList, registerPRep, unregisterPRep, claimIScore,
   ICX issue, end of block with its unstake / unbond timers), accepted or rejected, with
   arbitrary step inputs (lock periods, claimed and issued amounts). *)
From Coq Require Import List ZArith Bool.
From Goloop Require Import Model_Staking Proofs_Staking.
Import ListNotations.
Open Scope Z_scope.

Theorem C34_supply : forall cfg bals ops,
  let s := run cfg (genesis bals) ops in
  supply s = sumZ (fun x => bal x + stake x + us_total (unstakes x)) (accts s).
Proof. exact supply_conserved. Qed.
Print Assumptions C34_supply.

Theorem C34_voting_power : forall cfg bals ops,
  Forall (fun b => 0 <= b) bals ->
  let s := run cfg (genesis bals) ops in
  forall x, In x (accts s) ->
    amt_of (delegs x) + amt_of (bonds x) + ub_total (unbonds x) <= stake x.
Proof. exact voting_power_bounded. Qed.
Print Assumptions C34_voting_power.

Theorem C34_amounts_nonneg : forall cfg bals ops,
  Forall (fun b => 0 <= b) bals ->
  let s := run cfg (genesis bals) ops in
  forall x, In x (accts s) ->
    0 <= bal x /\ 0 <= stake x /\
    Forall (fun e => 0 < fst e) (unstakes x) /\ Forall (fun e => 0 < snd e) (delegs x) /\
    Forall (fun e => 0 < snd e) (bonds x) /\ Forall (fun e => 0 < ub_amt e) (unbonds x).
Proof. exact amounts_nonneg. Qed.
Print Assumptions C34_amounts_nonneg.

Theorem C34_totals : forall cfg bals ops,
  Forall (fun b => 0 <= b) bals ->
  let s := run cfg (genesis bals) ops in
  tstake s = sumZ stake (accts s) /\
  tdeleg s = sumZ (fun p => if is_active p then pdeleg p else 0) (accts s) /\
  tbond s = sumZ (fun p => if is_active p then pbond p else 0) (accts s) /\
  (forall i p, nth_error (accts s) i = Some p ->
     pdeleg p = sumZ (fun a => amt_to i (delegs a)) (accts s) /\
     pbond p = sumZ (fun a => amt_to i (bonds a)) (accts s)).
Proof. exact totals_consistent. Qed.
Print Assumptions C34_totals.

(* ICX that entered unstaking is, at every moment, either still in a slot, or was re-staked,
   or was paid to the owner -- each unit exactly once (the model pays a slot only in the
   end-of-block step of its expire height and removes it in the same step) *)
Theorem C34_unstake_ledger : forall cfg bals ops,
  Forall (fun b => 0 <= b) bals ->
  let s := run cfg (genesis bals) ops in
  forall x, In x (accts s) -> g_in x = g_back x + g_paid x + us_total (unstakes x).
Proof. exact unstake_ledger. Qed.
Print Assumptions C34_unstake_ledger.

(* The full clause "every unstake slot is released when its lock period ends" is FALSE for the
   code as it is (known finding, see docs/notes/C34.md): *)
Definition C34_unstake_once_full_statement : Prop :=
  forall cfg bals ops,
    Forall (fun b => 0 <= b) bals -> locks_nonneg ops = true ->
    let s := run cfg (genesis bals) ops in
    forall x v e, In x (accts s) -> In (v, e) (unstakes x) -> height s < e.

Theorem C34_unstake_once_refuted :
  exists cfg bals ops,
    Forall (fun b => 0 <= b) bals /\ locks_nonneg ops = true /\
    let s := run cfg (genesis bals) ops in
    exists x v e, In x (accts s) /\ In (v, e) (unstakes x) /\ e <= height s /\ ~ In e (ust x).
Proof. exact unstake_once_refuted. Qed.
Print Assumptions C34_unstake_once_refuted.

(* ... and holds along every history in which no stake decrease opens a new slot at an expire
   height that another slot of the same account already has (fresh_run; lock periods >= 0) *)
Theorem C34_unstake_once_partial : forall cfg bals ops,
  Forall (fun b => 0 <= b) bals ->
  fresh_run cfg (genesis bals) ops = true ->
  let s := run cfg (genesis bals) ops in
  forall x, In x (accts s) ->
    g_in x = g_back x + g_paid x + us_total (unstakes x) /\
    forall v e, In (v, e) (unstakes x) -> height s < e /\ In e (ust x).
Proof. exact unstake_once_fresh. Qed.
Print Assumptions C34_unstake_once_partial.

Theorem C34_unbond_released : forall cfg bals ops,
  0 <= unbond_period cfg ->
  let s := run cfg (genesis bals) ops in
  forall x u, In x (accts s) -> In u (unbonds x) -> height s < ub_exp u /\ In (ub_exp u) (ubt x).
Proof. exact unbond_released_in_time. Qed.
Print Assumptions C34_unbond_released.

(* the timer handling at the end of a block (handleTimerJob) never finds a timer entry without
   its slot / unbond: the block-fatal error branches of RemoveUnstake / RemoveUnbond are dead *)
Theorem C34_end_block_never_fails : forall cfg bals ops,
  exists s', try_op cfg (run cfg (genesis bals) ops) OEndBlock = Some s'.
Proof. exact end_block_never_fails. Qed.
Print Assumptions C34_end_block_never_fails.

Theorem C34_rejected_unchanged : forall cfg s o s', step cfg s o = (s', false) -> s' = s.
Proof. exact step_rejected_unchanged. Qed.
Print Assumptions C34_rejected_unchanged.
