(* Proofs_LayerDb.v — lemmas about Model_LayerDb (property C19). Style: stdlib only. *)
From Goloop Require Import lib.Bytes Model_LayerDb.
From Coq Require Import Permutation.
Open Scope N_scope.

(* ---------- key equality ---------- *)
Lemma bkey_eqb_eq a b : bkey_eqb a b = true <-> a = b.
Proof.
  destruct a as [a1 a2], b as [b1 b2]. unfold bkey_eqb; cbn [fst snd].
  rewrite andb_true_iff, !bytes_eqb_eq. split; [intros [-> ->]; reflexivity | intros H; inversion H; auto].
Qed.

Lemma bkey_eqb_refl a : bkey_eqb a a = true.
Proof. now apply bkey_eqb_eq. Qed.

Lemma bkey_eqb_neq a b : a <> b -> bkey_eqb a b = false.
Proof. intros H. destruct (bkey_eqb a b) eqn:E; [apply bkey_eqb_eq in E; contradiction | reflexivity]. Qed.

Lemma bkey_eqb_sym a b : bkey_eqb a b = bkey_eqb b a.
Proof.
  destruct (bkey_eqb a b) eqn:E.
  - apply bkey_eqb_eq in E; subst. now rewrite bkey_eqb_refl.
  - destruct (bkey_eqb b a) eqn:E2; [|reflexivity]. apply bkey_eqb_eq in E2; subst.
    now rewrite bkey_eqb_refl in E.
Qed.

Lemma bkey_dec (a b : bkey) : a = b \/ a <> b.
Proof. destruct (bkey_eqb a b) eqn:E; [left; now apply bkey_eqb_eq | right; intros ->; now rewrite bkey_eqb_refl in E]. Qed.

(* ---------- store ---------- *)
Lemma st_get_del_eq s k : st_get (st_del s k) k = None.
Proof.
  induction s as [|[k' v] r IH]; cbn [st_del st_get]; [reflexivity|].
  destruct (bkey_eqb k' k) eqn:E; [exact IH|]. cbn [st_get]. now rewrite E.
Qed.

Lemma st_get_del_neq s k k' : k <> k' -> st_get (st_del s k) k' = st_get s k'.
Proof.
  intros Hn. induction s as [|[k2 v] r IH]; cbn [st_del st_get]; [reflexivity|].
  destruct (bkey_eqb k2 k) eqn:E.
  - apply bkey_eqb_eq in E; subst. rewrite (bkey_eqb_neq _ _ Hn). exact IH.
  - cbn [st_get]. now rewrite IH.
Qed.

Lemma st_get_set_eq s k v : st_get (st_set s k v) k = Some v.
Proof. unfold st_set; cbn [st_get]. now rewrite bkey_eqb_refl. Qed.

Lemma st_get_set_neq s k v k' : k <> k' -> st_get (st_set s k v) k' = st_get s k'.
Proof. intros Hn. unfold st_set; cbn [st_get]. rewrite (bkey_eqb_neq _ _ Hn). now apply st_get_del_neq. Qed.

Lemma st_get_set s k v k' : st_get (st_set s k v) k' = if bkey_eqb k k' then Some v else st_get s k'.
Proof.
  destruct (bkey_eqb k k') eqn:E.
  - apply bkey_eqb_eq in E; subst. apply st_get_set_eq.
  - apply st_get_set_neq. intros ->. now rewrite bkey_eqb_refl in E.
Qed.

Lemma st_get_del s k k' : st_get (st_del s k) k' = if bkey_eqb k k' then None else st_get s k'.
Proof.
  destruct (bkey_eqb k k') eqn:E.
  - apply bkey_eqb_eq in E; subst. apply st_get_del_eq.
  - apply st_get_del_neq. intros ->. now rewrite bkey_eqb_refl in E.
Qed.

(* ---------- layer items ---------- *)
Definition keys (l : list item) : list bkey := map fst l.

Lemma it_find_none_notin l k : it_find l k = None <-> ~ In k (keys l).
Proof.
  induction l as [|[k' r] t IH]; cbn [it_find keys map In fst]; [tauto|].
  destruct (bkey_eqb k' k) eqn:E.
  - apply bkey_eqb_eq in E; subst. split; [discriminate | intros H; exfalso; apply H; now left].
  - rewrite IH. split; [intros H [->|H2]; [now rewrite bkey_eqb_refl in E | auto] | intros H H2; apply H; now right].
Qed.

Lemma it_find_app l1 l2 k :
  it_find (l1 ++ l2) k = match it_find l1 k with Some r => Some r | None => it_find l2 k end.
Proof.
  induction l1 as [|[k' r] t IH]; cbn [app it_find]; [reflexivity|].
  destruct (bkey_eqb k' k); [reflexivity | exact IH].
Qed.

Lemma it_find_remove_eq l k : it_find (it_remove l k) k = None.
Proof.
  induction l as [|[k' r] t IH]; cbn [it_remove it_find]; [reflexivity|].
  destruct (bkey_eqb k' k) eqn:E; [exact IH|]. cbn [it_find]. now rewrite E.
Qed.

Lemma it_find_remove_neq l k k' : k <> k' -> it_find (it_remove l k) k' = it_find l k'.
Proof.
  intros Hn. induction l as [|[k2 r] t IH]; cbn [it_remove it_find]; [reflexivity|].
  destruct (bkey_eqb k2 k) eqn:E.
  - apply bkey_eqb_eq in E; subst. rewrite (bkey_eqb_neq _ _ Hn). exact IH.
  - cbn [it_find]. now rewrite IH.
Qed.

Lemma keys_remove_incl l k x : In x (keys (it_remove l k)) -> In x (keys l) /\ x <> k.
Proof.
  induction l as [|[k' r] t IH]; cbn [it_remove keys map In fst]; [tauto|].
  destruct (bkey_eqb k' k) eqn:E.
  - intros H. destruct (IH H). split; auto.
  - cbn [keys map In fst]. intros [<-|H].
    + split; [now left | intros ->; now rewrite bkey_eqb_refl in E].
    + destruct (IH H). split; auto.
Qed.

Lemma nodup_remove l k : NoDup (keys l) -> NoDup (keys (it_remove l k)).
Proof.
  induction l as [|[k' r] t IH]; cbn [it_remove keys map fst]; intro H; [constructor|].
  inversion H; subst. destruct (bkey_eqb k' k); [now apply IH|].
  cbn [keys map fst]. constructor; [|now apply IH].
  intros Hin. apply keys_remove_incl in Hin as [Hin _]. contradiction.
Qed.

Lemma it_remove_absent l k : it_find l k = None -> it_remove l k = l.
Proof.
  induction l as [|[k' r] t IH]; cbn [it_find it_remove]; [reflexivity|].
  destruct (bkey_eqb k' k); [discriminate|]. intros H. now rewrite IH.
Qed.

(* the two branches of it_put (MoveToBack / PushBack) are one operation *)
Lemma it_put_alt l k r : it_put l k r = it_remove l k ++ [(k, r)].
Proof. unfold it_put. destruct (it_find l k) eqn:E; [reflexivity|]. now rewrite it_remove_absent. Qed.

Lemma it_find_put l k r k' :
  it_find (it_put l k r) k' = if bkey_eqb k k' then Some r else it_find l k'.
Proof.
  rewrite it_put_alt, it_find_app. destruct (bkey_eqb k k') eqn:E.
  - apply bkey_eqb_eq in E; subst. rewrite it_find_remove_eq. cbn [it_find]. now rewrite bkey_eqb_refl.
  - assert (k <> k') by (intros ->; now rewrite bkey_eqb_refl in E).
    rewrite it_find_remove_neq by assumption. cbn [it_find]. rewrite E.
    now destruct (it_find l k').
Qed.

Lemma NoDup_snoc {A} (l : list A) x : NoDup l -> ~ In x l -> NoDup (l ++ [x]).
Proof.
  induction l as [|y t IH]; cbn [app]; intros Hnd Hin.
  - constructor; [intros []|constructor].
  - inversion Hnd; subst. constructor.
    + rewrite in_app_iff. intros [H|[H|[]]]; [contradiction|]. subst. apply Hin. now left.
    + apply IH; [assumption|]. intros H. apply Hin. now right.
Qed.

Lemma nodup_put l k r : NoDup (keys l) -> NoDup (keys (it_put l k r)).
Proof.
  intros H. rewrite it_put_alt. unfold keys. rewrite map_app. cbn [map fst].
  apply NoDup_snoc; [now apply nodup_remove|].
  intros Hin. apply keys_remove_incl in Hin as [_ Hne]. now apply Hne.
Qed.

(* ---------- replay of the item list (Flush(true)) ---------- *)
Definition overlay (o : option (option bytes)) (d : option bytes) : option bytes :=
  match o with Some r => r | None => d end.

Lemma st_get_apply s k r k' :
  st_get (apply_item s (k, r)) k' = if bkey_eqb k k' then r else st_get s k'.
Proof. destruct r as [v|]; cbn [apply_item]; [apply st_get_set | apply st_get_del]. Qed.

Lemma replay_lookup l : NoDup (keys l) -> forall s k,
  st_get (replay l s) k = overlay (it_find l k) (st_get s k).
Proof.
  unfold replay. induction l as [|[k' r] t IH]; intros Hnd s k; cbn [fold_left it_find overlay]; [reflexivity|].
  cbn [keys map fst] in Hnd. inversion Hnd; subst.
  rewrite (IH H2), st_get_apply. destruct (bkey_eqb k' k) eqn:E.
  - apply bkey_eqb_eq in E; subst. apply it_find_none_notin in H1. rewrite H1. reflexivity.
  - reflexivity.
Qed.

Lemma it_find_in l k r : NoDup (keys l) -> (it_find l k = Some r <-> In (k, r) l).
Proof.
  induction l as [|[k' r'] t IH]; cbn [it_find keys map fst In]; intro Hnd.
  - split; [discriminate | tauto].
  - inversion Hnd; subst. destruct (bkey_eqb k' k) eqn:E.
    + apply bkey_eqb_eq in E; subst. split.
      * intros H; inversion H; now left.
      * intros [H|H]; [inversion H; reflexivity|]. exfalso. apply H1.
        change k with (fst (k, r)). now apply in_map.
    + rewrite (IH H2). split; [now right|]. intros [H|H]; [|assumption].
      inversion H; subst. now rewrite bkey_eqb_refl in E.
Qed.

Lemma it_find_perm l l' k : Permutation l l' -> NoDup (keys l) -> it_find l k = it_find l' k.
Proof.
  intros Hp Hnd.
  assert (Hnd' : NoDup (keys l')) by (eapply Permutation_NoDup; [apply Permutation_map; exact Hp | exact Hnd]).
  destruct (it_find l k) as [r|] eqn:E.
  - symmetry. apply (it_find_in _ _ _ Hnd'). eapply Permutation_in; [exact Hp|]. now apply (it_find_in _ _ _ Hnd).
  - symmetry. apply it_find_none_notin. apply it_find_none_notin in E. intros Hin. apply E.
    eapply Permutation_in; [apply Permutation_sym, Permutation_map; exact Hp | exact Hin].
Qed.

(* the order in which the (pairwise distinct) entries are written does not matter *)
Lemma replay_order l l' s k : Permutation l l' -> NoDup (keys l) ->
  st_get (replay l s) k = st_get (replay l' s) k.
Proof.
  intros Hp Hnd.
  assert (Hnd' : NoDup (keys l')) by (eapply Permutation_NoDup; [apply Permutation_map; exact Hp | exact Hnd]).
  rewrite !replay_lookup by assumption. now rewrite (it_find_perm _ _ _ Hp Hnd).
Qed.

(* ---------- invariant and refinement ---------- *)
Definition inv (s : state) : Prop := NoDup (keys (items s)).

Lemma inv_init b0 : inv (init b0).
Proof. unfold inv, init; cbn. constructor. Qed.

Lemma inv_step s o : inv s -> inv (fst (step s o)).
Proof.
  unfold inv. intros H. destruct o; cbn [step]; try (destruct (flushed s); cbn [fst items]; auto using nodup_put); cbn [fst items]; auto.
  destruct write; cbn [fst items]; auto; constructor.
Qed.

Definition state_of (s : state) (l : list op) : state := fst (run s l).
Definition outs_of (s : state) (l : list op) : list out := snd (run s l).

Lemma run_cons s o l : run s (o :: l) = (fst (run (fst (step s o)) l), snd (step s o) :: snd (run (fst (step s o)) l)).
Proof. cbn [run]. destruct (step s o) as [s1 x]. cbn [fst snd]. destruct (run s1 l). reflexivity. Qed.

Lemma inv_run l : forall s, inv s -> inv (state_of s l).
Proof.
  unfold state_of. induction l as [|o r IH]; intros s H; [exact H|].
  rewrite run_cons. cbn [fst]. apply IH. now apply inv_step.
Qed.

Definition refines (s : state) (p : spec) : Prop :=
  flushed s = s_flushed p /\ inv s /\
  (forall k, s_flushed p = false -> it_find (items s) k = s_over p k) /\
  (forall k, s_flushed p = true -> s_over p k = None) /\
  (forall k, st_get (base s) k = s_base p k).

Lemma view_refines s p k : refines s p -> view s k = s_view p k.
Proof.
  intros (Hf & _ & Ho & Hz & Hb). unfold view, s_view. rewrite Hf. destruct (s_flushed p) eqn:E.
  - rewrite (Hz k eq_refl). apply Hb.
  - rewrite (Ho k eq_refl). destruct (s_over p k); [reflexivity | apply Hb].
Qed.

Lemma view_has_view s k : view_has s k = is_some (view s k).
Proof.
  unfold view_has, view, st_has. destruct (flushed s); [now destruct (st_get (base s) k)|].
  destruct (it_find (items s) k) as [[v|]|]; reflexivity.
Qed.

Lemma step_refines s p o : refines s p ->
  refines (fst (step s o)) (fst (spec_step p o)) /\ snd (step s o) = snd (spec_step p o).
Proof.
  intros R. pose proof R as (Hf & Hi & Ho & Hz & Hb).
  destruct o; cbn [step spec_step].
  - (* OSet *) rewrite Hf. destruct (s_flushed p) eqn:E; cbn [fst snd]; (split; [|reflexivity]);
      unfold refines; cbn [flushed items base s_flushed s_over s_base]; rewrite ?E.
    + repeat split; auto; try discriminate. intros k0. rewrite st_get_set. unfold upd. now rewrite Hb.
    + repeat split; auto; try discriminate.
      * unfold inv; cbn [items]. now apply nodup_put.
      * intros k0 _. rewrite it_find_put. unfold upd. now rewrite Ho.
  - (* ODel *) rewrite Hf. destruct (s_flushed p) eqn:E; cbn [fst snd]; (split; [|reflexivity]);
      unfold refines; cbn [flushed items base s_flushed s_over s_base]; rewrite ?E.
    + repeat split; auto; try discriminate. intros k0. rewrite st_get_del. unfold upd. now rewrite Hb.
    + repeat split; auto; try discriminate.
      * unfold inv; cbn [items]. now apply nodup_put.
      * intros k0 _. rewrite it_find_put. unfold upd. now rewrite Ho.
  - (* OGet *) cbn [fst snd]. split; [exact R|]. f_equal. now apply view_refines.
  - (* OHas *) cbn [fst snd]. split; [exact R|]. f_equal. rewrite view_has_view. f_equal. now apply view_refines.
  - (* OFlush *) rewrite Hf. destruct (s_flushed p) eqn:E; cbn [fst snd]; [split; [exact R | reflexivity]|].
    destruct write; cbn [fst snd]; (split; [|reflexivity]);
      unfold refines; cbn [flushed items base s_flushed s_over s_base].
    + repeat split; auto; try discriminate; try (unfold inv; cbn [items]; constructor).
      intros k0. rewrite (replay_lookup _ Hi). unfold s_view. rewrite (Ho k0 eq_refl), Hb. reflexivity.
    + repeat split; auto; try discriminate; try (unfold inv; cbn [items]; constructor).
  - (* BSet *) cbn [fst snd]. split; [|reflexivity]. unfold refines; cbn [flushed items base s_flushed s_over s_base].
    repeat split; auto. intros k0. rewrite st_get_set. unfold upd. now rewrite Hb.
  - (* BDel *) cbn [fst snd]. split; [|reflexivity]. unfold refines; cbn [flushed items base s_flushed s_over s_base].
    repeat split; auto. intros k0. rewrite st_get_del. unfold upd. now rewrite Hb.
  - (* BGet *) cbn [fst snd]. split; [exact R|]. now rewrite Hb.
  - (* BHas *) cbn [fst snd]. split; [exact R|]. unfold st_has. now rewrite Hb.
Qed.

Lemma spec_run_cons p o l :
  spec_run p (o :: l) = (fst (spec_run (fst (spec_step p o)) l), snd (spec_step p o) :: snd (spec_run (fst (spec_step p o)) l)).
Proof. cbn [spec_run]. destruct (spec_step p o) as [s1 x]. cbn [fst snd]. destruct (spec_run s1 l). reflexivity. Qed.

Lemma run_refines l : forall s p, refines s p ->
  refines (fst (run s l)) (fst (spec_run p l)) /\ snd (run s l) = snd (spec_run p l).
Proof.
  induction l as [|o r IH]; intros s p R; [split; [exact R | reflexivity]|].
  rewrite run_cons, spec_run_cons. cbn [fst snd].
  destruct (step_refines s p o R) as [R1 E1]. destruct (IH _ _ R1) as [R2 E2].
  split; [exact R2|]. now rewrite E1, E2.
Qed.

Lemma init_refines b0 : refines (init b0) (spec_init (st_get b0)).
Proof.
  unfold refines, init, spec_init; cbn. repeat split; auto. apply inv_init.
Qed.

(* every Get/Has (and every other result) through the layer is what the two-map spec returns *)
Lemma view_is_spec b0 h : outs_of (init b0) h = snd (spec_run (spec_init (st_get b0)) h).
Proof. unfold outs_of. exact (proj2 (run_refines h _ _ (init_refines b0))). Qed.

(* ---------- commit / discard ---------- *)
Lemma commit b0 h : let s := state_of (init b0) h in
  let s' := fst (step s (OFlush true)) in
  snd (step s (OFlush true)) = RUnit /\ flushed s' = true /\
  (forall k, st_get (base s') k = view s k) /\ (forall k, view s' k = view s k).
Proof.
  intros s s'. assert (Hi : inv s) by (apply inv_run, inv_init).
  subst s'. cbn [step]. unfold view. destruct (flushed s) eqn:E; cbn [fst snd flushed base items]; rewrite ?E.
  - repeat split; reflexivity.
  - repeat split; intros k; now rewrite (replay_lookup _ Hi).
Qed.

Lemma discard b0 h : let s := state_of (init b0) h in
  let s' := fst (step s (OFlush false)) in
  base s' = base s /\
  (flushed s = false -> snd (step s (OFlush false)) = RUnit /\ forall k, view s' k = st_get (base s) k) /\
  (flushed s = true -> snd (step s (OFlush false)) = RErr /\ s' = s).
Proof.
  intros s s'. subst s'. cbn [step]. destruct (flushed s) eqn:E; cbn [fst snd base].
  - repeat split; discriminate.
  - repeat split; try discriminate.
Qed.

Lemma reads_do_not_write s o : is_read o = true -> fst (step s o) = s.
Proof. destruct o; cbn; try discriminate; reflexivity. Qed.

(* layered (not yet flushed) writes never touch the underlying store *)
Lemma layered_writes_keep_base s o : flushed s = false ->
  match o with OSet _ _ _ | ODel _ _ => True | _ => False end -> base (fst (step s o)) = base s.
Proof. intros E. destruct o; cbn [step]; try tauto; rewrite E; reflexivity. Qed.

Lemma after_flush_passthrough b0 h b k v : let s := state_of (init b0) h in flushed s = true ->
  items s = [] /\
  (forall k', view s k' = st_get (base s) k') /\
  (let s1 := fst (step s (OSet b k v)) in
     flushed s1 = true /\ st_get (base s1) (b, k) = Some (copyval v) /\
     forall k', k' <> (b, k) -> st_get (base s1) k' = st_get (base s) k') /\
  (let s2 := fst (step s (ODel b k)) in
     flushed s2 = true /\ st_get (base s2) (b, k) = None /\
     forall k', k' <> (b, k) -> st_get (base s2) k' = st_get (base s) k') /\
  fst (step s (OFlush true)) = s /\ fst (step s (OFlush false)) = s.
Proof.
  intros s E.
  assert (Hit : forall l s0, (flushed s0 = true -> items s0 = []) ->
            flushed (state_of s0 l) = true -> items (state_of s0 l) = []).
  { unfold state_of. induction l as [|o r IH]; intros s0 H0; [exact H0|].
    rewrite run_cons; cbn [fst]. apply IH.
    destruct o; cbn [step]; try (destruct (flushed s0) eqn:F; cbn [fst flushed items]; auto; discriminate);
      cbn [fst flushed items]; auto.
    destruct (flushed s0) eqn:F; cbn [fst]; auto. destruct write; cbn [flushed items]; auto; discriminate. }
  split; [apply Hit; [cbn; discriminate | exact E]|].
  split; [intros k'; unfold view; now rewrite E|].
  cbn [step]. rewrite E. cbn [fst flushed base].
  repeat split; try apply st_get_set_eq; try apply st_get_del_eq.
  - intros k' Hn. apply st_get_set_neq. congruence.
  - intros k' Hn. apply st_get_del_neq. congruence.
Qed.

(* ---------- non-vacuity: a concrete history reaches the interesting states ---------- *)
Example ex_history :
  let h := [OSet [65] [1] (Some [7]); ODel [65] [2]; OSet [66] [1] None; ODel [65] [1]; OSet [65] [1] (Some [])] in
  let s := state_of (init [(([65], [2]), [9])]) h in
  flushed s = false /\ view s ([65], [2]) = None /\ view s ([65], [1]) = Some [] /\
  st_get (base s) ([65], [2]) = Some [9] /\
  flushed (fst (step s (OFlush true))) = true /\
  st_get (base (fst (step s (OFlush true)))) ([65], [2]) = None.
Proof. vm_compute. repeat split. Qed.

Example ex_perm : Permutation [((([65], [1]) : bkey), Some [1]); (([65], [2]), None)] [(([65], [2]), None); (([65], [1]), Some [1])]
  /\ NoDup (keys [((([65], [1]) : bkey), Some [1]); (([65], [2]), None)]).
Proof.
  split; [apply perm_swap|]. cbn. constructor; [intros [H|[]]; discriminate|]. constructor; [intros []|constructor].
Qed.
