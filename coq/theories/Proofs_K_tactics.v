(* Proofs_K_tactics.v -- the closing tactics shared by the per-kernel lemma files
   Proofs_K_<name>.v.  Imports NO generated kernel: a change of the Go source never
   touches this file.
   Style: stdlib only; arithmetic closed by lia with the euclidean-division hook. *)
From Coq Require Import ZArith Bool String List Lia.
From Coq Require Import ZifyBool.
From Goloop Require Import lib.GoInt.
Local Open Scope Z_scope.

Ltac Zify.zify_post_hook ::= Z.to_euclidean_division_equations.

(* half of the int range: n*2 does not overflow *)
Notation half_i64 := 4611686018427387903 (only parsing).

Ltac split_ifs :=
  repeat match goal with
         | |- context [if ?c then _ else _] => destruct c eqn:?
         end.

(* Shape-independent closing tactic: after unfolding the kernel, case-split its
   conditionals, expand every wrap into `mod` by a literal and let lia (with the
   euclidean-division hook: Z.quot, Z.rem, /, mod by literals) finish.  Proofs
   closed this way survive semantics-preserving edits of the Go source (renamed
   locals, `n*2/3` rewritten as `2*n/3`, reordered tests) and break exactly when
   the decision changes. *)
Ltac kernel_lia := intros; cbv zeta; split_ifs; wrap_unfold; lia.
