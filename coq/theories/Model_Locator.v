(* Model_Locator.v — executable model of common/txlocator/manager.go (manager,
   txListCache, tracker) and of the window check of service/tschecker.go.
   No proofs in this file.  Style: stdlib only.

   What is modelled, function by function (Go name -> Coq name):

     CheckTxTimestamp / NewTimestampRange      in_window, check_ts
     manager.hasLocatorInCache + Has           manager_has
     manager.commitTracker + flushList
         + addListAndClearOldInLock            commit_list (blank, evict)
     manager.NewTracker                        new_tracker
     tracker.New                               tracker_new
     tracker.Has / parentHasInLock             has_from, tracker_has, parent_has
     tracker.Add                               add_loop, tracker_add
     tracker.Commit                            commit_walk, tracker_commit

   Representation.
   * Transaction ids are numbers (N); timestamps and thresholds are unbounded Z
     (the int64 of the code; no arithmetic near 2^63 is part of the property).
     The block height is only copied into the stored locator and never read
     by Has/Add/Commit: it is left out.
   * Trackers are heap objects that share parents; the model keeps them in a
     store (newest first).  The tracker created k-th (from 0) is referred to
     by the number k = length of the list behind it; every walk along parent
     pointers is a structural recursion over the store.
   * `t_open` is `t.locators != nil`; `t_ids` is the content of the tracker's
     list (`t.list`, in insertion order).  `t_gparent` is a ghost field (the
     tracker on which New was called); the code forgets this link on Commit
     and on New over a committed parent-less tracker; no operation of the
     model reads it, the theorems use it to name "the chain".
   * The manager: `m_locs` is the key set of `m.locators`; each cache is the
     linked list of committed txLists (oldest first) with `maxTSInDB`; a cached
     list carries its LIVE ids (a locator whose id was blanked by
     `loc.id = ""` in commitTracker is no longer live); `m_db` is the key set of
     the TransactionLocatorByHash bucket.
   * Asynchrony: for the normal group commitTracker queues a flush job and a
     worker goroutine later runs flushList and addListAndClearOld; here the
     database write and the cache insertion happen atomically at commit
     (exactly what the code does for the patch group).  Term and database
     errors are not modelled.
   * A dangling parent reference cannot be built by the operations; the walks
     answer None for it (never a default value).

   The code has been repaired once (commit ba5b843); to be able to state what
   was wrong, and what is still open at ts = bts+th, the lookup is written once
   with a `variant` argument.  VCode is the code as it is now; all definitions
   without a variant argument below are the VCode instances. *)
From Goloop Require Import lib.Bytes.
Open Scope Z_scope.

Inductive variant :=
| VCode       (* the current code: guard `ts >= list.ts+list.th`, `l < ts` *)
| VStrict     (* the guard of tracker.Has written with `>` *)
| VPreEarly   (* before ba5b843: tracker.Has returns false at the guard *)
| VPreMaxLe.  (* before ba5b843: `l <= ts` in hasLocatorInCache *)

(* ---------- window check (service/tschecker.go) ---------- *)

(* CheckTxTimestamp(min,max,tx): 1 = Expired (ts <= min), 2 = Future (ts > max), 0 = ok *)
Definition check_ts (min max ts : Z) : N :=
  if ts <=? min then 1%N else if ts >? max then 2%N else 0%N.

(* NewTimestampRange(bts, th) = {min: bts-th, max: bts+th} then CheckTx *)
Definition range_check (bts th ts : Z) : N := check_ts (bts - th) (bts + th) ts.

Definition in_window (bts th ts : Z) : Prop := bts - th < ts <= bts + th.

(* ---------- manager ---------- *)

Definition mem (x : N) (l : list N) : bool := existsb (N.eqb x) l.
Definition remove_all (xs l : list N) : list N := filter (fun y => negb (mem y xs)) l.

Record txlist := { l_grp : bool;          (* true = TransactionGroupNormal(1), false = Patch(0) *)
                   l_ts : Z; l_th : Z;
                   l_ids : list N }.      (* live ids *)

Record tcache := { c_lists : list txlist; (* head first (oldest) *)
                   c_max : Z }.           (* maxTSInDB, 0 = unknown *)

Record manager := { m_locs : list N; m_cp : tcache; m_cn : tcache; m_db : list N }.

Definition cache_of (m : manager) (g : bool) : tcache := if g then m_cn m else m_cp m.
Definition set_cache (m : manager) (g : bool) (c : tcache) : manager :=
  if g then {| m_locs := m_locs m; m_cp := m_cp m; m_cn := c; m_db := m_db m |}
  else {| m_locs := m_locs m; m_cp := c; m_cn := m_cn m; m_db := m_db m |}.

Definition empty_cache : tcache := {| c_lists := []; c_max := 0 |}.
Definition new_manager : manager :=
  {| m_locs := []; m_cp := empty_cache; m_cn := empty_cache; m_db := [] |}.

(* the shortcut of hasLocatorInCache on maxTSInDB *)
Definition db_skip (v : variant) (l ts : Z) : bool :=
  negb (l =? 0) && (match v with VPreMaxLe => l <=? ts | _ => l <? ts end).

(* manager.Has = hasLocatorInCache, else hasLocatorInDB *)
Definition manager_has_v (v : variant) (m : manager) (g : bool) (id : N) (ts : Z) : bool :=
  if mem id (m_locs m) then true
  else if db_skip v (c_max (cache_of m g)) ts then false
  else mem id (m_db m).

(* `loc.id = ""` for the ids of the committed list that m.locators already maps *)
Definition blank_list (ids : list N) (p : txlist) : txlist :=
  {| l_grp := l_grp p; l_ts := l_ts p; l_th := l_th p; l_ids := remove_all ids (l_ids p) |}.
Definition blank_cache (ids : list N) (c : tcache) : tcache :=
  {| c_lists := map (blank_list ids) (c_lists c); c_max := c_max c |}.

(* the loop of addListAndClearOldInLock: lists (from the head), m.locators, maxTSInDB *)
Fixpoint evict (listMin : Z) (ls : list txlist) (locs : list N) (mx : Z)
  : list txlist * list N * Z :=
  match ls with
  | [] => ([], locs, mx)
  | p :: rest =>
      let ptrMax := l_ts p + l_th p in
      if ptrMax >? listMin then (ls, locs, mx)
      else evict listMin rest (remove_all (l_ids p) locs)
             (if negb (l_ts p =? 0) && (mx <? ptrMax) then ptrMax else mx)
  end.

Definition add_list_and_clear_old (m : manager) (l : txlist) : manager :=
  let c := cache_of m (l_grp l) in
  let '(ls, locs, mx) := evict (l_ts l - l_th l) (c_lists c) (m_locs m) (c_max c) in
  set_cache {| m_locs := locs; m_cp := m_cp m; m_cn := m_cn m; m_db := m_db m |}
            (l_grp l) {| c_lists := ls ++ [l]; c_max := mx |}.

(* commitTracker (+ the flush): blank overwritten locators, insert into
   m.locators, write the database, append to the cache and evict *)
Definition commit_list (m : manager) (l : txlist) : manager :=
  let over := filter (fun k => mem k (m_locs m)) (l_ids l) in
  let m1 := {| m_locs := m_locs m ++ filter (fun k => negb (mem k (m_locs m))) (l_ids l);
               m_cp := blank_cache over (m_cp m);
               m_cn := blank_cache over (m_cn m);
               m_db := m_db m ++ l_ids l |} in
  add_list_and_clear_old m1 l.

(* ---------- trackers ---------- *)

Record tracker := { t_grp : bool; t_ts : Z; t_th : Z;
                    t_ids : list N;
                    t_open : bool;
                    t_parent : option nat;
                    t_gparent : option nat }.

Record state := { s_trk : list tracker; s_mgr : manager }.
Definition init : state := {| s_trk := []; s_mgr := new_manager |}.

Fixpoint get (l : list tracker) (k : nat) : option tracker :=
  match l with
  | [] => None
  | tk :: rest => if Nat.eqb k (length rest) then Some tk else get rest k
  end.

Fixpoint upd (l : list tracker) (k : nat) (f : tracker -> tracker) : list tracker :=
  match l with
  | [] => []
  | tk :: rest => if Nat.eqb k (length rest) then f tk :: rest else tk :: upd rest k f
  end.

(* the guard at the head of tracker.Has *)
Definition skip_own (v : variant) (ts bound : Z) : bool :=
  match v with VStrict => ts >? bound | _ => ts >=? bound end.
Definition early_false (v : variant) : bool :=
  match v with VPreEarly => true | _ => false end.

(* tracker.Has from the tracker `cur` (None: the manager); g is the group of
   the tracker the walk came from (parentHasInLock passes t.list.group) *)
Fixpoint has_from (v : variant) (m : manager) (l : list tracker) (cur : option nat)
         (g : bool) (id : N) (ts : Z) : option bool :=
  match cur with
  | None => Some (manager_has_v v m g id ts)
  | Some k =>
      match l with
      | [] => None
      | tk :: rest =>
          if Nat.eqb k (length rest) then
            if skip_own v ts (t_ts tk + t_th tk) then
              if early_false v then Some false
              else has_from v m rest (t_parent tk) (t_grp tk) id ts
            else if t_open tk && mem id (t_ids tk) then Some true
            else has_from v m rest (t_parent tk) (t_grp tk) id ts
          else has_from v m rest cur g id ts
      end
  end.

Definition tracker_has_v v (st : state) (t : nat) (id : N) (ts : Z) : option bool :=
  match get (s_trk st) t with
  | None => None
  | Some tk => has_from v (s_mgr st) (s_trk st) (Some t) (t_grp tk) id ts
  end.

Definition parent_has_v v (st : state) (tk : tracker) (id : N) (ts : Z) : option bool :=
  has_from v (s_mgr st) (s_trk st) (t_parent tk) (t_grp tk) id ts.

(* manager.NewTracker *)
Definition new_tracker (st : state) (g : bool) (ts th : Z) : state :=
  {| s_trk := {| t_grp := g; t_ts := ts; t_th := th; t_ids := []; t_open := true;
                 t_parent := None; t_gparent := None |} :: s_trk st;
     s_mgr := s_mgr st |}.

(* tracker.New: a committed tracker without parent hands out parent-less trackers *)
Definition tracker_new (st : state) (p : nat) (ts th : Z) : option state :=
  match get (s_trk st) p with
  | None => None
  | Some tp =>
      let par := if negb (t_open tp) && (match t_parent tp with None => true | _ => false end)
                 then None else Some p in
      Some {| s_trk := {| t_grp := t_grp tp; t_ts := ts; t_th := th; t_ids := []; t_open := true;
                          t_parent := par; t_gparent := Some p |} :: s_trk st;
              s_mgr := s_mgr st |}
  end.

(* result classes of Add: 0 ok, 1 DuplicateTx (IllegalArgument), 2 InvalidState
   (AlreadyAdded / AlreadyCommitted), 3 dangling reference (unreachable) *)
Fixpoint add_loop v (st : state) (tk : tracker) (force : bool)
         (txs : list (N * Z)) (acc : list N) (cnt : nat) : list N * nat * N :=
  match txs with
  | [] => (acc, cnt, 0%N)
  | (id, ts) :: r =>
      if mem id acc then (acc, cnt, 1%N)
      else if force then add_loop v st tk force r (acc ++ [id]) (S cnt)
      else match parent_has_v v st tk id ts with
           | None => (acc, cnt, 3%N)
           | Some true => (acc, cnt, 1%N)
           | Some false => add_loop v st tk force r (acc ++ [id]) (S cnt)
           end
  end.

Definition set_ids (ids : list N) (tk : tracker) : tracker :=
  {| t_grp := t_grp tk; t_ts := t_ts tk; t_th := t_th tk; t_ids := ids; t_open := t_open tk;
     t_parent := t_parent tk; t_gparent := t_gparent tk |}.

(* tracker.Add; an Add that fails half way leaves the ids recorded so far *)
Definition tracker_add_v v (st : state) (t : nat) (txs : list (N * Z)) (force : bool)
  : option (state * nat * N) :=
  match get (s_trk st) t with
  | None => None
  | Some tk =>
      if negb (t_open tk) then Some (st, O, 2%N)
      else match t_ids tk with
           | _ :: _ => Some (st, O, 2%N)
           | [] =>
               let '(ids, cnt, cls) := add_loop v st tk force txs [] O in
               Some ({| s_trk := upd (s_trk st) t (set_ids ids); s_mgr := s_mgr st |}, cnt, cls)
           end
  end.

Definition close (tk : tracker) : tracker :=
  {| t_grp := t_grp tk; t_ts := t_ts tk; t_th := t_th tk; t_ids := t_ids tk; t_open := false;
     t_parent := None; t_gparent := t_gparent tk |}.

Definition list_of (tk : tracker) : txlist :=
  {| l_grp := t_grp tk; l_ts := t_ts tk; l_th := t_th tk; l_ids := t_ids tk |}.

(* tracker.Commit: the trackers on the parent chain are closed; the lists to
   hand to commitTracker come out child first *)
Fixpoint commit_walk (l : list tracker) (cur : option nat) : list tracker * list txlist :=
  match cur with
  | None => (l, [])
  | Some k =>
      match l with
      | [] => ([], [])
      | tk :: rest =>
          if Nat.eqb k (length rest) then
            let '(rest', js) := commit_walk rest (t_parent tk) in
            (close tk :: rest', if t_open tk then list_of tk :: js else js)
          else
            let '(rest', js) := commit_walk rest cur in (tk :: rest', js)
      end
  end.

(* parent.Commit() runs before the tracker's own commitTracker: ancestors first *)
Definition tracker_commit (st : state) (t : nat) : option state :=
  match get (s_trk st) t with
  | None => None
  | Some _ =>
      let '(trk, js) := commit_walk (s_trk st) (Some t) in
      Some {| s_trk := trk; s_mgr := fold_left commit_list (rev js) (s_mgr st) |}
  end.

(* ---------- histories ---------- *)

Inductive op :=
| ONewRoot (g : bool) (ts th : Z)                 (* manager.NewTracker *)
| ONew (p : nat) (ts th : Z)                      (* tracker.New *)
| OAdd (t : nat) (txs : list (N * Z)) (force : bool)
| OCommit (t : nat)
| OHas (t : nat) (id : N) (ts : Z)                (* tracker.Has *)
| OMgrHas (g : bool) (id : N) (ts : Z)            (* manager.Has *)
| ORestart.                                       (* node restart: a new manager over the same database *)

Inductive out :=
| RNone                       (* nothing to observe (New, Commit) *)
| RBool (b : bool)
| RAdd (cnt : nat) (cls : N)
| RBadRef.                    (* the operation names a tracker that does not exist *)

(* Restart of the node: txlocator.NewManager over the same database — m.locators
   and both caches empty, maxTSInDB 0 (unknown), the database kept.  The tracker
   objects of the old process are gone: the blocks that were not finalized are
   lost (their trackers become empty, closed and parent-less); the trackers of
   finalized blocks keep their place in the store for the ghost chain, and
   tracker.New on one of them is what the new process does when it continues
   from the last finalized block: manager.NewTracker (a parent-less tracker). *)
Definition restart_manager (m : manager) : manager :=
  {| m_locs := []; m_cp := empty_cache; m_cn := empty_cache; m_db := m_db m |}.

Definition kill (tk : tracker) : tracker :=
  if t_open tk then
    {| t_grp := t_grp tk; t_ts := t_ts tk; t_th := t_th tk; t_ids := []; t_open := false;
       t_parent := None; t_gparent := t_gparent tk |}
  else tk.

Definition restart (st : state) : state :=
  {| s_trk := map kill (s_trk st); s_mgr := restart_manager (s_mgr st) |}.

Definition step_v v (st : state) (o : op) : state * out :=
  match o with
  | ONewRoot g ts th => (new_tracker st g ts th, RNone)
  | ONew p ts th => match tracker_new st p ts th with
                    | Some st' => (st', RNone) | None => (st, RBadRef) end
  | OAdd t txs force => match tracker_add_v v st t txs force with
                        | Some (st', cnt, cls) => (st', RAdd cnt cls)
                        | None => (st, RBadRef) end
  | OCommit t => match tracker_commit st t with
                 | Some st' => (st', RNone) | None => (st, RBadRef) end
  | OHas t id ts => match tracker_has_v v st t id ts with
                    | Some b => (st, RBool b) | None => (st, RBadRef) end
  | OMgrHas g id ts => (st, RBool (manager_has_v v (s_mgr st) g id ts))
  | ORestart => (restart st, RNone)
  end.

Definition run_v v (st : state) (h : list op) : state :=
  fold_left (fun s o => fst (step_v v s o)) h st.

(* the ids recorded along the chain of tracker `cur` (its own, then the
   tracker New was called on, and so on) *)
Fixpoint chain_from (l : list tracker) (cur : option nat) : list N :=
  match cur with
  | None => []
  | Some k =>
      match l with
      | [] => []
      | tk :: rest =>
          if Nat.eqb k (length rest) then t_ids tk ++ chain_from rest (t_gparent tk)
          else chain_from rest cur
      end
  end.

Definition chain_ids (st : state) (t : nat) : list N := chain_from (s_trk st) (Some t).

(* ---------- the current code ---------- *)
Definition manager_has := manager_has_v VCode.
Definition tracker_has := tracker_has_v VCode.
Definition tracker_has_strict := tracker_has_v VStrict.
Definition tracker_add := tracker_add_v VCode.
Definition step := step_v VCode.
Definition run := run_v VCode.
