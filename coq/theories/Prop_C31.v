(* Property C31 - The encrypted peer channel is a faithful byte stream.
   Only the property theorems; proofs are in Proofs_SecureChan.v, the model of
   network/secure.go is Model_SecureChan.v.  seal/open (the AEAD), ecdh and kdf
   (HKDF) are universally quantified; what is assumed about them is written in
   each statement. *)
From Goloop Require Import lib.Bytes Model_SecureChan Proofs_SecureChan.

(* All writes, then reads with caller buffers of ANY sizes (0 included):
   every Read returns n = number of bytes copied <= len(b), errors only when
   nothing is left (EOF if the writer closed, "would block" otherwise); what was
   delivered is a prefix of what was written, and all of it once the number of
   non-empty-buffer reads reaches the number of bytes written. *)
Theorem C31_stream_faithful :
  forall (seal : bytes -> bytes -> bytes -> bytes) (open : bytes -> bytes -> bytes -> option bytes)
         (overhead : nat),
  (forall k n p, length (seal k n p) = (length p + overhead)%nat) ->
  (forall k n p, open k n (seal k n p) = Some p) ->
  forall (key n0 : bytes) (writes : list bytes) (closed : bool) (sizes : list nat),
  let wire := fst (write_all seal key n0 writes) in
  let rs := read_all open overhead key {| rs_nonce := n0; rs_pending := [] |} wire closed sizes in
  Forall2 (res_ok closed) sizes rs /\
  prefix (delivered rs) (concat writes) /\
  ((length (concat writes) <= count_pos sizes)%nat -> delivered rs = concat writes).
Proof. exact stream_faithful. Qed.
Print Assumptions C31_stream_faithful.

(* the same for any interleaving of Write, Read and Close calls *)
Theorem C31_stream_faithful_interleaved :
  forall (seal : bytes -> bytes -> bytes -> bytes) (open : bytes -> bytes -> bytes -> option bytes)
         (overhead : nat),
  (forall k n p, length (seal k n p) = (length p + overhead)%nat) ->
  (forall k n p, open k n (seal k n p) = Some p) ->
  forall (key n0 : bytes) (ops : list op) (outs : list out) (c' : chan),
  run seal open overhead (chan_init key n0) ops = (outs, c') ->
  prefix (concat (map out_data outs)) (written false ops) /\ Forall2 out_ok ops outs.
Proof. exact stream_faithful_interleaved. Qed.
Print Assumptions C31_stream_faithful_interleaved.

(* a Read with an empty buffer returns 0 bytes and loses nothing *)
Theorem C31_zero_size_read :
  forall (seal : bytes -> bytes -> bytes -> bytes) (open : bytes -> bytes -> bytes -> option bytes)
         (overhead : nat),
  (forall k n p, length (seal k n p) = (length p + overhead)%nat) ->
  (forall k n p, open k n (seal k n p) = Some p) ->
  forall (key : bytes) (st : rstate) (ps : list bytes) (closed : bool),
  Forall okp ps ->
  forall (res : rres) (st' : rstate) (w' : bytes),
  read open overhead key st (enc_frames seal key (rs_nonce st) ps) closed 0 = (res, st', w') ->
  r_data res = [] /\ r_n res = 0 /\
  (exists ps', w' = enc_frames seal key (rs_nonce st') ps' /\ Forall okp ps' /\
               rs_pending st' ++ concat ps' = rs_pending st ++ concat ps).
Proof. exact read_zero. Qed.
Print Assumptions C31_zero_size_read.

(* Two ends that ran secureKey.setup on each other's public key (distinct keys,
   or equal keys and opposite defaultLower as Peer.In() gives): same extra
   secret, A.out = B.in, A.in = B.out, and with two secrets the directions differ. *)
Theorem C31_directions :
  forall (priv shared : Type) (pub_of : priv -> pubkey) (ecdh : priv -> pubkey -> shared)
         (kdf : shared -> nat -> nat -> bytes),
  (forall a b, ecdh a (pub_of b) = ecdh b (pub_of a)) ->
  (forall z len i j, kdf z len i = kdf z len j -> i = j) ->
  forall (a b : priv) (da db : bool) (sa : suite) (num : nat) (ka kb : keys),
  pub_of a <> pub_of b \/ da = negb db ->
  setup priv shared pub_of ecdh kdf a (Some (pub_of b)) da sa num = Some ka ->
  setup priv shared pub_of ecdh kdf b (Some (pub_of a)) db sa num = Some kb ->
  k_extra ka = k_extra kb /\ k_secret ka = k_secret kb /\
  (forall ina outa inb outb,
     conn_secrets ka sa = Some (ina, outa) -> conn_secrets kb sa = Some (inb, outb) ->
     outa = inb /\ ina = outb /\ ((2 <= num)%nat -> outa <> ina)).
Proof. exact directions_gen. Qed.
Print Assumptions C31_directions.

(* Ideal AEAD for a key with one writer: exactly the ciphertexts the writer
   produced open, each under its own nonce to its own plaintext.  Then
   (1) whatever bytes are on the wire, only a prefix of the written stream is
       delivered, n = bytes copied <= len(b), and an error carries no bytes;
   (2) if the wire is genuine up to frame i and then does not continue with the
       genuine frame i, a consumer that closes at the first error gets nothing
       from frame i on;
   (3) the Read that meets that position fails, n = 0, nonce unchanged;
   (4-6) modified sealed bytes, a modified length, and any other frame of the
       stream (dropped, duplicated, reordered) are "not the genuine frame i". *)
Theorem C31_tamper_reorder_rejected :
  forall (seal : bytes -> bytes -> bytes -> bytes) (open : bytes -> bytes -> bytes -> option bytes)
         (overhead : nat),
  (forall k n p, length (seal k n p) = (length p + overhead)%nat) ->
  forall (key n0 : bytes) (writes : list bytes),
  let ps := concat (map split_frames writes) in
  let st0 := {| rs_nonce := n0; rs_pending := [] |} in
  (forall n c p, open key n c = Some p <-> In (n, p, c) (genuine seal key n0 ps)) ->
  all_bytes n0 -> N.of_nat (length ps) < 256 ^ N.of_nat (length n0) ->
  (forall (w : bytes) (closed : bool) (sizes : list nat),
     let rs := read_all open overhead key st0 w closed sizes in
     prefix (delivered rs) (concat writes) /\ Forall2 res_sane sizes rs) /\
  (forall (i : nat) (w : bytes) (closed : bool) (sizes : list nat),
     (i <= length ps)%nat -> ~ genuine_start seal key n0 ps i w ->
     prefix (delivered (read_all_stop open overhead key st0
                          (enc_frames seal key n0 (firstn i ps) ++ w) closed sizes))
            (concat (firstn i ps))) /\
  (forall (i : nat) (w : bytes) (closed : bool) (size : nat),
     (i <= length ps)%nat -> ~ genuine_start seal key n0 ps i w ->
     forall res st' w',
       read open overhead key {| rs_nonce := iter_inc i n0; rs_pending := [] |} w closed size = (res, st', w') ->
       r_err res <> None /\ r_data res = [] /\ r_n res = 0 /\ rs_nonce st' = iter_inc i n0) /\
  (forall (i : nat) (a b x y : N) (s' rest : bytes) (p : bytes),
     nth_error ps i = Some p -> length s' = length (seal key (iter_inc i n0) p) ->
     s' <> seal key (iter_inc i n0) p ->
     ~ genuine_start seal key n0 ps i (a :: b :: x :: y :: s' ++ rest)) /\
  (forall (i : nat) (a b x y : N) (rest : bytes) (p : bytes),
     nth_error ps i = Some p -> a * 256 + b <> N.of_nat (length p) ->
     ~ genuine_start seal key n0 ps i (a :: b :: x :: y :: rest)) /\
  (forall (i j : nat) (pi pj : bytes) (rest : bytes),
     nth_error ps i = Some pi -> nth_error ps j = Some pj ->
     hdr (length pj) ++ seal key (iter_inc j n0) pj <> hdr (length pi) ++ seal key (iter_inc i n0) pi ->
     ~ genuine_start seal key n0 ps i (hdr (length pj) ++ seal key (iter_inc j n0) pj ++ rest)).
Proof. exact tamper_reorder_rejected. Qed.
Print Assumptions C31_tamper_reorder_rejected.

(* the nonce counters of the first 256^len frames are pairwise different *)
Theorem C31_nonces_distinct :
  forall (n : bytes) (i j : nat), all_bytes n ->
  N.of_nat i < 256 ^ N.of_nat (length n) -> N.of_nat j < 256 ^ N.of_nat (length n) ->
  iter_inc i n = iter_inc j n -> i = j.
Proof. exact iter_inc_inj. Qed.
Print Assumptions C31_nonces_distinct.

(* The two earlier versions of SecureAead.Read do not have the property:
   before 735c6b7 a 10-byte write read with a 4-byte buffer returns n = 10 and
   loses 6 bytes; before 089424b a tampered frame is reported as n = 10 bytes
   read together with the error. *)
Theorem C31_prefix_variant_refuted :
  let rs := read_all_v (toy_open 16) 16 VPreFix ex_key ex_st0 ex_wire10 true [4;4;4;4]%nat in
  (exists r, In r rs /\ N.of_nat 4 < r_n r) /\ delivered rs <> ex_write10 /\ delivered rs = [1;2;3;4].
Proof. exact prefix_variant_refuted. Qed.
Print Assumptions C31_prefix_variant_refuted.

Theorem C31_errn_variant_refuted :
  let rs := read_all_v (toy_open 16) 16 VErrN ex_key ex_st0 ex_wire10_flipped true [4]%nat in
  exists r, rs = [r] /\ r_err r = Some EAuth /\ r_data r = [] /\ r_n r = 10 /\ N.of_nat 4 < r_n r.
Proof. exact errn_variant_refuted. Qed.
Print Assumptions C31_errn_variant_refuted.
