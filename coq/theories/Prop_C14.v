(* Property C14 — World state snapshots are isolated and the state hash is canonical.
   Only the property theorems; proofs are in Proofs_WorldState.v.
   Histories h are arbitrary lists of op over arbitrary account ids and keys: balance / storage /
   contract-flag / state-flag / fee-sharing-deposit mutations, reads, GetSnapshot, Reset to any earlier snapshot,
   ClearCache, snapshot Flush, reload from the database (by hash), WorldStateFromSnapshot,
   NewWorldSnapshot.  `init` is the world state over an empty database. *)
From Goloop Require Import lib.Bytes Model_WorldState Proofs_WorldState.
From Coq Require Import Permutation.

(* observing any earlier snapshot after any later operations gives what it gave before
   (s is ANY state: the snapshot list only grows, and reads of a snapshot read that value) *)
Theorem C14_snapshot_immutable : forall s h i t,
  nth_error (s_snaps s) i = Some t ->
  nth_error (s_snaps (state_of s h)) i = Some t /\
  (forall a q, snd (step (state_of s h) (ORead (TSnap i a) q)) = snd (step s (ORead (TSnap i a) q))) /\
  (forall a q, snd (step (state_of s h) (ORead (TRO i a) q)) = snd (step s (ORead (TRO i a) q))).
Proof. exact snapshot_immutable. Qed.
Print Assumptions C14_snapshot_immutable.

(* after Reset(snapshot i): every account is logically the snapshot's account, every read through
   GetAccountState or WorldState.GetAccountSnapshot returns what the snapshot returns, and the next
   GetSnapshot is that very account trie (hence the same state hash, for any hash function) *)
Theorem C14_reset_restores : forall h i t, let s := state_of init h in
  nth_error (s_snaps s) i = Some t ->
  let s' := fst (step s (OReset i)) in
  snd (step s (OReset i)) = RUnit /\
  (forall a, abs (live_view (s_ws s') a) = abs_opt (am_get t a)) /\
  (forall a q, snd (step s' (ORead (TLive a) q)) = snd (step s' (ORead (TRO i a) q))) /\
  (forall a q, snd (step s' (ORead (TPeek a) q)) = snd (step s' (ORead (TRO i a) q))) /\
  current_snapshot s' = t.
Proof. exact reset_restores. Qed.
Print Assumptions C14_reset_restores.

(* the state hash is a function of the logical contents.  hash/leaf/roots are arbitrary; the two
   hypotheses are C17's canonicity (C17_root_canonical), for the storage tries and the account trie *)
Theorem C14_hash_canonical :
  forall (hash leaf : Type) (store_root : smap -> hash)
         (acct_leaf : Z -> bool -> option bytes -> N -> list deposit -> option hash -> leaf) (world_root : amap leaf -> hash),
  (forall m1 m2 : smap, (forall k, am_get m1 k = am_get m2 k) -> store_root m1 = store_root m2) ->
  (forall l1 l2 : amap leaf, (forall a, am_get l1 a = am_get l2 a) -> world_root l1 = world_root l2) ->
  forall h1 h2,
  let s1 := state_of init h1 in let s2 := state_of init h2 in
  (forall a, l_equiv (abs (live_view (s_ws s1) a)) (abs (live_view (s_ws s2) a))) ->
  state_hash hash leaf store_root acct_leaf world_root (current_snapshot s1) =
  state_hash hash leaf store_root acct_leaf world_root (current_snapshot s2).
Proof. exact hash_canonical. Qed.
Print Assumptions C14_hash_canonical.

(* the same for any two snapshots taken anywhere in any two histories *)
Theorem C14_hash_canonical_snapshots :
  forall (hash leaf : Type) (store_root : smap -> hash)
         (acct_leaf : Z -> bool -> option bytes -> N -> list deposit -> option hash -> leaf) (world_root : amap leaf -> hash),
  (forall m1 m2 : smap, (forall k, am_get m1 k = am_get m2 k) -> store_root m1 = store_root m2) ->
  (forall l1 l2 : amap leaf, (forall a, am_get l1 a = am_get l2 a) -> world_root l1 = world_root l2) ->
  forall h1 h2 i j t1 t2,
  nth_error (s_snaps (state_of init h1)) i = Some t1 ->
  nth_error (s_snaps (state_of init h2)) j = Some t2 ->
  trie_equiv t1 t2 ->
  state_hash hash leaf store_root acct_leaf world_root t1 = state_hash hash leaf store_root acct_leaf world_root t2.
Proof. exact hash_canonical_snapshots. Qed.
Print Assumptions C14_hash_canonical_snapshots.

(* the order in which flushAccountCacheInLock walks the (Go) map of cached accounts is immaterial *)
Theorem C14_flush_order_irrelevant :
  forall (hash leaf : Type) (store_root : smap -> hash)
         (acct_leaf : Z -> bool -> option bytes -> N -> list deposit -> option hash -> leaf) (world_root : amap leaf -> hash),
  (forall m1 m2 : smap, (forall k, am_get m1 k = am_get m2 k) -> store_root m1 = store_root m2) ->
  (forall l1 l2 : amap leaf, (forall a, am_get l1 a = am_get l2 a) -> world_root l1 = world_root l2) ->
  forall h t c c',
  Permutation c c' -> NoDup (map fst c) -> trie_ok h t ->
  (forall a e, In (a, e) c -> entry_ok h t a e) ->
  let t1 := snd (fst (flush_entries h t c)) in let t2 := snd (fst (flush_entries h t c')) in
  trie_equiv t1 t2 /\
  state_hash hash leaf store_root acct_leaf world_root t1 = state_hash hash leaf store_root acct_leaf world_root t2.
Proof. exact flush_order_irrelevant. Qed.
Print Assumptions C14_flush_order_irrelevant.

(* an account that is logically empty — zero balance, no stored value, not a contract, no state
   flag — however it got there, IS the never-touched account and is absent from the next snapshot *)
Theorem C14_empty_is_absent : forall h a, let s := state_of init h in
  l_is_empty (abs (live_view (s_ws s) a)) = true ->
  abs (live_view (s_ws s) a) = l_empty /\ snap_view (current_snapshot s) a = None.
Proof. exact empty_is_absent. Qed.
Print Assumptions C14_empty_is_absent.

(* in every snapshot of every history the account snapshot is nil exactly for empty accounts,
   and a read-only world over it then shows the never-touched account *)
Theorem C14_snapshot_absent_iff_empty : forall h i t a,
  nth_error (s_snaps (state_of init h)) i = Some t ->
  (snap_view t a = None <-> l_is_empty (abs_opt (am_get t a)) = true) /\
  (snap_view t a = None -> abs (ro_view t a) = l_empty).
Proof. exact snapshot_absent_iff_empty. Qed.
Print Assumptions C14_snapshot_absent_iff_empty.

(* an account that no operation of the history names is l_empty and absent from every snapshot *)
Theorem C14_never_touched_is_empty : forall h a, Forall (fun o => mentions o a = false) h ->
  let s := state_of init h in
  abs (live_view (s_ws s) a) = l_empty /\
  forall i t, nth_error (s_snaps s) i = Some t -> snap_view t a = None.
Proof. exact never_touched_is_empty. Qed.
Print Assumptions C14_never_touched_is_empty.

(* every result of every operation of every history — reads of the live state, of any snapshot
   at any later time (nil or not), of read-only worlds, old values returned by Set/Delete — is
   the result of the specification: a total map of logical accounts whose snapshots are copies,
   whose Reset is assignment, and on which ClearCache / Flush / reload do nothing *)
Theorem C14_refines_map : forall h, outs_of init h = snd (spec_run spec_init h).
Proof. exact refines_map. Qed.
Print Assumptions C14_refines_map.

(* the comparison used by the correspondence run decides logical equality of snapshots *)
Theorem C14_trie_equivb_spec : forall t1 t2, trie_equivb t1 t2 = true <-> trie_equiv t1 t2.
Proof. exact trie_equivb_spec. Qed.
Print Assumptions C14_trie_equivb_spec.
