(* Proofs_VirtualState_Seq.v — facts about the sequential semantics and the
   static lock analysis of Model_VirtualState: extensionality and frame
   property of run_prog, world_before, last_writer, the syntactic check of the
   small language.  Style: stdlib. *)
From Coq Require Import List Arith Bool ZArith Lia.
From Goloop Require Import Model_VirtualState.
Import ListNotations.

(* ------------------------------------------------------------------ *)
(* programs touch only what the transaction declared                    *)

Inductive touches_only (t : tx) : prog -> Prop :=
| TO_done r : touches_only t (Done r)
| TO_read a k : can_read t a = true -> (forall v, touches_only t (k v)) -> touches_only t (Read a k)
| TO_write a v k : can_write t a = true -> touches_only t k -> touches_only t (Write a v k)
| TO_fail k : touches_only t k -> touches_only t (Fail k).

Definition well_declared (t : tx) : Prop := touches_only t (tx_prog t).
(* no {WorldIDStr, AccountReadLock} request *)
Definition no_world_read (t : tx) : Prop := world_lock (reqs_of t) <> ReadLock.

Lemma touches_read_inv t a k : touches_only t (Read a k) ->
  can_read t a = true /\ forall v, touches_only t (k v).
Proof. inversion 1; subst; auto. Qed.
Lemma touches_write_inv t a v k : touches_only t (Write a v k) ->
  can_write t a = true /\ touches_only t k.
Proof. inversion 1; subst; auto. Qed.
Lemma touches_fail_inv t k : touches_only t (Fail k) -> touches_only t k.
Proof. inversion 1; subst; auto. Qed.

(* ------------------------------------------------------------------ *)
(* upd                                                                  *)

Lemma upd_same w a v : upd w a v a = v.
Proof. unfold upd. now rewrite Nat.eqb_refl. Qed.
Lemma upd_other w a v x : x <> a -> upd w a v x = w x.
Proof. unfold upd. intro H. destruct (Nat.eqb_spec x a); congruence. Qed.

(* ------------------------------------------------------------------ *)
(* run_prog                                                             *)

Lemma run_from_ext p : forall s s' w w', (forall a, s a = s' a) -> (forall a, w a = w' a) ->
  (forall a, fst (run_from s p w) a = fst (run_from s' p w') a) /\ snd (run_from s p w) = snd (run_from s' p w').
Proof.
  induction p as [r|a k IH|a v k IH|k IH]; intros s s' w w' Es E; cbn.
  - auto.
  - rewrite (E a). apply IH; auto.
  - apply IH; auto. intro x. unfold upd. destruct (Nat.eqb x a); auto.
  - apply IH; auto.
Qed.

Lemma run_prog_ext p : forall w w', (forall a, w a = w' a) ->
  (forall a, fst (run_prog p w) a = fst (run_prog p w') a) /\ snd (run_prog p w) = snd (run_prog p w').
Proof. intros w w' E. unfold run_prog. apply run_from_ext; auto. Qed.

(* frame: an account the transaction cannot write keeps its value *)
Lemma run_from_frame t p : touches_only t p -> forall s w a, can_write t a = false -> s a = w a ->
  fst (run_from s p w) a = w a.
Proof.
  induction 1 as [r|a k Hr Hk IH|a v k Hw Hk IH|k Hk IH]; intros s w x Hx Hs; cbn; auto.
  - rewrite IH; auto.
    + apply upd_other. intro; subst. congruence.
    + rewrite upd_other; auto. intro; subst. congruence.
  - rewrite IH; auto.
Qed.

Lemma run_prog_frame t p : touches_only t p -> forall w a, can_write t a = false ->
  fst (run_prog p w) a = w a.
Proof. intros H w a C. unfold run_prog. eapply run_from_frame; eauto. Qed.

(* ------------------------------------------------------------------ *)
(* static facts about lock requests                                     *)

Lemma world_lock_cases reqs :
  world_lock reqs = NoLock \/ world_lock reqs = ReadLock \/ world_lock reqs = WriteLock.
Proof. unfold world_lock. destruct (wants reqs LWorld LWrite), (wants reqs LWorld LRead); auto. Qed.

Lemma entry_cases reqs a :
  entry reqs a = None \/ entry reqs a = Some ReadLock \/ entry reqs a = Some WriteLock.
Proof.
  unfold entry. destruct (world_lock reqs), (wants reqs (LAcct a) LWrite), (wants reqs (LAcct a) LRead); auto.
Qed.

Lemma entry_world_write reqs a : world_lock reqs = WriteLock -> entry reqs a = None.
Proof. unfold entry. now intros ->. Qed.

Lemma entry_world_read reqs a : world_lock reqs = ReadLock -> entry reqs a <> Some ReadLock.
Proof. unfold entry. intros ->. destruct (wants reqs (LAcct a) LWrite); congruence. Qed.

Lemma wants_app reqs reqs' id k : wants (reqs ++ reqs') id k = wants reqs id k || wants reqs' id k.
Proof. unfold wants. apply existsb_app. Qed.

(* every virtual state without a world lock has an entry for the system account *)
Lemma entry_sys t : world_lock (reqs_of t) = NoLock -> entry (reqs_of t) SYS <> None.
Proof.
  unfold entry, reqs_of. intros ->. rewrite !wants_app. cbn.
  destruct (wants (tx_locks t) (LAcct SYS) LWrite); cbn; try congruence.
  rewrite orb_true_r. congruence.
Qed.

Lemma wants_keys reqs a k : wants reqs (LAcct a) k = true -> In a (keys reqs).
Proof.
  unfold wants, keys. rewrite existsb_exists. intros [[id k'] [Hin H]]. cbn in H.
  apply andb_true_iff in H as [H _]. destruct id as [|b]; cbn in H; try discriminate.
  apply Nat.eqb_eq in H; subst. apply in_flat_map. exists (LAcct a, k'). split; cbn; auto.
Qed.

Lemma entry_keys reqs a : entry reqs a <> None -> In a (keys reqs).
Proof.
  unfold entry. destruct (world_lock reqs); try congruence;
  destruct (wants reqs (LAcct a) LWrite) eqn:W; try (intros _; exact (wants_keys _ _ _ W));
  destruct (wants reqs (LAcct a) LRead) eqn:R; try (intros _; exact (wants_keys _ _ _ R)); congruence.
Qed.

Lemma can_write_spec t a : can_write t a = true <->
  world_lock (reqs_of t) = WriteLock \/ entry (reqs_of t) a = Some WriteLock.
Proof.
  unfold can_write. destruct (world_lock_cases (reqs_of t)) as [H|[H|H]];
  destruct (entry_cases (reqs_of t) a) as [E|[E|E]]; rewrite H, E; intuition congruence.
Qed.

Lemma can_write_false_spec t a : can_write t a = false <->
  world_lock (reqs_of t) <> WriteLock /\ entry (reqs_of t) a <> Some WriteLock.
Proof.
  destruct (can_write t a) eqn:C.
  - apply can_write_spec in C. intuition congruence.
  - split; auto. intros _. split; intro H; assert (can_write t a = true) by (apply can_write_spec; auto); congruence.
Qed.

Lemma can_read_spec t a : can_read t a = true <->
  world_lock (reqs_of t) <> NoLock \/ entry (reqs_of t) a <> None.
Proof.
  unfold can_read. destruct (world_lock_cases (reqs_of t)) as [H|[H|H]];
  destruct (entry_cases (reqs_of t) a) as [E|[E|E]]; rewrite H, E; intuition congruence.
Qed.

(* ------------------------------------------------------------------ *)
(* world_before / seq_world                                             *)

Section Seq.
Variable txs : list tx.
Variable w0 : world.
Hypothesis Hwd : forall i t, nth_error txs i = Some t -> well_declared t.

Lemma world_before_0 : world_before txs w0 0 = w0.
Proof. reflexivity. Qed.

Lemma firstn_S_nth {A} (l : list A) i x : nth_error l i = Some x -> firstn (S i) l = firstn i l ++ [x].
Proof.
  revert i; induction l as [|y l IH]; intros [|i] H; cbn in *; try discriminate.
  - now inversion H.
  - now rewrite (IH i H).
Qed.

Lemma world_before_S i t : nth_error txs i = Some t ->
  world_before txs w0 (S i) = apply_tx (world_before txs w0 i) t.
Proof.
  intro H. unfold world_before, seq_world. rewrite (firstn_S_nth _ _ _ H), fold_left_app. reflexivity.
Qed.

Lemma world_before_all i : length txs <= i -> world_before txs w0 i = seq_world txs w0.
Proof. intro H. unfold world_before. now rewrite firstn_all2. Qed.

Lemma world_before_step_frame i t a : nth_error txs i = Some t -> can_write t a = false ->
  world_before txs w0 (S i) a = world_before txs w0 i a.
Proof.
  intros H C. rewrite (world_before_S _ _ H). unfold apply_tx.
  eapply run_prog_frame; eauto. apply (Hwd _ _ H).
Qed.

Definition effw (j : nat) (a : acct) : Prop :=
  exists t, nth_error txs j = Some t /\ eff_writer t a = true.

Lemma not_effw_frame j t a : nth_error txs j = Some t -> ~ effw j a -> can_write t a = false.
Proof.
  intros H N. destruct (can_write t a) eqn:C; auto. exfalso. apply N. exists t. auto.
Qed.

(* no effective writer of a in [j, i): the value of a does not change *)
Lemma world_before_frame a j i : j <= i -> i <= length txs ->
  (forall k, j <= k < i -> ~ effw k a) ->
  world_before txs w0 i a = world_before txs w0 j a.
Proof.
  intros Hji. induction Hji as [|i Hji IH]; intros Hn Hno; auto.
  destruct (nth_error txs i) as [t|] eqn:Ht.
  2:{ apply nth_error_None in Ht. lia. }
  assert (C : can_write t a = false) by (eapply not_effw_frame; eauto; apply Hno; lia).
  rewrite (world_before_step_frame i t a Ht C).
  apply IH; [lia|]. intros k Hk. apply Hno. lia.
Qed.

(* last_writer *)
Lemma last_writer_Some i a d : last_writer txs i a = Some d ->
  d < i /\ effw d a /\ forall k, d < k < i -> ~ effw k a.
Proof.
  revert d; induction i as [|i IH]; intros d H; cbn in H; try discriminate.
  destruct (nth_error txs i) as [t|] eqn:Ht.
  - destruct (eff_writer t a) eqn:E.
    + inversion H; subst. split; [lia|]. split; [exists t; auto|]. intros k Hk. lia.
    + destruct (IH _ H) as (H1 & H2 & H3). split; [lia|]. split; auto.
      intros k Hk [t' [Ht' E']]. destruct (Nat.eq_dec k i) as [->|].
      * congruence.
      * apply (H3 k); [lia|]. exists t'; auto.
  - destruct (IH _ H) as (H1 & H2 & H3). split; [lia|]. split; auto.
    intros k Hk [t' [Ht' E']]. destruct (Nat.eq_dec k i) as [->|].
    + congruence.
    + apply (H3 k); [lia|]. exists t'; auto.
Qed.

Lemma last_writer_None i a : last_writer txs i a = None -> forall k, k < i -> ~ effw k a.
Proof.
  induction i as [|i IH]; intros H k Hk; [lia|]. cbn in H.
  destruct (nth_error txs i) as [t|] eqn:Ht.
  - destruct (eff_writer t a) eqn:E; try discriminate.
    intros [t' [Ht' E']]. destruct (Nat.eq_dec k i) as [->|].
    + congruence.
    + apply (IH H k); [lia|]. exists t'; auto.
  - intros [t' [Ht' E']]. destruct (Nat.eq_dec k i) as [->|].
    + congruence.
    + apply (IH H k); [lia|]. exists t'; auto.
Qed.

Lemma last_writer_S i t a : nth_error txs i = Some t ->
  last_writer txs (S i) a = if eff_writer t a then Some i else last_writer txs i a.
Proof. intro H. cbn. now rewrite H. Qed.

(* the view composed per account from the state after its last earlier writer
   is the world the transaction starts from *)
Lemma prefix_view_eq i a : i <= length txs -> prefix_view txs w0 i a = world_before txs w0 i a.
Proof.
  intro Hi. unfold prefix_view. destruct (last_writer txs i a) as [d|] eqn:L.
  - destruct (last_writer_Some _ _ _ L) as (H1 & H2 & H3).
    symmetry. apply world_before_frame; try lia. intros k Hk. apply H3. lia.
  - rewrite (world_before_frame a 0 i); try lia; auto.
    intros k Hk. apply (last_writer_None _ _ L). lia.
Qed.

End Seq.

(* ------------------------------------------------------------------ *)
(* the small language: the syntactic check implies touches_only          *)

Lemma compile_s_touches t s obs rest :
  sinstr_ok t s = true -> (forall o, touches_only t (rest o)) -> touches_only t (compile_s s obs rest).
Proof.
  intros H Hr. destruct s; cbn in *;
  repeat match goal with H : _ && _ = true |- _ => apply andb_true_iff in H as [? ?] end.
  - constructor; auto.
  - constructor; auto.
  - constructor; auto. intro v. constructor; auto.
  - constructor; auto.
  - constructor; auto. intro va. destruct (k <=? va)%Z; auto.
    constructor; auto. constructor; auto. intro vb. constructor; auto.
Qed.

Lemma compile_k_touches t is : forallb (instr_ok t) is = true -> forall obs fin,
  (forall o, touches_only t (fin o)) -> touches_only t (compile_k is obs fin).
Proof.
  induction is as [|i is IH]; intros H obs fin Hf; cbn in *.
  - auto.
  - apply andb_true_iff in H as [Hi His]. destruct i as [s|a k s]; cbn in Hi.
    + apply compile_s_touches; auto.
    + apply andb_true_iff in Hi as [Ha Hs]. constructor; auto. intro v.
      destruct (k <=? v)%Z; auto. apply compile_s_touches; auto.
Qed.

Lemma compile_touches t is : forallb (instr_ok t) is = true -> forall obs, touches_only t (compile is obs).
Proof. intros H obs. apply compile_k_touches; auto. intro. constructor. Qed.

Lemma forallb_firstn {A} (f : A -> bool) l k : forallb f l = true -> forallb f (firstn k l) = true.
Proof.
  revert k; induction l as [|x l IH]; intros [|k] H; cbn in *; auto.
  apply andb_true_iff in H as [H1 H2]. rewrite H1. cbn. auto.
Qed.

(* failing attempts run prefixes of the same instructions *)
Lemma compile_fails_touches t is fails : forallb (instr_ok t) is = true ->
  touches_only t (compile_fails is fails).
Proof.
  intro H. induction fails as [|k fails IH]; cbn.
  - apply compile_touches; auto.
  - apply compile_k_touches; [apply forallb_firstn; auto|]. intro. constructor. exact IH.
Qed.

(* ------------------------------------------------------------------ *)
(* a failed attempt leaves no trace: the sequential meaning of a program with
   failing first attempts is that of the program alone *)

Lemma run_from_fail s k w : run_from s (Fail k) w = run_from s k s.
Proof. reflexivity. Qed.

Lemma run_prog_fail p w : run_prog (Fail p) w = run_prog p w.
Proof. reflexivity. Qed.

Lemma run_compile_s_fail s0 st obs rest w :
  (forall o w', run_from s0 (rest o) w' = run_from s0 (rest []) s0) ->
  run_from s0 (compile_s st obs rest) w = run_from s0 (rest []) s0.
Proof.
  intro H. destruct st; cbn; auto.
  destruct (k <=? w a)%Z; cbn; auto.
Qed.

Lemma run_compile_k_fail s0 rest is : forall obs w,
  run_from s0 (compile_k is obs (fun _ => Fail rest)) w = run_from s0 rest s0.
Proof.
  induction is as [|i is IH]; intros obs w; cbn.
  - reflexivity.
  - destruct i as [st|a k st]; cbn.
    + rewrite run_compile_s_fail; [apply IH|]. intros o w'. rewrite !IH. reflexivity.
    + destruct (k <=? w a)%Z.
      * rewrite run_compile_s_fail; [apply IH|]. intros o w'. rewrite !IH. reflexivity.
      * apply IH.
Qed.

Lemma run_compile_fails is fails w :
  run_prog (compile_fails is fails) w = run_prog (compile is []) w.
Proof.
  unfold run_prog. induction fails as [|k fails IH]; cbn; auto.
  rewrite run_compile_k_fail. exact IH.
Qed.
