(* Link_C07.v -- ties the vote threshold of Model_BlockImport (property C07) to the kernel
   enoughVote that tools/go2coq re-generates from consensus/commitvotelist.go on every
   run.

   Model_BlockImport.enough_vote works on unbounded Z; the kernel wraps Go int
   arithmetic: they are EQUAL for every number of voters a Go slice can have
   (0 <= voters <= 2^62-1).  Proved from enoughVote_spec (Proofs_K_enoughVote.v) and
   enough_vote_spec (Proofs_BlockImport.v), never from the shape of the generated text:
   `>` turned into `>=`, or `voters == 0` into `== 1`, breaks Proofs_K_enoughVote.v,
   hence this file, hence Prop_C07.v.
   Style: stdlib, lia. *)
From Goloop Require Import lib.Bytes lib.GoInt Model_BlockImport Proofs_BlockImport.
From Goloop Require Import Proofs_K_tactics Proofs_K_enoughVote.
From Goloop.gen Require Export K_enoughVote.
From Coq Require Import ZifyBool.
Import ListNotations.
Local Open Scope Z_scope.

Ltac Zify.zify_post_hook ::= Z.to_euclidean_division_equations.

Lemma enough_vote_is_enoughVote voted voters :
  0 <= voters <= 4611686018427387903 ->
  enough_vote voted voters = enoughVote voted voters.
Proof.
  intros Hv. apply bool_eq_iff.
  rewrite enough_vote_spec by lia. rewrite enoughVote_spec by lia. reflexivity.
Qed.

Definition kernel_params_pinned : Prop := enoughVote_params = ["voted"; "voters"]%string.

Lemma kernel_params_ok : kernel_params_pinned.
Proof. exact enoughVote_params_ok. Qed.

Example link_c07_nontrivial :
  enough_vote 15 21 = enoughVote 15 21 /\ enoughVote 15 21 = true /\
  enough_vote 14 21 = enoughVote 14 21 /\ enoughVote 14 21 = false /\
  enough_vote 0 0 = enoughVote 0 0.
Proof. repeat split; reflexivity. Qed.
