(* Model_BlockImport.v — what the block manager checks before it accepts an imported
   block (property C07).  No proofs.

   block/block.go        manager.verifyNewBlock, manager.verifyProofForLastBlock
   block/blockv2.go      blockV2.VerifyTimestamp, blockV2.GetVoters
   block/manager.go      manager._import, manager.Import (handler by header version),
                         importTask._onExecute / _onValidate (execution stage)
   consensus/commitvotelist.go   blockCommitVoteList.Timestamp (median), VerifyBlock, enoughVote

   Integers: heights, versions and counts are unbounded Z (the property is not about
   their width).  Vote timestamps are Go int64: the sum of the two middle timestamps
   wraps and the division by two truncates toward zero; both are written out.
   Block ids are byte strings.  Signatures are not modelled: each vote item carries the
   ground truth the harness knows because it made the signature (who signed, for which
   block id the item is a correct precommit signature), DESIGN section 3.
   Style: stdlib only. *)
From Goloop Require Import lib.Bytes lib.GoInt.
Open Scope Z_scope.

(* ------------------------------------------------------------------ median *)

(* sort.Slice(ts, ts[i] < ts[j]) on int64 values: the ascending arrangement (which is
   unique, so the unstable algorithm does not matter) *)
Fixpoint insert (x : Z) (l : list Z) : list Z :=
  match l with
  | [] => [x]
  | y :: r => if x <=? y then x :: l else y :: insert x r
  end.

Fixpoint isort (l : list Z) : list Z :=
  match l with
  | [] => []
  | x :: r => insert x (isort r)
  end.

(* (a + b) / 2 on int64: wrapping sum, truncating quotient *)
Definition mean2 (a b : Z) : Z := Z.quot (wrap_i64 (a + b)) 2.

(* blockCommitVoteList.Timestamp:
     l == 0            -> 0
     l odd             -> ts[l/2]
     l even            -> (ts[l/2-1] + ts[l/2]) / 2          on the sorted copy.
   The element positions are reached with skipn; the [] arms are unreachable
   (Proofs_BlockImport.median_odd / median_even show the result is the nth_error
   element, without any default). *)
Definition median (ts : list Z) : Z :=
  let s := isort ts in
  let l := length s in
  match l with
  | O => 0
  | _ =>
    if Nat.odd l then
      match skipn (Nat.div2 l) s with
      | x :: _ => x
      | [] => 0
      end
    else
      match skipn (Nat.div2 l - 1) s with
      | a :: b :: _ => mean2 a b
      | _ => 0
      end
  end.

(* ------------------------------------------------------------------ records *)

(* one item of a commit vote list, with the ground truth about its signature *)
Record vote := {
  v_ts     : Z;          (* item.Timestamp *)
  v_signer : option N;   (* number of the harness wallet whose key made the signature;
                            None: no recoverable / no known signer *)
  v_for    : bytes       (* id of the block for which (with the list's round and part-set id
                            and this timestamp) the signature is a correct precommit;
                            [] if it is a correct precommit for no block *)
}.

(* a block held in the manager's node map: last finalized block or a live candidate *)
Record parent := {
  p_height       : Z;
  p_id           : bytes;
  p_ts           : Z;
  p_next_version : Z;               (* sm.GetNextBlockVersion(p.Result()) *)
  p_voters       : option (list N)  (* GetVoters: next validators of the block below it
                                       (wallet numbers); None = nil list (height 0) *)
}.

Record candidate := {
  c_height  : Z;
  c_prev    : bytes;
  c_version : Z;
  c_ts      : Z;
  c_votes   : list vote;
  c_exec_ok : bool     (* ground truth: transactions, result, next validators and logs bloom
                          of the candidate are what executing it on the parent gives *)
}.

(* ------------------------------------------------------------------ votes *)

Fixpoint memN (x : N) (l : list N) : bool :=
  match l with
  | [] => false
  | y :: r => N.eqb x y || memN x r
  end.

(* enoughVote(voted, voters) *)
Definition enough_vote (voted voters : Z) : bool :=
  if voters =? 0 then true else voters * 2 / 3 <? voted.

(* the item loop of VerifyBlock: the recovered address must be a validator that has not
   voted yet; a signature over anything but the parent's precommit message recovers to
   nobody's address *)
Fixpoint scan_votes (pid : bytes) (voters seen : list N) (vs : list vote) : bool :=
  match vs with
  | [] => true
  | v :: r =>
      if negb (bytes_eqb (v_for v) pid) then false else
      match v_signer v with
      | None => false
      | Some s =>
          if negb (memN s voters) then false else
          if memN s seen then false else
          scan_votes pid voters (s :: seen) r
      end
  end.

(* votes.VerifyBlock(prev, prev.GetVoters()) *)
Definition verify_votes (p : parent) (vs : list vote) : bool :=
  match p_voters p with
  | None => match vs with [] => true | _ => false end
  | Some vl =>
      if p_height p =? 0 then match vs with [] => true | _ => false end
      else scan_votes (p_id p) vl [] vs
           && enough_vote (Z.of_nat (length vs)) (Z.of_nat (length vl))
  end.

(* ------------------------------------------------------------------ verifyNewBlock *)

Inductive verdict :=
| Accept
| BadVersion | BadHeight | BadPrevID | BadVotes | BadTimestamp | NonIncreasing  (* verifyNewBlock *)
| NoParent          (* _import: InvalidPreviousID *)
| Unsupported       (* Import: no active handler for the header's version *)
| ExecFail.         (* execution / result verification, reported through the callback *)

Definition vote_times (c : candidate) : list Z := map v_ts (c_votes c).

(* blockV2.VerifyTimestamp *)
Definition verify_timestamp (p : parent) (c : candidate) : verdict :=
  if (c_height c >? 1) && negb (c_ts c =? median (vote_times c)) then BadTimestamp
  else if (c_height c >? 1) && (p_ts p >=? c_ts c) then NonIncreasing
  else Accept.

(* manager.verifyNewBlock(b, prev), same order of tests *)
Definition verify_new_block (p : parent) (c : candidate) : verdict :=
  if negb (c_version c =? p_next_version p) then BadVersion
  else if negb (c_height c =? p_height p + 1) then BadHeight
  else if negb (bytes_eqb (c_prev c) (p_id p)) then BadPrevID
  else if negb (verify_votes p (c_votes c)) then BadVotes
  else verify_timestamp p c.

(* ------------------------------------------------------------------ _import / Import *)

(* m.nmap[string(block.PrevID())] *)
Fixpoint find_parent (nodes : list parent) (id : bytes) : option parent :=
  match nodes with
  | [] => None
  | p :: r => if bytes_eqb (p_id p) id then Some p else find_parent r id
  end.

(* manager.ImportBlock: parent from the node map, verifyNewBlock, then execution *)
Definition import_block (nodes : list parent) (c : candidate) : verdict :=
  match find_parent nodes (c_prev c) with
  | None => NoParent
  | Some p =>
      match verify_new_block p c with
      | Accept => if c_exec_ok c then Accept else ExecFail
      | e => e
      end
  end.

Fixpoint memZ (x : Z) (l : list Z) : bool :=
  match l with
  | [] => false
  | y :: r => Z.eqb x y || memZ x r
  end.

Definition with_version (c : candidate) (v : Z) : candidate :=
  {| c_height := c_height c; c_prev := c_prev c; c_version := v; c_ts := c_ts c;
     c_votes := c_votes c; c_exec_ok := c_exec_ok c |}.

(* manager.Import(reader): the handler is chosen by the version field of the encoded
   header among the active handlers; the block it builds reports that handler's version *)
Definition import_reader (active : list Z) (nodes : list parent) (hdr_version : Z)
           (c : candidate) : verdict :=
  if memZ hdr_version active then import_block nodes (with_version c hdr_version)
  else Unsupported.

(* the observable of an import: 0 accepted (callback without error), 1 refused by the
   call itself, 2 refused through the callback *)
Definition verdict_class (v : verdict) : N :=
  match v with
  | Accept => 0%N
  | ExecFail => 2%N
  | _ => 1%N
  end.

(* single-field updates used by the deviation theorems *)
Definition with_height (c : candidate) (h : Z) : candidate :=
  {| c_height := h; c_prev := c_prev c; c_version := c_version c; c_ts := c_ts c;
     c_votes := c_votes c; c_exec_ok := c_exec_ok c |}.
Definition with_prev (c : candidate) (id : bytes) : candidate :=
  {| c_height := c_height c; c_prev := id; c_version := c_version c; c_ts := c_ts c;
     c_votes := c_votes c; c_exec_ok := c_exec_ok c |}.
Definition with_ts (c : candidate) (t : Z) : candidate :=
  {| c_height := c_height c; c_prev := c_prev c; c_version := c_version c; c_ts := t;
     c_votes := c_votes c; c_exec_ok := c_exec_ok c |}.
