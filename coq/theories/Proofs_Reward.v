(* Proofs_Reward.v -- lemmas about Model_Reward (IISS-4 reward calculation):
   the credits of a term stay within the term's budgets, the voter share
   formula, the commission split, no division by zero on well-formed terms. *)
From Coq Require Import List ZArith NArith Bool Lia Permutation.
From Coq Require Import ZifyBool ZifyN ZifyNat.
From Goloop Require Import Model_Reward.
Import ListNotations.
Open Scope Z_scope.

Ltac Zify.zify_post_hook ::= Z.div_mod_to_equations.

(* ================================================================== sums *)
Lemma sumZ_nil {A} (f : A -> Z) : sumZ f [] = 0.
Proof. reflexivity. Qed.

Lemma sumZ_cons {A} (f : A -> Z) a l : sumZ f (a :: l) = f a + sumZ f l.
Proof. reflexivity. Qed.

Lemma sumZ_app {A} (f : A -> Z) l1 l2 : sumZ f (l1 ++ l2) = sumZ f l1 + sumZ f l2.
Proof. induction l1; simpl; [reflexivity|]. rewrite IHl1. ring. Qed.

Lemma sumZ_ext_in {A} (f g : A -> Z) l : (forall x, In x l -> f x = g x) -> sumZ f l = sumZ g l.
Proof.
  induction l; simpl; intros H; [reflexivity|].
  rewrite (H a) by auto. rewrite IHl; auto.
Qed.

Lemma sumZ_le_in {A} (f g : A -> Z) l : (forall x, In x l -> f x <= g x) -> sumZ f l <= sumZ g l.
Proof.
  induction l; simpl; intros H; [lia|].
  specialize (H a (or_introl eq_refl)) as Ha. specialize (IHl (fun x Hx => H x (or_intror Hx))). lia.
Qed.

Lemma sumZ_nonneg {A} (f : A -> Z) l : (forall x, In x l -> 0 <= f x) -> 0 <= sumZ f l.
Proof.
  induction l; simpl; intros H; [lia|].
  specialize (H a (or_introl eq_refl)) as Ha. specialize (IHl (fun x Hx => H x (or_intror Hx))). lia.
Qed.

Lemma sumZ_zero {A} (f : A -> Z) l : (forall x, In x l -> f x = 0) -> sumZ f l = 0.
Proof.
  induction l; simpl; intros H; [reflexivity|].
  rewrite (H a) by auto. rewrite IHl; auto.
Qed.

Lemma sumZ_add {A} (f g : A -> Z) l : sumZ (fun x => f x + g x) l = sumZ f l + sumZ g l.
Proof. induction l; simpl; [reflexivity|]. rewrite IHl. ring. Qed.

Lemma sumZ_mul_r {A} (f : A -> Z) c l : sumZ (fun x => f x * c) l = sumZ f l * c.
Proof. induction l; simpl; [reflexivity|]. rewrite IHl. ring. Qed.

Lemma sumZ_map {A B} (g : A -> B) (f : B -> Z) l : sumZ f (map g l) = sumZ (fun x => f (g x)) l.
Proof. induction l; simpl; [reflexivity|]. rewrite IHl. reflexivity. Qed.

Lemma sumZ_swap {A B} (f : A -> B -> Z) la lb :
  sumZ (fun a => sumZ (fun b => f a b) lb) la = sumZ (fun b => sumZ (fun a => f a b) la) lb.
Proof.
  induction la; simpl.
  - symmetry. apply sumZ_zero. reflexivity.
  - rewrite IHla. rewrite <- sumZ_add. reflexivity.
Qed.

Lemma sumZ_le_const {A} (f : A -> Z) c l :
  (forall x, In x l -> f x <= c) -> sumZ f l <= Z.of_nat (length l) * c.
Proof.
  induction l; intros H.
  - simpl. lia.
  - rewrite sumZ_cons. specialize (H a (or_introl eq_refl)) as Ha.
    specialize (IHl (fun x Hx => H x (or_intror Hx))).
    change (length (a :: l)) with (S (length l)). lia.
Qed.

(* ------------------------------------------------------------------ membership *)
Lemma memb_In k l : memb k l = true <-> In k l.
Proof.
  induction l; simpl; [split; [discriminate|tauto]|].
  rewrite orb_true_iff, IHl, N.eqb_eq. split; intros [H|H]; auto.
Qed.

Lemma memb_false k l : memb k l = false <-> ~ In k l.
Proof. rewrite <- memb_In. destruct (memb k l); split; congruence. Qed.

Lemma nodupb_NoDup l : nodupb l = true -> NoDup l.
Proof.
  induction l; simpl; intros H; [constructor|].
  apply andb_true_iff in H as [H1 H2]. constructor; auto.
  apply negb_true_iff in H1. apply memb_false; auto.
Qed.

(* Σ_{x∈l} [x = k] y  for a duplicate-free l *)
Lemma sumZ_indicator (l : list addr) k y :
  NoDup l -> sumZ (fun x => if N.eqb x k then y else 0) l = if memb k l then y else 0.
Proof.
  induction l; intros Hnd; simpl; [reflexivity|].
  inversion Hnd; subst. rewrite IHl by assumption.
  rewrite (N.eqb_sym k a).
  destruct (N.eqb a k) eqn:E; simpl.
  - apply N.eqb_eq in E; subst. apply memb_false in H1. rewrite H1. ring.
  - ring.
Qed.

Lemma dedup_In x l : In x (dedup l) <-> In x l.
Proof.
  induction l; simpl; [tauto|].
  rewrite filter_In, IHl, negb_true_iff, N.eqb_neq.
  destruct (N.eq_dec a x); subst; intuition.
Qed.

Lemma NoDup_filter {A} (f : A -> bool) l : NoDup l -> NoDup (filter f l).
Proof.
  induction 1; simpl; [constructor|].
  destruct (f x); auto. constructor; auto. rewrite filter_In. tauto.
Qed.

Lemma dedup_NoDup l : NoDup (dedup l).
Proof.
  induction l; simpl; constructor.
  - rewrite filter_In, negb_true_iff, N.eqb_neq. tauto.
  - apply NoDup_filter; assumption.
Qed.

(* ================================================================== floor division *)
Lemma div_add_le a b T : 0 < T -> a / T + b / T <= (a + b) / T.
Proof. intros. nia. Qed.

Lemma floor_sum_le {A} (f : A -> Z) (l : list A) R T :
  0 <= R -> 0 < T -> (forall x, In x l -> 0 <= f x) -> sumZ f l <= T ->
  sumZ (fun x => f x * R / T) l <= R.
Proof.
  intros HR HT Hf Hs.
  assert (H : sumZ (fun x => f x * R / T) l <= sumZ f l * R / T).
  { clear Hs. induction l; simpl.
    - rewrite Z.div_0_l by lia. lia.
    - specialize (IHl (fun x Hx => Hf x (or_intror Hx))).
      pose proof (div_add_le (f a * R) (sumZ f l * R) T HT).
      replace ((f a + sumZ f l) * R) with (f a * R + sumZ f l * R) by ring. lia. }
  assert (sumZ f l * R / T <= R).
  { assert (sumZ f l * R <= T * R) by nia.
    apply Z.div_le_upper_bound; lia. }
  lia.
Qed.

Lemma big_div_pos x y : 0 < y -> big_div x y = x / y.
Proof. intros H. unfold big_div. destruct (0 <? y) eqn:E; [reflexivity|lia]. Qed.

Lemma big_div_0_l y : big_div 0 y = 0.
Proof. unfold big_div. destruct (0 <? y); [apply Zdiv_0_l|]. destruct (y <? 0); [rewrite Zdiv_0_l|]; reflexivity. Qed.

Lemma big_div_0_r x : big_div x 0 = 0.
Proof. reflexivity. Qed.

Lemma big_div_nonneg x y : 0 <= x -> 0 <= y -> 0 <= big_div x y.
Proof.
  intros Hx Hy. destruct (Z.eq_dec y 0); [subst; rewrite big_div_0_r; lia|].
  rewrite big_div_pos by lia. apply Z.div_pos; lia.
Qed.

(* ================================================================== association maps *)
Definition keys {V} (m : amap V) : list addr := map fst m.

Lemma aget_aset_same {V} k (v : V) m : aget k (aset k v m) = Some v.
Proof.
  induction m as [|[k' v'] m]; simpl.
  - rewrite N.eqb_refl. reflexivity.
  - destruct (N.eqb k k') eqn:E; simpl; rewrite ?N.eqb_refl, ?E; auto.
Qed.

Lemma aget_aset_other {V} k k' (v : V) m : k' <> k -> aget k' (aset k v m) = aget k' m.
Proof.
  intros Hne. induction m as [|[k2 v2] m]; simpl.
  - apply N.eqb_neq in Hne. rewrite Hne. reflexivity.
  - destruct (N.eqb k k2) eqn:E; simpl.
    + apply N.eqb_eq in E; subst. apply N.eqb_neq in Hne. rewrite Hne. reflexivity.
    + destruct (N.eqb k' k2); auto.
Qed.

Lemma aget_aset {V} k k' (v : V) m :
  aget k' (aset k v m) = if N.eqb k' k then Some v else aget k' m.
Proof.
  destruct (N.eqb k' k) eqn:E.
  - apply N.eqb_eq in E; subst. apply aget_aset_same.
  - apply N.eqb_neq in E. apply aget_aset_other; assumption.
Qed.

Lemma aget_In_keys {V} k (m : amap V) : (exists v, aget k m = Some v) <-> In k (keys m).
Proof.
  induction m as [|[k' v'] m]; simpl.
  - split; [intros [v H]; discriminate|tauto].
  - destruct (N.eqb k k') eqn:E.
    + apply N.eqb_eq in E; subst. split; eauto.
    + apply N.eqb_neq in E. rewrite IHm. split; [auto|intros [H|H]; congruence].
Qed.

Lemma aget_None_keys {V} k (m : amap V) : aget k m = None <-> ~ In k (keys m).
Proof.
  split.
  - intros H Hin. apply aget_In_keys in Hin as [v Hv]. congruence.
  - intros H. destruct (aget k m) eqn:E; [|reflexivity]. exfalso. apply H. apply aget_In_keys. eauto.
Qed.

Lemma keys_aset_in {V} k (v : V) m : In k (keys m) -> keys (aset k v m) = keys m.
Proof.
  induction m as [|[k' v'] m]; simpl; [tauto|].
  intros H. destruct (N.eqb k k') eqn:E; simpl.
  - apply N.eqb_eq in E; subst; reflexivity.
  - apply N.eqb_neq in E. f_equal. apply IHm. destruct H; congruence.
Qed.

Lemma keys_aset_notin {V} k (v : V) m : ~ In k (keys m) -> keys (aset k v m) = keys m ++ [k].
Proof.
  induction m as [|[k' v'] m]; simpl; [reflexivity|].
  intros H. destruct (N.eqb k k') eqn:E; simpl.
  - apply N.eqb_eq in E; subst. tauto.
  - f_equal. apply IHm. tauto.
Qed.

Lemma keys_aset_NoDup {V} k (v : V) m : NoDup (keys m) -> NoDup (keys (aset k v m)).
Proof.
  intros H. destruct (in_dec N.eq_dec k (keys m)).
  - rewrite keys_aset_in; assumption.
  - rewrite keys_aset_notin by assumption.
    apply NoDup_rev in H. rewrite <- (rev_involutive (keys m ++ [k])).
    apply NoDup_rev. rewrite rev_app_distr. simpl. constructor; auto.
    rewrite <- in_rev. assumption.
Qed.

Lemma keys_aset_incl {V} k k' (v : V) m : In k' (keys m) -> In k' (keys (aset k v m)).
Proof.
  intros H. destruct (in_dec N.eq_dec k (keys m)).
  - rewrite keys_aset_in; assumption.
  - rewrite keys_aset_notin by assumption. apply in_or_app; auto.
Qed.

Lemma aset_same {V} k (v : V) m : aget k m = Some v -> aset k v m = m.
Proof.
  induction m as [|[k' v'] m]; simpl; [discriminate|].
  destruct (N.eqb k k') eqn:E.
  - apply N.eqb_eq in E; subst. intros H; inversion H; reflexivity.
  - intros H. rewrite IHm; auto.
Qed.

Lemma aget_update_key {V} k k' (f : V -> V) m :
  aget k' (update_key k f m) = if N.eqb k' k then option_map f (aget k m) else aget k' m.
Proof.
  unfold update_key. destruct (aget k m) eqn:E.
  - rewrite aget_aset. destruct (N.eqb k' k); reflexivity.
  - destruct (N.eqb k' k) eqn:E2; [|reflexivity].
    apply N.eqb_eq in E2; subst. simpl. assumption.
Qed.

Lemma keys_update_key {V} k (f : V -> V) m : keys (update_key k f m) = keys m.
Proof.
  unfold update_key. destruct (aget k m) eqn:E; [|reflexivity].
  apply keys_aset_in. apply aget_In_keys. eauto.
Qed.

(* fold of update_key over a duplicate-free key list *)
Lemma aget_fold_update {V} (f : V -> V) l : forall m k,
  NoDup l ->
  aget k (fold_left (fun m k => update_key k f m) l m) =
  if memb k l then option_map f (aget k m) else aget k m.
Proof.
  induction l as [|a l IH]; intros m k Hnd; simpl; [reflexivity|].
  inversion Hnd; subst. rewrite IH by assumption.
  rewrite aget_update_key.
  destruct (N.eqb k a) eqn:E; simpl.
  - apply N.eqb_eq in E; subst. apply memb_false in H1. rewrite H1. reflexivity.
  - reflexivity.
Qed.

Lemma keys_fold_update {V} (f : V -> V) l : forall m,
  keys (fold_left (fun m k => update_key k f m) l m) = keys m.
Proof.
  induction l as [|a l IH]; intros m; simpl; [reflexivity|].
  rewrite IH. apply keys_update_key.
Qed.

(* Σ over the entries of a map, reindexed over a duplicate-free key set outside of which the summand vanishes *)
Lemma sumZ_entries_pick {V} (F : addr -> V -> Z) (m : amap V) k :
  NoDup (keys m) ->
  sumZ (fun e => if N.eqb (fst e) k then F (fst e) (snd e) else 0) m =
  match aget k m with Some v => F k v | None => 0 end.
Proof.
  induction m as [|[k' v'] m IH]; intros Hnd; simpl; [reflexivity|].
  inversion Hnd; subst. rewrite IH by assumption.
  rewrite (N.eqb_sym k k').
  destruct (N.eqb k' k) eqn:E.
  - apply N.eqb_eq in E; subst.
    assert (aget k m = None) as -> by (apply aget_None_keys; assumption). ring.
  - ring.
Qed.

Lemma sumZ_entries_reindex {V} (F : addr -> V -> Z) (m : amap V) (R : list addr) :
  NoDup (keys m) -> NoDup R ->
  (forall k v, In (k, v) m -> ~ In k R -> F k v = 0) ->
  sumZ (fun e => F (fst e) (snd e)) m =
  sumZ (fun k => match aget k m with Some v => F k v | None => 0 end) R.
Proof.
  intros Hm HR Hz.
  rewrite (sumZ_ext_in _ (fun e => sumZ (fun k => if N.eqb k (fst e) then F (fst e) (snd e) else 0) R)).
  2:{ intros [k v] Hin. simpl. rewrite sumZ_indicator by assumption.
      destruct (memb k R) eqn:E; [reflexivity|]. apply Hz; auto. apply memb_false; assumption. }
  rewrite sumZ_swap. apply sumZ_ext_in. intros k _.
  rewrite <- sumZ_entries_pick by assumption.
  apply sumZ_ext_in. intros [k' v'] _. simpl. rewrite (N.eqb_sym k k'). reflexivity.
Qed.

Lemma aget_In {V} k (v : V) m : aget k m = Some v -> In (k, v) m.
Proof.
  induction m as [|[k' v'] m]; simpl; [discriminate|].
  destruct (N.eqb k k') eqn:E.
  - apply N.eqb_eq in E; subst. intros H; inversion H; auto.
  - auto.
Qed.

Lemma In_aget {V} k (v : V) m : NoDup (keys m) -> In (k, v) m -> aget k m = Some v.
Proof.
  induction m as [|[k' v'] m]; simpl; [tauto|].
  intros Hnd [H|H]; inversion Hnd; subst.
  - inversion H; subst. rewrite N.eqb_refl. reflexivity.
  - destruct (N.eqb k k') eqn:E.
    + apply N.eqb_eq in E; subst. exfalso. apply H2. change k' with (fst (k', v)). apply in_map; assumption.
    + auto.
Qed.

(* ================================================================== one P-Rep through the events *)
Section Proj.
Variables br elected limit : Z.

Definition vote_step (k : addr) (ty : vtype) (o : Z) (s : prep) (v : addr * Z) : prep :=
  if N.eqb (fst v) k then prep_apply_vote ty (snd v) (limit - o) br s else s.

(* what processEvents does to the P-Rep stored under key k *)
Definition prep_step (k : addr) (s : prep) (oe : Z * event) : prep :=
  match oe with
  | (_, EEnable t st) => if N.eqb t k then set_status st s else s
  | (o, EVote ty _ vs) => fold_left (vote_step k ty o) vs s
  end.

Lemma pi_apply_one_get ty o pi v k s :
  aget k (pi_preps pi) = Some s ->
  aget k (pi_preps (pi_apply_one br limit ty o pi v)) = Some (vote_step k ty o s v).
Proof.
  intros Hk. destruct v as [to a]. unfold pi_apply_one, vote_step. simpl fst; simpl snd.
  destruct (aget to (pi_preps pi)) eqn:E.
  - simpl. rewrite aget_update_key. rewrite (N.eqb_sym to k).
    destruct (N.eqb k to) eqn:E2.
    + apply N.eqb_eq in E2; subst. rewrite E in Hk. inversion Hk; subst. rewrite E. reflexivity.
    + assumption.
  - assert (k <> to) by (intros ->; congruence).
    simpl. rewrite aget_update_key. rewrite (N.eqb_sym to k).
    destruct (N.eqb k to) eqn:E2; [apply N.eqb_eq in E2; congruence|].
    rewrite aget_aset_other by assumption. assumption.
Qed.

Lemma pi_apply_one_rank ty o pi v :
  pi_rank (pi_apply_one br limit ty o pi v) = pi_rank pi /\ pi_total (pi_apply_one br limit ty o pi v) = pi_total pi.
Proof.
  destruct v as [to a]. unfold pi_apply_one. destruct (aget to (pi_preps pi)); simpl; auto.
Qed.

Lemma pi_apply_vote_get ty o vs : forall pi k s,
  aget k (pi_preps pi) = Some s ->
  aget k (pi_preps (pi_apply_vote br limit ty vs o pi)) = Some (fold_left (vote_step k ty o) vs s).
Proof.
  unfold pi_apply_vote. induction vs as [|v vs IH]; intros pi k s Hk; simpl; [assumption|].
  apply IH. apply pi_apply_one_get; assumption.
Qed.

Lemma pi_apply_vote_rank ty o vs : forall pi,
  pi_rank (pi_apply_vote br limit ty vs o pi) = pi_rank pi /\ pi_total (pi_apply_vote br limit ty vs o pi) = pi_total pi.
Proof.
  unfold pi_apply_vote. induction vs as [|v vs IH]; intros pi; simpl; [auto|].
  destruct (IH (pi_apply_one br limit ty o pi v)) as [H1 H2].
  destruct (pi_apply_one_rank ty o pi v) as [H3 H4]. split; congruence.
Qed.

Lemma process_event_get pi oe k s :
  aget k (pi_preps pi) = Some s ->
  aget k (pi_preps (process_event br limit pi oe)) = Some (prep_step k s oe).
Proof.
  intros Hk. destruct oe as [o [t st|ty from vs]]; simpl.
  - unfold pi_set_status. destruct (aget t (pi_preps pi)) eqn:E; simpl.
    + rewrite aget_aset. rewrite (N.eqb_sym t k). destruct (N.eqb k t) eqn:E2; [|assumption].
      apply N.eqb_eq in E2; subst. congruence.
    + rewrite aget_aset. rewrite (N.eqb_sym t k). destruct (N.eqb k t) eqn:E2; [|assumption].
      apply N.eqb_eq in E2; subst. congruence.
  - apply pi_apply_vote_get; assumption.
Qed.

Lemma process_event_rank pi oe :
  pi_rank (process_event br limit pi oe) = pi_rank pi.
Proof.
  destruct oe as [o [t st|ty from vs]]; simpl.
  - unfold pi_set_status. destruct (aget t (pi_preps pi)); reflexivity.
  - apply pi_apply_vote_rank.
Qed.

Lemma process_events_get evs : forall pi k s,
  aget k (pi_preps pi) = Some s ->
  aget k (pi_preps (fold_left (process_event br limit) evs pi)) = Some (fold_left (prep_step k) evs s).
Proof.
  induction evs as [|oe evs IH]; intros pi k s Hk; simpl; [assumption|].
  apply IH. apply process_event_get; assumption.
Qed.

Lemma process_events_rank evs : forall pi,
  pi_rank (fold_left (process_event br limit) evs pi) = pi_rank pi.
Proof.
  induction evs as [|oe evs IH]; intros pi; simpl; [reflexivity|].
  rewrite IH. apply process_event_rank.
Qed.

(* ------------------------------------------------------------------ invariants of the whole map *)
Definition all_vals {V} (P : V -> Prop) (m : amap V) : Prop := forall k v, aget k m = Some v -> P v.

Lemma all_vals_aset {V} (P : V -> Prop) k v m : all_vals P m -> P v -> all_vals P (aset k v m).
Proof.
  intros Hm Hv k' v' H. rewrite aget_aset in H. destruct (N.eqb k' k).
  - inversion H; subst; assumption.
  - eapply Hm; eassumption.
Qed.

Lemma all_vals_update_key {V} (P : V -> Prop) k f m :
  all_vals P m -> (forall v, P v -> P (f v)) -> all_vals P (update_key k f m).
Proof.
  intros Hm Hf. unfold update_key. destruct (aget k m) eqn:E; [|assumption].
  apply all_vals_aset; auto. apply Hf. eapply Hm; eassumption.
Qed.

Lemma all_vals_fold_update {V} (P : V -> Prop) f l : forall m,
  all_vals P m -> (forall v, P v -> P (f v)) -> all_vals P (fold_left (fun m k => update_key k f m) l m).
Proof.
  induction l; intros m Hm Hf; simpl; [assumption|].
  apply IHl; auto. apply all_vals_update_key; auto.
Qed.

(* no reward has been computed yet *)
Definition rewards_zero (p : prep) : Prop := p_comm p = 0 /\ p_vr p = 0 /\ p_wage p = 0.

Lemma rewards_zero_apply_vote ty a per p : rewards_zero p -> rewards_zero (prep_apply_vote ty a per br p).
Proof.
  unfold prep_apply_vote, rewards_zero. destruct ty; simpl;
  match goal with |- context [if ?c then _ else _] => destruct c end; simpl; auto.
Qed.

Lemma process_event_inv (P : prep -> Prop) pi oe :
  (forall ty a per p, P p -> P (prep_apply_vote ty a per br p)) ->
  (forall st p, P p -> P (set_status st p)) ->
  (forall k st, P (prep_update_power br (new_prep k st 0 0 0 false))) ->
  all_vals P (pi_preps pi) /\ NoDup (keys (pi_preps pi)) ->
  all_vals P (pi_preps (process_event br limit pi oe)) /\ NoDup (keys (pi_preps (process_event br limit pi oe))).
Proof.
  intros Hv Hs Hn. destruct oe as [o [t st|ty from vs]]; simpl.
  - intros [Ha Hd]. unfold pi_set_status. destruct (aget t (pi_preps pi)) eqn:E; simpl.
    + split; [apply all_vals_aset; auto; apply Hs; eapply Ha; eassumption|apply keys_aset_NoDup; assumption].
    + split; [apply all_vals_aset; auto|apply keys_aset_NoDup; assumption].
  - unfold pi_apply_vote. revert pi. induction vs as [|[to a] vs IH]; intros pi [Ha Hd]; simpl; [auto|].
    apply IH. unfold pi_apply_one. destruct (aget to (pi_preps pi)) eqn:E; simpl.
    + split; [apply all_vals_update_key; auto|rewrite keys_update_key; assumption].
    + split; [apply all_vals_update_key; auto; apply all_vals_aset; auto
             |rewrite keys_update_key; apply keys_aset_NoDup; assumption].
Qed.

Lemma process_events_inv (P : prep -> Prop) evs :
  (forall ty a per p, P p -> P (prep_apply_vote ty a per br p)) ->
  (forall st p, P p -> P (set_status st p)) ->
  (forall k st, P (prep_update_power br (new_prep k st 0 0 0 false))) ->
  forall pi,
  all_vals P (pi_preps pi) /\ NoDup (keys (pi_preps pi)) ->
  all_vals P (pi_preps (fold_left (process_event br limit) evs pi))
  /\ NoDup (keys (pi_preps (fold_left (process_event br limit) evs pi))).
Proof.
  intros Hv Hs Hn. induction evs as [|oe evs IH]; intros pi H; simpl; [assumption|].
  apply IH. apply process_event_inv; assumption.
Qed.

End Proj.

Lemma fold_left_additive {S A} (g : S -> Z) (h : A -> Z) (step : S -> A -> S) :
  (forall s a, g (step s a) = g s + h a) ->
  forall l s, g (fold_left step l s) = g s + sumZ h l.
Proof.
  intros H. induction l; intros s; simpl; [lia|]. rewrite IHl, H. lia.
Qed.

Lemma fold_left_frame {S A B} (g : S -> B) (step : S -> A -> S) :
  (forall s a, g (step s a) = g s) ->
  forall l s, g (fold_left step l s) = g s.
Proof.
  intros H. induction l; intros s; simpl; [reflexivity|]. rewrite IHl, H. reflexivity.
Qed.

Definition vtype_eqb (a b : vtype) : bool :=
  match a, b with VBond, VBond | VDelegate, VDelegate => true | _, _ => false end.

(* votes of one list that go to k *)
Definition amount_to (k : addr) (vs : votes) : Z := sumZ (fun v => if N.eqb (fst v) k then snd v else 0) vs.

(* votes of kind ty that an event gives to k *)
Definition ev_amount (ty : vtype) (k : addr) (oe : Z * event) : Z :=
  match snd oe with
  | EVote t _ vs => if vtype_eqb t ty then amount_to k vs else 0
  | EEnable _ _ => 0
  end.

Lemma amount_to_notin k vs : ~ In k (map fst vs) -> amount_to k vs = 0.
Proof.
  intros H. apply sumZ_zero. intros [to a] Hin. simpl.
  destruct (N.eqb to k) eqn:E; [|reflexivity].
  apply N.eqb_eq in E; subst. exfalso. apply H. change k with (fst (k, a)). apply in_map; assumption.
Qed.

Lemma getz_amount_to k (vs : votes) : NoDup (map fst vs) -> getz k vs = amount_to k vs.
Proof.
  unfold getz, amount_to. induction vs as [|[to a] vs IH]; intros Hnd; simpl; [reflexivity|].
  inversion Hnd; subst. rewrite (N.eqb_sym k to). destruct (N.eqb to k) eqn:E.
  - apply N.eqb_eq in E; subst. fold (amount_to k vs). rewrite amount_to_notin by assumption. lia.
  - rewrite IH by assumption. lia.
Qed.

Fixpoint run_ok (fb fd : Z * event -> Z) (evs : list (Z * event)) (b d : Z) : Prop :=
  0 <= b /\ 0 <= d /\
  match evs with
  | [] => True
  | oe :: rest => run_ok fb fd rest (b + fb oe) (d + fd oe)
  end.

Lemma run_ok_head fb fd evs b d : run_ok fb fd evs b d -> 0 <= b /\ 0 <= d.
Proof. destruct evs; simpl; tauto. Qed.

Section PrepFold.
Variables br limit : Z.
Hypothesis Hbr : 0 <= br.

Definition frame (s : prep) := (p_rate s, p_rank s, p_owner s, p_pubkey s, p_comm s, p_vr s, p_wage s).

Lemma apply_vote_frame ty a per s : frame (prep_apply_vote ty a per br s) = frame s.
Proof.
  unfold prep_apply_vote, frame. destruct ty; simpl;
  match goal with |- context [if ?c then _ else _] => destruct c end; reflexivity.
Qed.

Lemma prep_step_frame k s oe : frame (prep_step br limit k s oe) = frame s.
Proof.
  destruct oe as [o [t st|ty from vs]]; simpl.
  - destruct (N.eqb t k); reflexivity.
  - apply fold_left_frame. intros s' v. unfold vote_step. cbv beta. unfold addr in *. destruct (N.eqb (fst v) k); [apply apply_vote_frame|reflexivity].
Qed.

Lemma prep_fold_frame k evs s : frame (fold_left (prep_step br limit k) evs s) = frame s.
Proof. apply fold_left_frame. intros; apply prep_step_frame. Qed.

Lemma apply_vote_bonded ty a per s :
  p_bonded (prep_apply_vote ty a per br s) = p_bonded s + (if vtype_eqb ty VBond then a else 0).
Proof.
  unfold prep_apply_vote. destruct ty; simpl;
  match goal with |- context [if ?c then _ else _] => destruct c end; simpl; lia.
Qed.

Lemma apply_vote_delegated ty a per s :
  p_delegated (prep_apply_vote ty a per br s) = p_delegated s + (if vtype_eqb ty VDelegate then a else 0).
Proof.
  unfold prep_apply_vote. destruct ty; simpl;
  match goal with |- context [if ?c then _ else _] => destruct c end; simpl; lia.
Qed.

Lemma apply_vote_accv ty a per s : p_accv (prep_apply_vote ty a per br s) = p_accv s + a * per.
Proof.
  unfold prep_apply_vote. destruct ty; simpl;
  match goal with |- context [if ?c then _ else _] => destruct c end; simpl; lia.
Qed.

Lemma apply_vote_status ty a per s : p_status (prep_apply_vote ty a per br s) = p_status s.
Proof.
  unfold prep_apply_vote. destruct ty; simpl;
  match goal with |- context [if ?c then _ else _] => destruct c end; reflexivity.
Qed.

Lemma prep_step_bonded k s oe :
  p_bonded (prep_step br limit k s oe) = p_bonded s + ev_amount VBond k oe.
Proof.
  destruct oe as [o [t st|ty from vs]]; unfold ev_amount; simpl.
  - destruct (N.eqb t k); simpl; lia.
  - rewrite (fold_left_additive p_bonded (fun v => if vtype_eqb ty VBond then (if N.eqb (fst v) k then snd v else 0) else 0)).
    + destruct (vtype_eqb ty VBond); [reflexivity|]. rewrite sumZ_zero; auto.
    + intros s' v. unfold vote_step. cbv beta. unfold addr in *. destruct (N.eqb (fst v) k).
      * apply apply_vote_bonded.
      * destruct (vtype_eqb ty VBond); lia.
Qed.

Lemma prep_step_delegated k s oe :
  p_delegated (prep_step br limit k s oe) = p_delegated s + ev_amount VDelegate k oe.
Proof.
  destruct oe as [o [t st|ty from vs]]; unfold ev_amount; simpl.
  - destruct (N.eqb t k); simpl; lia.
  - rewrite (fold_left_additive p_delegated (fun v => if vtype_eqb ty VDelegate then (if N.eqb (fst v) k then snd v else 0) else 0)).
    + destruct (vtype_eqb ty VDelegate); [reflexivity|]. rewrite sumZ_zero; auto.
    + intros s' v. unfold vote_step. cbv beta. unfold addr in *. destruct (N.eqb (fst v) k).
      * apply apply_vote_delegated.
      * destruct (vtype_eqb ty VDelegate); lia.
Qed.

(* all votes (bond and delegation) an event gives to k *)
Definition ev_votes (k : addr) (oe : Z * event) : Z := ev_amount VBond k oe + ev_amount VDelegate k oe.

Lemma ev_votes_eq k o ty from vs : ev_votes k (o, EVote ty from vs) = amount_to k vs.
Proof. unfold ev_votes, ev_amount. simpl. destruct ty; simpl; lia. Qed.

Lemma prep_step_accv k s oe :
  p_accv (prep_step br limit k s oe) = p_accv s + ev_votes k oe * (limit - fst oe).
Proof.
  destruct oe as [o [t st|ty from vs]].
  - unfold ev_votes, ev_amount. simpl. destruct (N.eqb t k); simpl; lia.
  - rewrite ev_votes_eq. simpl.
    rewrite (fold_left_additive p_accv (fun v => (if N.eqb (fst v) k then snd v else 0) * (limit - o))).
    + unfold amount_to. rewrite sumZ_mul_r. reflexivity.
    + intros s' v. unfold vote_step. cbv beta. unfold addr in *. destruct (N.eqb (fst v) k); [apply apply_vote_accv|lia].
Qed.

(* weighted votes for k over the term's events *)
Definition wsum (k : addr) (evs : list (Z * event)) : Z :=
  sumZ (fun oe => ev_votes k oe * (limit - fst oe)) evs.

Lemma prep_fold_accv k evs s :
  p_accv (fold_left (prep_step br limit k) evs s) = p_accv s + wsum k evs.
Proof. apply fold_left_additive. intros; apply prep_step_accv. Qed.

(* with distinct targets, a vote list touches a P-Rep at most once *)
Lemma fold_vote_step_notin k ty o vs : forall s,
  ~ In k (map fst vs) -> fold_left (vote_step br limit k ty o) vs s = s.
Proof.
  induction vs as [|[to a] vs IH]; intros s H; simpl; [reflexivity|].
  unfold vote_step at 2. simpl. destruct (N.eqb to k) eqn:E.
  - apply N.eqb_eq in E; subst. simpl in H. tauto.
  - apply IH. simpl in H. tauto.
Qed.

Lemma fold_vote_step_in k ty o vs : forall s,
  NoDup (map fst vs) -> In k (map fst vs) ->
  fold_left (vote_step br limit k ty o) vs s = prep_apply_vote ty (amount_to k vs) (limit - o) br s.
Proof.
  induction vs as [|[to a] vs IH]; intros s Hnd Hin; simpl; [destruct Hin|].
  inversion Hnd; subst. unfold vote_step at 2. unfold amount_to. simpl. destruct (N.eqb to k) eqn:E.
  - apply N.eqb_eq in E; subst. rewrite fold_vote_step_notin by assumption.
    fold (amount_to k vs). rewrite amount_to_notin by assumption. rewrite Z.add_0_r. reflexivity.
  - fold (amount_to k vs). rewrite Z.add_0_l. apply IH; auto.
    destruct Hin as [H|H]; [|assumption]. simpl in H. apply N.eqb_neq in E. congruence.
Qed.

(* ------------------------------------------------------------------ the accumulation invariant *)
Lemma calc_power_bounds bonded voted :
  0 <= bonded -> 0 <= voted -> 0 <= calc_power br bonded voted <= voted.
Proof.
  intros Hb Hv. unfold calc_power. destruct (br =? 0) eqn:E; [lia|].
  assert (0 < br) by lia. rewrite big_div_pos by assumption.
  assert (0 <= bonded * denom_in_rate / br) by (apply Z.div_pos; unfold denom_in_rate; lia).
  lia.
Qed.

Definition pinv (o : Z) (s : prep) : Prop :=
  0 <= p_bonded s /\ 0 <= p_voted s /\ p_power s = prep_calc_power br s /\
  p_power s * (limit - o) <= p_accp s /\
  (p_voted s - p_power s) * (limit - o) <= p_accv s - p_accp s.

Lemma pinv_power s o : pinv o s -> 0 <= p_power s <= p_voted s.
Proof.
  intros (Hb & Hv & Hp & _). rewrite Hp. unfold prep_calc_power. apply calc_power_bounds; assumption.
Qed.

Lemma pinv_mono o o' s : pinv o s -> o <= o' -> o' <= limit -> pinv o' s.
Proof.
  intros H Ho Hl. pose proof (pinv_power _ _ H) as Hpw.
  destruct H as (Hb & Hv & Hp & Ha & Hc). repeat split; try assumption; nia.
Qed.

Lemma pinv_set_status o st s : pinv o s -> pinv o (set_status st s).
Proof. unfold pinv, prep_calc_power, p_voted. simpl. tauto. Qed.

Lemma pinv_apply_vote o o' ty a s :
  pinv o s -> o <= o' -> o' <= limit ->
  0 <= p_bonded (prep_apply_vote ty a (limit - o') br s) ->
  0 <= p_voted (prep_apply_vote ty a (limit - o') br s) ->
  pinv o' (prep_apply_vote ty a (limit - o') br s).
Proof.
  intros H Ho Hl Hb' Hv'. pose proof (pinv_power _ _ H) as Hpw.
  destruct H as (Hb & Hv & Hp & Ha & Hc).
  unfold pinv. split; [assumption|]. split; [assumption|].
  revert Hb' Hv'. unfold prep_apply_vote. cbv zeta.
  set (p1 := match ty with VBond => set_bonded (p_bonded s + a) s | VDelegate => set_delegated (p_delegated s + a) s end).
  set (p2 := set_accv (p_accv p1 + a * (limit - o')) p1).
  assert (Hv2 : p_voted p2 = p_voted s + a) by (unfold p2, p1, p_voted; destruct ty; simpl; lia).
  assert (Hpw2 : p_power p2 = p_power s) by (unfold p2, p1; destruct ty; reflexivity).
  assert (Hap2 : p_accp p2 = p_accp s) by (unfold p2, p1; destruct ty; reflexivity).
  assert (Hav2 : p_accv p2 = p_accv s + a * (limit - o')) by (unfold p2, p1; destruct ty; reflexivity).
  assert (Hbd2 : p_bonded p2 = p_bonded p1) by reflexivity.
  destruct (p_power p2 =? prep_calc_power br p2) eqn:E.
  - intros Hb' Hv'. split; [lia|]. rewrite Hav2, Hap2, Hv2, Hpw2. rewrite Hv2 in Hv'. nia.
  - intros Hb' Hv'.
    set (pw := prep_calc_power br p2) in *.
    assert (Hpw' : 0 <= pw <= p_voted p2).
    { unfold pw, prep_calc_power. apply calc_power_bounds.
      - simpl in Hb'. assumption.
      - unfold p_voted in *. simpl in Hv'. assumption. }
    set (X := set_accp (p_accp p2 + (pw - p_power p2) * (limit - o')) (set_power pw p2)).
    assert (HX1 : p_power X = pw) by reflexivity.
    assert (HX2 : p_accp X = p_accp p2 + (pw - p_power p2) * (limit - o')) by reflexivity.
    assert (HX3 : p_accv X = p_accv p2) by reflexivity.
    assert (HX4 : p_voted X = p_voted p2) by reflexivity.
    assert (HX5 : prep_calc_power br X = pw) by reflexivity.
    rewrite HX1, HX2, HX3, HX4, HX5, Hap2, Hav2, Hpw2. rewrite Hv2 in *.
    split; [reflexivity|]. nia.
Qed.

Lemma prep_fold_inv k : forall evs s o,
  offsets_ok o limit evs = true -> forallb event_ok evs = true ->
  run_ok (ev_amount VBond k) (ev_amount VDelegate k) evs (p_bonded s) (p_delegated s) ->
  o <= limit -> pinv o s ->
  exists o', o' <= limit /\ pinv o' (fold_left (prep_step br limit k) evs s).
Proof.
  induction evs as [|[o' ev] evs IH]; intros s o Hoff Hev Hrun Hol Hinv; simpl.
  - exists o; auto.
  - simpl in Hoff. apply andb_true_iff in Hoff as [Hoff Hoff3]. apply andb_true_iff in Hoff as [Hoff1 Hoff2].
    simpl in Hev. apply andb_true_iff in Hev as [Hev1 Hev2].
    destruct Hrun as (_ & _ & Hrun).
    rewrite <- (prep_step_bonded k s (o', ev)), <- (prep_step_delegated k s (o', ev)) in Hrun.
    apply (IH _ o'); try assumption; try lia.
    pose proof (run_ok_head _ _ _ _ _ Hrun) as [Hb' Hd'].
    destruct ev as [t st|ty from vs]; simpl.
    + destruct (N.eqb t k); [apply pinv_set_status|]; apply (pinv_mono o); auto; lia.
    + unfold event_ok in Hev1. simpl in Hev1. apply nodupb_NoDup in Hev1.
      destruct (in_dec N.eq_dec k (map fst vs)) as [Hin|Hnin].
      * simpl in Hb', Hd'. rewrite fold_vote_step_in in * by assumption.
        apply (pinv_apply_vote o); auto; try lia. unfold p_voted. lia.
      * rewrite fold_vote_step_notin by assumption. apply (pinv_mono o); auto; lia.
Qed.

End PrepFold.

(* ================================================================== the voters' side *)
Definition ev_from (oe : Z * event) : option addr :=
  match snd oe with EVote _ from _ => Some from | EEnable _ _ => None end.

(* votes of kind ty that an event gives to k on behalf of voter v *)
Definition ev_amount_from (v : addr) (ty : vtype) (k : addr) (oe : Z * event) : Z :=
  match snd oe with
  | EVote t from vs => if N.eqb from v then (if vtype_eqb t ty then amount_to k vs else 0) else 0
  | EEnable _ _ => 0
  end.

Lemma sum_ev_amount_from (V : list addr) ty k oe :
  NoDup V -> (forall from, ev_from oe = Some from -> In from V) ->
  sumZ (fun v => ev_amount_from v ty k oe) V = ev_amount ty k oe.
Proof.
  intros Hnd Hin. destruct oe as [o [t st|t from vs]]; unfold ev_amount_from, ev_amount; simpl.
  - apply sumZ_zero; auto.
  - rewrite (sumZ_ext_in _ (fun v => if N.eqb v from then (if vtype_eqb t ty then amount_to k vs else 0) else 0)).
    2:{ intros v _. rewrite (N.eqb_sym from v). reflexivity. }
    rewrite sumZ_indicator by assumption.
    assert (memb from V = true) as -> by (apply memb_In; apply Hin; reflexivity). reflexivity.
Qed.

Lemma getz_aset q k v (m : amap Z) : getz q (aset k v m) = if N.eqb q k then v else getz q m.
Proof. unfold getz. rewrite aget_aset. destruct (N.eqb q k); reflexivity. Qed.

Lemma amount_to_cons q to a vs : amount_to q ((to, a) :: vs) = (if N.eqb to q then a else 0) + amount_to q vs.
Proof. reflexivity. Qed.

Lemma apply_votes_spec : forall vs m m',
  apply_votes m vs = Some m' -> (forall q, 0 <= getz q m) ->
  forall q, getz q m' = getz q m + amount_to q vs /\ 0 <= getz q m'.
Proof.
  induction vs as [|[to a] vs IH]; intros m m' H Hm q; simpl in H.
  - inversion H; subst. unfold amount_to; simpl. split; [lia|apply Hm].
  - destruct (getz to m + a <? 0) eqn:E; [discriminate|].
    assert (Hm1 : forall q, 0 <= getz q (aset to (getz to m + a) m)).
    { intros q'. rewrite getz_aset. destruct (N.eqb q' to); [lia|apply Hm]. }
    destruct (IH _ _ H Hm1 q) as [H1 H2]. split; [|assumption].
    rewrite H1, getz_aset, amount_to_cons. rewrite (N.eqb_sym to q).
    destruct (N.eqb q to) eqn:E2; [apply N.eqb_eq in E2; subst|]; lia.
Qed.

Lemma voter_run v k : forall evs d b,
  (forall q, 0 <= getz q d) -> (forall q, 0 <= getz q b) ->
  update_voting_one d b (events_of v evs) <> None ->
  run_ok (ev_amount_from v VBond k) (ev_amount_from v VDelegate k) evs (getz k b) (getz k d).
Proof.
  induction evs as [|[o [t st|t from vs]] evs IH]; intros d b Hd Hb Hok.
  - simpl. auto.
  - simpl. split; [apply Hb|]. split; [apply Hd|].
    unfold ev_amount_from at 3 4. simpl. rewrite !Z.add_0_r. apply IH; auto.
  - simpl in Hok. simpl. split; [apply Hb|]. split; [apply Hd|].
    unfold ev_amount_from at 3 4. simpl.
    destruct (N.eqb from v) eqn:E.
    + simpl in Hok. destruct t; simpl.
      * destruct (apply_votes b vs) as [b'|] eqn:Eb; [|congruence].
        pose proof (apply_votes_spec _ _ _ Eb Hb) as Hs.
        rewrite Z.add_0_r. rewrite <- (proj1 (Hs k)). apply IH; auto. intros q; apply Hs.
      * destruct (apply_votes d vs) as [d'|] eqn:Ed; [|congruence].
        pose proof (apply_votes_spec _ _ _ Ed Hd) as Hs.
        rewrite Z.add_0_r. rewrite <- (proj1 (Hs k)). apply IH; auto. intros q; apply Hs.
    + rewrite !Z.add_0_r. apply IH; auto.
Qed.

Lemma run_ok_sum {A} (V : list A) (fb fd : A -> Z * event -> Z) : forall evs (b d : A -> Z),
  (forall v, In v V -> run_ok (fb v) (fd v) evs (b v) (d v)) ->
  run_ok (fun oe => sumZ (fun v => fb v oe) V) (fun oe => sumZ (fun v => fd v oe) V) evs (sumZ b V) (sumZ d V).
Proof.
  induction evs as [|oe evs IH]; intros b d H; simpl.
  - split; [|split; [|exact I]]; apply sumZ_nonneg; intros v Hv; apply (H v Hv).
  - split; [|split]; try (apply sumZ_nonneg; intros v Hv; apply (H v Hv)).
    rewrite <- !sumZ_add. apply IH. intros v Hv. apply (H v Hv).
Qed.

Lemma run_ok_ext fb fd fb' fd' : forall evs b d,
  (forall oe, In oe evs -> fb oe = fb' oe /\ fd oe = fd' oe) ->
  run_ok fb fd evs b d -> run_ok fb' fd' evs b d.
Proof.
  induction evs as [|oe evs IH]; intros b d He H; simpl in *; [assumption|].
  destruct H as (H1 & H2 & H3). split; [assumption|]. split; [assumption|].
  destruct (He oe (or_introl eq_refl)) as [<- <-]. apply IH; auto.
Qed.

(* Abel summation: a quantity that is never negative accumulates to a non-negative total *)
Lemma abel_nonneg limit fb fd : forall evs b d o acc,
  run_ok fb fd evs b d -> offsets_ok o limit evs = true -> o <= limit ->
  (b + d) * (limit - o) <= acc ->
  0 <= acc + sumZ (fun oe => (fb oe + fd oe) * (limit - fst oe)) evs.
Proof.
  induction evs as [|[o' ev] evs IH]; intros b d o acc Hrun Hoff Hol Hacc; simpl in *.
  - destruct Hrun as (Hb & Hd & _). nia.
  - destruct Hrun as (Hb & Hd & Hrun).
    apply andb_true_iff in Hoff as [Hoff Hoff3]. apply andb_true_iff in Hoff as [Hoff1 Hoff2].
    rewrite Z.add_assoc. apply (IH (b + fb (o', ev)) (d + fd (o', ev)) o'); try assumption; try lia. nia.
Qed.

(* ------------------------------------------------------------------ accumulated votes of a voter *)
Lemma voter_apply_getz per m v q :
  getz q (voter_apply per m v) = getz q m + (if N.eqb (fst v) q then snd v else 0) * per.
Proof.
  destruct v as [to a]. unfold voter_apply. simpl. unfold getz at 2.
  destruct (aget to m) eqn:E; rewrite getz_aset; rewrite (N.eqb_sym to q);
  destruct (N.eqb q to) eqn:E2; try (apply N.eqb_eq in E2; subst; unfold getz; rewrite ?E); try lia.
  - unfold getz. lia.
  - unfold getz. lia.
Qed.

Lemma voter_apply_voting_getz vs per : forall m q,
  getz q (voter_apply_voting vs per m) = getz q m + amount_to q vs * per.
Proof.
  unfold voter_apply_voting, amount_to. intros m q.
  rewrite (fold_left_additive (getz q) (fun v => (if N.eqb (fst v) q then snd v else 0) * per)).
  - rewrite sumZ_mul_r. reflexivity.
  - intros; apply voter_apply_getz.
Qed.

Lemma voter_apply_voting_NoDup vs per : forall m,
  NoDup (keys m) -> NoDup (keys (voter_apply_voting vs per m)).
Proof.
  unfold voter_apply_voting. induction vs as [|[to a] vs IH]; intros m H; simpl; [assumption|].
  apply IH. unfold voter_apply. destruct (aget to m); apply keys_aset_NoDup; assumption.
Qed.

Definition ev_votes_from (v k : addr) (oe : Z * event) : Z :=
  ev_amount_from v VBond k oe + ev_amount_from v VDelegate k oe.

Lemma ev_votes_from_eq v k o ty from vs :
  ev_votes_from v k (o, EVote ty from vs) = if N.eqb from v then amount_to k vs else 0.
Proof. unfold ev_votes_from, ev_amount_from. simpl. destruct (N.eqb from v); destruct ty; simpl; lia. Qed.

(* the closed form of a voter's accumulated votes for k *)
Definition acc_votes (i : input) (v k : addr) : Z :=
  (amount_to k (lookup_votes v (i_delegating i)) + amount_to k (lookup_votes v (i_bonding i))) * (i_limit i + 1)
  + sumZ (fun oe => ev_votes_from v k oe * (i_limit i - fst oe)) (i_events i).

Lemma voter_events_getz limit v k : forall evs m,
  getz k (fold_left (fun m (e : Z * vtype * votes) => let '(o, _, vs) := e in voter_apply_voting vs (limit - o) m)
                    (events_of v evs) m)
  = getz k m + sumZ (fun oe => ev_votes_from v k oe * (limit - fst oe)) evs.
Proof.
  induction evs as [|[o [t st|t from vs]] evs IH]; intros m; simpl.
  - lia.
  - rewrite IH. unfold ev_votes_from, ev_amount_from. simpl. lia.
  - rewrite ev_votes_from_eq. destruct (N.eqb from v); simpl.
    + rewrite IH, voter_apply_voting_getz. lia.
    + rewrite IH. lia.
Qed.

Lemma voter_acc_getz i v k : getz k (voter_acc i v) = acc_votes i v k.
Proof.
  unfold voter_acc, acc_votes, term_period. rewrite voter_events_getz, !voter_apply_voting_getz.
  unfold getz at 1. simpl. lia.
Qed.

Lemma voter_acc_NoDup i v : NoDup (keys (voter_acc i v)).
Proof.
  unfold voter_acc.
  set (m1 := voter_apply_voting _ _ (voter_apply_voting _ _ [])).
  assert (H1 : NoDup (keys m1)) by (unfold m1; repeat apply voter_apply_voting_NoDup; constructor).
  revert H1. generalize m1. generalize (events_of v (i_events i)).
  induction l as [|[[o t] vs] l IH]; intros m Hm; simpl; [assumption|].
  apply IH. apply voter_apply_voting_NoDup; assumption.
Qed.

(* ================================================================== loading the P-Reps *)
Lemma fold_left_ext {S A} (f g : S -> A -> S) : (forall s a, f s a = g s a) ->
  forall l s, fold_left f l s = fold_left g l s.
Proof. intros H. induction l; intros s; simpl; [reflexivity|]. rewrite H. apply IHl. Qed.

Lemma insert_by_perm x l : Permutation (insert_by x l) (x :: l).
Proof.
  induction l as [|y l IH]; simpl; [reflexivity|].
  destruct (bigger x y); [reflexivity|].
  rewrite IH. apply perm_swap.
Qed.

Lemma sort_preps_perm l : Permutation (sort_preps l) l.
Proof.
  induction l as [|x l IH]; simpl; [reflexivity|].
  rewrite insert_by_perm. constructor. assumption.
Qed.

Lemma NoDup_app_l {A} (l1 l2 : list A) : NoDup (l1 ++ l2) -> NoDup l1.
Proof.
  induction l1; simpl; intros H; [constructor|].
  inversion H; subst. constructor; auto. intros Hin. apply H2. apply in_or_app; auto.
Qed.

Lemma NoDup_firstn {A} n (l : list A) : NoDup l -> NoDup (firstn n l).
Proof.
  intros H. rewrite <- (firstn_skipn n l) in H. apply NoDup_app_l in H. assumption.
Qed.

Lemma In_firstn {A} n (l : list A) x : In x (firstn n l) -> In x l.
Proof. intros H. rewrite <- (firstn_skipn n l). apply in_or_app; auto. Qed.

Definition base_prep (br : Z) (v : votedrec) : prep :=
  prep_update_power br (new_prep (v_addr v) (v_status v) (v_delegated v) (v_bonded v) (v_rate v) (v_pubkey v)).

Definition add_voted (br : Z) (pi : pinfo) (v : votedrec) : pinfo :=
  pi_add br (v_addr v) (v_status v) (v_delegated v) (v_bonded v) (v_rate v) (v_pubkey v) pi.

Lemma load_fold br : forall voted pi,
  NoDup (map v_addr voted) -> (forall v, In v voted -> ~ In (v_addr v) (keys (pi_preps pi))) ->
  let pi' := fold_left (add_voted br) voted pi in
  keys (pi_preps pi') = keys (pi_preps pi) ++ map v_addr voted
  /\ (forall v, In v voted -> aget (v_addr v) (pi_preps pi') = Some (base_prep br v))
  /\ (forall k, ~ In k (map v_addr voted) -> aget k (pi_preps pi') = aget k (pi_preps pi))
  /\ pi_rank pi' = pi_rank pi /\ pi_total pi' = pi_total pi.
Proof.
  induction voted as [|v voted IH]; intros pi Hnd Hnotin; simpl.
  - rewrite app_nil_r. repeat split; auto. intros v [].
  - inversion Hnd; subst.
    assert (Hk1 : keys (pi_preps (add_voted br pi v)) = keys (pi_preps pi) ++ [v_addr v]).
    { unfold add_voted, pi_add. simpl. apply keys_aset_notin. apply Hnotin. left; reflexivity. }
    destruct (IH (add_voted br pi v) H2) as (K1 & K2 & K3 & K4 & K5).
    { intros v' Hv'. rewrite Hk1. intros Hin. apply in_app_or in Hin as [Hin|[Hin|[]]].
      - apply (Hnotin v' (or_intror Hv')); assumption.
      - apply H1. rewrite Hin. apply in_map; assumption. }
    split; [rewrite K1, Hk1, <- app_assoc; reflexivity|].
    split; [|split; [|split; [rewrite K4; reflexivity|rewrite K5; reflexivity]]].
    + intros v' [->|Hv']; [|apply K2; assumption].
      rewrite K3 by assumption. unfold add_voted, pi_add. simpl. apply aget_aset_same.
    + intros k Hk. rewrite K3 by tauto. unfold add_voted, pi_add. simpl.
      apply aget_aset_other. intros ->. apply Hk. left; reflexivity.
Qed.

(* set_ranks only writes rank fields *)
Definition rank_only (g : prep -> prep) : Prop := g = (fun p => p) \/ exists r, g = set_rank r.

Lemma set_ranks_get ord : forall idx m k,
  exists g, rank_only g /\ aget k (set_ranks idx ord m) = option_map g (aget k m).
Proof.
  induction ord as [|x ord IH]; intros idx m k; simpl.
  - exists (fun p => p). split; [left; reflexivity|]. destruct (aget k m); reflexivity.
  - destruct (IH (idx + 1) (update_key (p_owner x) (set_rank idx) m) k) as (g & Hg & He).
    rewrite He, aget_update_key. destruct (N.eqb k (p_owner x)) eqn:E.
    + apply N.eqb_eq in E; subst.
      destruct Hg as [->|[r ->]].
      * exists (set_rank idx). split; [right; eauto|]. destruct (aget (p_owner x) m); reflexivity.
      * exists (set_rank r). split; [right; eauto|]. destruct (aget (p_owner x) m); reflexivity.
    + exists g. split; [assumption|reflexivity].
Qed.

Lemma keys_set_ranks ord : forall idx m, keys (set_ranks idx ord m) = keys m.
Proof.
  induction ord as [|x ord IH]; intros idx m; simpl; [reflexivity|].
  rewrite IH. apply keys_update_key.
Qed.

Lemma all_vals_set_ranks (P : prep -> Prop) ord : forall idx m,
  (forall r p, P p -> P (set_rank r p)) -> all_vals P m -> all_vals P (set_ranks idx ord m).
Proof.
  induction ord as [|x ord IH]; intros idx m Hr Hm; simpl; [assumption|].
  apply IH; auto. apply all_vals_update_key; auto.
Qed.

(* ================================================================== ranks written by Sort *)
Lemma set_ranks_untouched ord : forall idx m k,
  ~ In k (map p_owner ord) -> aget k (set_ranks idx ord m) = aget k m.
Proof.
  induction ord as [|x ord IH]; intros idx m k Hk; simpl; [reflexivity|].
  rewrite IH by (simpl in Hk; tauto). rewrite aget_update_key.
  destruct (N.eqb k (p_owner x)) eqn:Eq; [|reflexivity].
  apply N.eqb_eq in Eq. simpl in Hk. exfalso. apply Hk. left. congruence.
Qed.

Lemma set_ranks_rank ord : forall idx m j x,
  NoDup (map p_owner ord) -> (forall y, In y ord -> In (p_owner y) (keys m)) ->
  nth_error ord j = Some x ->
  exists p, aget (p_owner x) (set_ranks idx ord m) = Some p /\ p_rank p = idx + Z.of_nat j.
Proof.
  induction ord as [|y ord IH]; intros idx m j x Hnd Hin Hj; [destruct j; discriminate|].
  simpl in Hnd. inversion Hnd; subst. simpl.
  destruct j as [|j]; simpl in Hj.
  - inversion Hj; subst y. rewrite set_ranks_untouched by assumption.
    rewrite aget_update_key, N.eqb_refl.
    destruct (proj2 (aget_In_keys (p_owner x) m) (Hin x (or_introl eq_refl))) as [p0 Hp0].
    rewrite Hp0. simpl. eexists. split; [reflexivity|]. simpl. lia.
  - destruct (IH (idx + 1) (update_key (p_owner y) (set_rank idx) m) j x H2) as (p & Hp & Hr).
    + intros z Hz. rewrite keys_update_key. apply Hin. right; assumption.
    + assumption.
    + exists p. split; [assumption|]. lia.
Qed.

Lemma nth_error_firstn_ge {A} n (l : list A) j x :
  nth_error l j = Some x -> NoDup l -> ~ In x (firstn n l) -> (n <= j)%nat.
Proof.
  intros Hj Hnd Hnin. destruct (le_lt_dec n j) as [H|H]; [assumption|]. exfalso. apply Hnin.
  rewrite <- (firstn_skipn n l) in Hj.
  assert (Hlen : (j < length (firstn n l))%nat).
  { rewrite firstn_length.
    assert (Hj2 : (j < length (firstn n l ++ skipn n l))%nat) by (apply nth_error_Some; congruence).
    rewrite app_length, firstn_length, skipn_length in Hj2. lia. }
  rewrite nth_error_app1 in Hj by assumption. eapply nth_error_In; eassumption.
Qed.

(* ================================================================== P-Reps that appear during the term *)
Section Ghost.
Variables br limit : Z.
Hypothesis Hbr : 0 <= br.

(* PRepInfo.Add(target, status, 0, 0, 0, false) *)
Definition ghost0 (k : addr) (st : Z) : prep := prep_update_power br (new_prep k st 0 0 0 false).

Lemma pi_apply_votes_create k ty o vs : forall pi,
  aget k (pi_preps pi) = None ->
  (aget k (pi_preps (pi_apply_vote br limit ty vs o pi)) = None /\ ~ In k (map fst vs))
  \/ aget k (pi_preps (pi_apply_vote br limit ty vs o pi))
     = Some (fold_left (vote_step br limit k ty o) vs (ghost0 k ES_DisablePermanent)).
Proof.
  unfold pi_apply_vote. induction vs as [|[to a] vs IH]; intros pi Hk; cbn [fold_left].
  - left. split; [assumption|simpl; tauto].
  - destruct (N.eqb to k) eqn:Eq.
    + apply N.eqb_eq in Eq; subst to. right.
      assert (Hs : aget k (pi_preps (pi_apply_one br limit ty o pi (k, a)))
                   = Some (prep_apply_vote ty a (limit - o) br (ghost0 k ES_DisablePermanent))).
      { unfold pi_apply_one. rewrite Hk. simpl. rewrite aget_update_key, N.eqb_refl, aget_aset_same. reflexivity. }
      pose proof (pi_apply_vote_get br limit ty o vs _ k _ Hs) as Hg. unfold pi_apply_vote in Hg. rewrite Hg.
      do 2 f_equal. unfold vote_step. cbn [fst snd]. rewrite N.eqb_refl. reflexivity.
    + assert (Hn : aget k (pi_preps (pi_apply_one br limit ty o pi (to, a))) = None).
      { unfold pi_apply_one. apply N.eqb_neq in Eq.
        destruct (aget to (pi_preps pi)); simpl; rewrite aget_update_key;
        (destruct (N.eqb k to) eqn:E2; [apply N.eqb_eq in E2; congruence|]);
        [assumption|rewrite aget_aset_other by congruence; assumption]. }
      destruct (IH _ Hn) as [[H1 H2]|H1].
      * left. split; [assumption|]. simpl. apply N.eqb_neq in Eq. intros [H|H]; [congruence|tauto].
      * right. rewrite H1. do 2 f_equal. unfold vote_step. cbn [fst snd]. rewrite Eq. reflexivity.
Qed.

Lemma process_event_create k pi oe :
  aget k (pi_preps pi) = None ->
  (aget k (pi_preps (process_event br limit pi oe)) = None
   /\ ev_amount VBond k oe = 0 /\ ev_amount VDelegate k oe = 0)
  \/ exists st, aget k (pi_preps (process_event br limit pi oe)) = Some (prep_step br limit k (ghost0 k st) oe).
Proof.
  intros Hk. destruct oe as [o [t st|ty from vs]]; simpl.
  - unfold pi_set_status. destruct (N.eqb t k) eqn:Eq.
    + apply N.eqb_eq in Eq; subst t. right. exists st. rewrite Hk. unfold pi_add. simpl.
      rewrite aget_aset_same. reflexivity.
    + left. apply N.eqb_neq in Eq. split; [|split; reflexivity].
      destruct (aget t (pi_preps pi)); simpl; rewrite aget_aset_other by congruence; assumption.
  - destruct (pi_apply_votes_create k ty o vs pi Hk) as [[H1 H2]|H1].
    + left. split; [assumption|]. unfold ev_amount. simpl. rewrite amount_to_notin by assumption.
      split; destruct (vtype_eqb ty _); reflexivity.
    + right. exists ES_DisablePermanent. assumption.
Qed.

Lemma pinv_ghost0 k st o : o <= limit -> pinv br limit o (ghost0 k st).
Proof.
  intros Ho. pose proof (calc_power_bounds br Hbr 0 0 ltac:(lia) ltac:(lia)) as Hc.
  unfold pinv, prep_calc_power, p_voted.
  change (p_bonded (ghost0 k st)) with 0. change (p_delegated (ghost0 k st)) with 0.
  change (p_power (ghost0 k st)) with (calc_power br 0 0).
  change (p_accp (ghost0 k st)) with 0. change (p_accv (ghost0 k st)) with 0.
  change (0 + 0) with 0. assert (Hc0 : calc_power br 0 0 = 0) by lia. rewrite Hc0. repeat split; lia.
Qed.

Lemma ghost_inv k : forall evs pi o,
  aget k (pi_preps pi) = None ->
  run_ok (ev_amount VBond k) (ev_amount VDelegate k) evs 0 0 ->
  offsets_ok o limit evs = true -> forallb event_ok evs = true -> o <= limit ->
  match aget k (pi_preps (fold_left (process_event br limit) evs pi)) with
  | None => True
  | Some p => exists o', o' <= limit /\ pinv br limit o' p
  end.
Proof.
  induction evs as [|oe evs IH]; intros pi o Hk Hrun Hoff Hev Hol.
  - simpl. rewrite Hk. exact I.
  - simpl fold_left. destruct (process_event_create k pi oe Hk) as [(Hn & Hb0 & Hd0)|[st Hs]].
    + destruct oe as [o' ev]. simpl in Hoff. apply andb_true_iff in Hoff as [Hoff Hoff3]. apply andb_true_iff in Hoff as [Hoff1 Hoff2].
      simpl in Hev. apply andb_true_iff in Hev as [_ Hev2].
      destruct Hrun as (_ & _ & Hrun). rewrite Hb0, Hd0 in Hrun. simpl in Hrun.
      apply (IH _ o'); try assumption; lia.
    + rewrite (process_events_get br limit evs _ k _ Hs).
      change (fold_left (prep_step br limit k) evs (prep_step br limit k (ghost0 k st) oe))
        with (fold_left (prep_step br limit k) (oe :: evs) (ghost0 k st)).
      apply (prep_fold_inv br limit Hbr k (oe :: evs) (ghost0 k st) o); try assumption.
      apply pinv_ghost0; assumption.
Qed.

End Ghost.

(* ================================================================== well-formed terms, unpacked *)
Definition votes_wf (vs : votes) : Prop :=
  NoDup (map fst vs) /\ forall x, In x vs -> 0 < snd x.

Definition voting_wf (l : list (addr * votes)) : Prop :=
  NoDup (keys l) /\ forall e, In e l -> snd e <> [] /\ votes_wf (snd e).

Record wf_input (i : input) : Prop := {
  wf_rprep : 0 <= i_rprep i <= denom_in_rate;
  wf_rwage : 0 <= i_rwage i <= denom_in_rate;
  wf_br : 0 <= i_br i <= denom_in_rate;
  wf_limit : 0 <= i_limit i;
  wf_elected : 0 <= i_elected i;
  wf_iglobal : 0 <= i_iglobal i;
  wf_minbond : 0 <= i_minbond i;
  wf_voted_nd : NoDup (map v_addr (i_voted i));
  wf_voted : forall v, In v (i_voted i) -> 0 <= v_rate v <= denom_in_rate /\ 0 <= v_delegated v /\ 0 <= v_bonded v;
  wf_delegating : voting_wf (i_delegating i);
  wf_bonding : voting_wf (i_bonding i);
  wf_cons : cons_ok i = true;
  wf_offsets : offsets_ok 0 (i_limit i) (i_events i) = true;
  wf_events : forallb event_ok (i_events i) = true }.

Lemma voting_ok_wf l : voting_ok l = true -> voting_wf l.
Proof.
  unfold voting_ok. intros H. apply andb_true_iff in H as [H1 H2]. split.
  - apply nodupb_NoDup; assumption.
  - intros e He. rewrite forallb_forall in H2. specialize (H2 e He).
    unfold votes_ok in H2. apply andb_true_iff in H2 as [H2 H4]. apply andb_true_iff in H2 as [H2 H3].
    split; [destruct (snd e); [discriminate|congruence]|].
    split; [apply nodupb_NoDup; assumption|].
    intros x Hx. rewrite forallb_forall in H4. specialize (H4 x Hx). lia.
Qed.

Lemma wf_inputb_wf i : wf_inputb i = true -> wf_input i.
Proof.
  unfold wf_inputb, rate_ok. intros H.
  repeat match type of H with (_ && _ = true) => apply andb_true_iff in H; let H' := fresh "H" in destruct H as [H H'] end.
  constructor; try lia; try assumption.
  - apply nodupb_NoDup; assumption.
  - intros v Hv. rewrite forallb_forall in H5. specialize (H5 v Hv). unfold voted_ok, rate_ok in H5. lia.
  - apply voting_ok_wf; assumption.
  - apply voting_ok_wf; assumption.
Qed.

Lemma NoDup_app_intro {A} (l1 l2 : list A) :
  NoDup l1 -> NoDup l2 -> (forall x, In x l1 -> ~ In x l2) -> NoDup (l1 ++ l2).
Proof.
  induction l1; simpl; intros H1 H2 H; [assumption|].
  inversion H1; subst. constructor.
  - intros Hin. apply in_app_or in Hin as [Hin|Hin]; [tauto|]. apply (H a); auto.
  - apply IHl1; auto.
Qed.

Section Term.
Variable i : input.
Hypothesis WF : wf_input i.

Let br := i_br i.
Let L := i_limit i.
Let E := i_elected i.
Let evs := i_events i.
Let PI0 := load_prep_info i.
Let PI1 := events_applied i.
Let PI2 := rewards_calculated i.
Let R := elected_keys E PI0.
Let V := voters i.
Let T := budget_prep i.
Let W := budget_wage i.

Lemma Hbr0 : 0 <= br.
Proof. apply (wf_br i WF). Qed.

(* ------------------------------------------------------------------ loadPRepInfo *)
Let PIa := fold_left (add_voted br) (i_voted i) (mkPinfo [] 0 []).

Lemma load_unfold : PI0 = pi_init_accumulated E L (pi_sort PIa).
Proof. reflexivity. Qed.

Lemma PIa_facts :
  keys (pi_preps PIa) = map v_addr (i_voted i)
  /\ (forall v, In v (i_voted i) -> aget (v_addr v) (pi_preps PIa) = Some (base_prep br v)).
Proof.
  destruct (load_fold br (i_voted i) (mkPinfo [] 0 []) (wf_voted_nd i WF)) as (K1 & K2 & _).
  - intros v _ [].
  - split; [exact K1|exact K2].
Qed.

Lemma PIa_entries k p : In (k, p) (pi_preps PIa) -> exists v, In v (i_voted i) /\ v_addr v = k /\ p = base_prep br v.
Proof.
  destruct PIa_facts as [K1 K2]. intros Hin.
  assert (Hnd : NoDup (keys (pi_preps PIa))) by (rewrite K1; apply (wf_voted_nd i WF)).
  assert (Hk : In k (keys (pi_preps PIa))) by (change k with (fst (k, p)); apply in_map; assumption).
  rewrite K1 in Hk. apply in_map_iff in Hk as (v & Hv1 & Hv2). exists v. split; [assumption|]. split; [assumption|].
  apply In_aget in Hin; [|assumption]. rewrite <- Hv1, (K2 v Hv2) in Hin. congruence.
Qed.

Lemma rank_perm : Permutation (pi_rank PI0) (map v_addr (i_voted i)).
Proof.
  rewrite load_unfold. unfold pi_init_accumulated, pi_sort. simpl.
  rewrite sort_preps_perm. rewrite map_map.
  destruct PIa_facts as [K1 _]. rewrite <- K1. unfold keys.
  erewrite map_ext_in; [reflexivity|].
  intros [k p] Hin. simpl. apply PIa_entries in Hin as (v & _ & <- & ->). reflexivity.
Qed.

Lemma rank_NoDup : NoDup (pi_rank PI0).
Proof. eapply Permutation_NoDup; [symmetry; apply rank_perm|apply (wf_voted_nd i WF)]. Qed.

Lemma R_NoDup : NoDup R.
Proof. apply NoDup_firstn. apply rank_NoDup. Qed.

Lemma R_voted k : In k R -> In k (map v_addr (i_voted i)).
Proof. intros H. apply In_firstn in H. eapply Permutation_in; [apply rank_perm|assumption]. Qed.

Lemma R_length : Z.of_nat (length R) <= E.
Proof.
  unfold R, elected_keys, elected_n. rewrite firstn_length. pose proof (wf_elected i WF). fold E in H. lia.
Qed.

(* the P-Rep object an elected P-Rep starts the term with *)
Lemma load_get k : In k R ->
  exists v g, In v (i_voted i) /\ v_addr v = k /\ rank_only g /\
    aget k (pi_preps PI0) = Some (prep_init_accumulated (L + 1) (g (base_prep br v))).
Proof.
  intros Hk. pose proof (R_voted k Hk) as Hv. apply in_map_iff in Hv as (v & Hv1 & Hv2).
  destruct PIa_facts as [K1 K2].
  destruct (set_ranks_get (sort_preps (map snd (pi_preps PIa))) 0 (pi_preps PIa) k) as (g & Hg & He).
  exists v, g. split; [assumption|]. split; [assumption|]. split; [assumption|].
  rewrite load_unfold. unfold pi_init_accumulated. simpl.
  rewrite aget_fold_update by (apply R_NoDup).
  assert (memb k (elected_keys E (pi_sort PIa)) = true) as ->.
  { apply memb_In. exact Hk. }
  unfold pi_sort. simpl. fold br. rewrite He. rewrite <- Hv1, (K2 v Hv2). reflexivity.
Qed.

Lemma rewards_zero_base v : rewards_zero (base_prep br v).
Proof. repeat split. Qed.

Lemma PI0_inv : all_vals rewards_zero (pi_preps PI0) /\ NoDup (keys (pi_preps PI0)).
Proof.
  rewrite load_unfold. unfold pi_init_accumulated. simpl. split.
  - apply all_vals_fold_update; [|intros p Hp; exact Hp].
    apply all_vals_set_ranks; [intros r p Hp; exact Hp|].
    intros k p Hk. apply aget_In in Hk. apply PIa_entries in Hk as (v & _ & _ & ->). apply rewards_zero_base.
  - rewrite keys_fold_update. unfold pi_sort. simpl. rewrite keys_set_ranks.
    destruct PIa_facts as [K1 _]. rewrite K1. apply (wf_voted_nd i WF).
Qed.

(* ------------------------------------------------------------------ processEvents *)
Lemma PI1_preps : pi_preps PI1 = pi_preps (fold_left (process_event br L) evs PI0).
Proof. reflexivity. Qed.

Lemma PI1_rank : pi_rank PI1 = pi_rank PI0.
Proof. unfold PI1, events_applied, pi_update_total. simpl. apply process_events_rank. Qed.

Lemma PI1_inv : all_vals rewards_zero (pi_preps PI1) /\ NoDup (keys (pi_preps PI1)).
Proof.
  rewrite PI1_preps. apply process_events_inv.
  - intros; apply rewards_zero_apply_vote; assumption.
  - intros st p Hp; exact Hp.
  - intros; repeat split.
  - apply PI0_inv.
Qed.

Lemma PI1_get k s : aget k (pi_preps PI0) = Some s ->
  aget k (pi_preps PI1) = Some (fold_left (prep_step br L k) evs s).
Proof. intros H. rewrite PI1_preps. apply process_events_get; assumption. Qed.

Lemma PI1_elected : elected_keys E PI1 = R.
Proof. unfold elected_keys. rewrite PI1_rank. reflexivity. Qed.

Lemma PI1_total : pi_total PI1 = sumZ (accp_of (pi_preps PI1)) R.
Proof.
  unfold PI1 at 1, events_applied, pi_update_total. simpl.
  unfold elected_keys. rewrite process_events_rank. reflexivity.
Qed.

(* ------------------------------------------------------------------ the voters *)
Lemma keys_filter_nonempty (l : list (addr * votes)) :
  voting_wf l -> map fst (filter (fun e => nonempty (snd e)) l) = keys l.
Proof.
  intros [_ H]. unfold keys. induction l as [|[k vs] l IH]; simpl; [reflexivity|].
  destruct (H (k, vs) (or_introl eq_refl)) as [Hne _]. simpl in Hne.
  destruct vs; [congruence|]. simpl. f_equal. apply IH. intros e' He'. apply H. right; assumption.
Qed.

Lemma V_NoDup : NoDup V.
Proof.
  unfold V, voters.
  assert (H1 : NoDup (voters1 i)).
  { unfold voters1. rewrite keys_filter_nonempty by apply (wf_delegating i WF). apply (wf_delegating i WF). }
  assert (H2 : NoDup (voters2 i)).
  { unfold voters2. apply NoDup_filter. rewrite keys_filter_nonempty by apply (wf_bonding i WF). apply (wf_bonding i WF). }
  assert (H3 : NoDup (voters3 i)) by (unfold voters3; apply NoDup_filter, dedup_NoDup).
  apply NoDup_app_intro; [assumption|apply NoDup_app_intro; try assumption|].
  - intros x Hx Hin. unfold voters3 in Hin. apply filter_In in Hin as [_ Hin].
    apply negb_true_iff, memb_false in Hin. apply Hin. apply in_or_app; auto.
  - intros x Hx Hin. apply in_app_or in Hin as [Hin|Hin].
    + unfold voters2 in Hin. apply filter_In in Hin as [_ Hin].
      apply negb_true_iff, memb_false in Hin. tauto.
    + unfold voters3 in Hin. apply filter_In in Hin as [_ Hin].
      apply negb_true_iff, memb_false in Hin. apply Hin. apply in_or_app; auto.
Qed.

Lemma V_delegating v : In v (keys (i_delegating i)) -> In v V.
Proof.
  intros H. unfold V, voters. apply in_or_app; left. unfold voters1.
  rewrite keys_filter_nonempty by apply (wf_delegating i WF). assumption.
Qed.

Lemma V_bonding v : In v (keys (i_bonding i)) -> In v V.
Proof.
  intros H. unfold V, voters. destruct (memb v (voters1 i)) eqn:E1.
  - apply in_or_app; left. apply memb_In; assumption.
  - apply in_or_app; right. apply in_or_app; left. unfold voters2. apply filter_In. split.
    + rewrite keys_filter_nonempty by apply (wf_bonding i WF). assumption.
    + rewrite E1. reflexivity.
Qed.

Lemma V_from oe from : In oe evs -> ev_from oe = Some from -> In from V.
Proof.
  intros Hin Hf.
  assert (Hfr : In from (event_froms evs)).
  { clear -Hin Hf. induction evs as [|[o [t st|t f vs]] l IH]; simpl in *; [tauto| |].
    - destruct Hin as [<-|Hin]; [discriminate|auto].
    - destruct Hin as [<-|Hin]; [inversion Hf; auto|auto]. }
  unfold V, voters. destruct (memb from (voters1 i ++ voters2 i)) eqn:E1.
  - apply memb_In in E1. rewrite app_assoc. apply in_or_app; left; assumption.
  - rewrite app_assoc. apply in_or_app; right. unfold voters3. apply filter_In. split.
    + apply dedup_In. assumption.
    + rewrite E1. reflexivity.
Qed.

(* ------------------------------------------------------------------ vote totals never negative *)
Hypothesis UV : update_voting_ok i = true.

Let D := i_delegating i.
Let B := i_bonding i.

Lemma lookup_wf l v : voting_wf l -> votes_wf (lookup_votes v l).
Proof.
  intros [Hnd H]. unfold lookup_votes. destruct (aget v l) eqn:Eq0.
  - apply aget_In in Eq0. apply (H _ Eq0).
  - split; [constructor|intros x []].
Qed.

Lemma getz_nonneg_wf vs q : votes_wf vs -> 0 <= getz q vs.
Proof.
  intros [_ H]. unfold getz. destruct (aget q vs) eqn:Eq0; [|lia].
  apply aget_In in Eq0. specialize (H _ Eq0). simpl in H. lia.
Qed.

Lemma events_of_nil v : forall l, ~ In v (event_froms l) -> events_of v l = [].
Proof.
  induction l as [|[o [t st|t f vs]] l IH]; simpl; intros H; auto.
  destruct (N.eqb f v) eqn:Eq0; [apply N.eqb_eq in Eq0; subst; tauto|]. apply IH. tauto.
Qed.

Lemma uv_voter v : update_voting_one (lookup_votes v D) (lookup_votes v B) (events_of v evs) <> None.
Proof.
  destruct (in_dec N.eq_dec v (event_froms evs)) as [Hin|Hnin].
  - unfold update_voting_ok in UV. rewrite forallb_forall in UV.
    specialize (UV v (proj2 (dedup_In v _) Hin)). fold D B evs in UV.
    destruct (update_voting_one _ _ _); congruence.
  - rewrite events_of_nil by assumption. simpl. congruence.
Qed.

Lemma voter_run_ok v k :
  run_ok (ev_amount_from v VBond k) (ev_amount_from v VDelegate k) evs
         (getz k (lookup_votes v B)) (getz k (lookup_votes v D)).
Proof.
  apply voter_run.
  - intros q. apply getz_nonneg_wf, lookup_wf, (wf_delegating i WF).
  - intros q. apply getz_nonneg_wf, lookup_wf, (wf_bonding i WF).
  - apply uv_voter.
Qed.

Lemma lookup_match {A} v l (f : votes -> A) :
  f (lookup_votes v l) = match aget v l with Some vs => f vs | None => f [] end.
Proof. unfold lookup_votes. destruct (aget v l); reflexivity. Qed.

Lemma sum_lookup l k :
  voting_wf l -> (forall v, In v (keys l) -> In v V) ->
  sumZ (fun v => getz k (lookup_votes v l)) V = sum_votes_to k l.
Proof.
  intros [Hnd Hl] Hin. unfold sum_votes_to.
  rewrite (sumZ_entries_reindex (fun _ vs => getz k vs) l V Hnd V_NoDup).
  - apply sumZ_ext_in. intros v _. rewrite (lookup_match v l (getz k)). reflexivity.
  - intros v vs Hvs Hnv. exfalso. apply Hnv, Hin. change v with (fst (v, vs)). apply in_map; assumption.
Qed.

Lemma find_voted v : In v (i_voted i) -> find (fun v' => N.eqb (v_addr v') (v_addr v)) (i_voted i) = Some v.
Proof.
  pose proof (wf_voted_nd i WF) as Hnd. revert Hnd. induction (i_voted i) as [|x l IH]; simpl; intros Hnd Hin; [tauto|].
  inversion Hnd; subst. destruct Hin as [->|Hin].
  - rewrite N.eqb_refl. reflexivity.
  - destruct (N.eqb (v_addr x) (v_addr v)) eqn:Eq; [|auto].
    apply N.eqb_eq in Eq. exfalso. apply H1. rewrite Eq. apply in_map; assumption.
Qed.

Lemma voted_amounts_in v : In v (i_voted i) -> voted_amounts i (v_addr v) = (v_delegated v, v_bonded v).
Proof. intros H. unfold voted_amounts. rewrite find_voted by assumption. reflexivity. Qed.

Lemma sum_votes_to_notin k l : ~ In k (targets l) -> sum_votes_to k l = 0.
Proof.
  intros H. apply sumZ_zero. intros [v vs] Hin. simpl. unfold getz.
  destruct (aget k vs) eqn:Eq; [|reflexivity]. exfalso. apply H.
  unfold targets. apply in_flat_map. exists (v, vs). split; [assumption|]. simpl.
  apply aget_In_keys. eauto.
Qed.

Lemma cons_all k : cons_at i k = true.
Proof.
  pose proof (wf_cons i WF) as Hc. unfold cons_ok in Hc. rewrite forallb_forall in Hc.
  destruct (in_dec N.eq_dec k (map v_addr (i_voted i) ++ targets D ++ targets B)) as [Hin|Hnin]; [auto|].
  assert (H1 : ~ In k (map v_addr (i_voted i))) by (intros H; apply Hnin, in_or_app; auto).
  assert (H2 : ~ In k (targets D)) by (intros H; apply Hnin, in_or_app; right; apply in_or_app; auto).
  assert (H3 : ~ In k (targets B)) by (intros H; apply Hnin, in_or_app; right; apply in_or_app; auto).
  unfold cons_at. fold D B. rewrite !sum_votes_to_notin by assumption.
  unfold voted_amounts. destruct (find _ _) eqn:Ef; [|reflexivity].
  apply find_some in Ef as [Ef1 Ef2]. apply N.eqb_eq in Ef2. exfalso. apply H1. rewrite <- Ef2. apply in_map; assumption.
Qed.

Lemma sum_delegated k : sumZ (fun v => getz k (lookup_votes v D)) V = fst (voted_amounts i k).
Proof.
  rewrite sum_lookup; [|apply (wf_delegating i WF)|apply V_delegating].
  pose proof (cons_all k) as H. unfold cons_at in H. fold D in H. lia.
Qed.

Lemma sum_bonded k : sumZ (fun v => getz k (lookup_votes v B)) V = snd (voted_amounts i k).
Proof.
  rewrite sum_lookup; [|apply (wf_bonding i WF)|apply V_bonding].
  pose proof (cons_all k) as H. unfold cons_at in H. fold B in H. lia.
Qed.

(* the votes recorded for any address never go negative during the term *)
Lemma prep_run_ok k :
  run_ok (ev_amount VBond k) (ev_amount VDelegate k) evs (snd (voted_amounts i k)) (fst (voted_amounts i k)).
Proof.
  rewrite <- sum_bonded, <- sum_delegated.
  apply (run_ok_ext (fun oe => sumZ (fun v => ev_amount_from v VBond k oe) V)
                    (fun oe => sumZ (fun v => ev_amount_from v VDelegate k oe) V)).
  - intros oe Hoe. split; apply sum_ev_amount_from; try apply V_NoDup; intros from Hf; apply (V_from oe); assumption.
  - apply (run_ok_sum V (fun v => ev_amount_from v VBond k) (fun v => ev_amount_from v VDelegate k)).
    intros v _. apply voter_run_ok.
Qed.

(* ------------------------------------------------------------------ accumulated votes *)
Lemma acc_votes_nonneg v k : 0 <= acc_votes i v k.
Proof.
  unfold acc_votes. fold D B L evs.
  pose proof (voter_run_ok v k) as Hrun.
  pose proof (lookup_wf D v (wf_delegating i WF)) as [HD _].
  pose proof (lookup_wf B v (wf_bonding i WF)) as [HB _].
  rewrite (getz_amount_to k _ HD), (getz_amount_to k _ HB) in Hrun.
  pose proof (run_ok_head _ _ _ _ _ Hrun) as [Hb Hd].
  pose proof (wf_limit i WF) as Hl. fold L in Hl.
  apply (abel_nonneg L _ _ evs _ _ 0 _ Hrun); [apply (wf_offsets i WF)|lia|nia].
Qed.

Lemma sum_acc_votes k :
  sumZ (fun v => acc_votes i v k) V
  = (fst (voted_amounts i k) + snd (voted_amounts i k)) * (L + 1) + wsum L k evs.
Proof.
  unfold acc_votes. fold D B L evs. rewrite sumZ_add, sumZ_mul_r, sumZ_add.
  rewrite (sumZ_ext_in (fun v => amount_to k (lookup_votes v D)) (fun v => getz k (lookup_votes v D))).
  2:{ intros v _. symmetry. apply getz_amount_to. apply (lookup_wf D v (wf_delegating i WF)). }
  rewrite (sumZ_ext_in (fun v => amount_to k (lookup_votes v B)) (fun v => getz k (lookup_votes v B))).
  2:{ intros v _. symmetry. apply getz_amount_to. apply (lookup_wf B v (wf_bonding i WF)). }
  rewrite sum_delegated, sum_bonded. f_equal.
  rewrite sumZ_swap. unfold wsum. apply sumZ_ext_in. intros oe Hoe.
  rewrite sumZ_mul_r. f_equal. unfold ev_votes_from, ev_votes. rewrite sumZ_add.
  rewrite !sum_ev_amount_from; try apply V_NoDup; try (intros from Hf; apply (V_from oe); assumption). reflexivity.
Qed.

(* ------------------------------------------------------------------ an elected P-Rep at the end of the events *)
Lemma elected_final k : In k R ->
  exists s, aget k (pi_preps PI1) = Some s
    /\ 0 <= p_accp s /\ p_accp s <= p_accv s
    /\ rewards_zero s /\ 0 <= p_rate s <= denom_in_rate
    /\ sumZ (fun v => acc_votes i v k) V = p_accv s.
Proof.
  intros Hk. destruct (load_get k Hk) as (v & g & Hv & Hvk & Hg & Hget).
  set (s0 := prep_init_accumulated (L + 1) (g (base_prep br v))) in *.
  pose proof (wf_voted i WF v Hv) as (Hrate & Hdel & Hbon).
  pose proof (wf_limit i WF) as Hl. fold L in Hl.
  assert (Hs0 : p_bonded s0 = v_bonded v /\ p_delegated s0 = v_delegated v /\ p_rate s0 = v_rate v
                /\ p_power s0 = calc_power br (v_bonded v) (v_delegated v + v_bonded v)
                /\ p_accv s0 = (v_delegated v + v_bonded v) * (L + 1)
                /\ p_accp s0 = calc_power br (v_bonded v) (v_delegated v + v_bonded v) * (L + 1)).
  { unfold s0. destruct Hg as [->|[r ->]]; repeat split. }
  destruct Hs0 as (Hb0 & Hd0 & Hr0 & Hp0 & Hav0 & Hap0).
  pose proof (calc_power_bounds br Hbr0 (v_bonded v) (v_delegated v + v_bonded v) Hbon ltac:(lia)) as Hpw.
  assert (Hinv0 : pinv br L 0 s0).
  { unfold pinv, prep_calc_power, p_voted. rewrite Hb0, Hd0, Hp0, Hav0, Hap0.
    repeat split; try lia; nia. }
  pose proof (prep_run_ok k) as Hrun. rewrite <- Hvk, (voted_amounts_in v Hv) in Hrun. simpl in Hrun.
  rewrite <- Hb0, <- Hd0 in Hrun. rewrite Hvk in Hrun.
  destruct (prep_fold_inv br L Hbr0 k evs s0 0 (wf_offsets i WF) (wf_events i WF) Hrun Hl Hinv0) as (o' & Ho' & Hinv).
  pose proof (prep_fold_frame br L k evs s0) as Hfr. unfold frame in Hfr.
  pose proof (prep_fold_accv br L k evs s0) as Hacc.
  pose proof (PI1_get k s0 Hget) as Hget1.
  set (sk := fold_left (prep_step br L k) evs s0) in *.
  exists sk. split; [assumption|].
  pose proof (pinv_power br L Hbr0 _ _ Hinv) as Hpw'.
  destruct Hinv as (_ & _ & _ & Ha & Hc).
  split; [nia|]. split; [nia|].
  assert (F1 : p_rate sk = p_rate s0) by congruence.
  assert (F5 : p_comm sk = p_comm s0) by congruence.
  assert (F6 : p_vr sk = p_vr s0) by congruence.
  assert (F7 : p_wage sk = p_wage s0) by congruence.
  split; [|split].
  - unfold rewards_zero. rewrite F5, F6, F7. unfold s0. destruct Hg as [->|[r ->]]; repeat split.
  - rewrite F1, Hr0. assumption.
  - rewrite sum_acc_votes, Hacc, Hav0. rewrite <- Hvk, (voted_amounts_in v Hv). simpl. rewrite Hvk. reflexivity.
Qed.

(* ------------------------------------------------------------------ budgets *)
Lemma rate_mul_bounds r x : 0 <= r <= denom_in_rate -> 0 <= x -> 0 <= rate_mul r x <= x.
Proof.
  intros Hr Hx. unfold rate_mul, denom_in_rate in *.
  rewrite Z.quot_div_nonneg by nia. split; [apply Z.div_pos; nia|].
  apply Z.div_le_upper_bound; nia.
Qed.

Lemma fund_nonneg x : 0 <= x -> 0 <= fund_to_period_iscore x (term_period L).
Proof.
  intros Hx. unfold fund_to_period_iscore, term_period, iscore_icx_ratio, month_block.
  pose proof (wf_limit i WF) as Hl. fold L in Hl.
  rewrite big_div_pos by lia. apply Z.div_pos; nia.
Qed.

Lemma T_nonneg : 0 <= T.
Proof.
  apply fund_nonneg. unfold iprep_amount. apply rate_mul_bounds; [apply (wf_rprep i WF)|apply (wf_iglobal i WF)].
Qed.

Lemma W_nonneg : 0 <= W.
Proof.
  apply fund_nonneg. unfold iwage_amount. apply rate_mul_bounds; [apply (wf_rwage i WF)|apply (wf_iglobal i WF)].
Qed.

(* ------------------------------------------------------------------ processPrepReward *)
Let total := pi_total PI1.
Let per := big_div W E.
Let g := fun p => if is_rewardable E p then prep_calculate_reward T total (i_minbond i) per p else p.

Lemma PI2_preps : pi_preps PI2 = fold_left (fun m k => update_key k g m) R (pi_preps PI1).
Proof.
  unfold PI2, rewards_calculated, pi_calculate_reward, pi_with_preps. cbn [pi_preps].
  change (events_applied i) with PI1. change (i_elected i) with E. rewrite PI1_elected.
  apply fold_left_ext. intros m k. unfold rewardable_key, update_key.
  destruct (aget k m) eqn:Ek; [|reflexivity]. unfold g. fold E.
  destruct (is_rewardable E p); [reflexivity|]. symmetry. apply aset_same. assumption.
Qed.

Lemma PI2_get k :
  aget k (pi_preps PI2) = if memb k R then option_map g (aget k (pi_preps PI1)) else aget k (pi_preps PI1).
Proof. rewrite PI2_preps. apply aget_fold_update. apply R_NoDup. Qed.

Lemma PI2_NoDup : NoDup (keys (pi_preps PI2)).
Proof. rewrite PI2_preps, keys_fold_update. apply PI1_inv. Qed.

Lemma PI2_outside k p : aget k (pi_preps PI2) = Some p -> ~ In k R -> rewards_zero p.
Proof.
  intros Hp Hk. rewrite PI2_get in Hp. apply memb_false in Hk. rewrite Hk in Hp.
  destruct PI1_inv as [Hz _]. apply (Hz k p Hp).
Qed.

Lemma total_eq : total = sumZ (accp_of (pi_preps PI1)) R.
Proof. apply PI1_total. Qed.

Lemma accp_of_nonneg k : In k R -> 0 <= accp_of (pi_preps PI1) k.
Proof.
  intros Hk. destruct (elected_final k Hk) as (s & Hs & Hap & _). unfold accp_of. rewrite Hs. assumption.
Qed.

Lemma total_nonneg : 0 <= total.
Proof. rewrite total_eq. apply sumZ_nonneg. apply accp_of_nonneg. Qed.

Lemma accp_le_total k : In k R -> accp_of (pi_preps PI1) k <= total.
Proof.
  intros Hk. rewrite total_eq. pose proof R_NoDup as Hnd. revert Hk Hnd.
  pose proof accp_of_nonneg as Hnn. revert Hnn. generalize R as l.
  induction l as [|a l IH]; intros Hnn Hk Hnd; [destruct Hk|].
  rewrite sumZ_cons. inversion Hnd; subst.
  assert (0 <= sumZ (accp_of (pi_preps PI1)) l) by (apply sumZ_nonneg; intros x Hx; apply Hnn; right; assumption).
  destruct Hk as [->|Hk]; [lia|].
  specialize (IH (fun x Hx => Hnn x (or_intror Hx)) Hk H2).
  pose proof (Hnn a (or_introl eq_refl)). lia.
Qed.

(* the voter share of one (P-Rep, accumulated votes) pair *)
Definition share (k : addr) (av : Z) : Z := voter_share E (pi_preps PI2) (k, av).

Lemma share_zero k : share k 0 = 0.
Proof.
  unfold share, voter_share. destruct (aget k (pi_preps PI2)); [|reflexivity].
  destruct (is_rewardable E p); [|reflexivity]. simpl. apply big_div_0_l.
Qed.

Lemma share_outside k av : ~ In k R -> share k av = 0.
Proof.
  intros Hk. unfold share, voter_share. destruct (aget k (pi_preps PI2)) eqn:Ek; [|reflexivity].
  destruct (PI2_outside k p Ek Hk) as (_ & Hvr & _).
  destruct (is_rewardable E p); [|reflexivity]. rewrite Hvr, Z.mul_0_r. apply big_div_0_l.
Qed.

(* one elected P-Rep: its commission and everything its voters get stay within its power share *)
Lemma key_bound k : In k R ->
  (match aget k (pi_preps PI2) with Some p => p_comm p | None => 0 end)
  + sumZ (fun v => share k (acc_votes i v k)) V
  <= big_div (T * accp_of (pi_preps PI1) k) total.
Proof.
  intros Hk. destruct (elected_final k Hk) as (s & Hs & Hap & Hav & Hz & Hrate & Hsum).
  pose proof T_nonneg as HT. pose proof total_nonneg as Htot.
  assert (HPR : 0 <= big_div (T * accp_of (pi_preps PI1) k) total).
  { apply big_div_nonneg; [|assumption]. unfold accp_of. rewrite Hs. nia. }
  assert (Hg : aget k (pi_preps PI2) = Some (g s)).
  { rewrite PI2_get. apply memb_In in Hk. rewrite Hk, Hs. reflexivity. }
  rewrite Hg. unfold share, voter_share. rewrite Hg.
  unfold accp_of in *. rewrite Hs in *.
  unfold g. destruct (is_rewardable E s) eqn:Er.
  - set (PR := big_div (T * p_accp s) total) in *.
    assert (Hr2 : is_rewardable E (prep_calculate_reward T total (i_minbond i) per s) = true) by exact Er.
    rewrite Hr2.
    change (p_comm (prep_calculate_reward T total (i_minbond i) per s)) with (rate_mul (p_rate s) PR).
    change (p_vr (prep_calculate_reward T total (i_minbond i) per s)) with (PR - rate_mul (p_rate s) PR).
    change (p_accv (prep_calculate_reward T total (i_minbond i) per s)) with (p_accv s).
    pose proof (rate_mul_bounds (p_rate s) PR Hrate HPR) as Hc.
    assert (Hpos : 0 < p_accv s).
    { unfold is_rewardable in Er. apply andb_true_iff in Er as [_ Er]. lia. }
    rewrite (sumZ_ext_in _ (fun v => acc_votes i v k * (PR - rate_mul (p_rate s) PR) / p_accv s)).
    2:{ intros v _. apply big_div_pos; assumption. }
    pose proof (floor_sum_le (fun v => acc_votes i v k) V (PR - rate_mul (p_rate s) PR) (p_accv s)
                  ltac:(lia) Hpos (fun v _ => acc_votes_nonneg v k) ltac:(lia)) as Hfl.
    cbv beta in Hfl. lia.
  - destruct Hz as (Hc & _). rewrite Hc. rewrite Er. rewrite sumZ_zero by reflexivity. lia.
Qed.

Lemma sum_power_shares : sumZ (fun k => big_div (T * accp_of (pi_preps PI1) k) total) R <= T.
Proof.
  pose proof T_nonneg as HT. pose proof total_nonneg as Htot.
  destruct (Z.eq_dec total 0) as [H0|H0].
  - rewrite H0. rewrite sumZ_zero by reflexivity. assumption.
  - rewrite (sumZ_ext_in _ (fun k => accp_of (pi_preps PI1) k * T / total)).
    2:{ intros k _. rewrite big_div_pos by lia. f_equal. ring. }
    apply floor_sum_le; try lia.
    + apply accp_of_nonneg.
    + rewrite <- total_eq. lia.
Qed.

Lemma voter_reward_reindex v :
  voter_calculate_reward E (pi_preps PI2) (voter_acc i v) = sumZ (fun k => share k (acc_votes i v k)) R.
Proof.
  unfold voter_calculate_reward.
  rewrite (sumZ_ext_in _ (fun e => share (fst e) (snd e))) by (intros [k av] _; reflexivity).
  rewrite (sumZ_entries_reindex share (voter_acc i v) R (voter_acc_NoDup i v) R_NoDup).
  - apply sumZ_ext_in. intros k _. rewrite <- voter_acc_getz. unfold getz.
    destruct (aget k (voter_acc i v)); [reflexivity|symmetry; apply share_zero].
  - intros k av _ Hk. apply share_outside; assumption.
Qed.

Lemma comm_reindex :
  sumZ (fun e => p_comm (snd e)) (pi_preps PI2)
  = sumZ (fun k => match aget k (pi_preps PI2) with Some p => p_comm p | None => 0 end) R.
Proof.
  apply (sumZ_entries_reindex (fun _ p => p_comm p) (pi_preps PI2) R PI2_NoDup R_NoDup).
  intros k p Hin Hk. apply (In_aget _ _ _ PI2_NoDup) in Hin. apply (PI2_outside k p Hin Hk).
Qed.

Lemma wage_reindex :
  sumZ (fun e => p_wage (snd e)) (pi_preps PI2)
  = sumZ (fun k => match aget k (pi_preps PI2) with Some p => p_wage p | None => 0 end) R.
Proof.
  apply (sumZ_entries_reindex (fun _ p => p_wage p) (pi_preps PI2) R PI2_NoDup R_NoDup).
  intros k p Hin Hk. apply (In_aget _ _ _ PI2_NoDup) in Hin. apply (PI2_outside k p Hin Hk).
Qed.

(* commissions + voter rewards <= the Iprep period budget *)
Lemma prep_fund_bound :
  sumZ (fun e => p_comm (snd e)) (pi_preps PI2) + sumZ snd (voter_credits i PI2) <= T.
Proof.
  unfold voter_credits. rewrite sumZ_map. cbn [snd]. change (i_elected i) with E. change (voters i) with V.
  rewrite (sumZ_ext_in (fun v => voter_calculate_reward E (pi_preps PI2) (voter_acc i v))
                       (fun v => sumZ (fun k => share k (acc_votes i v k)) R) V) by (intros v _; apply voter_reward_reindex).
  rewrite sumZ_swap, comm_reindex, <- sumZ_add.
  eapply Z.le_trans; [|apply sum_power_shares].
  apply sumZ_le_in. intros k Hk. apply key_bound; assumption.
Qed.

(* ------------------------------------------------------------------ commission split, voter share *)
Lemma split_elected k : In k R ->
  exists p, aget k (pi_preps PI2) = Some p /\
    let PR := if is_rewardable E p then big_div (T * p_accp p) total else 0 in
    p_comm p = rate_mul (p_rate p) PR /\ p_vr p = PR - p_comm p /\ 0 <= p_comm p <= PR
    /\ (is_rewardable E p = true -> 0 < p_accv p /\ 0 < total)
    /\ sumZ (fun v => share k (acc_votes i v k)) V <= p_vr p.
Proof.
  intros Hk. destruct (elected_final k Hk) as (s & Hs & Hap & Hav & Hz & Hrate & Hsum).
  pose proof T_nonneg as HT. pose proof total_nonneg as Htot.
  pose proof (accp_le_total k Hk) as Hle. unfold accp_of in Hle. rewrite Hs in Hle.
  assert (HPR : 0 <= big_div (T * p_accp s) total) by (apply big_div_nonneg; [nia|assumption]).
  assert (Hg : aget k (pi_preps PI2) = Some (g s)).
  { rewrite PI2_get. apply memb_In in Hk. rewrite Hk, Hs. reflexivity. }
  exists (g s). split; [assumption|].
  unfold share, voter_share. rewrite Hg. unfold g.
  destruct (is_rewardable E s) eqn:Er.
  - set (PR := big_div (T * p_accp s) total) in *.
    assert (Hr2 : is_rewardable E (prep_calculate_reward T total (i_minbond i) per s) = true) by exact Er.
    rewrite Hr2. cbv zeta.
    change (p_comm (prep_calculate_reward T total (i_minbond i) per s)) with (rate_mul (p_rate s) PR).
    change (p_vr (prep_calculate_reward T total (i_minbond i) per s)) with (PR - rate_mul (p_rate s) PR).
    change (p_accv (prep_calculate_reward T total (i_minbond i) per s)) with (p_accv s).
    change (p_accp (prep_calculate_reward T total (i_minbond i) per s)) with (p_accp s).
    change (p_rate (prep_calculate_reward T total (i_minbond i) per s)) with (p_rate s).
    fold PR.
    pose proof (rate_mul_bounds (p_rate s) PR Hrate HPR) as Hc.
    assert (Hpos : 0 < p_accv s /\ 0 < total).
    { unfold is_rewardable in Er. apply andb_true_iff in Er as [_ Er]. lia. }
    split; [reflexivity|]. split; [reflexivity|]. split; [assumption|]. split; [intros _; assumption|].
    rewrite (sumZ_ext_in _ (fun v => acc_votes i v k * (PR - rate_mul (p_rate s) PR) / p_accv s)).
    2:{ intros v _. apply big_div_pos; apply Hpos. }
    pose proof (floor_sum_le (fun v => acc_votes i v k) V (PR - rate_mul (p_rate s) PR) (p_accv s)
                  ltac:(lia) (proj1 Hpos) (fun v _ => acc_votes_nonneg v k) ltac:(lia)) as Hfl.
    cbv beta in Hfl. lia.
  - rewrite Er. cbv zeta. destruct Hz as (Hc & Hvr & _). rewrite Hc, Hvr.
    split; [reflexivity|]. split; [reflexivity|]. split; [lia|]. split; [discriminate|].
    rewrite sumZ_zero by reflexivity. lia.
Qed.

Lemma share_formula k p av : aget k (pi_preps PI2) = Some p ->
  share k av = if is_rewardable E p then av * p_vr p / p_accv p else 0.
Proof.
  intros Hp. unfold share, voter_share. rewrite Hp.
  destruct (is_rewardable E p) eqn:Er; [|reflexivity].
  destruct (in_dec N.eq_dec k R) as [Hk|Hk].
  - destruct (split_elected k Hk) as (p' & Hp' & _ & _ & _ & Hpos & _).
    rewrite Hp in Hp'. inversion Hp'; subst p'. apply big_div_pos. apply Hpos; assumption.
  - destruct (PI2_outside k p Hp Hk) as (_ & Hvr & _). rewrite Hvr, Z.mul_0_r, big_div_0_l, Zdiv_0_l. reflexivity.
Qed.

Lemma voter_credit_formula v :
  voter_calculate_reward E (pi_preps PI2) (voter_acc i v)
  = sumZ (fun kp => if is_rewardable E (snd kp)
                    then acc_votes i v (fst kp) * p_vr (snd kp) / p_accv (snd kp) else 0) (pi_preps PI2).
Proof.
  rewrite voter_reward_reindex.
  rewrite (sumZ_entries_reindex (fun k p => if is_rewardable E p then acc_votes i v k * p_vr p / p_accv p else 0)
             (pi_preps PI2) R PI2_NoDup R_NoDup).
  - apply sumZ_ext_in. intros k _. destruct (aget k (pi_preps PI2)) eqn:Ek.
    + apply share_formula; assumption.
    + unfold share, voter_share. rewrite Ek. reflexivity.
  - intros k p Hin Hk. apply (In_aget _ _ _ PI2_NoDup) in Hin.
    destruct (PI2_outside k p Hin Hk) as (_ & Hvr & _). rewrite Hvr, Z.mul_0_r, Zdiv_0_l.
    destruct (is_rewardable E p); reflexivity.
Qed.

Lemma shares_within k p : aget k (pi_preps PI2) = Some p ->
  sumZ (fun v => share k (acc_votes i v k)) V <= p_vr p /\ 0 <= p_vr p /\ 0 <= p_comm p /\ 0 <= p_wage p.
Proof.
  intros Hp. destruct (in_dec N.eq_dec k R) as [Hk|Hk].
  - destruct (split_elected k Hk) as (p' & Hp' & Hc & Hvr & Hb & _ & Hsh).
    rewrite Hp in Hp'. inversion Hp'; subst p'. cbv zeta in *.
    split; [assumption|]. split; [lia|]. split; [lia|].
    destruct (elected_final k Hk) as (s & Hs & _ & _ & Hz & _).
    rewrite PI2_get in Hp. apply memb_In in Hk. rewrite Hk, Hs in Hp. simpl in Hp. inversion Hp; subst p.
    unfold g. destruct Hz as (_ & _ & Hw). pose proof W_nonneg as HW. pose proof (wf_elected i WF) as HE0. fold E in HE0.
    assert (Hper : 0 <= per) by (apply big_div_nonneg; lia).
    destruct (is_rewardable E s); [|lia]. simpl. destruct (i_minbond i <=? p_bonded s); lia.
  - destruct (PI2_outside k p Hp Hk) as (Hc & Hvr & Hw). rewrite Hc, Hvr, Hw.
    split; [|lia]. rewrite sumZ_zero; [lia|]. intros v _. apply share_outside; assumption.
Qed.

(* ------------------------------------------------------------------ no division by zero *)
Lemma PI0_keys : keys (pi_preps PI0) = map v_addr (i_voted i).
Proof.
  rewrite load_unfold. unfold pi_init_accumulated. simpl.
  rewrite keys_fold_update. unfold pi_sort. simpl. rewrite keys_set_ranks. apply PIa_facts.
Qed.

Lemma loaded_rank j k : nth_error (pi_rank PI0) j = Some k ->
  exists s, aget k (pi_preps PI0) = Some s /\ p_rank s = Z.of_nat j.
Proof.
  intros Hj.
  set (ord := sort_preps (map snd (pi_preps PIa))).
  assert (Hrk : pi_rank PI0 = map p_owner ord) by reflexivity.
  rewrite Hrk, nth_error_map in Hj. destruct (nth_error ord j) as [x|] eqn:Ex; [|discriminate].
  simpl in Hj. inversion Hj; subst k.
  destruct (set_ranks_rank ord 0 (pi_preps PIa) j x) as (p & Hp & Hr).
  - rewrite <- Hrk. apply rank_NoDup.
  - intros y Hy. unfold ord in Hy. apply (Permutation_in _ (sort_preps_perm _)) in Hy.
    apply in_map_iff in Hy as ([k' y'] & Hy1 & Hy2). simpl in Hy1. subst y'.
    destruct (PIa_entries k' y Hy2) as (v & _ & Hv & ->). simpl. rewrite Hv.
    change k' with (fst (k', base_prep br v)). apply in_map. assumption.
  - assumption.
  - rewrite load_unfold. unfold pi_init_accumulated. simpl.
    rewrite aget_fold_update by apply R_NoDup.
    change (set_ranks 0 (sort_preps (map snd (pi_preps PIa))) (pi_preps PIa)) with (set_ranks 0 ord (pi_preps PIa)).
    rewrite Hp. destruct (memb (p_owner x) _); simpl; eexists; (split; [reflexivity|]); simpl; lia.
Qed.

Lemma unelected_not_rewardable k p :
  In k (keys (pi_preps PI0)) -> ~ In k R -> aget k (pi_preps PI1) = Some p -> is_rewardable E p = false.
Proof.
  intros Hk HnR Hp. rewrite PI0_keys in Hk.
  apply (Permutation_in _ (Permutation_sym rank_perm)) in Hk.
  apply In_nth_error in Hk as [j Hj].
  pose proof (nth_error_firstn_ge (elected_n E) _ j k Hj rank_NoDup HnR) as Hge.
  destruct (loaded_rank j k Hj) as (s & Hs & Hr).
  rewrite (PI1_get k s Hs) in Hp. inversion Hp; subst p.
  pose proof (prep_fold_frame br L k evs s) as Hfr. unfold frame in Hfr.
  assert (F2 : p_rank (fold_left (prep_step br L k) evs s) = p_rank s) by congruence.
  unfold is_rewardable. rewrite F2, Hr.
  pose proof (wf_elected i WF) as HE0. fold E in HE0. unfold elected_n in Hge.
  assert ((Z.of_nat j <? E) = false) as -> by lia.
  rewrite andb_false_r. reflexivity.
Qed.

Lemma voted_amounts_out k : ~ In k (map v_addr (i_voted i)) -> voted_amounts i k = (0, 0).
Proof.
  intros Hk. unfold voted_amounts. destruct (find _ _) eqn:Ef; [|reflexivity].
  apply find_some in Ef as [Ef1 Ef2]. apply N.eqb_eq in Ef2. exfalso. apply Hk. rewrite <- Ef2. apply in_map; assumption.
Qed.

Lemma ghost_accv k p :
  ~ In k (keys (pi_preps PI0)) -> aget k (pi_preps PI1) = Some p -> p_accp p <= p_accv p.
Proof.
  intros Hk Hp. pose proof (proj2 (aget_None_keys k (pi_preps PI0)) Hk) as Hn.
  pose proof (prep_run_ok k) as Hrun. rewrite PI0_keys in Hk. rewrite (voted_amounts_out k Hk) in Hrun. simpl in Hrun.
  pose proof (wf_limit i WF) as Hl. fold L in Hl.
  pose proof (ghost_inv br L Hbr0 k evs PI0 0 Hn Hrun (wf_offsets i WF) (wf_events i WF) Hl) as Hg.
  rewrite <- PI1_preps, Hp in Hg. destruct Hg as (o' & Ho' & Hinv).
  pose proof (pinv_power br L Hbr0 _ _ Hinv) as Hpw.
  destruct Hinv as (_ & _ & _ & _ & Hc). nia.
Qed.

Lemma rewardable_accv_pos k p :
  aget k (pi_preps PI2) = Some p -> is_rewardable E p = true -> 0 < p_accv p.
Proof.
  intros Hp Hr. destruct (in_dec N.eq_dec k R) as [Hk|Hk].
  - destruct (split_elected k Hk) as (p' & Hp' & _ & _ & _ & Hpos & _).
    rewrite Hp in Hp'. inversion Hp'; subst p'. apply Hpos; assumption.
  - rewrite PI2_get in Hp. pose proof Hk as Hk'. apply memb_false in Hk'. rewrite Hk' in Hp.
    destruct (in_dec N.eq_dec k (keys (pi_preps PI0))) as [Hin|Hnin].
    + rewrite (unelected_not_rewardable k p Hin Hk Hp) in Hr. discriminate.
    + pose proof (ghost_accv k p Hnin Hp). unfold is_rewardable in Hr. lia.
Qed.

Lemma reward_no_panic : pi_reward_panics E PI1 = false.
Proof.
  unfold pi_reward_panics. destruct (existsb _ _) eqn:Ex; [|reflexivity].
  apply existsb_exists in Ex as (k & Hk & Hrk). rewrite PI1_elected in Hk.
  unfold rewardable_key in Hrk. destruct (aget k (pi_preps PI1)) as [s|] eqn:Es; [|discriminate].
  pose proof (accp_le_total k Hk) as Hle. unfold accp_of in Hle. rewrite Es in Hle.
  unfold is_rewardable in Hrk. apply andb_true_iff in Hrk as [_ Hrk]. unfold total in Hle.
  rewrite andb_true_l. destruct (pi_total PI1 =? 0) eqn:E0; [lia|reflexivity].
Qed.

Lemma voters_no_panic : voters_panic i PI2 = false.
Proof.
  assert (Hcase : forall kv, voter_share_panics E (pi_preps PI2) kv = false).
  { intros [k av]. unfold voter_share_panics. cbn [fst].
    destruct (aget k (pi_preps PI2)) eqn:Ep; [|reflexivity].
    destruct (is_rewardable E p) eqn:Er; [|reflexivity].
    pose proof (rewardable_accv_pos k p Ep Er). rewrite andb_true_l. lia. }
  unfold voters_panic. destruct (existsb _ _) eqn:Ex; [|reflexivity]. exfalso.
  apply existsb_exists in Ex as (v & _ & Ex). apply existsb_exists in Ex as (kv & _ & Hp).
  change (i_elected i) with E in Hp. rewrite Hcase in Hp. discriminate.
Qed.

Hypothesis HE : E <> 0.

(* wages <= the Iwage period budget *)
Lemma wage_fund_bound : sumZ (fun e => p_wage (snd e)) (pi_preps PI2) <= W.
Proof.
  rewrite wage_reindex.
  pose proof W_nonneg as HW. pose proof (wf_elected i WF) as HE0. fold E in HE0.
  assert (Hper : 0 <= per) by (apply big_div_nonneg; lia).
  eapply Z.le_trans; [apply (sumZ_le_const _ per)|].
  - intros k Hk. destruct (elected_final k Hk) as (s & Hs & _ & _ & Hz & _).
    rewrite PI2_get. apply memb_In in Hk. rewrite Hk, Hs. simpl. unfold g.
    destruct Hz as (_ & _ & Hw).
    destruct (is_rewardable E s); [|lia]. simpl. destruct (i_minbond i <=? p_bonded s); lia.
  - pose proof R_length. unfold per. rewrite big_div_pos by lia.
    assert (E * (W / E) <= W) by (apply Z.mul_div_le; lia). nia.
Qed.

End Term.

(* ================================================================== the theorems *)
Lemma calculate_ok_inv i o : calculate i = ROk o ->
  update_voting_ok i = true /\
  ((i_elected i = 0 /\ o = mkObsM (events_applied i) [] []) \/
   (i_elected i <> 0 /\
    o = mkObsM (rewards_calculated i) (prep_credits (rewards_calculated i))
               (voter_credits i (rewards_calculated i)))).
Proof.
  unfold calculate. destruct (update_voting_ok i); simpl; [|discriminate].
  destruct (i_elected i =? 0) eqn:E0.
  - intros H; inversion H. split; [reflexivity|]. left. split; [lia|reflexivity].
  - destruct (pi_reward_panics _ _); [discriminate|].
    destruct (voters_panic _ _); [discriminate|].
    intros H; inversion H. split; [reflexivity|]. right. split; [lia|reflexivity].
Qed.

Lemma zero_rewards_sum (f : prep -> Z) (m : amap prep) :
  NoDup (keys m) -> all_vals (fun p => f p = 0) m -> sumZ (fun e => f (snd e)) m = 0.
Proof.
  intros Hnd Hz. apply sumZ_zero. intros [k p] Hin. simpl. apply (Hz k p). apply In_aget; assumption.
Qed.

(* separate funds: commissions + voter rewards within the Iprep budget, wages within the Iwage budget *)
Theorem reward_budget_funds i o :
  wf_inputb i = true -> calculate i = ROk o ->
  sumZ (fun e => p_comm (snd e)) (pi_preps (m_info o)) + sumZ snd (m_voter_credits o) <= budget_prep i
  /\ sumZ (fun e => p_wage (snd e)) (pi_preps (m_info o)) <= budget_wage i.
Proof.
  intros Hwf Hc. apply wf_inputb_wf in Hwf. apply calculate_ok_inv in Hc as [UV [[HE ->]|[HE ->]]]; simpl.
  - destruct (PI1_inv i Hwf) as [Hz Hnd].
    rewrite (zero_rewards_sum p_comm), (zero_rewards_sum p_wage); try assumption.
    + pose proof (T_nonneg i Hwf). pose proof (W_nonneg i Hwf). lia.
    + intros k p Hp. apply (Hz k p Hp).
    + intros k p Hp. apply (Hz k p Hp).
  - split; [apply prep_fund_bound; assumption|apply wage_fund_bound; assumption].
Qed.

Lemma prep_credits_sum pi :
  sumZ snd (prep_credits pi) = sumZ (fun e => p_comm (snd e)) (pi_preps pi) + sumZ (fun e => p_wage (snd e)) (pi_preps pi).
Proof. unfold prep_credits. rewrite sumZ_map. simpl. unfold prep_reward_total. apply sumZ_add. Qed.

(* the property: everything credited for the term <= the term's budget *)
Theorem reward_budget i o :
  wf_inputb i = true -> calculate i = ROk o ->
  sumZ snd (m_prep_credits o) + sumZ snd (m_voter_credits o) <= budget_prep i + budget_wage i.
Proof.
  intros Hwf Hc. pose proof (reward_budget_funds i o Hwf Hc) as [H1 H2].
  apply wf_inputb_wf in Hwf. apply calculate_ok_inv in Hc as [UV [[HE ->]|[HE ->]]];
    cbn [m_prep_credits m_voter_credits m_info] in *.
  - pose proof (T_nonneg i Hwf). pose proof (W_nonneg i Hwf). rewrite !sumZ_nil. lia.
  - rewrite prep_credits_sum. lia.
Qed.

(* every credit is what the model's P-Rep / voter record says, and is not negative *)
Theorem credits_nonneg i o :
  wf_inputb i = true -> calculate i = ROk o ->
  (forall c, In c (m_prep_credits o) -> 0 <= snd c) /\ (forall c, In c (m_voter_credits o) -> 0 <= snd c).
Proof.
  intros Hwf Hc. apply wf_inputb_wf in Hwf. apply calculate_ok_inv in Hc as [UV [[HE ->]|[HE ->]]]; simpl.
  - split; intros c [].
  - split.
    + intros c Hin. unfold prep_credits in Hin. apply in_map_iff in Hin as ([k p] & <- & Hin). simpl.
      apply (In_aget _ _ _ (PI2_NoDup i Hwf)) in Hin.
      destruct (shares_within i Hwf UV k p Hin) as (_ & _ & H1 & H2). unfold prep_reward_total. lia.
    + intros c Hin. unfold voter_credits in Hin. apply in_map_iff in Hin as (v & <- & Hin). simpl.
      rewrite (voter_credit_formula i Hwf UV). apply sumZ_nonneg. intros [k p] Hkp. simpl.
      destruct (is_rewardable (i_elected i) p) eqn:Er; [|lia].
      apply (In_aget _ _ _ (PI2_NoDup i Hwf)) in Hkp.
      destruct (shares_within i Hwf UV k p Hkp) as (_ & Hvr & _).
      pose proof (acc_votes_nonneg i Hwf UV v k).
      destruct (in_dec N.eq_dec k (elected_keys (i_elected i) (load_prep_info i))) as [Hk|Hk].
      * destruct (split_elected i Hwf UV k Hk) as (p' & Hp' & _ & _ & _ & Hpos & _).
        rewrite Hkp in Hp'. inversion Hp'; subst p'. specialize (Hpos Er). apply Z.div_pos; [nia|lia].
      * destruct (PI2_outside i Hwf k p Hkp Hk) as (_ & Hv0 & _). rewrite Hv0, Z.mul_0_r, Zdiv_0_l. lia.
Qed.

(* the voter share: exact formula over the closed form of the accumulated votes, and the
   shares of one P-Rep's voters stay within that P-Rep's voter reward *)
Theorem voter_share_formula i o :
  wf_inputb i = true -> calculate i = ROk o -> i_elected i <> 0 ->
  (forall v, In v (voters i) ->
     aget v (m_voter_credits o) =
     Some (sumZ (fun kp => if is_rewardable (i_elected i) (snd kp)
                           then acc_votes i v (fst kp) * p_vr (snd kp) / p_accv (snd kp) else 0)
                (pi_preps (m_info o))))
  /\ (forall k p, In (k, p) (pi_preps (m_info o)) ->
        sumZ (fun v => if is_rewardable (i_elected i) p then acc_votes i v k * p_vr p / p_accv p else 0) (voters i)
        <= p_vr p).
Proof.
  intros Hwf Hc HE. apply wf_inputb_wf in Hwf. apply calculate_ok_inv in Hc as [UV [[HE0 ->]|[_ ->]]]; [contradiction|]. simpl.
  split.
  - intros v Hv. rewrite <- (voter_credit_formula i Hwf UV). unfold voter_credits.
    induction (voters i) as [|a l IH]; [destruct Hv|]. simpl.
    destruct (N.eqb v a) eqn:Ea; [apply N.eqb_eq in Ea; subst; reflexivity|].
    apply IH. destruct Hv as [->|Hv]; [rewrite N.eqb_refl in Ea; discriminate|assumption].
  - intros k p Hin. apply (In_aget _ _ _ (PI2_NoDup i Hwf)) in Hin.
    destruct (shares_within i Hwf UV k p Hin) as (Hs & _).
    rewrite (sumZ_ext_in _ (fun v => share i k (acc_votes i v k))); [assumption|].
    intros v _. symmetry. apply share_formula; assumption.
Qed.

(* the commission split of every P-Rep *)
Theorem commission_split i o :
  wf_inputb i = true -> calculate i = ROk o -> i_elected i <> 0 ->
  forall k p, In (k, p) (pi_preps (m_info o)) ->
    let prep_share := if memb k (elected_keys (i_elected i) (m_info o)) && is_rewardable (i_elected i) p
                      then budget_prep i * p_accp p / pi_total (m_info o) else 0 in
    p_comm p = rate_mul (p_rate p) prep_share /\ p_comm p + p_vr p = prep_share
    /\ 0 <= p_comm p /\ 0 <= p_vr p.
Proof.
  intros Hwf Hc HE. apply wf_inputb_wf in Hwf. apply calculate_ok_inv in Hc as [UV [[HE0 ->]|[_ ->]]]; [contradiction|].
  intros k p Hin. simpl in Hin. apply (In_aget _ _ _ (PI2_NoDup i Hwf)) in Hin.
  assert (Hek : elected_keys (i_elected i) (rewards_calculated i) = elected_keys (i_elected i) (load_prep_info i)).
  { unfold rewards_calculated, pi_calculate_reward, elected_keys. simpl. fold (elected_keys (i_elected i) (events_applied i)).
    apply PI1_elected. }
  assert (Htot : pi_total (rewards_calculated i) = pi_total (events_applied i)) by reflexivity.
  cbn [m_info]. rewrite Hek, Htot.
  destruct (memb k (elected_keys (i_elected i) (load_prep_info i))) eqn:Ek.
  - apply memb_In in Ek. destruct (split_elected i Hwf UV k Ek) as (p' & Hp' & Hc & Hvr & Hb & Hpos & _).
    rewrite Hin in Hp'. inversion Hp'; subst p'. cbv zeta in *. simpl andb.
    destruct (is_rewardable (i_elected i) p) eqn:Er.
    + rewrite big_div_pos in * by (apply Hpos; reflexivity). repeat split; try lia; try assumption.
    + repeat split; try lia; try assumption.
  - apply memb_false in Ek. destruct (PI2_outside i Hwf k p Hin Ek) as (H1 & H2 & _). simpl andb. cbv zeta.
    rewrite H1, H2. repeat split; try lia.
Qed.

(* the model's [RPanic] (a division by zero in the Go code) does not happen on well-formed terms *)
Theorem no_panic i : wf_inputb i = true -> calculate i <> RPanic.
Proof.
  intros Hwf. apply wf_inputb_wf in Hwf. unfold calculate.
  destruct (update_voting_ok i) eqn:UV; simpl; [|discriminate].
  destruct (i_elected i =? 0); [discriminate|].
  rewrite (reward_no_panic i Hwf UV), (voters_no_panic i Hwf UV). discriminate.
Qed.

(* ================================================================== non-vacuity *)
(* a well-formed term: three P-Reps (one disabled during the term, so its power share stays
   unpaid), one registered during the term, bond/delegation changes, wage for the P-Rep
   whose bond reaches the minimum *)
Definition ex_input : input :=
  mkInput 3000000000000000000000000 7700 1300 100 500 3 99
   [mkVoted 1%N 0 1000 100 1000 true; mkVoted 2%N 0 3000 99 0 true; mkVoted 3%N 0 7 0 10000 true]
   [(100%N, [(1%N,1000);(2%N,1000)]); (101%N, [(2%N,2000);(3%N,7)])]
   [(1%N,[(1%N,100)]); (2%N,[(2%N,99)])]
   [(10, EEnable 2%N 2); (20, EEnable 40%N 0); (30, EVote VBond 40%N [(40%N,1000)]);
    (30, EVote VDelegate 101%N [(40%N,5);(2%N,-2000)]); (60, EVote VBond 1%N [(1%N, 50)])].

Example ex_wf : wf_inputb ex_input = true.
Proof. vm_compute. reflexivity. Qed.

Example ex_calculates :
  exists o, calculate ex_input = ROk o /\ i_elected ex_input <> 0
            /\ 0 < sumZ snd (m_prep_credits o) /\ 0 < sumZ snd (m_voter_credits o)
            /\ aget 100%N (m_voter_credits o) = Some 64382735125748679234175.
Proof.
  eexists. split; [vm_compute; reflexivity|]. split; [discriminate|].
  split; [vm_compute; reflexivity|]. split; vm_compute; reflexivity.
Qed.

(* the consistency hypothesis is needed: voters holding more votes than the P-Rep's record
   shows are credited more than the whole budget *)
Definition ex_inconsistent : input :=
  mkInput 3000000000000000000000000 10000 0 100 500 1 99
   [mkVoted 1%N 0 10 100 0 true] [(100%N, [(1%N,1000)])] [(1%N,[(1%N,100)])] [].

Example ex_inconsistent_exceeds :
  wf_inputb ex_inconsistent = false /\
  exists o, calculate ex_inconsistent = ROk o /\
            budget_prep ex_inconsistent + budget_wage ex_inconsistent
            < sumZ snd (m_prep_credits o) + sumZ snd (m_voter_credits o).
Proof. split; [vm_compute; reflexivity|]. eexists. split; vm_compute; reflexivity. Qed.

(* a voter taking back more than it holds: statically well-formed, the calculation fails *)
Definition ex_overdraw : input :=
  mkInput 3000000000000000000000000 10000 0 100 500 1 99
   [mkVoted 1%N 0 1000 100 0 true] [(100%N, [(1%N,1000)])] [(1%N,[(1%N,100)])]
   [(5, EVote VDelegate 100%N [(1%N, -1001)])].

Example ex_overdraw_fails : wf_inputb ex_overdraw = true /\ calculate ex_overdraw = RErr.
Proof. split; vm_compute; reflexivity. Qed.
