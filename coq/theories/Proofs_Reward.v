(* Proofs_Reward.v -- lemmas about Model_Reward (IISS-4 reward calculation):
   the credits of a term stay within the term's budgets, the voter share
   formula, the commission split, no division by zero on well-formed terms. *)
From Coq Require Import List ZArith NArith Bool Lia Permutation.
From Coq Require Import ZifyBool ZifyN ZifyNat.
From Goloop Require Import Model_Reward.
Import ListNotations.
Open Scope Z_scope.

Ltac Zify.zify_post_hook ::= Z.div_mod_to_equations.

(* ================================================================== sums *)
Lemma sumZ_nil {A} (f : A -> Z) : sumZ f [] = 0.
Proof. reflexivity. Qed.

Lemma sumZ_cons {A} (f : A -> Z) a l : sumZ f (a :: l) = f a + sumZ f l.
Proof. reflexivity. Qed.

Lemma sumZ_app {A} (f : A -> Z) l1 l2 : sumZ f (l1 ++ l2) = sumZ f l1 + sumZ f l2.
Proof. induction l1; simpl; [reflexivity|]. rewrite IHl1. ring. Qed.

Lemma sumZ_ext_in {A} (f g : A -> Z) l : (forall x, In x l -> f x = g x) -> sumZ f l = sumZ g l.
Proof.
  induction l; simpl; intros H; [reflexivity|].
  rewrite (H a) by auto. rewrite IHl; auto.
Qed.

Lemma sumZ_le_in {A} (f g : A -> Z) l : (forall x, In x l -> f x <= g x) -> sumZ f l <= sumZ g l.
Proof.
  induction l; simpl; intros H; [lia|].
  specialize (H a (or_introl eq_refl)) as Ha. specialize (IHl (fun x Hx => H x (or_intror Hx))). lia.
Qed.

Lemma sumZ_nonneg {A} (f : A -> Z) l : (forall x, In x l -> 0 <= f x) -> 0 <= sumZ f l.
Proof.
  induction l; simpl; intros H; [lia|].
  specialize (H a (or_introl eq_refl)) as Ha. specialize (IHl (fun x Hx => H x (or_intror Hx))). lia.
Qed.

Lemma sumZ_zero {A} (f : A -> Z) l : (forall x, In x l -> f x = 0) -> sumZ f l = 0.
Proof.
  induction l; simpl; intros H; [reflexivity|].
  rewrite (H a) by auto. rewrite IHl; auto.
Qed.

Lemma sumZ_add {A} (f g : A -> Z) l : sumZ (fun x => f x + g x) l = sumZ f l + sumZ g l.
Proof. induction l; simpl; [reflexivity|]. rewrite IHl. ring. Qed.

Lemma sumZ_mul_r {A} (f : A -> Z) c l : sumZ (fun x => f x * c) l = sumZ f l * c.
Proof. induction l; simpl; [reflexivity|]. rewrite IHl. ring. Qed.

Lemma sumZ_map {A B} (g : A -> B) (f : B -> Z) l : sumZ f (map g l) = sumZ (fun x => f (g x)) l.
Proof. induction l; simpl; [reflexivity|]. rewrite IHl. reflexivity. Qed.

Lemma sumZ_swap {A B} (f : A -> B -> Z) la lb :
  sumZ (fun a => sumZ (fun b => f a b) lb) la = sumZ (fun b => sumZ (fun a => f a b) la) lb.
Proof.
  induction la; simpl.
  - symmetry. apply sumZ_zero. reflexivity.
  - rewrite IHla. rewrite <- sumZ_add. reflexivity.
Qed.

Lemma sumZ_le_const {A} (f : A -> Z) c l :
  (forall x, In x l -> f x <= c) -> sumZ f l <= Z.of_nat (length l) * c.
Proof.
  induction l; intros H.
  - simpl. lia.
  - rewrite sumZ_cons. specialize (H a (or_introl eq_refl)) as Ha.
    specialize (IHl (fun x Hx => H x (or_intror Hx))).
    change (length (a :: l)) with (S (length l)). lia.
Qed.

(* ------------------------------------------------------------------ membership *)
Lemma memb_In k l : memb k l = true <-> In k l.
Proof.
  induction l; simpl; [split; [discriminate|tauto]|].
  rewrite orb_true_iff, IHl, N.eqb_eq. split; intros [H|H]; auto.
Qed.

Lemma memb_false k l : memb k l = false <-> ~ In k l.
Proof. rewrite <- memb_In. destruct (memb k l); split; congruence. Qed.

Lemma nodupb_NoDup l : nodupb l = true -> NoDup l.
Proof.
  induction l; simpl; intros H; [constructor|].
  apply andb_true_iff in H as [H1 H2]. constructor; auto.
  apply negb_true_iff in H1. apply memb_false; auto.
Qed.

(* Σ_{x∈l} [x = k] y  for a duplicate-free l *)
Lemma sumZ_indicator (l : list addr) k y :
  NoDup l -> sumZ (fun x => if N.eqb x k then y else 0) l = if memb k l then y else 0.
Proof.
  induction l; intros Hnd; simpl; [reflexivity|].
  inversion Hnd; subst. rewrite IHl by assumption.
  rewrite (N.eqb_sym k a).
  destruct (N.eqb a k) eqn:E; simpl.
  - apply N.eqb_eq in E; subst. apply memb_false in H1. rewrite H1. ring.
  - ring.
Qed.

Lemma dedup_In x l : In x (dedup l) <-> In x l.
Proof.
  induction l; simpl; [tauto|].
  rewrite filter_In, IHl, negb_true_iff, N.eqb_neq.
  destruct (N.eq_dec a x); subst; intuition.
Qed.

Lemma NoDup_filter {A} (f : A -> bool) l : NoDup l -> NoDup (filter f l).
Proof.
  induction 1; simpl; [constructor|].
  destruct (f x); auto. constructor; auto. rewrite filter_In. tauto.
Qed.

Lemma dedup_NoDup l : NoDup (dedup l).
Proof.
  induction l; simpl; constructor.
  - rewrite filter_In, negb_true_iff, N.eqb_neq. tauto.
  - apply NoDup_filter; assumption.
Qed.

(* ================================================================== floor division *)
Lemma div_add_le a b T : 0 < T -> a / T + b / T <= (a + b) / T.
Proof. intros. nia. Qed.

Lemma floor_sum_le {A} (f : A -> Z) (l : list A) R T :
  0 <= R -> 0 < T -> (forall x, In x l -> 0 <= f x) -> sumZ f l <= T ->
  sumZ (fun x => f x * R / T) l <= R.
Proof.
  intros HR HT Hf Hs.
  assert (H : sumZ (fun x => f x * R / T) l <= sumZ f l * R / T).
  { clear Hs. induction l; simpl.
    - rewrite Z.div_0_l by lia. lia.
    - specialize (IHl (fun x Hx => Hf x (or_intror Hx))).
      pose proof (div_add_le (f a * R) (sumZ f l * R) T HT).
      replace ((f a + sumZ f l) * R) with (f a * R + sumZ f l * R) by ring. lia. }
  assert (sumZ f l * R / T <= R).
  { assert (sumZ f l * R <= T * R) by nia.
    apply Z.div_le_upper_bound; lia. }
  lia.
Qed.

Lemma big_div_pos x y : 0 < y -> big_div x y = x / y.
Proof. intros H. unfold big_div. destruct (0 <? y) eqn:E; [reflexivity|lia]. Qed.

Lemma big_div_0_l y : big_div 0 y = 0.
Proof. unfold big_div. destruct (0 <? y); [apply Zdiv_0_l|]. destruct (y <? 0); [rewrite Zdiv_0_l|]; reflexivity. Qed.

Lemma big_div_0_r x : big_div x 0 = 0.
Proof. reflexivity. Qed.

Lemma big_div_nonneg x y : 0 <= x -> 0 <= y -> 0 <= big_div x y.
Proof.
  intros Hx Hy. destruct (Z.eq_dec y 0); [subst; rewrite big_div_0_r; lia|].
  rewrite big_div_pos by lia. apply Z.div_pos; lia.
Qed.

(* ================================================================== association maps *)
Definition keys {V} (m : amap V) : list addr := map fst m.

Lemma aget_aset_same {V} k (v : V) m : aget k (aset k v m) = Some v.
Proof.
  induction m as [|[k' v'] m]; simpl.
  - rewrite N.eqb_refl. reflexivity.
  - destruct (N.eqb k k') eqn:E; simpl; rewrite ?N.eqb_refl, ?E; auto.
Qed.

Lemma aget_aset_other {V} k k' (v : V) m : k' <> k -> aget k' (aset k v m) = aget k' m.
Proof.
  intros Hne. induction m as [|[k2 v2] m]; simpl.
  - apply N.eqb_neq in Hne. rewrite Hne. reflexivity.
  - destruct (N.eqb k k2) eqn:E; simpl.
    + apply N.eqb_eq in E; subst. apply N.eqb_neq in Hne. rewrite Hne. reflexivity.
    + destruct (N.eqb k' k2); auto.
Qed.

Lemma aget_aset {V} k k' (v : V) m :
  aget k' (aset k v m) = if N.eqb k' k then Some v else aget k' m.
Proof.
  destruct (N.eqb k' k) eqn:E.
  - apply N.eqb_eq in E; subst. apply aget_aset_same.
  - apply N.eqb_neq in E. apply aget_aset_other; assumption.
Qed.

Lemma aget_In_keys {V} k (m : amap V) : (exists v, aget k m = Some v) <-> In k (keys m).
Proof.
  induction m as [|[k' v'] m]; simpl.
  - split; [intros [v H]; discriminate|tauto].
  - destruct (N.eqb k k') eqn:E.
    + apply N.eqb_eq in E; subst. split; eauto.
    + apply N.eqb_neq in E. rewrite IHm. split; [auto|intros [H|H]; congruence].
Qed.

Lemma aget_None_keys {V} k (m : amap V) : aget k m = None <-> ~ In k (keys m).
Proof.
  split.
  - intros H Hin. apply aget_In_keys in Hin as [v Hv]. congruence.
  - intros H. destruct (aget k m) eqn:E; [|reflexivity]. exfalso. apply H. apply aget_In_keys. eauto.
Qed.

Lemma keys_aset_in {V} k (v : V) m : In k (keys m) -> keys (aset k v m) = keys m.
Proof.
  induction m as [|[k' v'] m]; simpl; [tauto|].
  intros H. destruct (N.eqb k k') eqn:E; simpl.
  - apply N.eqb_eq in E; subst; reflexivity.
  - apply N.eqb_neq in E. f_equal. apply IHm. destruct H; congruence.
Qed.

Lemma keys_aset_notin {V} k (v : V) m : ~ In k (keys m) -> keys (aset k v m) = keys m ++ [k].
Proof.
  induction m as [|[k' v'] m]; simpl; [reflexivity|].
  intros H. destruct (N.eqb k k') eqn:E; simpl.
  - apply N.eqb_eq in E; subst. tauto.
  - f_equal. apply IHm. tauto.
Qed.

Lemma keys_aset_NoDup {V} k (v : V) m : NoDup (keys m) -> NoDup (keys (aset k v m)).
Proof.
  intros H. destruct (in_dec N.eq_dec k (keys m)).
  - rewrite keys_aset_in; assumption.
  - rewrite keys_aset_notin by assumption.
    apply NoDup_rev in H. rewrite <- (rev_involutive (keys m ++ [k])).
    apply NoDup_rev. rewrite rev_app_distr. simpl. constructor; auto.
    rewrite <- in_rev. assumption.
Qed.

Lemma keys_aset_incl {V} k k' (v : V) m : In k' (keys m) -> In k' (keys (aset k v m)).
Proof.
  intros H. destruct (in_dec N.eq_dec k (keys m)).
  - rewrite keys_aset_in; assumption.
  - rewrite keys_aset_notin by assumption. apply in_or_app; auto.
Qed.

Lemma aset_same {V} k (v : V) m : aget k m = Some v -> aset k v m = m.
Proof.
  induction m as [|[k' v'] m]; simpl; [discriminate|].
  destruct (N.eqb k k') eqn:E.
  - apply N.eqb_eq in E; subst. intros H; inversion H; reflexivity.
  - intros H. rewrite IHm; auto.
Qed.

Lemma aget_update_key {V} k k' (f : V -> V) m :
  aget k' (update_key k f m) = if N.eqb k' k then option_map f (aget k m) else aget k' m.
Proof.
  unfold update_key. destruct (aget k m) eqn:E.
  - rewrite aget_aset. destruct (N.eqb k' k); reflexivity.
  - destruct (N.eqb k' k) eqn:E2; [|reflexivity].
    apply N.eqb_eq in E2; subst. simpl. assumption.
Qed.

Lemma keys_update_key {V} k (f : V -> V) m : keys (update_key k f m) = keys m.
Proof.
  unfold update_key. destruct (aget k m) eqn:E; [|reflexivity].
  apply keys_aset_in. apply aget_In_keys. eauto.
Qed.

(* fold of update_key over a duplicate-free key list *)
Lemma aget_fold_update {V} (f : V -> V) l : forall m k,
  NoDup l ->
  aget k (fold_left (fun m k => update_key k f m) l m) =
  if memb k l then option_map f (aget k m) else aget k m.
Proof.
  induction l as [|a l IH]; intros m k Hnd; simpl; [reflexivity|].
  inversion Hnd; subst. rewrite IH by assumption.
  rewrite aget_update_key.
  destruct (N.eqb k a) eqn:E; simpl.
  - apply N.eqb_eq in E; subst. apply memb_false in H1. rewrite H1. reflexivity.
  - reflexivity.
Qed.

Lemma keys_fold_update {V} (f : V -> V) l : forall m,
  keys (fold_left (fun m k => update_key k f m) l m) = keys m.
Proof.
  induction l as [|a l IH]; intros m; simpl; [reflexivity|].
  rewrite IH. apply keys_update_key.
Qed.

(* Σ over the entries of a map, reindexed over a duplicate-free key set outside of which the summand vanishes *)
Lemma sumZ_entries_pick {V} (F : addr -> V -> Z) (m : amap V) k :
  NoDup (keys m) ->
  sumZ (fun e => if N.eqb (fst e) k then F (fst e) (snd e) else 0) m =
  match aget k m with Some v => F k v | None => 0 end.
Proof.
  induction m as [|[k' v'] m IH]; intros Hnd; simpl; [reflexivity|].
  inversion Hnd; subst. rewrite IH by assumption.
  rewrite (N.eqb_sym k k').
  destruct (N.eqb k' k) eqn:E.
  - apply N.eqb_eq in E; subst.
    assert (aget k m = None) as -> by (apply aget_None_keys; assumption). ring.
  - ring.
Qed.

Lemma sumZ_entries_reindex {V} (F : addr -> V -> Z) (m : amap V) (R : list addr) :
  NoDup (keys m) -> NoDup R ->
  (forall k v, In (k, v) m -> ~ In k R -> F k v = 0) ->
  sumZ (fun e => F (fst e) (snd e)) m =
  sumZ (fun k => match aget k m with Some v => F k v | None => 0 end) R.
Proof.
  intros Hm HR Hz.
  rewrite (sumZ_ext_in _ (fun e => sumZ (fun k => if N.eqb k (fst e) then F (fst e) (snd e) else 0) R)).
  2:{ intros [k v] Hin. simpl. rewrite sumZ_indicator by assumption.
      destruct (memb k R) eqn:E; [reflexivity|]. apply Hz; auto. apply memb_false; assumption. }
  rewrite sumZ_swap. apply sumZ_ext_in. intros k _.
  rewrite <- sumZ_entries_pick by assumption.
  apply sumZ_ext_in. intros [k' v'] _. simpl. rewrite (N.eqb_sym k k'). reflexivity.
Qed.

Lemma aget_In {V} k (v : V) m : aget k m = Some v -> In (k, v) m.
Proof.
  induction m as [|[k' v'] m]; simpl; [discriminate|].
  destruct (N.eqb k k') eqn:E.
  - apply N.eqb_eq in E; subst. intros H; inversion H; auto.
  - auto.
Qed.

Lemma In_aget {V} k (v : V) m : NoDup (keys m) -> In (k, v) m -> aget k m = Some v.
Proof.
  induction m as [|[k' v'] m]; simpl; [tauto|].
  intros Hnd [H|H]; inversion Hnd; subst.
  - inversion H; subst. rewrite N.eqb_refl. reflexivity.
  - destruct (N.eqb k k') eqn:E.
    + apply N.eqb_eq in E; subst. exfalso. apply H2. change k' with (fst (k', v)). apply in_map; assumption.
    + auto.
Qed.
