(* Proofs_C18.v — trie proofs are complete and sound (up to an exhibited hash
   collision), absent keys never verify to a value, a substituted proof element
   is rejected. *)
From Goloop Require Import lib.Bytes Model_RlpBytes Model_Trie Proofs_RlpBytes Proofs_Trie Proofs_TrieMap
  Proofs_TrieWf Proofs_TrieUnique Proofs_TrieProof.
From Coq Require Import ZifyBool ZifyN ZifyNat.
Open Scope N_scope.

Fixpoint replace_nth {A} (i : nat) (x : A) (l : list A) : list A :=
  match l, i with
  | [], _ => []
  | _ :: t, O => x :: t
  | a :: t, S j => a :: replace_nth j x t
  end.

Section WithHash.
  Variable H : bytes -> bytes.
  Hypothesis H_len : forall x, length (H x) = 32%nat.

  Definition collision : Prop := exists a b : bytes, a <> b /\ H a = H b.

  Notation ser := (ser H).
  Notation inline := (inline H).
  Notation run := (run H).
  Notation sizes_ok := (sizes_ok H).

  Lemma hashed_nonroot n : hashed H false n = negb (inline n).
  Proof. reflexivity. Qed.

  Lemma hashed_root n : hashed H true n = true.
  Proof. reflexivity. Qed.

  (* ---------- proof_from, unfolded ---------- *)

  Lemma proof_ext isroot ks n' k :
    proof_from H isroot (Ext ks n') k =
    match strip ks k with
    | Some rk => option_map (cons_if (hashed H isroot (Ext ks n')) (ser (Ext ks n'))) (proof_from H false n' rk)
    | None => None
    end.
  Proof.
    cbn [proof_from]. pose proof (cp_third_nil k ks) as T.
    destruct (cp k ks) as [[c rk] rks]. destruct rks; rewrite T; reflexivity.
  Qed.

  Lemma proof_branch isroot cs bv i r :
    proof_from H isroot (Branch cs bv) (i :: r) =
    option_map (cons_if (hashed H isroot (Branch cs bv)) (ser (Branch cs bv))) (proof_from H false (child cs i) r).
  Proof.
    cbn [proof_from]. generalize (cons_if (hashed H isroot (Branch cs bv)) (ser (Branch cs bv))). intros f.
    revert i. induction cs as [|c t IH]; intros i; cbn [child]; [reflexivity|].
    destruct (i =? 0); [reflexivity|apply IH].
  Qed.

  Lemma option_map_some {A B} (f : A -> B) o y : option_map f o = Some y -> exists x, o = Some x /\ y = f x.
  Proof. destruct o; cbn; [|discriminate]. intros E. inversion E. eauto. Qed.

  (* ---------- the checker below a link ---------- *)

  Definition G (c : node) (r : nibs) (l : list bytes) : presult :=
    if inline c then run c r false l else prove_items H (H (ser c)) r l.

  Lemma run_ext ks n' k h l :
    run (Ext ks n') k h l = match strip ks k with Some rk => G n' rk l | None => PNotFound end.
  Proof.
    unfold Proofs_TrieProof.run. rewrite expect_ext. destruct (strip ks k); [|reflexivity].
    unfold G, Proofs_TrieProof.run. destruct (inline n'); reflexivity.
  Qed.

  Lemma run_branch cs bv i r h l :
    run (Branch cs bv) (i :: r) h l =
    match child cs i with Empty => PNotFound | c => G c r l end.
  Proof.
    unfold Proofs_TrieProof.run. rewrite expect_branch. unfold follow_e, G, Proofs_TrieProof.run.
    destruct (child cs i); try reflexivity; match goal with |- context [inline ?c] => destruct (inline c) end; reflexivity.
  Qed.

  Lemma run_branch_ne cs bv i r h l :
    child cs i <> Empty -> run (Branch cs bv) (i :: r) h l = G (child cs i) r l.
  Proof. intros Hne. rewrite run_branch. destruct (child cs i); [congruence|reflexivity..]. Qed.

  Lemma G_genuine c r q :
    wf_node c -> sizes_ok c -> nibs_ok r = true ->
    G c r (cons_if (negb (inline c)) (ser c) q) = run c r (negb (inline c)) q.
  Proof.
    intros W Hs Hr. unfold G. destruct (inline c); cbn [negb cons_if]; [reflexivity|].
    now apply prove_items_genuine.
  Qed.

  Lemma wf_child_node cs i : Forall wfe cs -> child cs i <> Empty -> wf_node (child cs i).
  Proof. intros F Hne. destruct (wfe_child cs i F); [contradiction|assumption]. Qed.

  (* ---------- completeness ---------- *)

  Lemma complete_aux n : forall k v isroot,
    wf_node n -> sizes_ok n -> nibs_ok k = true -> get n k = Some v ->
    exists q, proof_from H isroot n k = Some (cons_if (hashed H isroot n) (ser n) q) /\
              run n k (hashed H isroot n) q = PVal v.
  Proof.
    induction n as [ | ks v0 | ks n' IH | cs bv IH] using node_ind'; intros k v isroot W Hs Hk Hg.
    - destruct W.
    - rewrite get_leaf in Hg. destruct (bytes_eqb k ks) eqn:E; [|discriminate].
      apply bytes_eqb_eq in E. subst k. inversion Hg; subst v0.
      exists []. cbn [proof_from]. rewrite bytes_eqb_refl. split; [reflexivity|].
      unfold Proofs_TrieProof.run. cbn [expect is_nil negb]. rewrite andb_false_r, bytes_eqb_refl. reflexivity.
    - pose proof W as W'. cbn in W'. destruct W' as (Hne & Hks & Hb & Wn).
      cbn [Proofs_TrieProof.sizes_ok] in Hs. destruct Hs as [Hs0 Hsn].
      rewrite get_ext in Hg. destruct (strip ks k) as [rk|] eqn:S; [|discriminate].
      assert (Hrk : nibs_ok rk = true) by (apply strip_some in S; subst k; apply nibs_ok_app in Hk; tauto).
      destruct (IH rk v false Wn Hsn Hrk Hg) as (q' & P' & R').
      rewrite hashed_nonroot in P', R'.
      exists (cons_if (negb (inline n')) (ser n') q'). split.
      + rewrite proof_ext, S, P'. reflexivity.
      + rewrite run_ext, S. rewrite G_genuine by assumption. exact R'.
    - pose proof W as W'. apply wf_branch_iff in W' as (L & Hbv & Hocc & Wc).
      pose proof Hs as Hs'. apply sizes_branch in Hs' as [Hs0 Hsc].
      destruct k as [|i r].
      + cbn [get] in Hg. subst bv. exists []. split; [reflexivity|]. reflexivity.
      + apply nibs_ok_cons in Hk as [Hi Hr]. rewrite get_branch in Hg.
        assert (Hne : child cs i <> Empty) by (intros E; rewrite E in Hg; discriminate).
        pose proof (wf_child_node cs i Wc Hne) as Wx. pose proof (sizes_child H cs i Hsc) as Hsx.
        rewrite Forall_forall in IH.
        destruct (IH (child cs i) (child_in cs i ltac:(lia)) r v false Wx Hsx Hr Hg) as (q' & P' & R').
        rewrite hashed_nonroot in P', R'.
        exists (cons_if (negb (inline (child cs i))) (ser (child cs i)) q'). split.
        * rewrite proof_branch, P'. reflexivity.
        * rewrite run_branch_ne by exact Hne. rewrite G_genuine by assumption. exact R'.
  Qed.

  Lemma root_nonempty t : t <> Empty -> exists b r, root H t = b :: r /\ root H t = H (ser t).
  Proof.
    intros Hne. assert (E : root H t = H (ser t)) by (destruct t; [congruence|reflexivity..]).
    rewrite E. destruct (H (ser t)) as [|b r] eqn:Eh.
    - pose proof (H_len (ser t)) as X. rewrite Eh in X. discriminate.
    - eauto.
  Qed.

  Lemma prove_root t k p : t <> Empty -> prove H (root H t) k p = prove_items H (H (ser t)) k p.
  Proof.
    intros Hne. destruct (root_nonempty t Hne) as (b & r & E1 & E2). unfold prove. rewrite E1.
    rewrite <- E1, E2. reflexivity.
  Qed.

  Theorem complete t k v :
    wf t -> sizes_ok t -> nibs_ok k = true -> get t k = Some v ->
    exists p, proof H t k = Some p /\ prove H (root H t) k p = PVal v.
  Proof.
    intros W Hs Hk Hg. assert (Hne : t <> Empty) by (intros ->; discriminate).
    destruct W as [->|W]; [congruence|].
    destruct (complete_aux t k v true W Hs Hk Hg) as (q & P & R). rewrite hashed_root in *.
    exists (ser t :: q). split; [exact P|]. rewrite prove_root by exact Hne.
    rewrite prove_items_genuine by assumption. exact R.
  Qed.

  (* ---------- soundness ---------- *)

  Lemma prove_items_val_inv h k l v :
    prove_items H h k l = PVal v -> exists it rest, l = it :: rest /\ H it = h.
  Proof.
    destruct l as [|it rest]; cbn [prove_items]; [discriminate|].
    destruct (bytes_eqb (H it) h) eqn:E; [|discriminate]. apply bytes_eqb_eq in E. eauto.
  Qed.

  Lemma G_sound c r l v :
    wf_node c -> sizes_ok c -> nibs_ok r = true ->
    (forall h l', run c r h l' = PVal v -> get c r = Some v \/ collision) ->
    G c r l = PVal v -> get c r = Some v \/ collision.
  Proof.
    intros W Hs Hr IH. unfold G. destruct (inline c); [apply IH|].
    intros P. destruct (prove_items_val_inv _ _ _ _ P) as (it & rest & -> & Eh).
    destruct (bytes_eqb it (ser c)) eqn:E.
    - apply bytes_eqb_eq in E. subst it. rewrite prove_items_genuine in P by assumption. eapply IH; eauto.
    - right. exists it, (ser c). split; [|exact Eh]. intros X. subst it. rewrite bytes_eqb_refl in E. discriminate.
  Qed.

  Lemma sound_aux n : forall k h l v,
    wf_node n -> sizes_ok n -> nibs_ok k = true ->
    run n k h l = PVal v -> get n k = Some v \/ collision.
  Proof.
    induction n as [ | ks v0 | ks n' IH | cs bv IH] using node_ind'; intros k h l v W Hs Hk R.
    - destruct W.
    - unfold Proofs_TrieProof.run in R. cbn [expect] in R.
      destruct (h && negb (is_nil l)); [discriminate|].
      destruct (bytes_eqb ks k) eqn:E; [|discriminate]. apply bytes_eqb_eq in E. subst k.
      inversion R; subst. left. now rewrite get_leaf, bytes_eqb_refl.
    - pose proof W as W'. cbn in W'. destruct W' as (Hne & Hks & Hb & Wn).
      cbn [Proofs_TrieProof.sizes_ok] in Hs. destruct Hs as [Hs0 Hsn].
      rewrite run_ext in R. rewrite get_ext. destruct (strip ks k) as [rk|] eqn:S; [|discriminate].
      assert (Hrk : nibs_ok rk = true) by (apply strip_some in S; subst k; apply nibs_ok_app in Hk; tauto).
      eapply G_sound; eauto.
    - pose proof W as W'. apply wf_branch_iff in W' as (L & Hbv & Hocc & Wc).
      pose proof Hs as Hs'. apply sizes_branch in Hs' as [Hs0 Hsc].
      destruct k as [|i r].
      + unfold Proofs_TrieProof.run in R. cbn [expect] in R. left. cbn [get].
        destruct bv; inversion R; reflexivity.
      + apply nibs_ok_cons in Hk as [Hi Hr]. rewrite get_branch.
        assert (Hne : child cs i <> Empty).
        { intros E. rewrite run_branch, E in R. discriminate. }
        rewrite run_branch_ne in R by exact Hne.
        pose proof (wf_child_node cs i Wc Hne) as Wx. pose proof (sizes_child H cs i Hsc) as Hsx.
        eapply G_sound; eauto.
        rewrite Forall_forall in IH. intros h' l'. apply IH; auto. apply child_in. lia.
  Qed.

  Theorem sound t r k p v :
    prove H r k p = PVal v -> r = root H t -> wf t -> sizes_ok t -> nibs_ok k = true ->
    get t k = Some v \/ collision.
  Proof.
    intros P -> W Hs Hk. destruct W as [->|W]; [cbn in P; discriminate|].
    assert (Hne : t <> Empty) by (destruct t; [destruct W|discriminate..]).
    rewrite prove_root in P by exact Hne.
    destruct (prove_items_val_inv _ _ _ _ P) as (it & rest & -> & Eh).
    destruct (bytes_eqb it (ser t)) eqn:E.
    - apply bytes_eqb_eq in E. subst it. rewrite prove_items_genuine in P by assumption.
      eapply sound_aux; eauto.
    - right. exists it, (ser t). split; [|exact Eh]. intros X. subst it. rewrite bytes_eqb_refl in E. discriminate.
  Qed.

  (* ---------- absent keys ---------- *)

  Lemma absent_aux n : forall k isroot p,
    wf_node n -> sizes_ok n -> nibs_ok k = true -> get n k = None ->
    proof_from H isroot n k = Some p ->
    exists q, p = cons_if (hashed H isroot n) (ser n) q /\ run n k (hashed H isroot n) q = PNil.
  Proof.
    induction n as [ | ks v0 | ks n' IH | cs bv IH] using node_ind'; intros k isroot p W Hs Hk Hg P.
    - destruct W.
    - cbn [proof_from] in P. rewrite get_leaf in Hg.
      destruct (bytes_eqb ks k) eqn:E; [|discriminate]. apply bytes_eqb_eq in E. subst k.
      rewrite bytes_eqb_refl in Hg. discriminate.
    - pose proof W as W'. cbn in W'. destruct W' as (Hne & Hks & Hb & Wn).
      cbn [Proofs_TrieProof.sizes_ok] in Hs. destruct Hs as [Hs0 Hsn].
      rewrite get_ext in Hg. rewrite proof_ext in P. destruct (strip ks k) as [rk|] eqn:S; [|discriminate].
      assert (Hrk : nibs_ok rk = true) by (apply strip_some in S; subst k; apply nibs_ok_app in Hk; tauto).
      apply option_map_some in P as (p1 & P1 & ->).
      destruct (IH rk false p1 Wn Hsn Hrk Hg P1) as (q' & -> & R'). rewrite hashed_nonroot in *.
      eexists. split; [reflexivity|]. rewrite run_ext, S. rewrite G_genuine by assumption. exact R'.
    - pose proof W as W'. apply wf_branch_iff in W' as (L & Hbv & Hocc & Wc).
      pose proof Hs as Hs'. apply sizes_branch in Hs' as [Hs0 Hsc].
      destruct k as [|i r].
      + cbn [get] in Hg. subst bv. cbn [proof_from] in P. inversion P; subst.
        eexists. split; reflexivity.
      + apply nibs_ok_cons in Hk as [Hi Hr]. rewrite get_branch in Hg. rewrite proof_branch in P.
        apply option_map_some in P as (p1 & P1 & ->).
        assert (Hne : child cs i <> Empty) by (intros E; rewrite E in P1; discriminate).
        pose proof (wf_child_node cs i Wc Hne) as Wx. pose proof (sizes_child H cs i Hsc) as Hsx.
        rewrite Forall_forall in IH.
        destruct (IH (child cs i) (child_in cs i ltac:(lia)) r false p1 Wx Hsx Hr Hg P1) as (q' & -> & R').
        rewrite hashed_nonroot in *.
        eexists. split; [reflexivity|]. rewrite run_branch_ne by exact Hne. rewrite G_genuine by assumption.
        exact R'.
  Qed.

  Theorem absent t k :
    wf t -> sizes_ok t -> nibs_ok k = true -> get t k = None ->
    (forall p v, prove H (root H t) k p = PVal v -> collision) /\
    (forall p, proof H t k = Some p -> prove H (root H t) k p = PNil) /\
    (proof H t k = None -> prove H (root H t) k [] = PIllegal).
  Proof.
    intros W Hs Hk Hg. repeat split.
    - intros p v P. destruct (sound t _ k p v P eq_refl W Hs Hk) as [X|X]; [congruence|exact X].
    - intros p P. destruct W as [->|W]; [discriminate|].
      assert (Hne : t <> Empty) by (destruct t; [destruct W|discriminate..]).
      destruct (absent_aux t k true p W Hs Hk Hg P) as (q & -> & R). rewrite hashed_root in *.
      cbn [cons_if]. rewrite prove_root by exact Hne. rewrite prove_items_genuine by assumption. exact R.
    - intros _. unfold prove. destruct (root H t); reflexivity.
  Qed.

  (* ---------- single substitution ---------- *)

  Definition GG (n : node) (isroot : bool) (k : nibs) (l : list bytes) : presult :=
    if hashed H isroot n then prove_items H (H (ser n)) k l else run n k false l.

  Lemma GG_G c r l : GG c false r l = G c r l.
  Proof. unfold GG, G. rewrite hashed_nonroot. destruct (inline c); reflexivity. Qed.

  Lemma subst_head n k q x :
    x <> ser n -> prove_items H (H (ser n)) k (x :: q) = PIllegal \/ collision.
  Proof.
    intros Hx. cbn [prove_items]. destruct (bytes_eqb (H x) (H (ser n))) eqn:E; [|now left].
    apply bytes_eqb_eq in E. right. exists x, (ser n). auto.
  Qed.

  Lemma subst_aux n : forall k v isroot p i x y,
    wf_node n -> sizes_ok n -> nibs_ok k = true -> get n k = Some v ->
    proof_from H isroot n k = Some p -> nth_error p i = Some y -> x <> y ->
    GG n isroot k (replace_nth i x p) = PIllegal \/ collision.
  Proof.
    induction n as [ | ks v0 | ks n' IH | cs bv IH] using node_ind';
      intros k v isroot p i x y W Hs Hk Hg P Hn Hxy.
    - destruct W.
    - cbn [proof_from] in P. destruct (bytes_eqb ks k); [|discriminate]. inversion P; subst p. clear P.
      unfold GG. destruct (hashed H isroot (Leaf ks v0)); cbn [cons_if] in *.
      + destruct i; cbn in Hn; [|destruct i; discriminate]. inversion Hn; subst y.
        cbn [replace_nth]. now apply subst_head.
      + destruct i; discriminate.
    - pose proof W as W'. cbn in W'. destruct W' as (Hne & Hks & Hb & Wn).
      pose proof Hs as Hs'. cbn [Proofs_TrieProof.sizes_ok] in Hs'. destruct Hs' as [Hs0 Hsn].
      rewrite get_ext in Hg. rewrite proof_ext in P. destruct (strip ks k) as [rk|] eqn:S; [|discriminate].
      assert (Hrk : nibs_ok rk = true) by (apply strip_some in S; subst k; apply nibs_ok_app in Hk; tauto).
      apply option_map_some in P as (p1 & P1 & ->).
      assert (Step : forall j, nth_error p1 j = Some y ->
                 forall hf, run (Ext ks n') k hf (replace_nth j x p1) = PIllegal \/ collision).
      { intros j Hj hf. rewrite run_ext, S, <- GG_G. eapply IH; eauto. }
      unfold GG. destruct (hashed H isroot (Ext ks n')); cbn [cons_if] in *.
      + destruct i as [|j]; cbn in Hn.
        * inversion Hn; subst y. cbn [replace_nth]. now apply subst_head.
        * cbn [replace_nth]. rewrite prove_items_genuine by assumption. now apply Step.
      + now apply Step.
    - pose proof W as W'. apply wf_branch_iff in W' as (L & Hbv & Hocc & Wc).
      pose proof Hs as Hs'. apply sizes_branch in Hs' as [Hs0 Hsc].
      destruct k as [|i0 r].
      + cbn [proof_from] in P. inversion P; subst p. clear P.
        unfold GG. destruct (hashed H isroot (Branch cs bv)); cbn [cons_if] in *.
        * destruct i; cbn in Hn; [|destruct i; discriminate]. inversion Hn; subst y.
          cbn [replace_nth]. now apply subst_head.
        * destruct i; discriminate.
      + apply nibs_ok_cons in Hk as [Hi Hr]. rewrite get_branch in Hg. rewrite proof_branch in P.
        apply option_map_some in P as (p1 & P1 & ->).
        assert (Hne : child cs i0 <> Empty) by (intros E; rewrite E in P1; discriminate).
        pose proof (wf_child_node cs i0 Wc Hne) as Wx. pose proof (sizes_child H cs i0 Hsc) as Hsx.
        assert (Step : forall j, nth_error p1 j = Some y ->
                   forall hf, run (Branch cs bv) (i0 :: r) hf (replace_nth j x p1) = PIllegal \/ collision).
        { intros j Hj hf. rewrite run_branch_ne by exact Hne. rewrite <- GG_G.
          rewrite Forall_forall in IH. eapply (IH (child cs i0)); eauto. apply child_in. lia. }
        unfold GG. destruct (hashed H isroot (Branch cs bv)); cbn [cons_if] in *.
        * destruct i as [|j]; cbn in Hn.
          -- inversion Hn; subst y. cbn [replace_nth]. now apply subst_head.
          -- cbn [replace_nth]. rewrite prove_items_genuine by (auto; apply nibs_ok_cons; auto).
             now apply Step.
        * now apply Step.
  Qed.

  Theorem single_substitution t k v p i x y :
    wf t -> sizes_ok t -> nibs_ok k = true -> get t k = Some v ->
    proof H t k = Some p -> nth_error p i = Some y -> x <> y ->
    prove H (root H t) k (replace_nth i x p) = PIllegal \/ collision.
  Proof.
    intros W Hs Hk Hg P Hn Hxy. assert (Hne : t <> Empty) by (intros ->; discriminate).
    destruct W as [->|W]; [congruence|].
    rewrite prove_root by exact Hne.
    pose proof (subst_aux t k v true p i x y W Hs Hk Hg P Hn Hxy) as X.
    unfold GG in X. rewrite hashed_root in X. exact X.
  Qed.

End WithHash.

(* non-vacuity: a trie with a hashed child, under a 32-byte "hash" *)
Definition ex_H (x : bytes) : bytes := repeat (N.of_nat (length x) mod 256) 32.
Definition ex_tree : node :=
  run_ops [TSet [1;2;3;4] (repeat 7 40); TSet [1;2;5;6] (repeat 8 40); TSet [1;2] [9]].
Example ex_H_len : forall x, length (ex_H x) = 32%nat.
Proof. intros x. apply repeat_length. Qed.
Example ex_tree_ok :
  wf ex_tree /\ sizes_ok ex_H ex_tree /\ nibs_ok [1;2;3;4] = true /\
  get ex_tree [1;2;3;4] = Some (repeat 7 40) /\ get ex_tree [1;2;3] = None /\
  (exists p, proof ex_H ex_tree [1;2;3;4] = Some p /\ length p = 3%nat).
Proof.
  split; [apply run_ops_wf; repeat constructor; discriminate|].
  split; [vm_compute; repeat split|]. split; [reflexivity|]. split; [reflexivity|].
  split; [reflexivity|]. eexists. split; [vm_compute; reflexivity|reflexivity].
Qed.

Lemma other_root (H : bytes -> bytes) (H_len : forall x, length (H x) = 32%nat) t k p v :
  wf t -> sizes_ok H t -> nibs_ok k = true -> get t k <> Some v ->
  prove H (root H t) k p = PVal v -> exists a b : bytes, a <> b /\ H a = H b.
Proof.
  intros W Hs Hk Hn P. destruct (sound H H_len t _ k p v P eq_refl W Hs Hk) as [X|X]; [contradiction|exact X].
Qed.
