(* Proofs_ConsensusNet_LockWAL.v — replay of the lock WAL at restart (C01).

   [restart] (Model_ConsensusNode.v) restores the lock by folding
   [apply_lock_rec] over the lock WAL, starting from the height vote set
   rebuilt from the round WAL.  Every entry written by [write_lock_wal] is

       RVoteList (vs_list pv) :: map (RPart b) (all_parts blocks b)

   where pv is the node's prevote set of round r with more than 2n/3 votes
   for block b.  This file shows that replaying such an entry restores exactly
   (b, r) — whatever the height vote set held before (vs_add may refuse to
   replace a stored vote, but only when the stored vote belongs to a +2/3
   decision, which then is b as well) — PROVIDED no two conflicting +2/3
   prevote sets of one round exist among the "known" votes K.  A torn entry
   (a strict prefix: crash inside write_lock_wal, deviation D4 of
   docs/notes/C01_spec.md) leaves the previously restored lock untouched.
   Since /repo commit 54006ba the entry is written on every (re)lock, so the
   lock restored from a WAL of this shape is the LAST lock taken (Example
   [ex_relock_restored]: lock (0, 1), re-lock (2, 1), restored (2, 1)).

   Everything is relative to a predicate K on votes (the votes "in the soup")
   and the hypothesis [K_unique]; the net refinement instantiates it. *)
From Coq Require Import List ZArith NArith Bool Arith Lia.
From Goloop Require Import Model_ConsensusNode Proofs_ConsensusNode Proofs_ConsensusNode_C01.
Import ListNotations.
Open Scope Z_scope.

Set Implicit Arguments.

(* ------------------------------------------------------------------ lists, counting *)

Lemma lw_dec_eqb_eq a b : dec_eqb a b = true -> a = b.
Proof. destruct a, b; cbn; try discriminate; auto. intro H. apply N.eqb_eq in H. subst; auto. Qed.

Lemma lw_dec_eqb_refl a : dec_eqb a a = true.
Proof. destruct a; cbn; auto. apply N.eqb_refl. Qed.

Lemma lw_vote_eqb_dec o v : vote_eqb o v = true -> v_dec o = v_dec v.
Proof.
  unfold vote_eqb. intro H.
  apply andb_prop in H as [H _]. apply andb_prop in H as [_ H]. apply lw_dec_eqb_eq; auto.
Qed.

Lemma over23_pos c n : over23 c n = true -> (0 < c)%nat.
Proof. unfold over23. intro H. apply Nat.ltb_lt in H. lia. Qed.

(* two decisions cannot both have more than 2n/3 of n slots *)
Lemma over23_two c1 c2 n : (c1 + c2 <= n)%nat -> over23 c1 n = true -> over23 c2 n = true -> False.
Proof.
  unfold over23. intros L H1 H2. apply Nat.ltb_lt in H1. apply Nat.ltb_lt in H2.
  pose proof (Nat.div_mod (n * 2) 3 ltac:(lia)) as D.
  pose proof (Nat.mod_upper_bound (n * 2) 3 ltac:(lia)) as B. lia.
Qed.

Lemma count_dec_disjoint vs d d' :
  d <> d' -> (vs_count_dec vs d + vs_count_dec vs d' <= length vs)%nat.
Proof.
  intro N. unfold vs_count_dec. induction vs as [|[v|] vs IH]; cbn [filter length]; try lia.
  destruct (dec_eqb (v_dec v) d) eqn:E1; destruct (dec_eqb (v_dec v) d') eqn:E2; cbn [length]; try lia.
  apply lw_dec_eqb_eq in E1. apply lw_dec_eqb_eq in E2. congruence.
Qed.

Lemma over23_dec_unique vs d d' :
  over23 (vs_count_dec vs d) (length vs) = true ->
  over23 (vs_count_dec vs d') (length vs) = true -> d = d'.
Proof.
  intros H1 H2.
  assert (D : {d = d'} + {d <> d'}).
  { destruct (dec_eqb d d') eqn:E; [left; apply lw_dec_eqb_eq; auto|right].
    intro X. subst. rewrite lw_dec_eqb_refl in E. discriminate. }
  destruct D as [|Ne]; auto. exfalso.
  eapply over23_two; [apply (@count_dec_disjoint vs d d' Ne)|eauto|eauto].
Qed.

(* a positive count has a witness *)
Lemma count_dec_witness vs d :
  (0 < vs_count_dec vs d)%nat -> exists i v, nth_error vs i = Some (Some v) /\ v_dec v = d.
Proof.
  unfold vs_count_dec. intro H.
  destruct (filter _ vs) as [|x l] eqn:F; [cbn in H; lia|].
  assert (I : In x (filter (fun o => match o with Some v => dec_eqb (v_dec v) d | None => false end) vs))
    by (rewrite F; left; auto).
  apply filter_In in I as [I P]. destruct x as [v|]; [|discriminate].
  apply In_nth_error in I as [i I]. exists i, v. split; auto. apply lw_dec_eqb_eq; auto.
Qed.

(* the decision with +2/3 is found *)
Lemma vs_over23_complete vs d :
  over23 (vs_count_dec vs d) (length vs) = true -> vs_over23 vs = Some d.
Proof.
  intro H. pose proof (over23_pos _ _ H) as P.
  apply count_dec_witness in P as [i [v [Hi Hd]]].
  unfold vs_over23.
  destruct (find _ vs) as [x|] eqn:F.
  - apply find_some in F as [_ F]. destruct x as [u|]; [|discriminate].
    f_equal. eapply over23_dec_unique; eauto.
  - exfalso. apply nth_error_In in Hi. apply (find_none _ _ F) in Hi.
    cbv beta iota in Hi. rewrite Hd, H in Hi. discriminate.
Qed.

(* pointwise monotonicity of the count *)
Lemma count_dec_pointwise d : forall vs vs',
  length vs = length vs' ->
  (forall i v, nth_error vs i = Some (Some v) -> v_dec v = d ->
               exists u, nth_error vs' i = Some (Some u) /\ v_dec u = d) ->
  (vs_count_dec vs d <= vs_count_dec vs' d)%nat.
Proof.
  unfold vs_count_dec.
  induction vs as [|a vs IH]; intros [|a' vs'] L H; cbn [length] in L; try discriminate; [cbn; lia|].
  assert (R : (length (filter (fun o => match o with Some v => dec_eqb (v_dec v) d | None => false end) vs)
               <= length (filter (fun o => match o with Some v => dec_eqb (v_dec v) d | None => false end) vs'))%nat).
  { apply IH; [lia|]. intros i v Hi Hd. apply (H (S i) v Hi Hd). }
  cbn [filter].
  destruct a as [v|].
  - destruct (dec_eqb (v_dec v) d) eqn:E.
    + apply lw_dec_eqb_eq in E. destruct (H O v eq_refl E) as [u [Hu Hd]].
      cbn in Hu. inversion Hu; subst a'. rewrite Hd, lw_dec_eqb_refl. cbn [length]. lia.
    + destruct a' as [u|]; [destruct (dec_eqb (v_dec u) d)|]; cbn [length]; lia.
  - destruct a' as [u|]; [destruct (dec_eqb (v_dec u) d)|]; cbn [length]; lia.
Qed.

Lemma firstn_seq0 k : forall s m, (k <= m)%nat -> firstn k (seq s m) = seq s k.
Proof.
  induction k; intros s m L; cbn; auto.
  destruct m; [lia|]. cbn. f_equal. apply IHk. lia.
Qed.

Lemma in_vs_list vs i v : nth_error vs i = Some (Some v) -> In v (vs_list vs).
Proof.
  intro H. unfold vs_list. apply in_flat_map. exists (Some v). split; [eapply nth_error_In; eauto|left; auto].
Qed.

(* the listed votes of a well-formed set come from pairwise different slots *)
Lemma vs_list_from_nodup_gen : forall (vs : vset) (k : nat),
  (forall i v, nth_error vs i = Some (Some v) -> v_from v = Z.of_nat (k + i)) ->
  NoDup (map v_from (vs_list vs)) /\ (forall x, In x (map v_from (vs_list vs)) -> Z.of_nat k <= x).
Proof.
  induction vs as [|a vs IH]; intros k H.
  - cbn. split; [constructor|intros x []].
  - destruct (IH (S k)) as [ND LB].
    { intros i v Hi. rewrite (H (S i) v Hi). f_equal. lia. }
    destruct a as [v|]; cbn [vs_list flat_map app map]; fold (vs_list vs).
    + pose proof (H O v eq_refl) as Hv. rewrite Nat.add_0_r in Hv. split.
      * constructor; auto. intro I. apply LB in I. lia.
      * intros x [E|I]; [lia|]. apply LB in I. lia.
    + split; auto. intros x I. apply LB in I. lia.
Qed.

Lemma vs_list_from_nodup n r t vs : vs_wf n r t vs -> NoDup (map v_from (vs_list vs)).
Proof.
  intros [_ W]. apply (vs_list_from_nodup_gen vs O). intros i v H. apply W in H. tauto.
Qed.

(* ------------------------------------------------------------------ height vote set: read after write *)

Lemma hvs_get_set n h r p q :
  hvs_get n (hvs_set h r p) q = if Z.eqb q r then p else hvs_get n h q.
Proof.
  induction h as [|[r' p'] h IH]; cbn.
  - destruct (Z.eqb q r); auto.
  - destruct (Z.eqb r r') eqn:E; cbn.
    + apply Z.eqb_eq in E; subst r'. destruct (Z.eqb q r); auto.
    + destruct (Z.eqb q r') eqn:E'; auto.
      apply Z.eqb_eq in E'; subst r'. rewrite Z.eqb_sym, E. auto.
Qed.

Lemma hvs_add_for_prevote n h i v :
  v_type v = Prevote ->
  hvs_for n (snd (hvs_add n h i v)) (v_round v) Prevote = snd (vs_add (hvs_for n h (v_round v) Prevote) i v).
Proof.
  intro T. unfold hvs_add, hvs_for. rewrite T.
  destruct (vs_add (fst (hvs_get n h (v_round v))) i v) as [a s]. cbn [snd].
  rewrite hvs_get_set, Z.eqb_refl. reflexivity.
Qed.

(* [vs_add] touches slot i only *)
Lemma vs_add_other vs i v j : i <> j -> nth_error (snd (vs_add vs i v)) j = nth_error vs j.
Proof.
  intro N. unfold vs_add.
  assert (S : nth_error (set_nth i (Some v) vs) j = nth_error vs j).
  { rewrite nth_error_set_nth. destruct (Nat.eqb i j) eqn:E; auto. apply Nat.eqb_eq in E. contradiction. }
  destruct (nth_error vs i) as [[o|]|]; cbn [snd]; auto.
  destruct (vote_eqb o v); cbn [snd]; auto.
  destruct (vs_over23 vs) as [d|]; cbn [snd]; auto. destruct (dec_eqb d (v_dec o)); cbn [snd]; auto.
Qed.

(* the vote-list replay restricted to one vote set *)
Definition vs_adds (l : list vote) (vs : vset) : vset :=
  fold_left (fun vs v => snd (vs_add vs (Z.to_nat (v_from v)) v)) l vs.

Lemma vs_adds_other l j : forall vs,
  (forall v, In v l -> Z.to_nat (v_from v) <> j) -> nth_error (vs_adds l vs) j = nth_error vs j.
Proof.
  induction l as [|v l IH]; intros vs H; cbn; auto.
  unfold vs_adds in IH. rewrite IH; [|intros; apply H; right; auto].
  apply vs_add_other. apply H; left; auto.
Qed.

Lemma add_votes_for_prevote n r l : forall h,
  (forall v, In v l -> v_round v = r /\ v_type v = Prevote /\ 0 <= v_from v < Z.of_nat n) ->
  hvs_for n (add_votes n l h) r Prevote = vs_adds l (hvs_for n h r Prevote).
Proof.
  unfold add_votes, vs_adds. induction l as [|v l IH]; intros h H; cbn [fold_left]; auto.
  destruct (H v (or_introl eq_refl)) as [Hr [Ht Hf]].
  assert (C : Z.ltb (v_from v) 0 || Z.leb (Z.of_nat n) (v_from v) = false).
  { apply orb_false_iff. split; [apply Z.ltb_ge|apply Z.leb_gt]; lia. }
  rewrite C. rewrite IH; [|intros; apply H; right; auto].
  f_equal. subst r. apply hvs_add_for_prevote; auto.
Qed.

(* ================================================================== *)

Section LockWAL.
  Variable n : nat.
  Variable blocks : list blk.
  Variable K : vote -> Prop.            (* the known votes (the soup) *)

  Definition vs_sub (vs : vset) : Prop := forall i v, nth_error vs i = Some (Some v) -> K v.
  Definition hvs_sub (h : hvs_t) : Prop := forall r p, In (r, p) h -> vs_sub (fst p) /\ vs_sub (snd p).

  (* no two conflicting +2/3 prevote sets of one round among the known votes *)
  Hypothesis K_unique : forall r vs d vs' d',
    vs_wf n r Prevote vs -> vs_sub vs -> over23 (vs_count_dec vs d) n = true ->
    vs_wf n r Prevote vs' -> vs_sub vs' -> over23 (vs_count_dec vs' d') n = true -> d = d'.

  Definition lock_entry (pv : vset) (b : N) : list wrec :=
    RVoteList (vs_list pv) :: map (RPart b) (all_parts blocks b).

  (* ---- sub: preservation ---- *)

  Lemma vs_sub_empty : vs_sub (vs_empty n).
  Proof.
    intros i v H. exfalso. unfold vs_empty in H.
    apply nth_error_In in H. apply repeat_spec in H. discriminate.
  Qed.

  Lemma hvs_sub_nil : hvs_sub [].
  Proof. intros r p []. Qed.

  Lemma vs_sub_set_nth vs i v : vs_sub vs -> K v -> vs_sub (set_nth i (Some v) vs).
  Proof.
    intros S Kv j u H. rewrite nth_error_set_nth in H.
    destruct (Nat.eqb i j); [|eapply S; eauto].
    destruct (Nat.ltb i (length vs)); inversion H; subst; auto.
  Qed.

  Lemma vs_add_sub vs i v : vs_sub vs -> K v -> vs_sub (snd (vs_add vs i v)).
  Proof.
    intros S Kv. unfold vs_add. pose proof (vs_sub_set_nth i S Kv) as S'.
    destruct (nth_error vs i) as [[o|]|]; cbn [snd]; auto.
    destruct (vote_eqb o v); cbn [snd]; auto.
    destruct (vs_over23 vs) as [d|]; cbn [snd]; auto. destruct (dec_eqb d (v_dec o)); cbn [snd]; auto.
  Qed.

  Lemma hvs_get_sub h r : hvs_sub h -> vs_sub (fst (hvs_get n h r)) /\ vs_sub (snd (hvs_get n h r)).
  Proof.
    induction h as [|[r' p] h IH]; intro S; cbn.
    - split; apply vs_sub_empty.
    - destruct (Z.eqb r r'); [apply (S r' p); left; auto|].
      apply IH. intros r0 p0 H. apply (S r0 p0). right; auto.
  Qed.

  Lemma hvs_for_sub h r t : hvs_sub h -> vs_sub (hvs_for n h r t).
  Proof. intro S. unfold hvs_for. destruct (hvs_get_sub r S). destruct t; auto. Qed.

  Lemma hvs_set_sub h r p : hvs_sub h -> vs_sub (fst p) -> vs_sub (snd p) -> hvs_sub (hvs_set h r p).
  Proof.
    induction h as [|[r' q] h IH]; intros S A B; cbn.
    - intros r0 p0 [E|[]]. inversion E; subst. auto.
    - destruct (Z.eqb r r').
      + intros r0 p0 [E0|H]; [inversion E0; subst; auto|]. apply (S r0 p0); right; auto.
      + intros r0 p0 [E0|H]; [apply (S r0 p0); left; auto|].
        revert H. apply IH; auto. intros r1 p1 H1. apply (S r1 p1); right; auto.
  Qed.

  Lemma hvs_sub_add h i v : hvs_sub h -> K v -> hvs_sub (snd (hvs_add n h i v)).
  Proof.
    intros S Kv. unfold hvs_add. destruct (hvs_get_sub (v_round v) S) as [A B].
    destruct (v_type v).
    - destruct (vs_add (fst (hvs_get n h (v_round v))) i v) as [a s] eqn:E. cbn [snd].
      apply hvs_set_sub; cbn [fst snd]; auto.
      change s with (snd (a, s)). rewrite <- E. apply vs_add_sub; auto.
    - destruct (vs_add (snd (hvs_get n h (v_round v))) i v) as [a s] eqn:E. cbn [snd].
      apply hvs_set_sub; cbn [fst snd]; auto.
      change s with (snd (a, s)). rewrite <- E. apply vs_add_sub; auto.
  Qed.

  Lemma add_votes_sub l : forall h, hvs_sub h -> (forall v, In v l -> K v) -> hvs_sub (add_votes n l h).
  Proof.
    unfold add_votes. induction l as [|v l IH]; intros h S Kl; cbn [fold_left]; auto.
    apply IH; [|intros; apply Kl; right; auto].
    destruct (_ || _); auto. apply hvs_sub_add; auto. apply Kl; left; auto.
  Qed.

  Lemma hvs_remove_lower_sub h a b : hvs_sub h -> hvs_sub (hvs_remove_lower h a b).
  Proof. intros S r p H. apply filter_In in H as [H _]. apply (S r p); auto. Qed.

  Lemma vs_list_sub vs v : vs_sub vs -> In v (vs_list vs) -> K v.
  Proof. intros S H. apply vs_list_in in H as [i H]. eapply S; eauto. Qed.

  (* ---- one vote list into one vote set ---- *)

  Lemma vs_adds_cons v l vs : vs_adds (v :: l) vs = vs_adds l (snd (vs_add vs (Z.to_nat (v_from v)) v)).
  Proof. reflexivity. Qed.

  Section OneRound.
    Variable r : Z.
    Variable b : N.
    (* every +2/3 prevote decision of round r among the known votes is b *)
    Hypothesis U : forall vs d,
      vs_wf n r Prevote vs -> vs_sub vs -> over23 (vs_count_dec vs d) n = true -> d = Some b.

    (* after adding a vote for b to slot i, slot i votes b: either the vote went
       in, or the stored vote was kept — equal, or protected by the +2/3 decision,
       which is b *)
    Lemma vs_add_keeps_b vs i v :
      vs_wf n r Prevote vs -> vs_sub vs -> (i < n)%nat -> v_dec v = Some b ->
      exists u, nth_error (snd (vs_add vs i v)) i = Some (Some u) /\ v_dec u = Some b.
    Proof.
      intros [L W] S Hi Hd. unfold vs_add.
      assert (SN : nth_error (set_nth i (Some v) vs) i = Some (Some v)).
      { rewrite nth_error_set_nth, Nat.eqb_refl.
        assert (E : Nat.ltb i (length vs) = true) by (apply Nat.ltb_lt; lia). rewrite E. auto. }
      destruct (nth_error vs i) as [[o|]|] eqn:E.
      - destruct (vote_eqb o v) eqn:Q; cbn [snd].
        + exists o. split; auto. rewrite (lw_vote_eqb_dec _ _ Q). auto.
        + destruct (vs_over23 vs) as [d|] eqn:O; [destruct (dec_eqb d (v_dec o)) eqn:D|]; cbn [snd]; eauto.
          exists o. split; auto. apply lw_dec_eqb_eq in D. rewrite <- D.
          apply (U (vs:=vs)); [split; auto|auto|].
          apply find_some_over in O. rewrite L in O. exact O.
      - cbn [snd]. eauto.
      - exfalso. apply nth_error_None in E. lia.
    Qed.

    Lemma vs_adds_keeps_b l : forall vs,
      NoDup (map v_from l) ->
      (forall v, In v l -> K v /\ v_round v = r /\ v_type v = Prevote /\ 0 <= v_from v < Z.of_nat n) ->
      vs_wf n r Prevote vs -> vs_sub vs ->
      vs_wf n r Prevote (vs_adds l vs) /\ vs_sub (vs_adds l vs) /\
      forall v, In v l -> v_dec v = Some b ->
        exists u, nth_error (vs_adds l vs) (Z.to_nat (v_from v)) = Some (Some u) /\ v_dec u = Some b.
    Proof.
      induction l as [|a l IH]; intros vs ND H W S.
      - cbn. split; auto. split; auto. intros v [].
      - rewrite vs_adds_cons. inversion ND as [|x xs NI ND']; subst.
        destruct (H a (or_introl eq_refl)) as [Ka [Hr [Ht Hf]]].
        set (vs1 := snd (vs_add vs (Z.to_nat (v_from a)) a)).
        assert (W1 : vs_wf n r Prevote vs1) by (apply vs_add_wf; auto; rewrite Z2Nat.id; lia).
        assert (S1 : vs_sub vs1) by (apply vs_add_sub; auto).
        destruct (IH vs1 ND' (fun v I => H v (or_intror I)) W1 S1) as [W' [S' B']].
        split; auto. split; auto. intros v [E|I] Hd; [|apply B'; auto].
        subst v. rewrite vs_adds_other.
        + apply vs_add_keeps_b; auto. lia.
        + intros v I E. apply NI.
          destruct (H v (or_intror I)) as [_ [_ [_ Hv]]].
          apply Z2Nat.inj in E; try lia. rewrite <- E. apply in_map; auto.
    Qed.

    Lemma vs_adds_quorum pv vs :
      quorum_ev n r Prevote (Some b) pv -> vs_sub pv -> vs_wf n r Prevote vs -> vs_sub vs ->
      vs_wf n r Prevote (vs_adds (vs_list pv) vs) /\ vs_sub (vs_adds (vs_list pv) vs) /\
      vs_over23 (vs_adds (vs_list pv) vs) = Some (Some b).
    Proof.
      intros [Wp Q] Sp W S.
      destruct (@vs_adds_keeps_b (vs_list pv) vs) as [W' [S' B]]; auto.
      - eapply vs_list_from_nodup; eauto.
      - intros v I. split; [exact (@vs_list_sub pv v Sp I)|].
        apply vs_list_in in I as [i I]. destruct Wp as [L Wp]. destruct (Wp i v I) as [F [R T]].
        assert (i < n)%nat by (rewrite <- L; apply nth_error_Some; congruence).
        split; [exact R|]. split; [exact T|]. lia.
      - split; auto. split; auto. apply vs_over23_complete.
        destruct W' as [L' _]. rewrite L'. eapply over23_mono; [|exact Q].
        apply count_dec_pointwise.
        + destruct Wp as [L _]. congruence.
        + intros i v Hi Hd. destruct Wp as [_ Wp]. destruct (Wp i v Hi) as [F _].
          destruct (B v (in_vs_list _ _ Hi) Hd) as [u [Hu Du]].
          rewrite F, Nat2Z.id in Hu. eauto.
    Qed.
  End OneRound.

  (* ---- the vote-list record of an entry ---- *)

  Lemma quorum_nonempty r t w pv : quorum_ev n r t w pv -> exists v, In v (vs_list pv).
  Proof.
    intros [[L _] Q]. apply over23_pos in Q. apply count_dec_witness in Q as [i [v [H _]]].
    exists v. eapply in_vs_list; eauto.
  Qed.

  Lemma replay_votelist pv b r h rs bp last :
    hvs_wf n h -> hvs_sub h -> quorum_ev n r Prevote (Some b) pv -> vs_sub pv ->
    exists h' rs',
      apply_lock_rec n blocks (h, rs, bp, last) (RVoteList (vs_list pv)) = (h', rs', Some (b, r, []), last) /\
      hvs_wf n h' /\ hvs_sub h'.
  Proof.
    intros W S Q Sp.
    assert (U : forall vs d, vs_wf n r Prevote vs -> vs_sub vs -> over23 (vs_count_dec vs d) n = true -> d = Some b).
    { intros vs d Wv Sv Ov. destruct Q as [Wp Qp]. eapply (@K_unique r vs d pv (Some b)); eauto. }
    assert (A : hvs_for n (add_votes n (vs_list pv) h) r Prevote = vs_adds (vs_list pv) (hvs_for n h r Prevote)).
    { apply add_votes_for_prevote. intros v I. apply vs_list_in in I as [i I].
      destruct Q as [[L Wp] _]. destruct (Wp i v I) as [F [R T]].
      assert (i < n)%nat by (rewrite <- L; apply nth_error_Some; congruence).
      repeat split; auto; lia. }
    destruct (@vs_adds_quorum r b U pv (hvs_for n h r Prevote)) as [_ [_ O]]; auto.
    { apply hvs_for_wf; auto. }
    { apply hvs_for_sub; auto. }
    rewrite <- A in O.
    assert (W' : hvs_wf n (add_votes n (vs_list pv) h)) by (apply add_votes_wf; auto).
    assert (S' : hvs_sub (add_votes n (vs_list pv) h)).
    { apply add_votes_sub; auto. intros v I. eapply vs_list_sub; eauto. }
    destruct (quorum_nonempty Q) as [w Iw].
    destruct (vs_list pv) as [|v0 l] eqn:EL; [destruct Iw|].
    assert (R0 : v_round v0 = r).
    { assert (I0 : In v0 (vs_list pv)) by (rewrite EL; left; auto).
      apply vs_list_in in I0 as [i I0]. destruct Q as [[_ Wp] _]. destruct (Wp i v0 I0) as [_ [R _]]. exact R. }
    cbn [apply_lock_rec]. rewrite R0, O.
    eexists _, _. split; [reflexivity|]. split; auto.
  Qed.

  (* ---- the part records of an entry ---- *)

  Lemma existsb_seq_fresh k : forall m s, (s + m <= k)%nat ->
    existsb (N.eqb (N.of_nat k)) (map N.of_nat (seq s m)) = false.
  Proof.
    induction m as [|m IH]; intros s L; cbn [seq map existsb]; auto.
    rewrite IH by lia.
    assert (E : N.eqb (N.of_nat k) (N.of_nat s) = false) by (apply N.eqb_neq; lia).
    rewrite E. reflexivity.
  Qed.

  Lemma part_step b r h rs last k :
    (k < N.to_nat (nparts blocks b))%nat ->
    apply_lock_rec n blocks (h, rs, Some (b, r, map N.of_nat (seq 0 k)), last) (RPart b (N.of_nat k))
    = (h, rs, Some (b, r, map N.of_nat (seq 0 (S k))),
       if (S k =? N.to_nat (nparts blocks b))%nat then Some (b, r) else last).
  Proof.
    intro L. cbn [apply_lock_rec]. rewrite N.eqb_refl.
    assert (E1 : N.ltb (N.of_nat k) (nparts blocks b) = true) by (apply N.ltb_lt; lia).
    rewrite E1, existsb_seq_fresh by lia. cbn [negb orb].
    rewrite app_length, map_length, seq_length. cbn [length].
    rewrite seq_S, map_app. cbn [map Nat.add].
    destruct (N.eqb (N.of_nat (k + 1)) (nparts blocks b)) eqn:E2;
      destruct (Nat.eqb (S k) (N.to_nat (nparts blocks b))) eqn:E3; auto; exfalso.
    - apply N.eqb_eq in E2. apply Nat.eqb_neq in E3. lia.
    - apply N.eqb_neq in E2. apply Nat.eqb_eq in E3. lia.
  Qed.

  Lemma replay_parts_lt b r h rs last k :
    (k < N.to_nat (nparts blocks b))%nat ->
    fold_left (apply_lock_rec n blocks) (map (RPart b) (map N.of_nat (seq 0 k))) (h, rs, Some (b, r, []), last)
    = (h, rs, Some (b, r, map N.of_nat (seq 0 k)), last).
  Proof.
    induction k as [|k IH]; intro L; [reflexivity|].
    rewrite seq_S, !map_app, fold_left_app, IH by lia. cbn [map fold_left Nat.add].
    rewrite part_step by lia.
    assert (E : Nat.eqb (S k) (N.to_nat (nparts blocks b)) = false) by (apply Nat.eqb_neq; lia).
    rewrite E, seq_S, map_app. reflexivity.
  Qed.

  Lemma replay_parts_full b r h rs last :
    (1 <= nparts blocks b)%N ->
    fold_left (apply_lock_rec n blocks) (map (RPart b) (all_parts blocks b)) (h, rs, Some (b, r, []), last)
    = (h, rs, Some (b, r, all_parts blocks b), Some (b, r)).
  Proof.
    intro L. unfold all_parts.
    destruct (N.to_nat (nparts blocks b)) as [|k] eqn:E; [lia|].
    rewrite seq_S, !map_app, fold_left_app, replay_parts_lt by lia. cbn [map fold_left Nat.add].
    rewrite part_step by lia. rewrite E, Nat.eqb_refl, seq_S, map_app. reflexivity.
  Qed.

  (* ---- a complete entry ---- *)

  Lemma replay_lock_entry pv b r h rs bp last :
    hvs_wf n h -> hvs_sub h -> quorum_ev n r Prevote (Some b) pv -> vs_sub pv ->
    (1 <= nparts blocks b)%N ->
    exists h' rs',
      fold_left (apply_lock_rec n blocks) (lock_entry pv b) (h, rs, bp, last)
      = (h', rs', Some (b, r, all_parts blocks b), Some (b, r)) /\
      hvs_wf n h' /\ hvs_sub h'.
  Proof.
    intros W S Q Sp L.
    destruct (@replay_votelist pv b r h rs bp last W S Q Sp) as [h' [rs' [E [W' S']]]].
    exists h', rs'. split; auto.
    unfold lock_entry. cbn [fold_left]. rewrite E. apply replay_parts_full; auto.
  Qed.

  (* ---- a torn entry: a strict prefix ---- *)

  Definition strict_prefix (pre l : list wrec) : Prop := exists suf, suf <> [] /\ l = pre ++ suf.

  Lemma replay_torn_entry pv b r h rs bp last pre :
    hvs_wf n h -> hvs_sub h -> quorum_ev n r Prevote (Some b) pv -> vs_sub pv ->
    strict_prefix pre (lock_entry pv b) ->
    exists h' rs' bp',
      fold_left (apply_lock_rec n blocks) pre (h, rs, bp, last) = (h', rs', bp', last) /\
      hvs_wf n h' /\ hvs_sub h'.
  Proof.
    intros W S Q Sp [suf [NE E]].
    destruct pre as [|x pre']; [exists h, rs, bp; auto|].
    unfold lock_entry in E. cbn [app] in E. inversion E as [[Ex Ep]]. clear E.
    destruct (@replay_votelist pv b r h rs bp last W S Q Sp) as [h' [rs' [E [W' S']]]].
    exists h', rs'. cbn [fold_left]. rewrite E.
    set (k := length pre').
    assert (Lk : (k < N.to_nat (nparts blocks b))%nat).
    { assert (LL : length (map (RPart b) (all_parts blocks b)) = length (pre' ++ suf)) by (rewrite Ep; auto).
      unfold all_parts in LL. rewrite !map_length, seq_length, app_length in LL.
      destruct suf; [congruence|]. cbn [length] in LL. subst k. lia. }
    assert (P : pre' = map (RPart b) (map N.of_nat (seq 0 k))).
    { assert (F : pre' = firstn k (pre' ++ suf)).
      { subst k. rewrite firstn_app, Nat.sub_diag, firstn_all. cbn. rewrite app_nil_r. auto. }
      rewrite F at 1. rewrite <- Ep. unfold all_parts. rewrite !firstn_map, firstn_seq0 by lia. auto. }
    rewrite P, replay_parts_lt by exact Lk. eexists. split; [reflexivity|auto].
  Qed.

  (* ---- the whole lock WAL ---- *)

  (* what a lock WAL looks like: complete entries (one per lock or re-lock), and
     torn ones where a crash interrupted write_lock_wal; the second index is the
     lock of the last complete entry *)
  Inductive lockwal_shape : list wrec -> option (N * Z) -> Prop :=
  | LS_nil : lockwal_shape [] None
  | LS_entry recs L pv b r :
      lockwal_shape recs L ->
      quorum_ev n r Prevote (Some b) pv -> vs_sub pv -> (1 <= nparts blocks b)%N ->
      lockwal_shape (recs ++ lock_entry pv b) (Some (b, r))
  | LS_torn recs L pv b r pre :
      lockwal_shape recs L ->
      quorum_ev n r Prevote (Some b) pv -> vs_sub pv ->
      strict_prefix pre (lock_entry pv b) ->
      lockwal_shape (recs ++ pre) L.

  Lemma replay_shape recs L h rs :
    lockwal_shape recs L -> hvs_wf n h -> hvs_sub h ->
    exists h' rs' bp',
      fold_left (apply_lock_rec n blocks) recs (h, rs, None, None) = (h', rs', bp', L) /\
      hvs_wf n h' /\ hvs_sub h'.
  Proof.
    intros Sh W S. induction Sh as [|recs L pv b r Sh IH Q Sp NP|recs L pv b r pre Sh IH Q Sp PR].
    - exists h, rs, None. auto.
    - destruct IH as [h1 [rs1 [bp1 [E [W1 S1]]]]].
      destruct (@replay_lock_entry pv b r h1 rs1 bp1 L W1 S1 Q Sp NP) as [h2 [rs2 [E2 [W2 S2]]]].
      exists h2, rs2, (Some (b, r, all_parts blocks b)). rewrite fold_left_app, E. auto.
    - destruct IH as [h1 [rs1 [bp1 [E [W1 S1]]]]].
      destruct (@replay_torn_entry pv b r h1 rs1 bp1 L pre W1 S1 Q Sp PR) as [h2 [rs2 [bp2 [E2 [W2 S2]]]]].
      exists h2, rs2, bp2. rewrite fold_left_app, E. auto.
  Qed.

End LockWAL.

(* ------------------------------------------------------------------ a larger soup *)

Lemma vs_sub_mono (K K' : vote -> Prop) : (forall v, K v -> K' v) -> forall vs, vs_sub K vs -> vs_sub K' vs.
Proof. intros M vs S i v H. apply M. eapply S; eauto. Qed.

Lemma hvs_sub_mono (K K' : vote -> Prop) : (forall v, K v -> K' v) -> forall h, hvs_sub K h -> hvs_sub K' h.
Proof. intros M h S r p H. destruct (S r p H). split; eapply vs_sub_mono; eauto. Qed.

Lemma lockwal_shape_mono n blocks (K K' : vote -> Prop) :
  (forall v, K v -> K' v) ->
  forall recs L, lockwal_shape n blocks K recs L -> lockwal_shape n blocks K' recs L.
Proof.
  intros M recs L Sh. induction Sh.
  - constructor.
  - eapply LS_entry; eauto. eapply vs_sub_mono; eauto.
  - eapply LS_torn; eauto. eapply vs_sub_mono; eauto.
Qed.

(* ------------------------------------------------------------------ crashes: prefixes of a shaped WAL

   [wal_crash] keeps the synced records and [firstn keep] of the unsynced ones.
   write_lock_wal syncs at the end of the entry, so the unsynced tail is (a
   prefix of) one entry. *)

Lemma strict_prefix_firstn (l : list wrec) k : (k < length l)%nat -> strict_prefix (firstn k l) l.
Proof.
  intro H. exists (skipn k l). split; [|symmetry; apply firstn_skipn].
  intro E. assert (X : length (skipn k l) = O) by (rewrite E; auto). rewrite skipn_length in X. lia.
Qed.

Lemma strict_prefix_firstn_of pre l k : strict_prefix pre l -> strict_prefix (firstn k pre) l.
Proof.
  intros [suf [NE E]]. exists (skipn k pre ++ suf). split.
  - intro X. apply app_eq_nil in X as [_ X]. contradiction.
  - rewrite app_assoc, firstn_skipn. exact E.
Qed.

(* a shaped WAL followed by the first k records of a further entry *)
Lemma lockwal_shape_app_firstn n blocks K recs L pv b r k :
  lockwal_shape n blocks K recs L ->
  quorum_ev n r Prevote (Some b) pv -> vs_sub K pv -> (1 <= nparts blocks b)%N ->
  lockwal_shape n blocks K (recs ++ firstn k (lock_entry blocks pv b))
                (if (length (lock_entry blocks pv b) <=? k)%nat then Some (b, r) else L).
Proof.
  intros Sh Q Sp NP. destruct (Nat.leb _ k) eqn:E.
  - apply Nat.leb_le in E. rewrite firstn_all2 by exact E. eapply LS_entry; eauto.
  - apply Nat.leb_gt in E. eapply LS_torn; eauto. apply strict_prefix_firstn; auto.
Qed.

(* every prefix of a shaped WAL is shaped (for some restored lock) *)
Lemma lockwal_shape_firstn n blocks K recs L :
  lockwal_shape n blocks K recs L -> forall k, exists L', lockwal_shape n blocks K (firstn k recs) L'.
Proof.
  induction 1 as [|recs L pv b r Sh IH Q Sp NP|recs L pv b r pre Sh IH Q Sp PR]; intro k.
  - rewrite firstn_nil. exists None. constructor.
  - rewrite firstn_app. destruct (Nat.le_gt_cases k (length recs)) as [C|C].
    + replace (k - length recs)%nat with O by lia. cbn [firstn]. rewrite app_nil_r. apply IH.
    + rewrite firstn_all2 by lia. eexists. eapply lockwal_shape_app_firstn; eauto.
  - rewrite firstn_app. destruct (Nat.le_gt_cases k (length recs)) as [C|C].
    + replace (k - length recs)%nat with O by lia. cbn [firstn]. rewrite app_nil_r. apply IH.
    + rewrite firstn_all2 by lia. exists L. eapply LS_torn; eauto. apply strict_prefix_firstn_of; auto.
Qed.

(* ------------------------------------------------------------------ the other two WAL folds keep [hvs_sub] *)

Section WalSub.
  Variable n : nat.
  Variable own : Z.
  Variable blocks : list blk.
  Variable K : vote -> Prop.

  (* the votes of a WAL record are known *)
  Definition rec_sub (r : wrec) : Prop :=
    match r with
    | RVote v => K v
    | RVoteList l => forall v, In v l -> K v
    | _ => True
    end.

  Lemma round_rec_sub acc rec :
    rec_sub rec -> hvs_sub K (fst (fst acc)) -> hvs_sub K (fst (fst (apply_round_rec n own acc rec))).
  Proof.
    destruct acc as [[h [r st0]] ok]. cbn [fst snd]. intros R S.
    destruct rec as [v|pr pb ppol|l|pb idx|]; cbn [apply_round_rec fst snd]; auto.
    - destruct (negb _); cbn [fst snd]; auto. destruct (_ || _); cbn [fst snd]; auto.
      assert (S' : hvs_sub K (snd (hvs_add n h (Z.to_nat (v_from v)) v))) by (apply hvs_sub_add; auto).
      destruct (_ || _); cbn [fst snd]; auto.
    - destruct (_ || _); cbn [fst snd]; auto.
    - destruct l; cbn [fst snd]; auto. apply add_votes_sub; auto.
  Qed.

  Lemma fold_round_sub L : forall acc,
    Forall rec_sub L -> hvs_sub K (fst (fst acc)) ->
    hvs_sub K (fst (fst (fold_left (apply_round_rec n own) L acc))).
  Proof.
    induction L as [|x L IH]; intros acc F S; cbn [fold_left]; auto. inversion F; subst.
    apply IH; auto. apply round_rec_sub; auto.
  Qed.

  Lemma lock_rec_sub acc rec :
    rec_sub rec -> hvs_sub K (fst (fst (fst acc))) ->
    hvs_sub K (fst (fst (fst (apply_lock_rec n blocks acc rec)))).
  Proof.
    destruct acc as [[[h rs] bp] last]. cbn [fst]. intros R S.
    destruct rec as [v|pr pb ppol|l|pb idx|]; cbn [apply_lock_rec fst]; auto.
    - destruct l as [|v0 l]; cbn [fst]; auto. apply add_votes_sub; auto.
    - destruct bp as [[[pb' plr] have]|]; cbn [fst]; auto. destruct (_ || _); cbn [fst]; auto.
  Qed.

  Lemma fold_lock_sub L : forall acc,
    Forall rec_sub L -> hvs_sub K (fst (fst (fst acc))) ->
    hvs_sub K (fst (fst (fst (fold_left (apply_lock_rec n blocks) L acc)))).
  Proof.
    induction L as [|x L IH]; intros acc F S; cbn [fold_left]; auto. inversion F; subst.
    apply IH; auto. apply lock_rec_sub; auto.
  Qed.

  Lemma commit_rec_sub acc rec :
    rec_sub rec -> hvs_sub K (fst acc) -> hvs_sub K (fst (apply_commit_rec n acc rec)).
  Proof.
    destruct acc as [h rs]. cbn [fst]. intros R S.
    destruct rec as [v|pr pb ppol|l|pb idx|]; cbn [apply_commit_rec fst]; auto.
    destruct l; cbn [fst]; auto. apply add_votes_sub; auto.
  Qed.

  Lemma fold_commit_sub L : forall acc,
    Forall rec_sub L -> hvs_sub K (fst acc) -> hvs_sub K (fst (fold_left (apply_commit_rec n) L acc)).
  Proof.
    induction L as [|x L IH]; intros acc F S; cbn [fold_left]; auto. inversion F; subst.
    apply IH; auto. apply commit_rec_sub; auto.
  Qed.

  (* the records of a lock WAL of the right shape are known *)
  Lemma lockwal_shape_rec_sub recs L : lockwal_shape n blocks K recs L -> Forall rec_sub recs.
  Proof.
    assert (E : forall pv b, vs_sub K pv -> Forall rec_sub (lock_entry blocks pv b)).
    { intros pv b Sp. unfold lock_entry. constructor.
      - intros v I. eapply vs_list_sub; eauto.
      - apply Forall_forall. intros x I. apply in_map_iff in I as [i [<- _]]. exact Logic.I. }
    induction 1 as [|recs L pv b r Sh IH Q Sp NP|recs L pv b r pre Sh IH Q Sp [suf [_ PR]]].
    - constructor.
    - apply Forall_app. split; auto.
    - apply Forall_app. split; auto.
      specialize (E pv b Sp). rewrite PR in E. apply Forall_app in E. tauto.
  Qed.

  (* and are prevote lists / parts, as [InvD] (d_lockwal) requires *)
  Lemma lockwal_shape_rec_lockok recs L : lockwal_shape n blocks K recs L -> Forall lockrec_ok recs.
  Proof.
    assert (E : forall pv b r, vs_wf n r Prevote pv -> Forall lockrec_ok (lock_entry blocks pv b)).
    { intros pv b r Wp. unfold lock_entry. constructor.
      - intros v I. eapply vs_list_type; eauto.
      - apply Forall_forall. intros x I. apply in_map_iff in I as [i [<- _]]. exact Logic.I. }
    induction 1 as [|recs L pv b r Sh IH [Wp _] Sp NP|recs L pv b r pre Sh IH [Wp _] Sp [suf [_ PR]]].
    - constructor.
    - apply Forall_app. split; eauto.
    - apply Forall_app. split; auto.
      specialize (E pv b r Wp). rewrite PR in E. apply Forall_app in E. tauto.
  Qed.
End WalSub.

(* ------------------------------------------------------------------ restart *)

Section RestartLock.
  Variable n : nat.
  Variable own : Z.
  Variable blocks : list blk.
  Variable delay : bool.

  (* [restart] up to (not including) the panics and the Start dispatch: the
     state s0 built from the three WAL folds, the ok flag of the round WAL, and
     the lock restored from the lock WAL *)
  Definition restart_s0 (s : st) : st * bool * option (N * Z) :=
    let wr := wal_recover (wal_r s) in
    let wl := wal_recover (wal_l s) in
    let wc := wal_recover (wal_c s) in
    let '(h, rs, ok) := fold_left (apply_round_rec n own) (w_synced wr) ([], (0, SNewHeight), true) in
    let '(h, rs, _, last) := fold_left (apply_lock_rec n blocks) (w_synced wl) (h, rs, None, None) in
    let '(h, rs) := fold_left (apply_commit_rec n) (w_synced wc) (h, rs) in
    let lk := match last with
              | Some (b, lr) => Some (mkBps b (all_parts blocks b) true false, lr)
              | None => None
              end in
    (mkSt Running (fst rs) (snd rs)
          (match lk with Some (_, lr) => lr | None => (-1) end)
          (option_map fst lk) (-1) (option_map fst lk) h (-1) [] false None None None
          wr wl wc (sent s) (nsent s) (outs s) (fuse s) (decided s) (glog s),
     ok, last).

  (* the dispatch at the end of Start *)
  Definition start_dispatch (s0 : st) : st :=
    match stp s0 with
    | SNewHeight => if Z.eqb (round s0) 0 then run n own blocks delay (fuel) AEnterPropose (new_step STxWait s0)
                    else run n own blocks delay fuel AEnterPropose s0
    | SPropose => run n own blocks delay fuel AEnterPrevote s0
    | SPrevote => if vs_has23 (votes_for n s0 (round s0) Prevote)
                  then run n own blocks delay fuel AEnterPrevoteWait s0 else s0
    | SPrecommit => if vs_has23 (votes_for n s0 (round s0) Precommit)
                    then run n own blocks delay fuel AEnterPrecommitWait s0 else s0
    | _ => s0
    end.

  Definition restart_fin (x : st * bool * option (N * Z)) : st :=
    let '(s0, ok, last) := x in
    if negb ok then panic s0 else
    match last with
    | Some (b, _) => if negb (decodable blocks b) then panic s0 else start_dispatch s0
    | None => start_dispatch s0
    end.

  Lemma restart_decomp s : restart n own blocks delay s = restart_fin (restart_s0 s).
  Proof.
    unfold restart, restart_s0.
    destruct (fold_left (apply_round_rec n own) _ _) as [[h rs] ok].
    destruct (fold_left (apply_lock_rec n blocks) _ _) as [[[h2 rs2] bp] last].
    destruct (fold_left (apply_commit_rec n) _ _) as [h3 rs3].
    unfold restart_fin, start_dispatch. cbn [stp round].
    destruct (negb ok); [reflexivity|].
    destruct last as [[b lr]|]; [destruct (negb (decodable blocks b))|]; reflexivity.
  Qed.

  Variable K : vote -> Prop.
  Hypothesis K_unique : forall r vs d vs' d',
    vs_wf n r Prevote vs -> vs_sub K vs -> over23 (vs_count_dec vs d) n = true ->
    vs_wf n r Prevote vs' -> vs_sub K vs' -> over23 (vs_count_dec vs' d') n = true -> d = d'.

  (* the lock restored by [restart] is the lock of the last complete entry of
     the lock WAL *)
  Lemma restart_s0_lock s h rs ok L :
    fold_left (apply_round_rec n own) (wal_all (wal_r s)) ([], (0, SNewHeight), true) = (h, rs, ok) ->
    hvs_sub K h ->
    lockwal_shape n blocks K (wal_all (wal_l s)) L ->
    exists s0,
      restart_s0 s = (s0, ok, L) /\
      status_ s0 = Running /\
      locked_round s0 = match L with Some (_, lr) => lr | None => -1 end /\
      locked s0 = option_map (fun bl => mkBps (fst bl) (all_parts blocks (fst bl)) true false) L /\
      cur s0 = locked s0 /\
      lock_of s0 = option_map (fun bl => (snd bl, fst bl)) L /\
      hvs_wf n (hvs s0) /\
      (Forall (rec_sub K) (wal_all (wal_c s)) -> hvs_sub K (hvs s0)) /\
      wal_l s0 = wal_recover (wal_l s) /\ wal_r s0 = wal_recover (wal_r s) /\ wal_c s0 = wal_recover (wal_c s) /\
      sent s0 = sent s /\ glog s0 = glog s /\ decided s0 = decided s /\
      pol_round s0 = -1 /\ imp_req s0 = None /\ prop_req s0 = None /\ commit_req s0 = None.
  Proof.
    intros FR S Sh.
    assert (W : hvs_wf n h).
    { destruct (@fold_round_inv n own (wal_all (wal_r s)) ([], (0, SNewHeight), true)) as [W _].
      - intros r p [].
      - unfold restorable; cbn; auto.
      - rewrite FR in W. exact W. }
    destruct (@replay_shape n blocks K K_unique _ _ h rs Sh W S) as [h2 [rs2 [bp2 [FL [W2 S2]]]]].
    unfold restart_s0. cbn [wal_recover w_synced]. rewrite FR, FL.
    destruct (fold_left (apply_commit_rec n) (wal_all (wal_c s)) (h2, rs2)) as [h3 rs3] eqn:FC.
    eexists. split; [reflexivity|].
    assert (W3 : hvs_wf n h3).
    { destruct (@fold_commit_inv n (wal_all (wal_c s)) (h2, rs2)) as [W3 _]; auto.
      - pose proof (@fold_lock_inv n blocks (wal_all (wal_l s)) (h, rs, None, None)) as I.
        rewrite FL in I. destruct I as [_ [R _]]; auto.
        + clear - Sh. apply Forall_forall. intros x I.
          pose proof (lockwal_shape_rec_lockok Sh) as F. rewrite Forall_forall in F. auto.
        + apply lock_acc_ok_intro; auto; try (intros; discriminate).
          pose proof (@fold_round_inv n own (wal_all (wal_r s)) ([], (0, SNewHeight), true)) as [_ R].
          * intros r p [].
          * unfold restorable; cbn; auto.
          * rewrite FR in R. exact R.
      - rewrite FC in W3. exact W3. }
    assert (S3 : Forall (rec_sub K) (wal_all (wal_c s)) -> hvs_sub K h3).
    { intro F. pose proof (@fold_commit_sub n K (wal_all (wal_c s)) (h2, rs2) F S2) as X.
      rewrite FC in X. exact X. }
    destruct L as [[b lr]|]; cbn; repeat match goal with |- _ /\ _ => split end; auto.
  Qed.

  Lemma restart_lock_restored s h rs ok L :
    fold_left (apply_round_rec n own) (wal_all (wal_r s)) ([], (0, SNewHeight), true) = (h, rs, ok) ->
    hvs_sub K h ->
    lockwal_shape n blocks K (wal_all (wal_l s)) L ->
    exists s0,
      restart n own blocks delay s = restart_fin (s0, ok, L) /\
      status_ s0 = Running /\
      lock_of s0 = option_map (fun bl => (snd bl, fst bl)) L /\
      locked_round s0 = match L with Some (_, lr) => lr | None => -1 end /\
      locked s0 = option_map (fun bl => mkBps (fst bl) (all_parts blocks (fst bl)) true false) L /\
      cur s0 = locked s0.
  Proof.
    intros FR S Sh. destruct (restart_s0_lock s FR S Sh) as [s0 [E [A [B [C [D [F _]]]]]]].
    exists s0. rewrite restart_decomp, E. repeat match goal with |- _ /\ _ => split end; auto.
  Qed.
End RestartLock.

(* ------------------------------------------------------------------ examples (n = 4) *)

(* a soup in which every vote votes the same block trivially has unique
   +2/3 decisions *)
Lemma const_K_unique n (b : N) : forall r vs d vs' d',
  vs_wf n r Prevote vs -> vs_sub (fun v => v_dec v = Some b) vs -> over23 (vs_count_dec vs d) n = true ->
  vs_wf n r Prevote vs' -> vs_sub (fun v => v_dec v = Some b) vs' -> over23 (vs_count_dec vs' d') n = true ->
  d = d'.
Proof.
  intros r vs d vs' d' _ S O _ S' O'.
  apply over23_pos in O. apply count_dec_witness in O as [i [v [H <-]]].
  apply over23_pos in O'. apply count_dec_witness in O' as [i' [v' [H' <-]]].
  rewrite (S i v H), (S' i' v' H'). reflexivity.
Qed.

Definition lw_blocks : list blk := [mkBlk 1 2 true 1 false].     (* block 1: two parts *)
Definition lw_K (v : vote) : Prop := v_dec v = Some 1%N.

Definition lw_pv0 : vset :=        (* round 0: validators 0, 1, 3 prevote block 1 *)
  [Some (mkVote 0 0 Prevote (Some 1%N) 5); Some (mkVote 1 0 Prevote (Some 1%N) 6); None;
   Some (mkVote 3 0 Prevote (Some 1%N) 7)].
Definition lw_pv2 : vset :=        (* round 2: all four *)
  [Some (mkVote 0 2 Prevote (Some 1%N) 25); Some (mkVote 1 2 Prevote (Some 1%N) 26);
   Some (mkVote 2 2 Prevote (Some 1%N) 27); Some (mkVote 3 2 Prevote (Some 1%N) 28)].
Definition lw_pv3 : vset :=        (* round 3: validators 1, 2, 3 *)
  [None; Some (mkVote 1 3 Prevote (Some 1%N) 36);
   Some (mkVote 2 3 Prevote (Some 1%N) 37); Some (mkVote 3 3 Prevote (Some 1%N) 38)].

(* lock (0, 1), then "update lock round" to (2, 1): since commit 54006ba both are in the WAL *)
Definition lw_wal : list wrec := lock_entry lw_blocks lw_pv0 1 ++ lock_entry lw_blocks lw_pv2 1.
(* a third lock whose write was cut after the first part *)
Definition lw_wal_torn : list wrec := lw_wal ++ [RVoteList (vs_list lw_pv3); RPart 1 0].

Ltac lw_quorum :=
  split;
  [ split; [reflexivity|];
    let i := fresh "i" in let v := fresh "v" in let H := fresh "H" in
    intros i v H;
    do 4 (destruct i as [|i]; [cbn in H; inversion H; subst; cbn; auto|]);
    destruct i; discriminate
  | vm_compute; reflexivity ].

Ltac lw_sub :=
  let i := fresh "i" in let v := fresh "v" in let H := fresh "H" in
  intros i v H;
  do 4 (destruct i as [|i]; [cbn in H; inversion H; subst; reflexivity|]);
  destruct i; discriminate.

Example lw_q0 : quorum_ev 4 0 Prevote (Some 1%N) lw_pv0. Proof. lw_quorum. Qed.
Example lw_q2 : quorum_ev 4 2 Prevote (Some 1%N) lw_pv2. Proof. lw_quorum. Qed.
Example lw_q3 : quorum_ev 4 3 Prevote (Some 1%N) lw_pv3. Proof. lw_quorum. Qed.
Example lw_s0 : vs_sub lw_K lw_pv0. Proof. lw_sub. Qed.
Example lw_s2 : vs_sub lw_K lw_pv2. Proof. lw_sub. Qed.
Example lw_s3 : vs_sub lw_K lw_pv3. Proof. lw_sub. Qed.
Example lw_np : (1 <= nparts lw_blocks 1)%N. Proof. apply N.leb_le. reflexivity. Qed.

Example ex_relock_shape : lockwal_shape 4 lw_blocks lw_K lw_wal (Some (1%N, 2)).
Proof.
  unfold lw_wal. eapply LS_entry; [|exact lw_q2|exact lw_s2|exact lw_np].
  rewrite <- (app_nil_l (lock_entry lw_blocks lw_pv0 1)).
  eapply LS_entry; [apply LS_nil|exact lw_q0|exact lw_s0|exact lw_np].
Qed.

Example ex_torn_shape : lockwal_shape 4 lw_blocks lw_K lw_wal_torn (Some (1%N, 2)).
Proof.
  unfold lw_wal_torn. eapply LS_torn; [exact ex_relock_shape|exact lw_q3|exact lw_s3|].
  exists [RPart 1%N 1%N]. split; [discriminate|reflexivity].
Qed.

(* the restored lock is that of the LAST complete entry: (round 2, block 1) *)
Example ex_relock_restored :
  exists h' rs' bp',
    fold_left (apply_lock_rec 4 lw_blocks) lw_wal ([], (0, SNewHeight), None, None) = (h', rs', bp', Some (1%N, 2)) /\
    hvs_wf 4 h' /\ hvs_sub lw_K h'.
Proof.
  apply (replay_shape (@const_K_unique 4 1%N) (0, SNewHeight) ex_relock_shape).
  - intros r p [].
  - apply hvs_sub_nil.
Qed.

Example ex_torn_restored :
  exists h' rs' bp',
    fold_left (apply_lock_rec 4 lw_blocks) lw_wal_torn ([], (0, SNewHeight), None, None) = (h', rs', bp', Some (1%N, 2)) /\
    hvs_wf 4 h' /\ hvs_sub lw_K h'.
Proof.
  apply (replay_shape (@const_K_unique 4 1%N) (0, SNewHeight) ex_torn_shape).
  - intros r p [].
  - apply hvs_sub_nil.
Qed.

(* the same by evaluation; before commit 54006ba only the first entry was in
   the WAL and the node came back locked at round 0 although it had precommitted
   block 1 at round 2 (docs/notes/C01_spec.md, finding 0) *)
Example ex_relock_eval :
  snd (fold_left (apply_lock_rec 4 lw_blocks) lw_wal ([], (0, SNewHeight), None, None)) = Some (1%N, 2).
Proof. vm_compute. reflexivity. Qed.

Example ex_torn_eval :
  let '(_, _, bp, last) := fold_left (apply_lock_rec 4 lw_blocks) lw_wal_torn ([], (0, SNewHeight), None, None) in
  bp = Some (1%N, 3, [0%N]) /\ last = Some (1%N, 2).
Proof. vm_compute. auto. Qed.

Example ex_old_wal_eval :
  snd (fold_left (apply_lock_rec 4 lw_blocks) (lock_entry lw_blocks lw_pv0 1) ([], (0, SNewHeight), None, None))
  = Some (1%N, 0).
Proof. vm_compute. reflexivity. Qed.

(* the refusal path of vs_add: the height vote set already holds a +2/3 for
   block 1 at round 0 made of votes with other stamps; none of the listed votes
   goes in, the polka is found all the same *)
Definition lw_pv0' : vset :=
  [Some (mkVote 0 0 Prevote (Some 1%N) 15); Some (mkVote 1 0 Prevote (Some 1%N) 16);
   Some (mkVote 2 0 Prevote (Some 1%N) 17); None].

Example ex_refused_eval :
  let h0 := add_votes 4 (vs_list lw_pv0') [] in
  let '(h, _, _, last) := fold_left (apply_lock_rec 4 lw_blocks) (lock_entry lw_blocks lw_pv0 1)
                                     (h0, (0, SNewHeight), None, None) in
  hvs_for 4 h 0 Prevote =
    [Some (mkVote 0 0 Prevote (Some 1%N) 15); Some (mkVote 1 0 Prevote (Some 1%N) 16);
     Some (mkVote 2 0 Prevote (Some 1%N) 17); Some (mkVote 3 0 Prevote (Some 1%N) 7)]
  /\ last = Some (1%N, 0).
Proof. vm_compute. auto. Qed.

(* restart of a node whose lock WAL is lw_wal *)
Definition lw_down : st := set_wals wal_empty (mkWal lw_wal []) wal_empty init.

Example ex_restart_s0 :
  let '(s0, ok, last) := restart_s0 4 2 lw_blocks lw_down in
  lock_of s0 = Some (2, 1%N) /\ ok = true /\ last = Some (1%N, 2) /\ round s0 = 2 /\ stp s0 = SPrevote.
Proof. vm_compute. repeat split; reflexivity. Qed.

Example ex_restart_lock :
  lock_of (restart 4 2 lw_blocks false lw_down) = Some (2, 1%N).
Proof. vm_compute. reflexivity. Qed.

Example ex_restart_lemma :
  exists s0, restart 4 2 lw_blocks false lw_down = restart_fin 4 2 lw_blocks false (s0, true, Some (1%N, 2)) /\
             lock_of s0 = Some (2, 1%N).
Proof.
  destruct (@restart_lock_restored 4 2 lw_blocks false lw_K (@const_K_unique 4 1%N) lw_down
              [] (0, SNewHeight) true (Some (1%N, 2))) as [s0 [E [_ [L _]]]].
  - reflexivity.
  - apply hvs_sub_nil.
  - exact ex_relock_shape.
  - exists s0. split; [exact E|exact L].
Qed.
