(* Property C12 — A transaction keeps its identity across all representations.
   This file holds only the property theorems; proofs are in Proofs_TxSerialize.v.
   H (SHA3-256) and base64 are universally quantified. *)
From Coq Require Import String.
From Goloop Require Import lib.Bytes Model_Address Model_TxSerialize Proofs_TxSerialize Proofs_TxStruct.

(* the serialisation can be read back: lexing and parsing what serializeValue
   wrote returns the normal form of the tree (keys sorted, leading empty strings
   of lists dropped) *)
Theorem C12_serialize_roundtrip : forall v b, icon v = true -> ser_value v = Some b ->
  parse_value (jsize (norm v)) (lex b) = Some (norm v, []).
Proof. exact parse_ser. Qed.
Print Assumptions C12_serialize_roundtrip.

Theorem C12_serialize_injective : forall a b, icon a = true -> icon b = true ->
  ser_value a = ser_value b -> norm a = norm b.
Proof. exact ser_value_inj. Qed.
Print Assumptions C12_serialize_injective.

Theorem C12_serialize_normal_form : forall a b, icon a = true -> icon b = true ->
  norm a = norm b -> ser_value a = ser_value b.
Proof. exact ser_value_norm_eq. Qed.
Print Assumptions C12_serialize_normal_form.

(* the hashed pre-image of a JSON transaction determines its signed part *)
Theorem C12_preimage_injective : forall m1 m2 p, icon_top m1 = true -> icon_top m2 = true ->
  pre_map m1 = Some p -> pre_map m2 = Some p -> norm_top m1 = norm_top m2.
Proof. exact pre_map_inj. Qed.
Print Assumptions C12_preimage_injective.

Theorem C12_key_order : forall m m', Permutation.Permutation m m' -> NoDup (map fst m) ->
  pre_map m = pre_map m'.
Proof. exact pre_map_key_order. Qed.
Print Assumptions C12_key_order.

(* binary form of the fields *)
Theorem C12_binary_roundtrip : forall f, wf_fields f = true -> wf_sig (t_sig f) = true ->
  exists b, encode f = Some b /\ decode b = Some f.
Proof. exact decode_encode. Qed.
Print Assumptions C12_binary_roundtrip.

(* Bytes() then NewTransaction(), any number of times, returns the same
   transaction object: same id, same fields *)
Theorem C12_id_stable : forall (H : bytes -> bytes) (b64dec : bytes -> option bytes),
  (forall s b, b64dec s = Some b -> bytes_ok b = true) ->
  forall j t n, from_json H b64dec j = Ok t -> storable t -> iter_rt H b64dec n t = Ok t.
Proof. exact json_tx_roundtrips_all. Qed.
Print Assumptions C12_id_stable.

Theorem C12_fields_stable : forall (H : bytes -> bytes) (b64dec : bytes -> option bytes),
  (forall s b, b64dec s = Some b -> bytes_ok b = true) ->
  forall j t n, from_json H b64dec j = Ok t -> storable t ->
  exists t', iter_rt H b64dec n t = Ok t' /\ id H t' = id H t /\ fields t' = fields t.
Proof. exact json_tx_stable_all. Qed.
Print Assumptions C12_fields_stable.

(* which JSON submissions share an id: exactly those with the same normal form
   of the signed part, or a SHA3 collision is exhibited *)
Theorem C12_equivalences : forall (H : bytes -> bytes) (b64dec : bytes -> option bytes) m1 m2 t1 t2,
  icon_top m1 = true -> icon_top m2 = true ->
  from_json H b64dec (JObj m1) = Ok t1 -> from_json H b64dec (JObj m2) = Ok t2 ->
  id H t1 = id H t2 -> norm_top m1 = norm_top m2 \/ collision H.
Proof. exact json_same_id_same_content. Qed.
Print Assumptions C12_equivalences.

Theorem C12_equivalences_conv : forall (H : bytes -> bytes) (b64dec : bytes -> option bytes) m1 m2 t1 t2,
  icon_top m1 = true -> icon_top m2 = true ->
  from_json H b64dec (JObj m1) = Ok t1 -> from_json H b64dec (JObj m2) = Ok t2 ->
  norm_top m1 = norm_top m2 -> id H t1 = id H t2.
Proof. exact json_same_content_same_id. Qed.
Print Assumptions C12_equivalences_conv.

(* the two collisions inside the value universe of encoding/json *)
Theorem C12_list_leading_empty : forall l, ser_value (JList (JStr [] :: l)) = ser_value (JList l).
Proof. exact ser_list_leading_empty. Qed.
Print Assumptions C12_list_leading_empty.

(* the hash over the parsed fields (binary submissions, and JSON submissions
   whose two hashes agree): the pre-image determines every signed field; data
   up to its normal form (and an empty Data counts as the empty string) *)
Theorem C12_struct_injective : forall f1 f2 p,
  addr_ok (t_from f1) = true -> addr_ok (t_from f2) = true ->
  addr_ok (t_to f1) = true -> addr_ok (t_to f2) = true ->
  data_icon (t_data f1) = true -> data_icon (t_data f2) = true ->
  pre_struct f1 = Some p -> pre_struct f2 = Some p -> same_signed f1 f2.
Proof. exact pre_struct_inj. Qed.
Print Assumptions C12_struct_injective.

Theorem C12_struct_normal_form : forall f1 f2,
  data_icon (t_data f1) = true -> data_icon (t_data f2) = true ->
  same_signed f1 f2 -> pre_struct f1 = pre_struct f2.
Proof. exact same_signed_same_pre. Qed.
Print Assumptions C12_struct_normal_form.

Theorem C12_struct_equivalences : forall (H : bytes -> bytes) f1 f2 p1 p2,
  addr_ok (t_from f1) = true -> addr_ok (t_from f2) = true ->
  addr_ok (t_to f1) = true -> addr_ok (t_to f2) = true ->
  data_icon (t_data f1) = true -> data_icon (t_data f2) = true ->
  pre_struct f1 = Some p1 -> pre_struct f2 = Some p2 ->
  id_struct H f1 = id_struct H f2 -> same_signed f1 f2 \/ collision H.
Proof. exact struct_same_id. Qed.
Print Assumptions C12_struct_equivalences.

(* the canonical text of every integer is read back as that integer: texts
   that differ from it (upper case, leading zeros) are other spellings of the
   same value and hash differently in a JSON submission (ex_hex_case_differs) *)
Theorem C12_canonical_int_text : forall z, parse_hexint (fmt_z z) = Some z.
Proof. exact parse_fmt_z. Qed.
Print Assumptions C12_canonical_int_text.

(* ------------------------------------------------------------------ *)
(* Where the statement "changing any signed field changes the id" fails *)
(* in the implemented format (known findings; replayed on the code from *)
(* corpus/C12 on every run).  The theorems above are the strongest      *)
(* true statements: injectivity up to `norm` per hash path.             *)
(* ------------------------------------------------------------------ *)

(* F1: leading empty strings of a list leave no trace (serializeList) *)
Theorem C12_leading_empty_refuted :
  let d1 := JList [JStr []; JStr (str "a"%string)] in let d2 := JList [JStr (str "a"%string)] in
  d1 <> d2
  /\ (forall (H : bytes -> bytes) dec t1 t2,
        from_json H dec (JObj (wit_map d1)) = Ok t1 -> from_json H dec (JObj (wit_map d2)) = Ok t2 ->
        id H t1 = id H t2)
  /\ (exists t1 t2, from_json ex_H ex_dec (JObj (wit_map d1)) = Ok t1
                    /\ from_json ex_H ex_dec (JObj (wit_map d2)) = Ok t2)
  /\ ~ data_change_changes_id d1 d2.
Proof. exact leading_empty_refuted. Qed.
Print Assumptions C12_leading_empty_refuted.

(* F2: the struct hash writes dataType unescaped: a stored transaction and a
   JSON transaction with different content share their id for every H *)
Theorem C12_datatype_unescaped_refuted :
  t_dataType ex_f_struct = Some (str "message.extra.b"%string)
  /\ lookup (str "dataType"%string) ex_m_json = Some (JStr (str "message"%string))
  /\ wf_fields ex_f_struct = true /\ wf_sig (t_sig ex_f_struct) = true
  /\ (forall (H : bytes -> bytes) dec t,
        from_json H dec (JObj ex_m_json) = Ok t -> id H t = id H (TxStruct ex_f_struct))
  /\ (exists t, from_json ex_H ex_dec (JObj ex_m_json) = Ok t).
Proof. exact datatype_unescaped_refuted. Qed.
Print Assumptions C12_datatype_unescaped_refuted.

(* a JSON number inside data is hashed as the decimal text of int64(float64) *)
Theorem C12_number_string_refuted :
  let d1 := JObj [(str "a"%string, JNum 1)] in let d2 := JObj [(str "a"%string, JStr (str "1"%string))] in
  d1 <> d2
  /\ (forall (H : bytes -> bytes) dec t1 t2,
        from_json H dec (JObj (wit_map d1)) = Ok t1 -> from_json H dec (JObj (wit_map d2)) = Ok t2 ->
        id H t1 = id H t2)
  /\ (exists t1 t2, from_json ex_H ex_dec (JObj (wit_map d1)) = Ok t1
                    /\ from_json ex_H ex_dec (JObj (wit_map d2)) = Ok t2).
Proof. exact number_string_refuted. Qed.
Print Assumptions C12_number_string_refuted.
