(* Proofs_K_CheckTxTimestamp.v -- service CheckTxTimestamp: the transaction timestamp window test
   Split out of Proofs_Kernels.v: this file imports ONLY the generated kernel(s)
   gen/K_CheckTxTimestamp.v, so an edit of another kernel's Go source cannot break it.
   Style: stdlib only; arithmetic closed by lia with the euclidean-division hook. *)
From Coq Require Import ZArith Bool String List Lia.
From Coq Require Import ZifyBool.
From Goloop Require Import lib.GoInt Proofs_K_tactics.
From Goloop.gen Require Import K_CheckTxTimestamp.
Import ListNotations.
Local Open Scope Z_scope.

Ltac Zify.zify_post_hook ::= Z.to_euclidean_division_equations.

Lemma CheckTxTimestamp_spec min max ts :
  CheckTxTimestamp min max ts = ENil <-> min < ts <= max.
Proof.
  unfold CheckTxTimestamp. cbv zeta. split_ifs; split; intro H; try discriminate; try lia; reflexivity.
Qed.

Lemma CheckTxTimestamp_expired min max ts :
  CheckTxTimestamp min max ts = EErr "ExpiredTransactionError" <-> ts <= min.
Proof.
  unfold CheckTxTimestamp. cbv zeta. split_ifs; split; intro H; try discriminate; try lia; reflexivity.
Qed.

Lemma CheckTxTimestamp_future min max ts :
  CheckTxTimestamp min max ts = EErr "FutureTransactionError" <-> min < ts /\ max < ts.
Proof.
  unfold CheckTxTimestamp. cbv zeta. split_ifs; split; intro H; try discriminate; try lia; reflexivity.
Qed.

Lemma CheckTxTimestamp_params_ok :
  CheckTxTimestamp_params = ["min"; "max"; "tx.Timestamp()"]%string.
Proof. reflexivity. Qed.
