(* Proofs_WorldState.v — lemmas about Model_WorldState (property C14).
   Style: stdlib only. *)
From Goloop Require Import lib.Bytes Model_WorldState.
From Coq Require Import Permutation.
Open Scope N_scope.

(* ================= association lists ================= *)
Lemma bytes_eqb_sym a b : bytes_eqb a b = bytes_eqb b a.
Proof.
  destruct (bytes_eqb a b) eqn:E.
  - apply bytes_eqb_eq in E. subst. now rewrite bytes_eqb_refl.
  - destruct (bytes_eqb b a) eqn:E2; [|reflexivity].
    apply bytes_eqb_eq in E2. subst. now rewrite bytes_eqb_refl in E.
Qed.

Lemma bytes_eqb_neq a b : a <> b -> bytes_eqb a b = false.
Proof.
  intro H. destruct (bytes_eqb a b) eqn:E; [|reflexivity].
  apply bytes_eqb_eq in E. contradiction.
Qed.

Lemma bytes_eq_dec (a b : bytes) : {a = b} + {a <> b}.
Proof.
  destruct (bytes_eqb a b) eqn:E.
  - left. now apply bytes_eqb_eq.
  - right. intro H. subst. now rewrite bytes_eqb_refl in E.
Qed.

Section AMapLemmas.
  Context {V : Type}.
  Implicit Types m : amap V.

  Lemma am_get_del_same k m : am_get (am_del k m) k = None.
  Proof.
    induction m as [|[k' v] r IH]; cbn; [reflexivity|].
    destruct (bytes_eqb k' k) eqn:E; [exact IH|]. cbn. now rewrite E.
  Qed.

  Lemma am_get_del_other k k' m : k <> k' -> am_get (am_del k m) k' = am_get m k'.
  Proof.
    intro Hne. induction m as [|[k0 v] r IH]; cbn; [reflexivity|].
    destruct (bytes_eqb k0 k) eqn:E.
    - apply bytes_eqb_eq in E. subst k0. rewrite (bytes_eqb_neq _ _ Hne). exact IH.
    - cbn. destruct (bytes_eqb k0 k'); [reflexivity|exact IH].
  Qed.

  Lemma am_get_set_same k v m : am_get (am_set k v m) k = Some v.
  Proof. unfold am_set. cbn. now rewrite bytes_eqb_refl. Qed.

  Lemma am_get_set_other k k' v m : k <> k' -> am_get (am_set k v m) k' = am_get m k'.
  Proof.
    intro Hne. unfold am_set. cbn. rewrite (bytes_eqb_neq _ _ Hne). now apply am_get_del_other.
  Qed.

  Lemma am_del_absent k m : am_get m k = None -> am_del k m = m.
  Proof.
    induction m as [|[k' v] r IH]; cbn; [reflexivity|].
    destruct (bytes_eqb k' k); [discriminate|]. intro H. now rewrite IH.
  Qed.

  Lemma am_get_upd_same f k m : am_get (am_upd f k m) k = option_map f (am_get m k).
  Proof.
    induction m as [|[k' v] r IH]; cbn; [reflexivity|].
    destruct (bytes_eqb k' k) eqn:E; cbn; rewrite E; [reflexivity|exact IH].
  Qed.

  Lemma am_get_upd_other f k k' m : k <> k' -> am_get (am_upd f k m) k' = am_get m k'.
  Proof.
    intro Hne. induction m as [|[k0 v] r IH]; cbn; [reflexivity|].
    destruct (bytes_eqb k0 k) eqn:E; cbn.
    - apply bytes_eqb_eq in E. subst k0. now rewrite (bytes_eqb_neq _ _ Hne).
    - destruct (bytes_eqb k0 k'); [reflexivity|exact IH].
  Qed.

  Lemma am_upd_keys f k m : map fst (am_upd f k m) = map fst m.
  Proof.
    induction m as [|[k' v] r IH]; cbn; [reflexivity|].
    destruct (bytes_eqb k' k); cbn; [reflexivity|now rewrite IH].
  Qed.

  (* a list without bindings is the empty list *)
  Lemma am_all_none m : (forall k, am_get m k = None) -> m = [].
  Proof.
    destruct m as [|[k v] r]; [reflexivity|]. intro H. specialize (H k). cbn in H.
    now rewrite bytes_eqb_refl in H.
  Qed.

  Lemma am_get_in m k v : am_get m k = Some v -> In (k, v) m.
  Proof.
    induction m as [|[k' v'] r IH]; cbn; [discriminate|].
    destruct (bytes_eqb k' k) eqn:E.
    - intro H. inversion H; subst. apply bytes_eqb_eq in E. subst. now left.
    - intro H. right. now apply IH.
  Qed.

  Lemma am_get_none_notin m k : am_get m k = None -> ~ In k (map fst m).
  Proof.
    induction m as [|[k' v'] r IH]; cbn; [tauto|].
    destruct (bytes_eqb k' k) eqn:E; [discriminate|].
    intros H [H1|H1].
    - subst. now rewrite bytes_eqb_refl in E.
    - now apply IH.
  Qed.

  Lemma am_get_notin_none m k : ~ In k (map fst m) -> am_get m k = None.
  Proof.
    induction m as [|[k' v'] r IH]; cbn; [reflexivity|].
    intro H. destruct (bytes_eqb k' k) eqn:E.
    - apply bytes_eqb_eq in E. subst. tauto.
    - apply IH. tauto.
  Qed.

  Lemma am_get_some_in_keys m k v : am_get m k = Some v -> In k (map fst m).
  Proof. intro H. apply am_get_in in H. now apply (in_map fst) in H. Qed.

  Lemma am_in_nodup_get m k v : NoDup (map fst m) -> In (k, v) m -> am_get m k = Some v.
  Proof.
    induction m as [|[k' v'] r IH]; cbn; [tauto|].
    intros Hnd [H|H].
    - inversion H; subst. now rewrite bytes_eqb_refl.
    - inversion Hnd; subst. destruct (bytes_eqb k' k) eqn:E.
      + apply bytes_eqb_eq in E. subst. exfalso. apply H2. now apply (in_map fst) in H.
      + now apply IH.
  Qed.
End AMapLemmas.

(* ================= one account ================= *)
Definition vals_ok (m : smap) : Prop := forall k v, am_get m k = Some v -> v <> [].

Definition data_ok (d : adata) : Prop :=
  (forall m, d_store d = Some m -> vals_ok m) /\ (d_isc d = false -> d_own d = None /\ d_dep d = []).

Definition store_normal (d : adata) : Prop := d_store d <> Some [].

(* a snapshot object: recorded in the allocation log under its stamp, well-formed, store nil iff empty *)
Definition snap_ok (h : heap) (x : asnap) : Prop :=
  nth_error h (stamp x) = Some (sdata x) /\ data_ok (sdata x) /\ store_normal (sdata x).

(* an account state: when `last` is set (not dirty) it is exactly the snapshot of the live data *)
Definition astate_ok (h : heap) (s : astate) : Prop :=
  data_ok (live s) /\ forall x, last s = Some x -> snap_ok h x /\ sdata x = snap_data (live s).

Lemma snap_ok_mono h l x : snap_ok h x -> snap_ok (h ++ l) x.
Proof.
  intros (H1 & H2 & H3). split; [|split; assumption].
  rewrite nth_error_app1; [assumption|]. apply nth_error_Some. congruence.
Qed.

Lemma astate_ok_mono h l s : astate_ok h s -> astate_ok (h ++ l) s.
Proof.
  intros [H1 H2]. split; [assumption|]. intros x Hx. destruct (H2 x Hx). split; [|assumption].
  now apply snap_ok_mono.
Qed.

Lemma snap_ok_same_stamp h x y : snap_ok h x -> snap_ok h y -> stamp x = stamp y -> sdata x = sdata y.
Proof. intros (H1 & _) (H2 & _) E. rewrite E in H1. congruence. Qed.

Lemma snap_ok_stamp_lt h x : snap_ok h x -> (stamp x < length h)%nat.
Proof. intros (H1 & _). apply nth_error_Some. congruence. Qed.

Lemma vals_ok_nil : vals_ok [].
Proof. intros k v H. discriminate. Qed.

Lemma vals_ok_del k m : vals_ok m -> vals_ok (am_del k m).
Proof.
  intros H k' v Hg. destruct (bytes_eq_dec k k') as [->|Hne].
  - now rewrite am_get_del_same in Hg.
  - rewrite am_get_del_other in Hg by assumption. eauto.
Qed.

Lemma vals_ok_set k v m : v <> [] -> vals_ok m -> vals_ok (am_set k v m).
Proof.
  intros Hv H k' v' Hg. destruct (bytes_eq_dec k k') as [->|Hne].
  - rewrite am_get_set_same in Hg. congruence.
  - rewrite am_get_set_other in Hg by assumption. eauto.
Qed.

Lemma data_ok_empty : data_ok empty_data.
Proof. split; cbn; [discriminate|split; reflexivity]. Qed.

Lemma abs_snap_data d : abs (snap_data d) = abs d.
Proof. destruct d as [b [[|p r]|] c o f dp]; reflexivity. Qed.

Lemma snap_data_normal d : store_normal (snap_data d).
Proof. destruct d as [b [[|p r]|] c o f dp]; cbn; unfold store_normal; cbn; congruence. Qed.

Lemma snap_data_idem d : store_normal d -> snap_data d = d.
Proof.
  destruct d as [b [[|p r]|] c o f dp]; unfold store_normal; cbn; intro H;
    try reflexivity. now elim H.
Qed.

Lemma data_ok_snap_data d : data_ok d -> data_ok (snap_data d).
Proof.
  destruct d as [b [[|p r]|] c o f dp]; intros [H1 H2]; split; cbn in *; try assumption; discriminate.
Qed.

Lemma is_empty_snap_data d : is_empty (snap_data d) = l_is_empty (abs d).
Proof. destruct d as [b [[|p r]|] c o f dp]; reflexivity. Qed.

Lemma is_empty_normal d : store_normal d -> is_empty d = l_is_empty (abs d).
Proof. intro H. rewrite <- is_empty_snap_data. now rewrite snap_data_idem. Qed.

Lemma is_empty_abs d : data_ok d -> is_empty d = true -> abs d = l_empty.
Proof.
  destruct d as [b s c o f dp]. intros [_ H2]. unfold is_empty. cbn in *. intro H.
  apply andb_true_iff in H as [H Hf]. apply andb_true_iff in H as [H Hc].
  apply andb_true_iff in H as [Hb Hs]. apply Z.eqb_eq in Hb. apply N.eqb_eq in Hf.
  destruct s; [discriminate|]. destruct c; [discriminate|]. destruct (H2 eq_refl) as [-> ->].
  subst. reflexivity.
Qed.

Lemma l_is_empty_abs d : data_ok d -> l_is_empty (abs d) = true -> abs d = l_empty.
Proof.
  intros Hd H. rewrite <- abs_snap_data. apply is_empty_abs.
  - now apply data_ok_snap_data.
  - now rewrite is_empty_snap_data.
Qed.

Lemma data_value_abs d k : data_value d k = am_get (l_store (abs d)) k.
Proof. destruct d as [b [m|] c o f dp]; reflexivity. Qed.

Lemma read_data_abs d q : read_data d q = read_l (abs d) q.
Proof. destruct q; cbn; try reflexivity. now rewrite data_value_abs. Qed.

(* --- the mutators keep the account state well-formed, and act on the logical account as specified --- *)
Lemma astate_ok_dirty h d : data_ok d -> astate_ok h (dirty d).
Proof. intro H. split; [exact H|]. cbn. discriminate. Qed.

Lemma set_balance_ok h s v : astate_ok h s -> astate_ok h (a_set_balance s v).
Proof.
  intro H. unfold a_set_balance. destruct (_ =? _)%Z; [assumption|].
  apply astate_ok_dirty. destruct H as [[H1 H2] _]. split; assumption.
Qed.

Lemma set_balance_abs s v :
  abs (live (a_set_balance s v)) =
  mkL v (l_store (abs (live s))) (l_isc (abs (live s))) (l_own (abs (live s))) (l_flg (abs (live s))) (l_dep (abs (live s))).
Proof.
  unfold a_set_balance. destruct (_ =? _)%Z eqn:E; [|reflexivity].
  apply Z.eqb_eq in E. subst. now destruct (live s).
Qed.

Lemma delete_value_ok h s k : astate_ok h s -> astate_ok h (fst (a_delete_value s k)).
Proof.
  intro H. unfold a_delete_value. destruct (d_store (live s)) as [m|] eqn:Es; [|exact H].
  destruct (am_get m k) as [[|b r]|] eqn:Eg; cbn; try exact H.
  - exfalso. destruct H as [[H1 _] _]. exact (H1 m Es k [] Eg eq_refl).
  - apply astate_ok_dirty. destruct H as [[H1 H2] _]. split; cbn; [|assumption].
    intros m' Hm'. inversion Hm'; subst. apply vals_ok_del. now apply H1.
Qed.

Lemma delete_value_abs h s k : astate_ok h s ->
  abs (live (fst (a_delete_value s k))) =
    mkL (l_bal (abs (live s))) (am_del k (l_store (abs (live s)))) (l_isc (abs (live s)))
        (l_own (abs (live s))) (l_flg (abs (live s))) (l_dep (abs (live s))) /\
  snd (a_delete_value s k) = am_get (l_store (abs (live s))) k.
Proof.
  intro H. unfold a_delete_value. destruct (live s) as [b st c o f dp] eqn:El. cbn.
  destruct st as [m|]; cbn; [|rewrite El; split; reflexivity].
  destruct (am_get m k) as [[|b' r]|] eqn:Eg; cbn.
  - exfalso. destruct H as [[H1 _] _]. rewrite El in H1. exact (H1 m eq_refl k [] Eg eq_refl).
  - split; reflexivity.
  - rewrite El. cbn. rewrite am_del_absent by assumption. split; reflexivity.
Qed.

Lemma set_value_ok h s k v : astate_ok h s -> astate_ok h (fst (a_set_value s k v)).
Proof.
  intro H. unfold a_set_value. destruct v as [|b r]; [now apply delete_value_ok|].
  cbn. apply astate_ok_dirty. destruct H as [[H1 H2] _]. split; cbn; [|assumption].
  intros m' Hm'. inversion Hm'; subst. apply vals_ok_set; [discriminate|].
  destruct (d_store (live s)) as [m|]; [now apply H1|apply vals_ok_nil].
Qed.

Lemma set_value_abs h s k v : astate_ok h s ->
  abs (live (fst (a_set_value s k v))) =
    mkL (l_bal (abs (live s)))
        (match v with [] => am_del k (l_store (abs (live s))) | _ => am_set k v (l_store (abs (live s))) end)
        (l_isc (abs (live s))) (l_own (abs (live s))) (l_flg (abs (live s))) (l_dep (abs (live s))) /\
  snd (a_set_value s k v) = am_get (l_store (abs (live s))) k.
Proof.
  intro H. unfold a_set_value. destruct v as [|b r]; [now apply (delete_value_abs h)|].
  cbn. destruct (live s) as [bl [m|] c o f dp]; cbn; split; reflexivity.
Qed.

Lemma init_contract_ok h s owner : astate_ok h s -> astate_ok h (fst (a_init_contract s owner)).
Proof.
  intro H. unfold a_init_contract. destruct (d_isc (live s)); [exact H|]. cbn.
  apply astate_ok_dirty. destruct H as [[H1 H2] _]. split; cbn; [assumption|discriminate].
Qed.

Lemma init_contract_abs s owner :
  (l_isc (abs (live s)) = true /\ a_init_contract s owner = (s, false)) \/
  (l_isc (abs (live s)) = false /\ snd (a_init_contract s owner) = true /\
   abs (live (fst (a_init_contract s owner))) =
     mkL (l_bal (abs (live s))) (l_store (abs (live s))) true (Some owner) (l_flg (abs (live s))) (l_dep (abs (live s)))).
Proof.
  unfold a_init_contract. destruct (live s) as [b st c o f dp]; cbn. destruct c; [left|right]; auto.
Qed.

Lemma set_block_ok h s b : astate_ok h s -> astate_ok h (a_set_block s b).
Proof.
  intro H. unfold a_set_block. destruct (Bool.eqb _ _); [exact H|].
  apply astate_ok_dirty. destruct H as [[H1 H2] _]. split; assumption.
Qed.

Lemma set_block_abs s b :
  abs (live (a_set_block s b)) =
  mkL (l_bal (abs (live s))) (l_store (abs (live s))) (l_isc (abs (live s))) (l_own (abs (live s)))
      (if Bool.eqb (flag_on (l_flg (abs (live s))) AS_BLOCKED) b then l_flg (abs (live s))
       else N.lxor (l_flg (abs (live s))) AS_BLOCKED) (l_dep (abs (live s))).
Proof.
  unfold a_set_block. destruct (live s) as [bl st c o f dp] eqn:E; cbn.
  destruct (Bool.eqb _ _); [rewrite E|]; reflexivity.
Qed.

Lemma set_disable_ok h s b : astate_ok h s -> astate_ok h (a_set_disable s b).
Proof.
  intro H. unfold a_set_disable. destruct (d_isc (live s)); [|exact H].
  destruct (Bool.eqb _ _); [exact H|].
  apply astate_ok_dirty. destruct H as [[H1 H2] _]. split; assumption.
Qed.

Lemma set_disable_abs s b :
  abs (live (a_set_disable s b)) =
  mkL (l_bal (abs (live s))) (l_store (abs (live s))) (l_isc (abs (live s))) (l_own (abs (live s)))
      (if l_isc (abs (live s)) && negb (Bool.eqb (flag_on (l_flg (abs (live s))) AS_DISABLED) b)
       then N.lxor (l_flg (abs (live s))) AS_DISABLED else l_flg (abs (live s))) (l_dep (abs (live s))).
Proof.
  unfold a_set_disable. destruct (live s) as [bl st c o f dp] eqn:E; cbn.
  destruct c; cbn; [|now rewrite E]. destruct (Bool.eqb _ _); cbn; [rewrite E|]; reflexivity.
Qed.

(* --- the deposit operations --- *)
Lemma data_ok_with_dep d dl : data_ok d -> d_isc d = true -> data_ok (with_dep d dl).
Proof. intros [H1 H2] Hc. split; cbn; [exact H1|]. rewrite Hc. discriminate. Qed.

Lemma add_deposit_ok h s c v : astate_ok h s -> astate_ok h (fst (a_add_deposit s c v)).
Proof.
  intro H. unfold a_add_deposit. destruct (d_isc (live s)) eqn:Ec; [|exact H].
  destruct (dl_add c v (d_dep (live s))); [|exact H]. cbn. apply astate_ok_dirty.
  apply data_ok_with_dep; [apply H|exact Ec].
Qed.

Lemma withdraw_deposit_ok h s c id v : astate_ok h s -> astate_ok h (fst (a_withdraw_deposit s c id v)).
Proof.
  intro H. unfold a_withdraw_deposit. destruct (d_isc (live s)) eqn:Ec; [|exact H].
  destruct (dl_withdraw c id v (d_dep (live s))) as [[[am pen] dl]|]; [|exact H]. cbn. apply astate_ok_dirty.
  apply data_ok_with_dep; [apply H|exact Ec].
Qed.

Lemma pay_steps_ok h s c st : astate_ok h s -> astate_ok h (fst (a_pay_steps s c st)).
Proof.
  intro H. unfold a_pay_steps. destruct (d_isc (live s)) eqn:Ec; [|exact H].
  destruct (c_on c && _); [|exact H].
  destruct (dl_pay c st (d_dep (live s))) as [[dl paid] byd]. cbn. apply astate_ok_dirty.
  apply data_ok_with_dep; [apply H|exact Ec].
Qed.

Lemma abs_with_dep d dl : abs (with_dep d dl) = l_with_dep (abs d) dl.
Proof. reflexivity. Qed.

(* --- GetSnapshot / Reset / Clear / newAccountState --- *)
Lemma get_snapshot_spec h s : astate_ok h s ->
  let '(h', s', x) := a_get_snapshot h s in
  (exists l, h' = h ++ l) /\ astate_ok h' s' /\ snap_ok h' x /\
  sdata x = snap_data (live s) /\ live s' = live s /\ last s' = Some x.
Proof.
  intro H. unfold a_get_snapshot. destruct (last s) as [x|] eqn:El.
  - destruct (proj2 H x El) as [Hx Hd].
    split; [exists []; now rewrite app_nil_r|]. split; [exact H|]. split; [exact Hx|].
    split; [exact Hd|]. split; [reflexivity|exact El].
  - cbn. assert (Hx : snap_ok (h ++ [snap_data (live s)]) (mkS (length h) (snap_data (live s)))).
    { split; [|split]; cbn.
      - rewrite nth_error_app2 by apply Nat.le_refl. now rewrite Nat.sub_diag.
      - apply data_ok_snap_data, H.
      - apply snap_data_normal. }
    split; [eexists; reflexivity|]. split.
    { split; cbn; [apply H|]. intros x Hx'. inversion Hx'; subst. split; [exact Hx|reflexivity]. }
    split; [exact Hx|]. cbn. auto.
Qed.

Lemma reset_spec h s x : astate_ok h s -> snap_ok h x ->
  astate_ok h (a_reset s x) /\ abs (live (a_reset s x)) = abs (sdata x) /\
  exists y, last (a_reset s x) = Some y /\ stamp y = stamp x.
Proof.
  intros Hs Hx.
  assert (Hfull : astate_ok h (mkAS (sdata x) (Some x))).
  { split; cbn; [apply Hx|]. intros y Hy. inversion Hy; subst. split; [assumption|].
    symmetry. apply snap_data_idem, Hx. }
  unfold a_reset. destruct (last s) as [y|] eqn:El.
  - destruct (Nat.eqb (stamp y) (stamp x)) eqn:E.
    + apply Nat.eqb_eq in E. destruct (proj2 Hs y El) as [Hy Hd].
      split; [exact Hs|]. split.
      * rewrite <- (snap_ok_same_stamp h y x Hy Hx E), Hd. now rewrite abs_snap_data.
      * exists y. auto.
    + split; [exact Hfull|]. split; [reflexivity|]. exists x. auto.
  - split; [exact Hfull|]. split; [reflexivity|]. exists x. auto.
Qed.

Lemma clear_ok h : astate_ok h a_clear.
Proof. split; cbn; [apply data_ok_empty|discriminate]. Qed.

Lemma new_astate_ok h o : (forall x, o = Some x -> snap_ok h x) -> astate_ok h (new_astate o).
Proof.
  intro H. destruct o as [x|]; cbn; [|apply clear_ok].
  specialize (H x eq_refl). split; cbn; [apply H|].
  intros y Hy. inversion Hy; subst. split; [assumption|]. symmetry. apply snap_data_idem, H.
Qed.

(* ================= the world state ================= *)
(* every account object in an account trie is a recorded snapshot and is NOT empty *)
Definition trie_ok (h : heap) (t : trie) : Prop :=
  forall a x, am_get t a = Some x -> snap_ok h x /\ is_empty (sdata x) = false.

(* lastAccounts[a] tells what the trie holds for a: nothing when nil or when it is an empty
   snapshot, otherwise that very object *)
Definition wlast_ok (h : heap) (t : trie) (a : aid) (e : entry) : Prop :=
  match e_wlast e with
  | None => am_get t a = None
  | Some x => snap_ok h x /\ am_get t a = (if is_empty (sdata x) then None else Some x)
  end.

Definition entry_ok (h : heap) (t : trie) (a : aid) (e : entry) : Prop :=
  astate_ok h (e_st e) /\ wlast_ok h t a e.

Definition ws_ok (h : heap) (w : wstate) : Prop :=
  trie_ok h (w_trie w) /\ NoDup (map fst (w_cache w)) /\
  forall a e, am_get (w_cache w) a = Some e -> entry_ok h (w_trie w) a e.

Lemma trie_ok_mono h l t : trie_ok h t -> trie_ok (h ++ l) t.
Proof. intros H a x Hx. destruct (H a x Hx). split; [now apply snap_ok_mono|assumption]. Qed.

Lemma entry_ok_mono h l t a e : entry_ok h t a e -> entry_ok (h ++ l) t a e.
Proof.
  intros [H1 H2]. split; [now apply astate_ok_mono|].
  unfold wlast_ok in *. destruct (e_wlast e); [|assumption].
  destruct H2. split; [now apply snap_ok_mono|assumption].
Qed.

Lemma trie_ok_nil h : trie_ok h [].
Proof. intros a x H. discriminate. Qed.

Lemma ws_ok_empty h : ws_ok h w_empty.
Proof. split; [apply trie_ok_nil|]. split; [constructor|]. intros a e H. discriminate. Qed.

Lemma ws_ok_fresh h t : trie_ok h t -> ws_ok h (mkW t []).
Proof. intro H. split; [exact H|]. split; [constructor|]. intros a e He. discriminate. Qed.

Lemma live_view_cached w a e : am_get (w_cache w) a = Some e -> live_view w a = live (e_st e).
Proof. intro H. unfold live_view. now rewrite H. Qed.

(* --- GetAccountState --- *)
Lemma w_touch_spec h w a : ws_ok h w ->
  let w' := fst (w_touch w a) in let st := snd (w_touch w a) in
  ws_ok h w' /\ w_trie w' = w_trie w /\ astate_ok h st /\ live st = live_view w a /\
  (exists e, am_get (w_cache w') a = Some e /\ e_st e = st) /\
  (forall a', live_view w' a' = live_view w a').
Proof.
  intros (Ht & Hnd & Hc). unfold w_touch. destruct (am_get (w_cache w) a) as [e|] eqn:Eg; cbn.
  - split; [split; [exact Ht|split; [exact Hnd|exact Hc]]|]. split; [reflexivity|]. split; [apply (Hc a e Eg)|].
    split; [symmetry; now apply live_view_cached|]. split; [eauto|reflexivity].
  - assert (Hs : astate_ok h (new_astate (am_get (w_trie w) a))).
    { apply new_astate_ok. intros x Hx. apply (Ht a x Hx). }
    split.
    { split; [exact Ht|]. split.
      - cbn. constructor; [now apply am_get_none_notin|exact Hnd].
      - cbn. intros a' e'. destruct (bytes_eqb a a') eqn:E.
        + apply bytes_eqb_eq in E. subst a'. intro H. inversion H; subst. split; [exact Hs|].
          unfold wlast_ok. cbn. destruct (am_get (w_trie w) a) as [x|] eqn:Ex; [|reflexivity].
          destruct (Ht a x Ex) as [H1 H2]. rewrite H2. auto.
        + apply Hc. }
    split; [reflexivity|]. split; [exact Hs|]. split.
    { unfold live_view. rewrite Eg. now destruct (am_get (w_trie w) a). }
    split.
    { rewrite bytes_eqb_refl. eauto. }
    intro a'. unfold live_view. cbn. destruct (bytes_eqb a a') eqn:E; [|reflexivity].
    apply bytes_eqb_eq in E. subst a'. rewrite Eg. now destruct (am_get (w_trie w) a).
Qed.

(* --- a mutation through the handle --- *)
Lemma w_modify_spec {R} h w a (f : astate -> astate * R) :
  ws_ok h w -> (forall s, astate_ok h s -> astate_ok h (fst (f s))) ->
  exists st, astate_ok h st /\ live st = live_view w a /\
    snd (w_modify w a f) = snd (f st) /\
    ws_ok h (fst (w_modify w a f)) /\
    w_trie (fst (w_modify w a f)) = w_trie w /\
    live_view (fst (w_modify w a f)) a = live (fst (f st)) /\
    forall a', a' <> a -> live_view (fst (w_modify w a f)) a' = live_view w a'.
Proof.
  intros Hw Hf. pose proof (w_touch_spec h w a Hw) as Ht. cbv zeta in Ht.
  unfold w_modify. destruct (w_touch w a) as [w1 st] eqn:Et. cbn [fst snd] in Ht.
  destruct Ht as (Hw1 & Htr & Hst & Hlive & (e & Hge & Hest) & Hview).
  exists st. destruct (f st) as [s' r] eqn:Ef. cbn [fst snd].
  specialize (Hf st Hst). rewrite Ef in Hf. cbn in Hf.
  split; [exact Hst|]. split; [exact Hlive|]. split; [reflexivity|].
  destruct Hw1 as (Ht1 & Hnd1 & Hc1).
  split.
  { split; [exact Ht1|]. split; cbn.
    - now rewrite am_upd_keys.
    - intros a' e'. destruct (bytes_eq_dec a a') as [<-|Hne].
      + rewrite am_get_upd_same, Hge. cbn. intro H. inversion H; subst e'.
        destruct (Hc1 a e Hge) as [_ Hwl]. split; [exact Hf|exact Hwl].
      + rewrite am_get_upd_other by assumption. apply Hc1. }
  split; [exact Htr|]. split.
  { unfold live_view. cbn. now rewrite am_get_upd_same, Hge. }
  intros a' Hne. rewrite <- Hview. unfold live_view. cbn.
  rewrite am_get_upd_other by congruence. reflexivity.
Qed.

(* --- flushAccountCacheInLock --- *)
Lemma trie_ok_del h t a : trie_ok h t -> trie_ok h (am_del a t).
Proof.
  intros H a' x Hx. destruct (bytes_eq_dec a a') as [<-|Hne].
  - now rewrite am_get_del_same in Hx.
  - rewrite am_get_del_other in Hx by assumption. eauto.
Qed.

Lemma trie_ok_set h t a s : trie_ok h t -> snap_ok h s -> is_empty (sdata s) = false -> trie_ok h (am_set a s t).
Proof.
  intros H Hs He a' x Hx. destruct (bytes_eq_dec a a') as [<-|Hne].
  - rewrite am_get_set_same in Hx. inversion Hx; subst. auto.
  - rewrite am_get_set_other in Hx by assumption. eauto.
Qed.

Lemma flush_one_spec h t a e : trie_ok h t -> entry_ok h t a e ->
  let '(h1, t1, e1) := flush_one h t a e in
  (exists l, h1 = h ++ l) /\ trie_ok h1 t1 /\ entry_ok h1 t1 a e1 /\ live (e_st e1) = live (e_st e) /\
  (forall a', a' <> a -> am_get t1 a' = am_get t a') /\
  abs_opt (am_get t1 a) = abs (live (e_st e)).
Proof.
  intros Ht [Hst Hwl]. unfold flush_one.
  pose proof (get_snapshot_spec h (e_st e) Hst) as Hg.
  destruct (a_get_snapshot h (e_st e)) as [[h1 st1] s].
  destruct Hg as ((l & ->) & Hst1 & Hs & Hsd & Hlv & Hls).
  assert (Ht1 : trie_ok (h ++ l) t) by now apply trie_ok_mono.
  assert (Habs : abs (sdata s) = abs (live (e_st e))) by (rewrite Hsd; apply abs_snap_data).
  assert (Hemp : is_empty (sdata s) = true -> abs (live (e_st e)) = l_empty).
  { intro H. rewrite <- Habs. apply is_empty_abs; [apply Hs|exact H]. }
  (* the two ways of writing *)
  assert (Hwrite : is_empty (sdata s) = true ->
     trie_ok (h ++ l) (am_del a t) /\ entry_ok (h ++ l) (am_del a t) a (mkE st1 (Some s)) /\
     abs_opt (am_get (am_del a t) a) = abs (live (e_st e))).
  { intro He. split; [now apply trie_ok_del|]. split.
    - split; [exact Hst1|]. unfold wlast_ok. cbn. split; [exact Hs|]. rewrite He. apply am_get_del_same.
    - rewrite am_get_del_same. cbn. symmetry. now apply Hemp. }
  assert (Hwrite2 : is_empty (sdata s) = false ->
     trie_ok (h ++ l) (am_set a s t) /\ entry_ok (h ++ l) (am_set a s t) a (mkE st1 (Some s)) /\
     abs_opt (am_get (am_set a s t) a) = abs (live (e_st e))).
  { intro He. split; [now apply trie_ok_set|]. split.
    - split; [exact Hst1|]. unfold wlast_ok. cbn. split; [exact Hs|]. rewrite He. apply am_get_set_same.
    - rewrite am_get_set_same. exact Habs. }
  unfold wlast_ok in Hwl. destruct (e_wlast e) as [ass|] eqn:Ew.
  - destruct Hwl as [Hass Hta]. destruct (Nat.eqb (stamp ass) (stamp s)) eqn:E.
    + apply Nat.eqb_eq in E.
      assert (Hd : sdata ass = sdata s).
      { apply (snap_ok_same_stamp (h ++ l)); [now apply snap_ok_mono|exact Hs|exact E]. }
      split; [eauto|]. split; [exact Ht1|]. split.
      { split; [exact Hst1|]. unfold wlast_ok. cbn. split; [now apply snap_ok_mono|exact Hta]. }
      split; [exact Hlv|]. split; [reflexivity|].
      rewrite Hta, Hd. destruct (is_empty (sdata s)) eqn:He; cbn.
      * symmetry. now apply Hemp.
      * now rewrite Hd.
    + destruct (is_empty (sdata s)) eqn:He.
      * destruct (Hwrite eq_refl) as (H1 & H2 & H3).
        split; [eauto|]. split; [exact H1|]. split; [exact H2|]. split; [exact Hlv|].
        split; [|exact H3]. intros a' Hne. apply am_get_del_other. congruence.
      * destruct (Hwrite2 eq_refl) as (H1 & H2 & H3).
        split; [eauto|]. split; [exact H1|]. split; [exact H2|]. split; [exact Hlv|].
        split; [|exact H3]. intros a' Hne. apply am_get_set_other. congruence.
  - destruct (is_empty (sdata s)) eqn:He.
    + split; [eauto|]. split; [exact Ht1|]. split.
      { split; [exact Hst1|]. unfold wlast_ok. cbn. exact Hwl. }
      split; [exact Hlv|]. split; [reflexivity|].
      rewrite Hwl. cbn. symmetry. now apply Hemp.
    + destruct (Hwrite2 eq_refl) as (H1 & H2 & H3).
      split; [eauto|]. split; [exact H1|]. split; [exact H2|]. split; [exact Hlv|].
      split; [|exact H3]. intros a' Hne. apply am_get_set_other. congruence.
Qed.

Lemma flush_entries_spec : forall c h t,
  NoDup (map fst c) -> trie_ok h t -> (forall a e, In (a, e) c -> entry_ok h t a e) ->
  let '(h', t', c') := flush_entries h t c in
  (exists l, h' = h ++ l) /\ trie_ok h' t' /\ map fst c' = map fst c /\
  (forall a e', In (a, e') c' -> entry_ok h' t' a e') /\
  (forall a, am_get c' a = None <-> am_get c a = None) /\
  (forall a e', am_get c' a = Some e' -> exists e, am_get c a = Some e /\ live (e_st e') = live (e_st e)) /\
  (forall a, ~ In a (map fst c) -> am_get t' a = am_get t a) /\
  (forall a e, In (a, e) c -> abs_opt (am_get t' a) = abs (live (e_st e))).
Proof.
  induction c as [|[a e] r IH]; intros h t Hnd Ht Hc.
  - cbn. split; [exists []; now rewrite app_nil_r|]. split; [exact Ht|]. split; [reflexivity|].
    split; [intros ? ? []|]. split; [tauto|]. split; [discriminate|]. split; [reflexivity|]. intros ? ? [].
  - cbn [flush_entries]. inversion Hnd as [|? ? Hnotin Hnd']; subst.
    pose proof (flush_one_spec h t a e Ht (Hc a e (or_introl eq_refl))) as H1.
    destruct (flush_one h t a e) as [[h1 t1] e1].
    destruct H1 as ((l1 & ->) & Ht1 & He1 & Hlv1 & Hoth1 & Habs1).
    assert (Hc1 : forall a' e', In (a', e') r -> entry_ok (h ++ l1) t1 a' e').
    { intros a' e' Hin. assert (Hne : a' <> a).
      { intro; subst. apply Hnotin. now apply (in_map fst) in Hin. }
      destruct (Hc a' e' (or_intror Hin)) as [Hs Hw]. split; [now apply astate_ok_mono|].
      unfold wlast_ok in *. rewrite (Hoth1 a' Hne). destruct (e_wlast e'); [|exact Hw].
      destruct Hw. split; [now apply snap_ok_mono|assumption]. }
    specialize (IH (h ++ l1) t1 Hnd' Ht1 Hc1).
    destruct (flush_entries (h ++ l1) t1 r) as [[h2 t2] r2].
    destruct IH as ((l2 & ->) & Ht2 & Hk2 & He2 & Hn2 & Hl2 & Hoth2 & Habs2).
    assert (Hta : am_get t2 a = am_get t1 a) by now apply Hoth2.
    split; [exists (l1 ++ l2); now rewrite app_assoc|]. split; [exact Ht2|].
    split; [cbn; now rewrite Hk2|]. split.
    { intros a' e' [Hin|Hin].
      - inversion Hin; subst. destruct He1 as [Hs Hw]. split; [now apply astate_ok_mono|].
        unfold wlast_ok in *. rewrite Hta. destruct (e_wlast e'); [|exact Hw].
        destruct Hw. split; [now apply snap_ok_mono|assumption].
      - now apply He2. }
    split.
    { intro a'. cbn. destruct (bytes_eqb a a'); [split; discriminate|apply Hn2]. }
    split.
    { intros a' e'. cbn. destruct (bytes_eqb a a').
      - intro H. inversion H; subst. eauto.
      - apply Hl2. }
    split.
    { intros a' Hnin. cbn in Hnin. rewrite Hoth2 by tauto. apply Hoth1. intro; subst; tauto. }
    intros a' e' [Hin|Hin].
    + inversion Hin; subst. now rewrite Hta.
    + now apply Habs2.
Qed.

Lemma w_flush_spec h w : ws_ok h w ->
  let '(h', w') := w_flush h w in
  (exists l, h' = h ++ l) /\ ws_ok h' w' /\
  (forall a, live_view w' a = live_view w a) /\
  (forall a, abs_opt (am_get (w_trie w') a) = abs (live_view w a)).
Proof.
  intros (Ht & Hnd & Hc). unfold w_flush.
  assert (Hc' : forall a e, In (a, e) (w_cache w) -> entry_ok h (w_trie w) a e).
  { intros a e Hin. apply Hc. now apply am_in_nodup_get. }
  pose proof (flush_entries_spec (w_cache w) h (w_trie w) Hnd Ht Hc') as H.
  destruct (flush_entries h (w_trie w) (w_cache w)) as [[h' t'] c'].
  destruct H as (Hl & Ht' & Hk & He & Hn & Hlv & Hoth & Habs).
  split; [exact Hl|]. split.
  { split; [exact Ht'|]. split; [cbn; now rewrite Hk|]. cbn. intros a e Hg. apply He. now apply am_get_in. }
  split.
  { intro a. unfold live_view. cbn. destruct (am_get c' a) as [e'|] eqn:E.
    - destruct (Hlv a e' E) as (e & Hg & Hl'). now rewrite Hg.
    - apply Hn in E. rewrite E. rewrite Hoth; [reflexivity|]. now apply am_get_none_notin. }
  intro a. cbn. unfold live_view. destruct (am_get (w_cache w) a) as [e|] eqn:E.
  - apply Habs. now apply am_get_in.
  - rewrite Hoth by now apply am_get_none_notin.
    destruct (am_get (w_trie w) a); reflexivity.
Qed.

(* entries on which the flush loop has nothing to do *)
Definition entry_clean (e : entry) : Prop :=
  match e_wlast e with
  | None => last (e_st e) = None /\ is_empty (snap_data (live (e_st e))) = true
  | Some v => exists y, last (e_st e) = Some y /\ stamp y = stamp v
  end.

Lemma flush_clean : forall c h t, (forall a e, In (a, e) c -> entry_clean e) ->
  snd (fst (flush_entries h t c)) = t.
Proof.
  induction c as [|[a e] r IH]; intros h t Hc; [reflexivity|].
  cbn [flush_entries]. assert (H1 : snd (fst (flush_one h t a e)) = t).
  { specialize (Hc a e (or_introl eq_refl)). unfold entry_clean in Hc. unfold flush_one, a_get_snapshot.
    destruct (e_wlast e) as [v|].
    - destruct Hc as (y & Hy & Es). rewrite Hy. rewrite Es, Nat.eqb_refl. reflexivity.
    - destruct Hc as [Hl He]. rewrite Hl. cbn. rewrite He. reflexivity. }
  destruct (flush_one h t a e) as [[h1 t1] e1]. cbn in H1. subst t1.
  specialize (IH h1 t (fun a' e' Hin => Hc a' e' (or_intror Hin))).
  destruct (flush_entries h1 t r) as [[h2 t2] r2]. exact IH.
Qed.

(* --- Reset --- *)
Lemma am_get_mapi {A B} (g : bytes -> A -> B) (c : amap A) a :
  am_get (map (fun ae => (fst ae, g (fst ae) (snd ae))) c) a = option_map (g a) (am_get c a).
Proof.
  induction c as [|[k v] r IH]; cbn; [reflexivity|].
  destruct (bytes_eqb k a) eqn:E; [|exact IH]. apply bytes_eqb_eq in E. now subst.
Qed.

Lemma map_fst_mapi {A B} (g : bytes -> A -> B) (c : amap A) :
  map fst (map (fun ae => (fst ae, g (fst ae) (snd ae))) c) = map fst c.
Proof. induction c as [|[k v] r IH]; cbn; [reflexivity|now rewrite IH]. Qed.

Lemma w_reset_spec h w t : ws_ok h w -> trie_ok h t ->
  ws_ok h (w_reset w t) /\ w_trie (w_reset w t) = t /\
  (forall a, abs (live_view (w_reset w t) a) = abs_opt (am_get t a)) /\
  (forall a e, In (a, e) (w_cache (w_reset w t)) -> entry_clean e).
Proof.
  intros (Ht & Hnd & Hc) Htt. unfold w_reset.
  assert (Hre : forall a e, entry_ok h (w_trie w) a e ->
            entry_ok h t a (reset_entry t a e) /\ entry_clean (reset_entry t a e) /\
            abs (live (e_st (reset_entry t a e))) = abs_opt (am_get t a)).
  { intros a e [Hs _]. unfold reset_entry. destruct (am_get t a) as [v|] eqn:Ev.
    - destruct (Htt a v Ev) as [Hv Hne].
      destruct (reset_spec h (e_st e) v Hs Hv) as (H1 & H2 & H3).
      split; [|split].
      + split; [exact H1|]. unfold wlast_ok. cbn. rewrite Hne. auto.
      + unfold entry_clean. cbn. exact H3.
      + exact H2.
    - split; [|split].
      + split; [apply clear_ok|]. unfold wlast_ok. cbn. exact Ev.
      + unfold entry_clean. cbn. auto.
      + reflexivity. }
  split.
  { split; [exact Htt|]. split; [cbn; now rewrite map_fst_mapi|].
    cbn. intros a e'. rewrite am_get_mapi. destruct (am_get (w_cache w) a) as [e|] eqn:E; [|discriminate].
    cbn. intro H. inversion H; subst. apply Hre. now apply Hc. }
  split; [reflexivity|]. split.
  { intro a. unfold live_view. cbn. rewrite am_get_mapi.
    destruct (am_get (w_cache w) a) as [e|] eqn:E; cbn.
    - apply Hre. now apply Hc.
    - now destruct (am_get t a). }
  cbn. intros a e' Hin. apply in_map_iff in Hin as ([a0 e] & Heq & Hin). cbn in Heq.
  inversion Heq; subst. apply Hre. apply Hc. now apply am_in_nodup_get.
Qed.

(* --- WorldState.GetAccountSnapshot --- *)
Lemma w_peek_spec h w a : ws_ok h w ->
  let '(h', w', d) := w_peek h w a in
  (exists l, h' = h ++ l) /\ ws_ok h' w' /\ w_trie w' = w_trie w /\
  (forall a', live_view w' a' = live_view w a') /\ abs d = abs (live_view w a).
Proof.
  intros (Ht & Hnd & Hc). unfold w_peek. destruct (am_get (w_cache w) a) as [e|] eqn:Eg.
  - destruct (Hc a e Eg) as [Hs Hw].
    pose proof (get_snapshot_spec h (e_st e) Hs) as Hg.
    destruct (a_get_snapshot h (e_st e)) as [[h1 st1] s].
    destruct Hg as ((l & ->) & Hst1 & Hss & Hsd & Hlv & Hls).
    split; [eauto|]. split.
    { split; [now apply trie_ok_mono|]. split; [cbn; now rewrite am_upd_keys|].
      cbn. intros a' e'. destruct (bytes_eq_dec a a') as [<-|Hne].
      - rewrite am_get_upd_same, Eg. cbn. intro H. inversion H; subst e'.
        split; [exact Hst1|]. apply (entry_ok_mono h l _ _ _ (Hc a e Eg)).
      - rewrite am_get_upd_other by assumption. intro H. apply entry_ok_mono. now apply Hc. }
    split; [reflexivity|]. split.
    { intro a'. unfold live_view. cbn. destruct (bytes_eq_dec a a') as [<-|Hne].
      - rewrite am_get_upd_same, Eg. cbn. exact Hlv.
      - now rewrite am_get_upd_other by assumption. }
    rewrite Hsd, abs_snap_data. unfold live_view. now rewrite Eg.
  - split; [exists []; now rewrite app_nil_r|]. split; [split; [exact Ht|split; [exact Hnd|exact Hc]]|].
    split; [reflexivity|]. split; [reflexivity|]. unfold live_view. now rewrite Eg.
Qed.

(* ================= histories: invariant and refinement ================= *)
Definition sys_ok (s : sys) : Prop :=
  ws_ok (s_heap s) (s_ws s) /\ Forall (trie_ok (s_heap s)) (s_snaps s).

Definition snap_rel (t : trie) (f : lworld) : Prop := forall a, abs_opt (am_get t a) = f a.

Definition sim (s : sys) (sp : spec) : Prop :=
  sys_ok s /\
  (forall a, abs (live_view (s_ws s) a) = sp_cur sp a) /\
  Forall2 snap_rel (s_snaps s) (sp_snaps sp) /\
  s_flushed s = sp_flushed sp.

Lemma Forall2_nth_some {A B} (R : A -> B -> Prop) l1 l2 i x :
  Forall2 R l1 l2 -> nth_error l1 i = Some x -> exists y, nth_error l2 i = Some y /\ R x y.
Proof.
  intro H. revert i. induction H; intros [|i]; cbn; try discriminate.
  - intro E. inversion E; subst. eauto.
  - apply IHForall2.
Qed.

Lemma Forall2_nth_none {A B} (R : A -> B -> Prop) l1 l2 i :
  Forall2 R l1 l2 -> nth_error l1 i = None -> nth_error l2 i = None.
Proof.
  intro H. revert i. induction H; intros [|i]; cbn; try discriminate; auto.
Qed.

Lemma Forall2_len {A B} (R : A -> B -> Prop) l1 l2 : Forall2 R l1 l2 -> length l1 = length l2.
Proof. induction 1; cbn; congruence. Qed.

Lemma Forall_nth {A} (P : A -> Prop) l i x : Forall P l -> nth_error l i = Some x -> P x.
Proof. intros H E. rewrite Forall_forall in H. apply H. eapply nth_error_In; eauto. Qed.

Lemma Forall_trie_ok_mono h l ts : Forall (trie_ok h) ts -> Forall (trie_ok (h ++ l)) ts.
Proof. intro H. eapply Forall_impl; [|exact H]. intros t. apply trie_ok_mono. Qed.

Lemma sim_init : sim init spec_init.
Proof.
  split; [split; [apply ws_ok_empty|constructor]|]. split; [reflexivity|]. split; [constructor|reflexivity].
Qed.

Lemma abs_empty_data : abs empty_data = l_empty.
Proof. reflexivity. Qed.

Lemma live_view_fresh t a : abs (live_view (mkW t []) a) = abs_opt (am_get t a).
Proof. unfold live_view. cbn. now destruct (am_get t a). Qed.

(* a mutation through GetAccountState(a) *)
Lemma sim_modify {R} s sp a (f : astate -> astate * R) (g : R -> out) (l' : lacct) (o' : out) :
  sim s sp ->
  (forall h st, astate_ok h st -> astate_ok h (fst (f st))) ->
  (forall h st, astate_ok h st -> abs (live st) = sp_cur sp a ->
     abs (live (fst (f st))) = l' /\ g (snd (f st)) = o') ->
  snd (s_modify s a f g) = o' /\
  sim (fst (s_modify s a f g)) (mkSpec (lupd (sp_cur sp) a l') (sp_snaps sp) (sp_flushed sp)).
Proof.
  intros ([Hw Hs] & Hcur & Hsn & Hfl) Hf Hg. unfold s_modify.
  destruct (w_modify_spec (s_heap s) (s_ws s) a f Hw (Hf (s_heap s)))
    as (st & Hst & Hlv & Hr & Hw' & Htr & Hva & Hvo).
  destruct (w_modify (s_ws s) a f) as [w' r]. cbn [fst snd] in *.
  assert (Ha : abs (live st) = sp_cur sp a) by (rewrite Hlv; apply Hcur).
  destruct (Hg (s_heap s) st Hst Ha) as [H1 H2]. subst r.
  split; [exact H2|]. split; [split; assumption|]. split; [|split; assumption].
  intro a'. cbn. unfold lupd. destruct (bytes_eq_dec a a') as [<-|Hne].
  - rewrite bytes_eqb_refl, Hva. exact H1.
  - rewrite (bytes_eqb_neq _ _ Hne). rewrite Hvo by congruence. apply Hcur.
Qed.

Lemma sim_ext s sp sp' : sim s sp -> (forall a, sp_cur sp a = sp_cur sp' a) ->
  sp_snaps sp = sp_snaps sp' -> sp_flushed sp = sp_flushed sp' -> sim s sp'.
Proof.
  intros (H1 & H2 & H3 & H4) Hc Hs Hf. split; [exact H1|]. split; [intro a; now rewrite <- Hc|].
  split; congruence.
Qed.

Lemma lupd_same f a a' : lupd f a (f a) a' = f a'.
Proof.
  unfold lupd. destruct (bytes_eqb a a') eqn:E; [|reflexivity]. apply bytes_eqb_eq in E. now subst.
Qed.

Lemma is_flushed_sim s sp i : s_flushed s = sp_flushed sp -> is_flushed s i = sp_is_flushed sp i.
Proof. unfold is_flushed, sp_is_flushed. now intros ->. Qed.

Theorem step_sim s sp o : sim s sp ->
  snd (step s o) = snd (spec_step sp o) /\ sim (fst (step s o)) (fst (spec_step sp o)).
Proof.
  intro Hsim. pose proof Hsim as ([Hw Hs] & Hcur & Hsn & Hfl).
  destruct o as [a|a v|a k v|a k|a owner|a b|a b|a c v|a c id v|a c steps|[a|a|i a|i a] q| |i| |i|i|i|i]; cbn [step spec_step].
  - (* OTouch *)
    pose proof (w_touch_spec (s_heap s) (s_ws s) a Hw) as Ht. cbv zeta in Ht.
    destruct Ht as (Hw' & _ & _ & _ & _ & Hv). split; [reflexivity|]. cbn.
    split; [split; assumption|]. split; [|split; assumption]. intro a'. cbn. rewrite Hv. apply Hcur.
  - (* OSetBalance *)
    apply sim_modify; [exact Hsim|intros; now apply set_balance_ok|]. intros h st Hst Ha. cbn.
    split; [|reflexivity]. now rewrite set_balance_abs, Ha.
  - (* OSetValue *)
    apply sim_modify; [exact Hsim|intros; now apply set_value_ok|]. intros h st Hst Ha.
    destruct (set_value_abs h st k v Hst) as [H1 H2]. rewrite H1, H2, Ha. split; reflexivity.
  - (* ODelValue *)
    apply sim_modify; [exact Hsim|intros; now apply delete_value_ok|]. intros h st Hst Ha.
    destruct (delete_value_abs h st k Hst) as [H1 H2]. rewrite H1, H2, Ha. split; reflexivity.
  - (* OInitContract *)
    destruct (l_isc (sp_cur sp a)) eqn:Ec.
    + destruct (sim_modify s sp a (fun st => a_init_contract st owner) RBool (sp_cur sp a) (RBool false) Hsim) as [H1 H2].
      * intros; now apply init_contract_ok.
      * intros h st Hst Ha. destruct (init_contract_abs st owner) as [[_ ->]|[Hc _]].
        -- cbn. auto.
        -- rewrite Ha in Hc. congruence.
      * split; [exact H1|]. eapply sim_ext; [exact H2|..]; try reflexivity. intro a'. cbn. apply lupd_same.
    + apply sim_modify; [exact Hsim|intros; now apply init_contract_ok|]. intros h st Hst Ha.
      destruct (init_contract_abs st owner) as [[Hc _]|(_ & -> & ->)].
      * rewrite Ha in Hc. congruence.
      * rewrite Ha. auto.
  - (* OSetBlock *)
    apply sim_modify; [exact Hsim|intros; now apply set_block_ok|]. intros h st Hst Ha. cbn.
    split; [|reflexivity]. now rewrite set_block_abs, Ha.
  - (* OSetDisable *)
    apply sim_modify; [exact Hsim|intros; now apply set_disable_ok|]. intros h st Hst Ha. cbn.
    split; [|reflexivity]. now rewrite set_disable_abs, Ha.
  - (* OAddDeposit *)
    destruct (l_isc (sp_cur sp a)) eqn:Ec.
    + destruct (dl_add c v (l_dep (sp_cur sp a))) as [dl|] eqn:Ed.
      * apply sim_modify; [exact Hsim|intros; now apply add_deposit_ok|]. intros h st Hst Ha.
        unfold a_add_deposit. change (d_isc (live st)) with (l_isc (abs (live st))).
        change (d_dep (live st)) with (l_dep (abs (live st))). rewrite Ha, Ec, Ed. cbn.
        rewrite abs_with_dep, Ha. auto.
      * destruct (sim_modify s sp a (fun st => a_add_deposit st c v) dep_out (sp_cur sp a) (RDep None) Hsim) as [H1 H2].
        -- intros; now apply add_deposit_ok.
        -- intros h st Hst Ha. unfold a_add_deposit. change (d_isc (live st)) with (l_isc (abs (live st))).
           change (d_dep (live st)) with (l_dep (abs (live st))). rewrite Ha, Ec, Ed. cbn. auto.
        -- split; [exact H1|]. eapply sim_ext; [exact H2|..]; try reflexivity. intro a'. cbn. apply lupd_same.
    + destruct (sim_modify s sp a (fun st => a_add_deposit st c v) dep_out (sp_cur sp a) RIllegal Hsim) as [H1 H2].
      * intros; now apply add_deposit_ok.
      * intros h st Hst Ha. unfold a_add_deposit. change (d_isc (live st)) with (l_isc (abs (live st))).
        rewrite Ha, Ec. cbn. auto.
      * split; [exact H1|]. eapply sim_ext; [exact H2|..]; try reflexivity. intro a'. cbn. apply lupd_same.
  - (* OWithdrawDeposit *)
    destruct (l_isc (sp_cur sp a)) eqn:Ec.
    + destruct (dl_withdraw c id v (l_dep (sp_cur sp a))) as [[[am pen] dl]|] eqn:Ed.
      * apply sim_modify; [exact Hsim|intros; now apply withdraw_deposit_ok|]. intros h st Hst Ha.
        unfold a_withdraw_deposit. change (d_isc (live st)) with (l_isc (abs (live st))).
        change (d_dep (live st)) with (l_dep (abs (live st))). rewrite Ha, Ec, Ed. cbn.
        rewrite abs_with_dep, Ha. auto.
      * destruct (sim_modify s sp a (fun st => a_withdraw_deposit st c id v) dep_out (sp_cur sp a) (RDep None) Hsim) as [H1 H2].
        -- intros; now apply withdraw_deposit_ok.
        -- intros h st Hst Ha. unfold a_withdraw_deposit. change (d_isc (live st)) with (l_isc (abs (live st))).
           change (d_dep (live st)) with (l_dep (abs (live st))). rewrite Ha, Ec, Ed. cbn. auto.
        -- split; [exact H1|]. eapply sim_ext; [exact H2|..]; try reflexivity. intro a'. cbn. apply lupd_same.
    + destruct (sim_modify s sp a (fun st => a_withdraw_deposit st c id v) dep_out (sp_cur sp a) RIllegal Hsim) as [H1 H2].
      * intros; now apply withdraw_deposit_ok.
      * intros h st Hst Ha. unfold a_withdraw_deposit. change (d_isc (live st)) with (l_isc (abs (live st))).
        rewrite Ha, Ec. cbn. auto.
      * split; [exact H1|]. eapply sim_ext; [exact H2|..]; try reflexivity. intro a'. cbn. apply lupd_same.
  - (* OPaySteps *)
    destruct (l_isc (sp_cur sp a)) eqn:Ec.
    + destruct (c_on c && match l_dep (sp_cur sp a) with [] => false | _ => true end) eqn:Eon.
      * destruct (dl_pay c steps (l_dep (sp_cur sp a))) as [[dl paid] byd] eqn:Ed.
        apply sim_modify; [exact Hsim|intros; now apply pay_steps_ok|]. intros h st Hst Ha.
        unfold a_pay_steps. change (d_isc (live st)) with (l_isc (abs (live st))).
        change (d_dep (live st)) with (l_dep (abs (live st))). rewrite Ha, Ec, Eon, Ed. cbn.
        rewrite abs_with_dep, Ha. auto.
      * destruct (sim_modify s sp a (fun st => a_pay_steps st c steps) dep_out (sp_cur sp a) (RDep (Some (None, None))) Hsim) as [H1 H2].
        -- intros; now apply pay_steps_ok.
        -- intros h st Hst Ha. unfold a_pay_steps. change (d_isc (live st)) with (l_isc (abs (live st))).
           change (d_dep (live st)) with (l_dep (abs (live st))). rewrite Ha, Ec, Eon. cbn. auto.
        -- split; [exact H1|]. eapply sim_ext; [exact H2|..]; try reflexivity. intro a'. cbn. apply lupd_same.
    + destruct (sim_modify s sp a (fun st => a_pay_steps st c steps) dep_out (sp_cur sp a) RIllegal Hsim) as [H1 H2].
      * intros; now apply pay_steps_ok.
      * intros h st Hst Ha. unfold a_pay_steps. change (d_isc (live st)) with (l_isc (abs (live st))).
        rewrite Ha, Ec. cbn. auto.
      * split; [exact H1|]. eapply sim_ext; [exact H2|..]; try reflexivity. intro a'. cbn. apply lupd_same.
  - (* ORead TLive *)
    pose proof (w_touch_spec (s_heap s) (s_ws s) a Hw) as Ht. cbv zeta in Ht.
    destruct (w_touch (s_ws s) a) as [w' st]. cbn [fst snd] in *.
    destruct Ht as (Hw' & _ & _ & Hl & _ & Hv). split.
    + rewrite read_data_abs, Hl. now rewrite Hcur.
    + split; [split; assumption|]. split; [|split; assumption]. intro a'. cbn. rewrite Hv. apply Hcur.
  - (* ORead TPeek *)
    pose proof (w_peek_spec (s_heap s) (s_ws s) a Hw) as Hp.
    destruct (w_peek (s_heap s) (s_ws s) a) as [[h' w'] d]. cbn [fst snd].
    destruct Hp as ((l & ->) & Hw' & _ & Hv & Hd). split.
    + rewrite read_data_abs, Hd. now rewrite Hcur.
    + split; [split; [assumption|now apply Forall_trie_ok_mono]|]. split; [|split; assumption].
      intro a'. cbn. rewrite Hv. apply Hcur.
  - (* ORead TSnap *)
    destruct (nth_error (s_snaps s) i) as [t|] eqn:En.
    + destruct (Forall2_nth_some _ _ _ _ _ Hsn En) as (f & -> & Hr). cbn. split; [|exact Hsim].
      specialize (Hr a). unfold snap_view. destruct (am_get t a) as [x|] eqn:Ex; cbn in *.
      * destruct (Forall_nth _ _ _ _ Hs En a x Ex) as [Hx Hne].
        rewrite <- Hr. rewrite <- is_empty_normal by apply Hx. rewrite Hne. apply read_data_abs.
      * now rewrite <- Hr.
    + rewrite (Forall2_nth_none _ _ _ _ Hsn En). cbn. split; [reflexivity|exact Hsim].
  - (* ORead TRO *)
    destruct (nth_error (s_snaps s) i) as [t|] eqn:En.
    + destruct (Forall2_nth_some _ _ _ _ _ Hsn En) as (f & -> & Hr). cbn. split; [|exact Hsim].
      rewrite read_data_abs, <- (Hr a). unfold ro_view. now destruct (am_get t a).
    + rewrite (Forall2_nth_none _ _ _ _ Hsn En). cbn. split; [reflexivity|exact Hsim].
  - (* OGetSnapshot *)
    unfold w_get_snapshot. pose proof (w_flush_spec (s_heap s) (s_ws s) Hw) as Hf.
    destruct (w_flush (s_heap s) (s_ws s)) as [h' w']. cbn [fst snd].
    destruct Hf as ((l & ->) & Hw' & Hv & Ht). split; [reflexivity|].
    split.
    { split; [exact Hw'|]. cbn. apply Forall_app. split; [now apply Forall_trie_ok_mono|].
      constructor; [apply Hw'|constructor]. }
    split; [intro a; cbn; rewrite Hv; apply Hcur|]. split; [|exact Hfl].
    cbn. apply Forall2_app; [exact Hsn|]. constructor; [|constructor].
    intro a. rewrite Ht. apply Hcur.
  - (* OReset *)
    destruct (nth_error (s_snaps s) i) as [t|] eqn:En.
    + destruct (Forall2_nth_some _ _ _ _ _ Hsn En) as (f & -> & Hr). cbn [fst snd]. split; [reflexivity|].
      destruct (w_reset_spec (s_heap s) (s_ws s) t Hw (Forall_nth _ _ _ _ Hs En)) as (H1 & H2 & H3 & _).
      split; [split; assumption|]. split; [|split; assumption].
      intro a. cbn. rewrite H3. apply Hr.
    + rewrite (Forall2_nth_none _ _ _ _ Hsn En). cbn. split; [reflexivity|exact Hsim].
  - (* OClearCache *)
    unfold w_clear_cache. pose proof (w_flush_spec (s_heap s) (s_ws s) Hw) as Hf.
    destruct (w_flush (s_heap s) (s_ws s)) as [h' w']. cbn [fst snd].
    destruct Hf as ((l & ->) & Hw' & Hv & Ht). split; [reflexivity|].
    split; [split; [apply ws_ok_fresh, Hw'|now apply Forall_trie_ok_mono]|].
    split; [|split; assumption]. intro a. cbn [s_ws fst]. rewrite live_view_fresh, Ht. apply Hcur.
  - (* OFlush *)
    destruct (nth_error (s_snaps s) i) as [t|] eqn:En.
    + destruct (Forall2_nth_some _ _ _ _ _ Hsn En) as (f & -> & Hr). cbn. split; [reflexivity|].
      split; [split; assumption|]. split; [exact Hcur|]. split; [exact Hsn|]. cbn. now rewrite Hfl.
    + rewrite (Forall2_nth_none _ _ _ _ Hsn En). cbn. split; [reflexivity|exact Hsim].
  - (* OReload *)
    destruct (nth_error (s_snaps s) i) as [t|] eqn:En.
    + destruct (Forall2_nth_some _ _ _ _ _ Hsn En) as (f & -> & Hr).
      rewrite (is_flushed_sim s sp i Hfl). destruct (sp_is_flushed sp i); cbn; [|split; [reflexivity|exact Hsim]].
      split; [reflexivity|]. split; [split; [apply ws_ok_fresh, (Forall_nth _ _ _ _ Hs En)|assumption]|].
      split; [|split; assumption]. intro a. cbn [s_ws set_ws fst]. rewrite live_view_fresh. apply Hr.
    + rewrite (Forall2_nth_none _ _ _ _ Hsn En). cbn. split; [reflexivity|exact Hsim].
  - (* OFromSnap *)
    destruct (nth_error (s_snaps s) i) as [t|] eqn:En.
    + destruct (Forall2_nth_some _ _ _ _ _ Hsn En) as (f & -> & Hr). cbn.
      split; [reflexivity|]. split; [split; [apply ws_ok_fresh, (Forall_nth _ _ _ _ Hs En)|assumption]|].
      split; [|split; assumption]. intro a. cbn [s_ws set_ws fst]. rewrite live_view_fresh. apply Hr.
    + rewrite (Forall2_nth_none _ _ _ _ Hsn En). cbn. split; [reflexivity|exact Hsim].
  - (* OLoadSnap *)
    destruct (nth_error (s_snaps s) i) as [t|] eqn:En.
    + destruct (Forall2_nth_some _ _ _ _ _ Hsn En) as (f & -> & Hr).
      rewrite (is_flushed_sim s sp i Hfl). destruct (sp_is_flushed sp i); cbn; [|split; [reflexivity|exact Hsim]].
      split; [reflexivity|]. split.
      { split; [exact Hw|]. cbn. apply Forall_app. split; [exact Hs|].
        constructor; [apply (Forall_nth _ _ _ _ Hs En)|constructor]. }
      split; [exact Hcur|]. split.
      { cbn. apply Forall2_app; [exact Hsn|]. constructor; [exact Hr|constructor]. }
      cbn. rewrite Hfl. f_equal. eapply Forall2_len; eauto.
    + rewrite (Forall2_nth_none _ _ _ _ Hsn En). cbn. split; [reflexivity|exact Hsim].
Qed.

Lemma run_sim : forall h s sp, sim s sp ->
  snd (run s h) = snd (spec_run sp h) /\ sim (fst (run s h)) (fst (spec_run sp h)).
Proof.
  induction h as [|o r IH]; intros s sp Hsim; [now split|].
  cbn [run spec_run]. destruct (step_sim s sp o Hsim) as [Ho Hs'].
  destruct (step s o) as [s1 x]. destruct (spec_step sp o) as [sp1 x']. cbn [fst snd] in *. subst x'.
  destruct (IH s1 sp1 Hs') as [Hos Hss].
  destruct (run s1 r) as [s2 xs]. destruct (spec_run sp1 r) as [sp2 xs']. cbn [fst snd] in *.
  split; [now f_equal|exact Hss].
Qed.

(* every read of every history returns what the specification map returns *)
Theorem refines_map : forall h, outs_of init h = snd (spec_run spec_init h).
Proof. intro h. apply (run_sim h init spec_init sim_init). Qed.

Lemma reachable_ok h : sys_ok (state_of init h).
Proof. apply (run_sim h init spec_init sim_init). Qed.

(* ================= snapshots never change ================= *)
Lemma step_snaps_grow s o : exists l, s_snaps (fst (step s o)) = s_snaps s ++ l.
Proof.
  assert (H0 : exists l, s_snaps s = s_snaps s ++ l) by (exists []; now rewrite app_nil_r).
  destruct o as [a|a v|a k v|a k|a owner|a b|a b|a c v|a c id v|a c steps|[a|a|i a|i a] q| |i| |i|i|i|i]; cbn [step];
    unfold s_modify;
    repeat match goal with
    | |- context [w_modify ?w ?a ?f] => destruct (w_modify w a f)
    | |- context [w_touch ?w ?a] => destruct (w_touch w a)
    | |- context [w_peek ?h ?w ?a] => destruct (w_peek h w a) as [[? ?] ?]
    | |- context [w_get_snapshot ?h ?w] => destruct (w_get_snapshot h w) as [[? ?] ?]
    | |- context [w_clear_cache ?h ?w] => destruct (w_clear_cache h w)
    | |- context [nth_error ?l ?i] => destruct (nth_error l i)
    | |- context [is_flushed ?s ?i] => destruct (is_flushed s i)
    end; cbn; try exact H0; eauto.
Qed.

Lemma run_snaps_grow : forall h s, exists l, s_snaps (state_of s h) = s_snaps s ++ l.
Proof.
  unfold state_of. induction h as [|o r IH]; intro s; cbn [run].
  - exists []. cbn. now rewrite app_nil_r.
  - destruct (step_snaps_grow s o) as [l1 H1]. destruct (step s o) as [s1 x]. cbn [fst] in H1.
    destruct (IH s1) as [l2 H2]. destruct (run s1 r) as [s2 xs]. cbn [fst] in *.
    exists (l1 ++ l2). now rewrite H2, H1, app_assoc.
Qed.

(* whatever happens later, snapshot i is the same value, and every observation of it is the same *)
Theorem snapshot_immutable : forall s h i t,
  nth_error (s_snaps s) i = Some t ->
  nth_error (s_snaps (state_of s h)) i = Some t /\
  (forall a q, snd (step (state_of s h) (ORead (TSnap i a) q)) = snd (step s (ORead (TSnap i a) q))) /\
  (forall a q, snd (step (state_of s h) (ORead (TRO i a) q)) = snd (step s (ORead (TRO i a) q))).
Proof.
  intros s h i t Hn. destruct (run_snaps_grow h s) as [l Hl].
  assert (Hn' : nth_error (s_snaps (state_of s h)) i = Some t).
  { rewrite Hl. rewrite nth_error_app1; [exact Hn|]. apply nth_error_Some. congruence. }
  split; [exact Hn'|]. split; intros a q; cbn [step]; now rewrite Hn, Hn'.
Qed.

(* ================= Reset restores the snapshot ================= *)
Lemma current_snapshot_clean s :
  (forall a e, In (a, e) (w_cache (s_ws s)) -> entry_clean e) -> current_snapshot s = w_trie (s_ws s).
Proof.
  intro H. unfold current_snapshot, w_get_snapshot, w_flush.
  pose proof (flush_clean (w_cache (s_ws s)) (s_heap s) (w_trie (s_ws s)) H) as Hc.
  destruct (flush_entries (s_heap s) (w_trie (s_ws s)) (w_cache (s_ws s))) as [[h' t'] c']. exact Hc.
Qed.

Theorem reset_restores : forall h i t, let s := state_of init h in
  nth_error (s_snaps s) i = Some t ->
  let s' := fst (step s (OReset i)) in
  snd (step s (OReset i)) = RUnit /\
  (forall a, abs (live_view (s_ws s') a) = abs_opt (am_get t a)) /\
  (forall a q, snd (step s' (ORead (TLive a) q)) = snd (step s' (ORead (TRO i a) q))) /\
  (forall a q, snd (step s' (ORead (TPeek a) q)) = snd (step s' (ORead (TRO i a) q))) /\
  current_snapshot s' = t.
Proof.
  intros h i t s Hn s'. pose proof (reachable_ok h) as [Hw Hs]. fold s in Hw, Hs.
  destruct (w_reset_spec (s_heap s) (s_ws s) t Hw (Forall_nth _ _ _ _ Hs Hn)) as (H1 & H2 & H3 & H4).
  assert (Es' : s' = set_ws s (w_reset (s_ws s) t)).
  { unfold s'. cbn [step]. now rewrite Hn. }
  split; [cbn [step]; now rewrite Hn|]. split; [rewrite Es'; exact H3|].
  assert (Hn' : nth_error (s_snaps s') i = Some t) by (rewrite Es'; exact Hn).
  assert (Hro : forall a q, snd (step s' (ORead (TRO i a) q)) = read_l (abs_opt (am_get t a)) q).
  { intros a q. cbn [step]. rewrite Hn'. cbn. rewrite read_data_abs. unfold ro_view. now destruct (am_get t a). }
  assert (Hw' : ws_ok (s_heap s') (s_ws s')) by (rewrite Es'; exact H1).
  split; [|split].
  - intros a q. rewrite Hro. cbn [step].
    pose proof (w_touch_spec (s_heap s') (s_ws s') a Hw') as Ht. cbv zeta in Ht.
    destruct (w_touch (s_ws s') a) as [w1 st]. cbn [fst snd] in *.
    destruct Ht as (_ & _ & _ & Hl & _). rewrite read_data_abs, Hl. rewrite Es'. cbn [s_ws set_ws]. now rewrite H3.
  - intros a q. rewrite Hro. cbn [step].
    pose proof (w_peek_spec (s_heap s') (s_ws s') a Hw') as Hp.
    destruct (w_peek (s_heap s') (s_ws s') a) as [[h1 w1] d]. cbn [fst snd].
    destruct Hp as (_ & _ & _ & _ & Hd). rewrite read_data_abs, Hd. rewrite Es'. cbn [s_ws set_ws]. now rewrite H3.
  - rewrite current_snapshot_clean; rewrite Es'; cbn [s_ws set_ws]; [exact H2|exact H4].
Qed.

(* ================= empty = absent ================= *)
Lemma live_view_data_ok h w a : ws_ok h w -> data_ok (live_view w a).
Proof.
  intros (Ht & _ & Hc). unfold live_view. destruct (am_get (w_cache w) a) as [e|] eqn:E.
  - apply (Hc a e E).
  - destruct (am_get (w_trie w) a) as [x|] eqn:Ex; [apply (Ht a x Ex)|apply data_ok_empty].
Qed.

Lemma current_snapshot_spec s : sys_ok s ->
  exists l, trie_ok (s_heap s ++ l) (current_snapshot s) /\
  forall a, abs_opt (am_get (current_snapshot s) a) = abs (live_view (s_ws s) a).
Proof.
  intros [Hw _]. unfold current_snapshot, w_get_snapshot.
  pose proof (w_flush_spec (s_heap s) (s_ws s) Hw) as Hf.
  destruct (w_flush (s_heap s) (s_ws s)) as [h' w']. cbn.
  destruct Hf as ((l & ->) & Hw' & _ & Ht). exists l. split; [apply Hw'|exact Ht].
Qed.

Lemma trie_absent_iff_empty h t a : trie_ok h t ->
  (snap_view t a = None <-> l_is_empty (abs_opt (am_get t a)) = true).
Proof.
  intro Ht. unfold snap_view. destruct (am_get t a) as [x|] eqn:Ex; cbn.
  - destruct (Ht a x Ex) as [Hx Hne]. rewrite <- is_empty_normal by apply Hx. rewrite Hne.
    split; discriminate.
  - split; reflexivity.
Qed.

(* an account that is logically empty — however much it was touched — is the never-touched
   account l_empty, and the next snapshot does not contain it *)
Theorem empty_is_absent : forall h a, let s := state_of init h in
  l_is_empty (abs (live_view (s_ws s) a)) = true ->
  abs (live_view (s_ws s) a) = l_empty /\ snap_view (current_snapshot s) a = None.
Proof.
  intros h a s He. pose proof (reachable_ok h) as Hok. fold s in Hok.
  split.
  - apply l_is_empty_abs; [|exact He]. eapply live_view_data_ok. apply Hok.
  - destruct (current_snapshot_spec s Hok) as (l & Ht & Habs).
    apply (trie_absent_iff_empty _ _ a Ht). now rewrite Habs.
Qed.

(* in every snapshot of every history: the account snapshot is nil exactly for empty accounts *)
Theorem snapshot_absent_iff_empty : forall h i t a, nth_error (s_snaps (state_of init h)) i = Some t ->
  (snap_view t a = None <-> l_is_empty (abs_opt (am_get t a)) = true) /\
  (snap_view t a = None -> abs (ro_view t a) = l_empty).
Proof.
  intros h i t a Hn. destruct (reachable_ok h) as [_ Hs].
  split; [apply (trie_absent_iff_empty _ _ a (Forall_nth _ _ _ _ Hs Hn))|].
  unfold snap_view, ro_view. now destruct (am_get t a).
Qed.

(* an account no operation of the history names is l_empty in the live state and in every snapshot *)
Definition mentions (o : op) (a : aid) : bool :=
  match o with
  | OTouch a' | OSetBalance a' _ | OSetValue a' _ _ | ODelValue a' _ | OInitContract a' _
  | OSetBlock a' _ | OSetDisable a' _ | OAddDeposit a' _ _ | OWithdrawDeposit a' _ _ _ | OPaySteps a' _ _
  | ORead (TLive a') _ | ORead (TPeek a') _ => bytes_eqb a' a
  | _ => false
  end.

Definition spec_untouched (sp : spec) (a : aid) : Prop :=
  sp_cur sp a = l_empty /\ Forall (fun f : lworld => f a = l_empty) (sp_snaps sp).

Lemma spec_step_untouched sp o a : spec_untouched sp a -> mentions o a = false ->
  spec_untouched (fst (spec_step sp o)) a.
Proof.
  intros [Hc Hs] Hm.
  assert (Hnth : forall i f, nth_error (sp_snaps sp) i = Some f -> f a = l_empty).
  { intros i f Hn. rewrite Forall_forall in Hs. apply Hs. eapply nth_error_In; eauto. }
  assert (Hput : forall a' l, bytes_eqb a' a = false ->
            spec_untouched (mkSpec (lupd (sp_cur sp) a' l) (sp_snaps sp) (sp_flushed sp)) a).
  { intros a' l E. split; [|exact Hs]. cbn. unfold lupd. now rewrite E. }
  destruct o as [a'|a' v|a' k v|a' k|a' owner|a' b|a' b|a' c v|a' c id v|a' c steps|[a'|a'|i a'|i a'] q| |i| |i|i|i|i];
    cbn [spec_step mentions] in *; try (now apply Hput); try (split; assumption).
  - destruct (l_isc (sp_cur sp a')); [split; assumption|now apply Hput].
  - destruct (l_isc (sp_cur sp a')); [|split; assumption].
    destruct (dl_add c v (l_dep (sp_cur sp a'))); [now apply Hput|split; assumption].
  - destruct (l_isc (sp_cur sp a')); [|split; assumption].
    destruct (dl_withdraw c id v (l_dep (sp_cur sp a'))) as [[[? ?] ?]|]; [now apply Hput|split; assumption].
  - destruct (l_isc (sp_cur sp a')); [|split; assumption].
    destruct (c_on c && _); [|split; assumption].
    destruct (dl_pay c steps (l_dep (sp_cur sp a'))) as [[? ?] ?]. now apply Hput.
  - destruct (nth_error (sp_snaps sp) i); split; assumption.
  - destruct (nth_error (sp_snaps sp) i); split; assumption.
  - split; [exact Hc|]. cbn. apply Forall_app. split; [exact Hs|]. constructor; [exact Hc|constructor].
  - destruct (nth_error (sp_snaps sp) i) as [f|] eqn:En; [|split; assumption].
    split; [|exact Hs]. cbn. eauto.
  - destruct (nth_error (sp_snaps sp) i); split; assumption.
  - destruct (nth_error (sp_snaps sp) i) as [f|] eqn:En; [|split; assumption].
    destruct (sp_is_flushed sp i); [|split; assumption]. split; [|exact Hs]. cbn. eauto.
  - destruct (nth_error (sp_snaps sp) i) as [f|] eqn:En; [|split; assumption].
    split; [|exact Hs]. cbn. eauto.
  - destruct (nth_error (sp_snaps sp) i) as [f|] eqn:En; [|split; assumption].
    destruct (sp_is_flushed sp i); [|split; assumption]. split; [exact Hc|]. cbn.
    apply Forall_app. split; [exact Hs|]. constructor; [eauto|constructor].
Qed.

Lemma spec_run_untouched : forall h sp a, spec_untouched sp a -> Forall (fun o => mentions o a = false) h ->
  spec_untouched (fst (spec_run sp h)) a.
Proof.
  induction h as [|o r IH]; intros sp a Hu Hm; [exact Hu|]. inversion Hm; subst.
  cbn [spec_run]. pose proof (spec_step_untouched sp o a Hu H1) as H.
  destruct (spec_step sp o) as [sp1 x]. cbn [fst] in H. specialize (IH sp1 a H H2).
  destruct (spec_run sp1 r) as [sp2 xs]. exact IH.
Qed.

Theorem never_touched_is_empty : forall h a, Forall (fun o => mentions o a = false) h ->
  let s := state_of init h in
  abs (live_view (s_ws s) a) = l_empty /\
  forall i t, nth_error (s_snaps s) i = Some t -> snap_view t a = None.
Proof.
  intros h a Hm s. destruct (run_sim h init spec_init sim_init) as [_ (Hok & Hcur & Hsn & _)].
  assert (Hu : spec_untouched (fst (spec_run spec_init h)) a).
  { apply spec_run_untouched; [|exact Hm]. split; [reflexivity|constructor]. }
  destruct Hu as [Hc Hs]. split; [unfold s, state_of; now rewrite Hcur|].
  intros i t Hn. unfold s, state_of in Hn. destruct (Forall2_nth_some _ _ _ _ _ Hsn Hn) as (f & Hf & Hr).
  destruct Hok as [_ Hts]. apply (trie_absent_iff_empty _ _ a (Forall_nth _ _ _ _ Hts Hn)).
  rewrite (Hr a). rewrite Forall_forall in Hs. rewrite (Hs f); [reflexivity|]. eapply nth_error_In; eauto.
Qed.

(* ================= logical equality, decided ================= *)
Lemma l_equiv_refl x : l_equiv x x.
Proof. repeat split. Qed.

Lemma l_equiv_of_eq x y : x = y -> l_equiv x y.
Proof. intros ->. apply l_equiv_refl. Qed.

Lemma store_equivb_spec m1 m2 : store_equivb m1 m2 = true <-> forall k, am_get m1 k = am_get m2 k.
Proof.
  unfold store_equivb. rewrite forallb_forall. split.
  - intros H k. destruct (am_get m1 k) as [v|] eqn:E1.
    + specialize (H k). rewrite E1 in H. apply opt_bytes_eqb_eq, H.
      apply in_or_app. left. eapply am_get_some_in_keys; eauto.
    + destruct (am_get m2 k) as [v|] eqn:E2; [|reflexivity].
      specialize (H k). rewrite E1, E2 in H. apply opt_bytes_eqb_eq, H.
      apply in_or_app. right. eapply am_get_some_in_keys; eauto.
  - intros H k _. apply opt_bytes_eqb_eq, H.
Qed.

Lemma deposit_eqb_spec x y : deposit_eqb x y = true <-> x = y.
Proof.
  destruct x, y; cbn; try (split; congruence).
  - rewrite !andb_true_iff, bytes_eqb_eq, !Z.eqb_eq. split; [intros (((((-> & ->) & ->) & ->) & ->) & ->); reflexivity|].
    intro H. inversion H. tauto.
  - rewrite Z.eqb_eq. split; congruence.
Qed.

Lemma deposits_eqb_spec x y : deposits_eqb x y = true <-> x = y.
Proof.
  revert y. induction x as [|a x IH]; intros [|b y]; cbn; try (split; congruence).
  rewrite andb_true_iff, deposit_eqb_spec, IH. split; [intros [-> ->]; reflexivity|]. intro H. inversion H. tauto.
Qed.

Lemma l_equivb_spec x y : l_equivb x y = true <-> l_equiv x y.
Proof.
  unfold l_equivb, l_equiv. rewrite !andb_true_iff, Z.eqb_eq, N.eqb_eq, Bool.eqb_true_iff,
    opt_bytes_eqb_eq, store_equivb_spec, deposits_eqb_spec. tauto.
Qed.

Lemma trie_equivb_spec t1 t2 : trie_equivb t1 t2 = true <-> trie_equiv t1 t2.
Proof.
  unfold trie_equivb, trie_equiv. rewrite forallb_forall. split.
  - intros H a. destruct (am_get t1 a) as [x|] eqn:E1.
    + rewrite <- E1. apply l_equivb_spec, H. apply in_or_app. left. eapply am_get_some_in_keys; eauto.
    + destruct (am_get t2 a) as [y|] eqn:E2; [|apply l_equiv_refl].
      rewrite <- E1, <- E2. apply l_equivb_spec, H. apply in_or_app. right. eapply am_get_some_in_keys; eauto.
  - intros H a _. apply l_equivb_spec, H.
Qed.

(* ================= the state hash ================= *)
Section HashProofs.
  Variable hash : Type.
  Variable leaf : Type.
  Variable store_root : smap -> hash.
  Variable acct_leaf : Z -> bool -> option bytes -> N -> list deposit -> option hash -> leaf.
  Variable world_root : amap leaf -> hash.

  (* C17 (C17_root_canonical): the root of a trie is a function of its content, not of the
     order of the operations that built it.  Stated for both tries. *)
  Hypothesis store_root_canonical : forall m1 m2 : smap,
    (forall k, am_get m1 k = am_get m2 k) -> store_root m1 = store_root m2.
  Hypothesis world_root_canonical : forall l1 l2 : amap leaf,
    (forall a, am_get l1 a = am_get l2 a) -> world_root l1 = world_root l2.

  Notation leaf_of := (leaf_of hash leaf store_root acct_leaf).
  Notation state_hash := (state_hash hash leaf store_root acct_leaf world_root).

  Lemma leaf_equiv d1 d2 : store_normal d1 -> store_normal d2 ->
    l_equiv (abs d1) (abs d2) -> leaf_of d1 = leaf_of d2.
  Proof.
    destruct d1 as [b1 s1 c1 o1 f1 p1], d2 as [b2 s2 c2 o2 f2 p2]. unfold store_normal, l_equiv, leaf_of. cbn.
    intros N1 N2 (-> & -> & -> & -> & -> & Hs). f_equal.
    destruct s1 as [m1|], s2 as [m2|]; cbn in *.
    - f_equal. now apply store_root_canonical.
    - exfalso. apply N1. f_equal. apply am_all_none. exact Hs.
    - exfalso. apply N2. f_equal. apply am_all_none. intro k. now rewrite <- Hs.
    - reflexivity.
  Qed.

  Lemma l_equiv_empty_is_empty d : store_normal d -> l_equiv (abs d) l_empty -> is_empty d = true.
  Proof.
    intros Hn (H1 & H2 & _ & H4 & _ & H5). rewrite is_empty_normal by assumption.
    unfold l_is_empty. rewrite H1, H2, H4. rewrite (am_all_none (l_store (abs d))); [reflexivity|exact H5].
  Qed.

  Lemma l_equiv_sym x y : l_equiv x y -> l_equiv y x.
  Proof. intros (H1 & H2 & H3 & H4 & H5 & H6). repeat split; auto. Qed.

  (* two well-formed account tries with the same logical contents have the same hash *)
  Lemma state_hash_ext h1 h2 t1 t2 : trie_ok h1 t1 -> trie_ok h2 t2 -> trie_equiv t1 t2 ->
    state_hash t1 = state_hash t2.
  Proof.
    intros H1 H2 He. unfold Model_WorldState.state_hash. apply world_root_canonical. intro a.
    rewrite !(am_get_mapi (fun _ x => leaf_of (sdata x))).
    specialize (He a). destruct (am_get t1 a) as [x|] eqn:E1, (am_get t2 a) as [y|] eqn:E2; cbn in *.
    - f_equal. apply leaf_equiv; [apply (H1 a x E1)|apply (H2 a y E2)|exact He].
    - exfalso. destruct (H1 a x E1) as [Hx Hne].
      rewrite (l_equiv_empty_is_empty (sdata x)) in Hne; [discriminate|apply Hx|exact He].
    - exfalso. destruct (H2 a y E2) as [Hy Hne].
      rewrite (l_equiv_empty_is_empty (sdata y)) in Hne; [discriminate|apply Hy|now apply l_equiv_sym].
    - reflexivity.
  Qed.

  (* any two snapshots of any two histories *)
  Theorem hash_canonical_snapshots : forall h1 h2 i j t1 t2,
    nth_error (s_snaps (state_of init h1)) i = Some t1 ->
    nth_error (s_snaps (state_of init h2)) j = Some t2 ->
    trie_equiv t1 t2 -> state_hash t1 = state_hash t2.
  Proof.
    intros h1 h2 i j t1 t2 N1 N2 He.
    destruct (reachable_ok h1) as [_ S1]. destruct (reachable_ok h2) as [_ S2].
    eapply state_hash_ext; [apply (Forall_nth _ _ _ _ S1 N1)|apply (Forall_nth _ _ _ _ S2 N2)|exact He].
  Qed.

  (* any two histories that end in the same logical contents *)
  Theorem hash_canonical : forall h1 h2,
    let s1 := state_of init h1 in let s2 := state_of init h2 in
    (forall a, l_equiv (abs (live_view (s_ws s1) a)) (abs (live_view (s_ws s2) a))) ->
    state_hash (current_snapshot s1) = state_hash (current_snapshot s2).
  Proof.
    intros h1 h2 s1 s2 He.
    destruct (current_snapshot_spec s1 (reachable_ok h1)) as (l1 & T1 & A1).
    destruct (current_snapshot_spec s2 (reachable_ok h2)) as (l2 & T2 & A2).
    eapply state_hash_ext; [exact T1|exact T2|]. intro a. rewrite A1, A2. apply He.
  Qed.

  (* the order in which flushAccountCacheInLock walks the Go map is immaterial *)
  Theorem flush_order_irrelevant : forall h t c c',
    Permutation c c' -> NoDup (map fst c) -> trie_ok h t ->
    (forall a e, In (a, e) c -> entry_ok h t a e) ->
    let t1 := snd (fst (flush_entries h t c)) in let t2 := snd (fst (flush_entries h t c')) in
    trie_equiv t1 t2 /\ state_hash t1 = state_hash t2.
  Proof.
    intros h t c c' Hp Hnd Ht Hc t1 t2.
    assert (Hnd' : NoDup (map fst c')) by (eapply Permutation_NoDup; [apply Permutation_map, Hp|exact Hnd]).
    assert (Hc' : forall a e, In (a, e) c' -> entry_ok h t a e).
    { intros a e Hin. apply Hc. eapply Permutation_in; [apply Permutation_sym, Hp|exact Hin]. }
    pose proof (flush_entries_spec c h t Hnd Ht Hc) as S1.
    pose proof (flush_entries_spec c' h t Hnd' Ht Hc') as S2.
    unfold t1, t2. destruct (flush_entries h t c) as [[ha ta] ca]. destruct (flush_entries h t c') as [[hb tb] cb].
    cbn [fst snd]. destruct S1 as ((la & ->) & Ta & _ & _ & _ & _ & Oa & Aa).
    destruct S2 as ((lb & ->) & Tb & _ & _ & _ & _ & Ob & Ab).
    assert (He : trie_equiv ta tb).
    { intro a. destruct (am_get c a) as [e|] eqn:E.
      - apply am_get_in in E. rewrite (Aa a e E). rewrite (Ab a e); [apply l_equiv_refl|].
        eapply Permutation_in; eauto.
      - apply am_get_none_notin in E. rewrite (Oa a E). rewrite (Ob a); [apply l_equiv_refl|].
        intro Hin. apply E. eapply Permutation_in; [apply Permutation_sym, Permutation_map, Hp|exact Hin]. }
    split; [exact He|]. eapply state_hash_ext; eauto.
  Qed.
End HashProofs.

(* the hypotheses are satisfiable by a non-constant root: the values under a fixed probe key *)
Example root_hypotheses_inhabited :
  let store_root := fun m : smap => am_get m [1] in
  let world_root := fun l : amap (Z * option (option bytes)) => (am_get l [1], am_get l [2]) in
  (forall m1 m2 : smap, (forall k, am_get m1 k = am_get m2 k) -> store_root m1 = store_root m2) /\
  (forall l1 l2, (forall a, am_get l1 a = am_get l2 a) -> world_root l1 = world_root l2) /\
  store_root [([1], [7])] <> store_root [].
Proof. cbn. split; [auto|]. split; [intros l1 l2 H; now rewrite !H|discriminate]. Qed.

(* ================= non-vacuity ================= *)
Definition exA : aid := [10]. Definition exB : aid := [11]. Definition exK : bytes := [1].

Definition ex_hist : list op :=
  [OSetBalance exA 5; OSetValue exA exK [7]; OGetSnapshot;
   OSetBalance exA 0; ODelValue exA exK; OTouch exB; OGetSnapshot;
   OReset 0; OGetSnapshot; OFlush 2; OClearCache; OReload 2; OGetSnapshot].

(* snapshot 0 holds the account; snapshot 1 (account emptied, another one only touched) holds
   nothing; after Reset 0 the next snapshot is snapshot 0 again; so is the one after reload *)
Example ex_history :
  let s := state_of init ex_hist in
  length (s_snaps s) = 4%nat /\
  option_map (fun t => snap_view t exA) (nth_error (s_snaps s) 0) =
    Some (Some (mkA 5 (Some [(exK, [7])]) false None 0 [])) /\
  nth_error (s_snaps s) 1 = Some [] /\
  nth_error (s_snaps s) 2 = nth_error (s_snaps s) 0 /\
  nth_error (s_snaps s) 3 = nth_error (s_snaps s) 0 /\
  outs_of init (ex_hist ++ [ORead (TSnap 1 exA) QBalance; ORead (TRO 1 exA) QBalance; ORead (TLive exA) (QValue exK)]) =
    [RUnit; RVal None; RUnit; RUnit; RVal (Some [7]); RUnit; RUnit; RUnit; RUnit; RUnit; RUnit; RUnit; RUnit;
     RNil; RBal 0; RVal (Some [7])].
Proof. vm_compute. repeat split. Qed.

(* two histories, different order, noise, ClearCache: different tries as lists, same logical content *)
Definition ex_h1 : list op :=
  [OSetBalance exA 5; OSetValue exA [1] [7]; OSetValue exA [2] [8]; OSetBalance exB 9].
Definition ex_h2 : list op :=
  [OTouch [12]; OSetBalance exB 1; OSetValue exA [2] [8]; OGetSnapshot; OSetValue exA [3] [9]; OClearCache;
   OSetValue exA [1] [7]; ODelValue exA [3]; OSetBalance exB 9; OSetBalance exA 5; OSetBalance [12] 0].

Example ex_canonical :
  let t1 := current_snapshot (state_of init ex_h1) in let t2 := current_snapshot (state_of init ex_h2) in
  t1 <> t2 /\ trie_equiv t1 t2 /\
  (forall a, l_equiv (abs (live_view (s_ws (state_of init ex_h1)) a)) (abs (live_view (s_ws (state_of init ex_h2)) a))).
Proof.
  cbv zeta. split; [vm_compute; discriminate|].
  assert (He : trie_equiv (current_snapshot (state_of init ex_h1)) (current_snapshot (state_of init ex_h2))).
  { apply trie_equivb_spec. vm_compute. reflexivity. }
  split; [exact He|]. intro a.
  destruct (current_snapshot_spec _ (reachable_ok ex_h1)) as (_ & _ & A1).
  destruct (current_snapshot_spec _ (reachable_ok ex_h2)) as (_ & _ & A2).
  rewrite <- A1, <- A2. apply He.
Qed.

(* an account that was touched and emptied: logically empty, hence absent *)
Example ex_empty :
  let s := state_of init [OSetBalance exA 5; OSetValue exA exK [7]; OSetBalance exA 0; ODelValue exA exK] in
  l_is_empty (abs (live_view (s_ws s) exA)) = true /\ live_view (s_ws s) exA <> empty_data.
Proof. vm_compute. split; [reflexivity|discriminate]. Qed.

Example ex_never_touched : Forall (fun o => mentions o [12] = false) ex_hist.
Proof. repeat constructor. Qed.

Example ex_flush_order :
  let c := [(exA, mkE (dirty (mkA 5 None false None 0 [])) None); (exB, mkE (dirty (mkA 0 (Some []) false None 0 [])) None)] in
  Permutation c (rev c) /\ NoDup (map fst c) /\ trie_ok [] [] /\ (forall a e, In (a, e) c -> entry_ok [] [] a e).
Proof.
  cbv zeta. split; [apply Permutation_rev|]. split.
  { constructor; [cbn; intros [H|[]]; discriminate|constructor; [intros []|constructor]]. }
  split; [apply trie_ok_nil|]. intros a e [H|[H|[]]]; inversion H; subst; (split; [apply astate_ok_dirty|reflexivity]);
    (split; cbn; [|intros _; split; reflexivity]); intros m Hm; inversion Hm; subst; try apply vals_ok_nil.
Qed.

(* deposits: snapshot, pay a fee from the deposit, add to it, snapshot; the first snapshot keeps
   the old deposit and Reset brings it back *)
Definition ex_ctx (h : Z) : dctx := mkDC 100 h 0 8 [1] true.
Definition ex_dep_hist : list op :=
  [OInitContract exA [9]; OAddDeposit exA (ex_ctx 10) 50000; OGetSnapshot;
   OPaySteps exA (ex_ctx 11) 120; OAddDeposit exA (ex_ctx 11) 7000; OGetSnapshot;
   ORead (TSnap 0 exA) QDeposits; ORead (TSnap 1 exA) QDeposits;
   OAddDeposit exA (mkDC 100 12 100 8 [1] true) 50000; OPaySteps exA (ex_ctx 13) 100;
   OWithdrawDeposit exA (ex_ctx 14) [] None; ORead (TLive exA) QDeposits;
   OReset 0; ORead (TLive exA) QDeposits; OAddDeposit exB (ex_ctx 15) 5].

Example ex_deposits :
  outs_of init ex_dep_hist =
    [RBool true; RDep (Some (None, None)); RUnit;
     RDep (Some (Some 120, Some 120))%Z; RDep (Some (None, None)); RUnit;
     RDeps [DV2 50000]; RDeps [DV2 45000];
     RDep (Some (None, None)); RDep (Some (Some 100, Some 60))%Z;
     RDep (Some (Some 39000, Some 0))%Z; RDeps [DV1 [1] 50000 50000 112 40 0];
     RUnit; RDeps [DV2 50000]; RIllegal].
Proof. vm_compute. reflexivity. Qed.
