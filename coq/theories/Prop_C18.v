(* Property C18 — trie proofs are sound and complete.
   Only theorem statements; proofs are in Proofs_TrieProof.v / Proofs_C18.v.
   H is any function with 32-byte results (SHA3-256 in the code); nothing else
   is assumed about it — where the code relies on collision resistance the
   theorem returns the colliding pair.  [sizes_ok H t]: every node of t
   serialises to fewer than 2^64 bytes (the width of the RLP size field).
   [prove H r k p] models mpt.Prove on a trie object created from root hash r;
   its results: PVal v = (v, nil), PNil = (nil, nil), PNotFound / PIllegal = the
   two error classes.
   By design (DESIGN §8) extra elements after the last one the walk consumes are
   not inspected when the walk ends in a branch or in an inlined node: such a
   proof is accepted with the correct value (C18_sound covers it). *)
From Goloop Require Import lib.Bytes Model_RlpBytes Model_Trie Proofs_RlpBytes Proofs_Trie Proofs_TrieMap
  Proofs_TrieWf Proofs_TrieUnique Proofs_TrieProof Proofs_C18.
Open Scope N_scope.

(* the trie's own proof of a stored key verifies against the root and yields the value *)
Theorem C18_complete : forall (H : bytes -> bytes), (forall x, length (H x) = 32%nat) ->
  forall t k v,
  wf t -> sizes_ok H t -> nibs_ok k = true -> get t k = Some v ->
  exists p, proof H t k = Some p /\ prove H (root H t) k p = PVal v.
Proof. exact complete. Qed.
Print Assumptions C18_complete.

(* whatever proof verifies to a value under the root of t: the value is stored
   under that key in t, or two different byte strings with the same hash are exhibited *)
Theorem C18_sound : forall (H : bytes -> bytes), (forall x, length (H x) = 32%nat) ->
  forall t r k p v,
  prove H r k p = PVal v -> r = root H t -> wf t -> sizes_ok H t -> nibs_ok k = true ->
  get t k = Some v \/ exists a b : bytes, a <> b /\ H a = H b.
Proof. exact sound. Qed.
Print Assumptions C18_sound.

(* absent keys: no proof at all yields a value (short of a collision); the
   trie's own "proof" — returned when the key's path ends at a branch without
   value — verifies to (nil, nil); a nil proof is rejected *)
Theorem C18_absent : forall (H : bytes -> bytes), (forall x, length (H x) = 32%nat) ->
  forall t k,
  wf t -> sizes_ok H t -> nibs_ok k = true -> get t k = None ->
  (forall p v, prove H (root H t) k p = PVal v -> exists a b : bytes, a <> b /\ H a = H b) /\
  (forall p, proof H t k = Some p -> prove H (root H t) k p = PNil) /\
  (proof H t k = None -> prove H (root H t) k [] = PIllegal).
Proof. exact absent. Qed.
Print Assumptions C18_absent.

(* replacing any one element of the trie's own proof of a stored key by
   different bytes: rejected with IllegalArgument, or the replacement collides
   with the genuine element *)
Theorem C18_single_substitution : forall (H : bytes -> bytes), (forall x, length (H x) = 32%nat) ->
  forall t k v p i x y,
  wf t -> sizes_ok H t -> nibs_ok k = true -> get t k = Some v ->
  proof H t k = Some p -> nth_error p i = Some y -> x <> y ->
  prove H (root H t) k (replace_nth i x p) = PIllegal \/ exists a b : bytes, a <> b /\ H a = H b.
Proof. exact single_substitution. Qed.
Print Assumptions C18_single_substitution.

(* a proof made for another root is rejected unless it exhibits a collision
   with that root's top node: instance of soundness read contrapositively *)
Theorem C18_other_root : forall (H : bytes -> bytes), (forall x, length (H x) = 32%nat) ->
  forall t k p v,
  wf t -> sizes_ok H t -> nibs_ok k = true -> get t k <> Some v ->
  prove H (root H t) k p = PVal v -> exists a b : bytes, a <> b /\ H a = H b.
Proof. exact other_root. Qed.
Print Assumptions C18_other_root.
