(* Model_ConsensusNet.v — executable model of a NETWORK of n validators running
   the engine model of Model_ConsensusNode.v (one [st] per validator slot), with
   Byzantine slots whose messages are arbitrary.  No proofs here; the refinement
   to the abstract protocol (Spec_Tendermint.v) and the agreement theorem are in
   Proofs_ConsensusNet*.v / Prop_C01.v.

   What is modelled
     nodes       [nodes net] has n entries; entry i is the engine of validator
                 slot i ([own = Z.of_nat i]).  Every engine starts as
                 [Model_ConsensusNode.init] (status Down, empty WALs) and is
                 started by the event [ERestart].
     soup        the votes the Byzantine slots have injected ([byzsent]) and
                 every vote a CORRECT engine has handed to the network by
                 OSendVote (its ghost history [sent]; own votes carry stamp 0).
     csoup       every vote that exists: [byzsent] and the vote records in the
                 synced round WAL of the correct engines.  Both only grow.
     events      [NodeEv i (e, fz, delay)]: engine i processes the node-model
                 event e (message delivery, timeout, block-manager callback,
                 crash, restart) with crash point fz inside the event and the
                 enterNewRound delay flag — exactly the input of the node model;
                 [ByzSend v]: a Byzantine slot signs and publishes v.
     legality    the network delivers only what exists: a vote delivered for
                 the current height ([EVote true v], flagged entries of
                 [EVoteList]) must be in [csoup] = the Byzantine votes and the
                 own votes the correct engines have made durable (vote records in
                 the synced round WAL).  [soup] (votes handed to the network by
                 OSendVote) is a subset of it; a vote that was written and synced
                 just before a crash was never broadcast by itself, but after the
                 restart its signer holds it in its vote set and passes it on
                 inside vote lists (OSendVoteList of doSendProposal), so it can
                 reach everybody.  Proposals, block parts,
                 timeouts and callbacks are unconstrained (proposals play no role
                 for safety; blocks are abstract ids).  A Byzantine vote must name
                 a Byzantine slot as its signer (signatures are not forgeable) and
                 a round >= 0.  An illegal event is IGNORED (no-op), so [run_net]
                 is total: every event list is a history.
     delay, loss, duplication, reordering of messages: the event list decides
                 which soup member is delivered to whom, when, and how often. *)
From Coq Require Import List ZArith NArith Bool Arith.
From Goloop Require Import Model_ConsensusNode.
Import ListNotations.
Open Scope Z_scope.

(* the node model's input: event, crash point inside it, enterNewRound delay flag *)
Definition input := (event * option nat * bool)%type.

Inductive nev :=
| NodeEv (i : nat) (inp : input)
| ByzSend (v : vote).

Record netstate := mkNet {
  nodes : list st;
  byzsent : list vote
}.

(* named forms of the node events *)
Definition Deliver (i : nat) (e : event) : nev := NodeEv i (e, None, false).
Definition DeliverVote (i : nat) (v : vote) : nev := NodeEv i (EVote true v, None, false).
Definition DeliverVotes (i : nat) (l : list vote) : nev :=
  NodeEv i (EVoteList (map (fun v => (true, v)) l), None, false).
Definition Timeout (i : nat) : nev := NodeEv i (ETimeout, None, false).
Definition Callback (i : nat) (e : event) : nev := NodeEv i (e, None, false).
Definition Crash (i : nat) (kr kl kc : nat) : nev := NodeEv i (ECrash kr kl kc, None, false).
Definition Restart (i : nat) : nev := NodeEv i (ERestart, None, false).
(* the process dies after k outputs of event e; kr kl kc unsynced records survive *)
Definition CrashIn (i : nat) (e : event) (k : nat) (delay : bool) (kr kl kc : nat) : list nev :=
  [NodeEv i (e, Some k, delay); NodeEv i (ECrash kr kl kc, None, false)].

(* the votes engine i has handed to the network *)
Definition own_votes (i : nat) (s : st) : list vote :=
  flat_map (fun m => match m with
                     | SVote r t d _ => [mkVote (Z.of_nat i) r t d 0%N]
                     | SProposal _ _ _ _ => []
                     end) (sent s).

Definition vote_mem (v : vote) (l : list vote) : bool := existsb (vote_eqb v) l.

Definition set_node (i : nat) (s : st) (net : netstate) : netstate :=
  mkNet (set_nth i s (nodes net)) (byzsent net).

(* ------------------------------------------------------------------ durable own votes *)

(* the own votes an engine has made durable: the vote records in the synced
   prefix of its round WAL.  Every vote handed to the network is among them
   (C02: durably remembered before sent); a vote that became durable just before
   a crash is among them although it was never sent — after the restart the
   engine counts it in its own vote sets. *)
Definition cast_votes (s : st) : list vote :=
  flat_map (fun r => match r with RVote v => [v] | _ => [] end) (w_synced (wal_r s)).

Fixpoint csoup_from (byz : nat -> bool) (i : nat) (l : list st) : list vote :=
  match l with
  | [] => []
  | s :: r => (if byz i then [] else cast_votes s) ++ csoup_from byz (S i) r
  end.

(* Byzantine votes and the durable votes of the correct engines *)
Definition csoup (byz : nat -> bool) (net : netstate) : list vote :=
  byzsent net ++ csoup_from byz 0 (nodes net).

Section Net.
  Variable n : nat.                 (* number of validator slots *)
  Variable byz : nat -> bool.       (* Byzantine slots *)
  Variable blocks : list blk.       (* block table shared by all engines *)

  Definition correct (i : nat) : Prop := (i < n)%nat /\ byz i = false.

  (* |byz|: number of Byzantine slots below n *)
  Definition nbyz : nat := length (filter byz (seq 0 n)).

  Definition net_init : netstate := mkNet (repeat init n) [].

  (* votes of the correct engines, slot by slot *)
  Fixpoint soup_from (i : nat) (l : list st) : list vote :=
    match l with
    | [] => []
    | s :: r => (if byz i then [] else own_votes i s) ++ soup_from (S i) r
    end.

  Definition soup (net : netstate) : list vote := byzsent net ++ soup_from 0 (nodes net).

  (* what the network may hand to an engine *)
  Definition legal_event (sp : list vote) (e : event) : bool :=
    match e with
    | EVote true v => vote_mem v sp
    | EVoteList l => forallb (fun cv => negb (fst cv) || vote_mem (snd cv) sp) l
    | _ => true
    end.

  Definition legal_byz (v : vote) : bool :=
    Z.leb 0 (v_from v) && Z.ltb (v_from v) (Z.of_nat n) && byz (Z.to_nat (v_from v)) && Z.leb 0 (v_round v).

  Definition node_step (i : nat) (s : st) (inp : input) : st :=
    step_ev n (Z.of_nat i) blocks (snd inp) (fst (fst inp)) (snd (fst inp)) s.

  Definition net_step (net : netstate) (e : nev) : netstate :=
    match e with
    | NodeEv i inp =>
        match nth_error (nodes net) i with
        | Some s => if legal_event (csoup byz net) (fst (fst inp))
                    then set_node i (node_step i s inp) net
                    else net
        | None => net                                  (* i >= n *)
        end
    | ByzSend v =>
        if legal_byz v then mkNet (nodes net) (byzsent net ++ [v]) else net
    end.

  Definition run_net_from (net : netstate) (evs : list nev) : netstate := fold_left net_step evs net.
  Definition run_net (evs : list nev) : netstate := run_net_from net_init evs.

  Definition node_of (net : netstate) (i : nat) : option st := nth_error (nodes net) i.

  (* the block engine i has finalized *)
  Definition decided_of (net : netstate) (i : nat) : option N :=
    match nth_error (nodes net) i with Some s => decided s | None => None end.
End Net.

(* ------------------------------------------------------------------ classes of histories *)

Definition ev_fuse_none (e : nev) : bool :=
  match e with
  | NodeEv _ (_, None, _) => true
  | NodeEv _ (_, Some _, _) => false
  | ByzSend _ => true
  end.

Definition ev_is_crash (e : nev) : bool :=
  match e with NodeEv _ (ECrash _ _ _, _, _) => true | _ => false end.

Definition ev_restart_of (e : nev) : list nat :=
  match e with NodeEv i (ERestart, _, _) => [i] | _ => [] end.

Fixpoint nodup_nat (l : list nat) : bool :=
  match l with
  | [] => true
  | x :: r => negb (existsb (Nat.eqb x) r) && nodup_nat r
  end.

(* crashes only BETWEEN events (with any number of surviving unsynced records);
   restarts replay the three WALs *)
Definition boundary_crashes (evs : list nev) : bool := forallb ev_fuse_none evs.

(* no crash at all: no crash point inside an event, no crash event, and every
   engine is started ([ERestart]) at most once (an engine that stopped by a
   panic is not restarted) *)
Definition no_crash (evs : list nev) : bool :=
  forallb ev_fuse_none evs && forallb (fun e => negb (ev_is_crash e)) evs
  && nodup_nat (flat_map ev_restart_of evs).

(* ------------------------------------------------------------------ counting votes in the soup *)

(* validator slot k has a vote (round r, type t, decision d) in the list *)
Definition has_vote_of (sp : list vote) (k : nat) (r : Z) (t : vtype) (d : option N) : bool :=
  existsb (fun v => Z.eqb (v_from v) (Z.of_nat k) && Z.eqb (v_round v) r
                    && vtype_eqb (v_type v) t && dec_eqb (v_dec v) d) sp.

(* number of validator slots below n that precommitted block b in round r *)
Definition count_precommits (sp : list vote) (n : nat) (r : Z) (b : N) : nat :=
  length (filter (fun k => has_vote_of sp k r Precommit (Some b)) (seq 0 n)).
