(* Proofs_Quorum.v — arithmetic meaning of the thresholds of Model_Quorum and
   the quorum-intersection fact. *)
From Coq Require Import Arith List Lia Bool.
From Coq Require Import ZArith ZifyBool ZifyNat.
From Goloop Require Import Model_Quorum.
Import ListNotations.
Ltac Zify.zify_post_hook ::= Z.div_mod_to_equations.

Lemma enough_spec voted voters :
  voters <> 0 -> (enough voted voters = true <-> 3 * voted > 2 * voters).
Proof.
  intro Hn. unfold enough.
  destruct (voters =? 0) eqn:E.
  - apply Nat.eqb_eq in E. contradiction.
  - cbv zeta. rewrite Nat.ltb_lt.
    pose proof (Nat.div_mod (voters * 2) 3 ltac:(lia)) as D.
    pose proof (Nat.mod_upper_bound (voters * 2) 3 ltac:(lia)) as U.
    split; intro H; lia.
Qed.

Lemma enough_no_voters voted : enough voted 0 = true.
Proof. reflexivity. Qed.

Lemma ntm_too_few_spec valid validators :
  ntm_too_few valid validators = false <-> 3 * valid > 2 * validators.
Proof.
  unfold ntm_too_few. rewrite Nat.leb_gt.
  pose proof (Nat.div_mod (2 * validators) 3 ltac:(lia)) as D.
  pose proof (Nat.mod_upper_bound (2 * validators) 3 ltac:(lia)) as U.
  split; intro H; lia.
Qed.

(* the two thresholds agree whenever there is at least one validator … *)
Lemma ntm_enough_agree c n : n <> 0 -> enough c n = negb (ntm_too_few c n).
Proof.
  intro Hn.
  destruct (enough c n) eqn:E, (ntm_too_few c n) eqn:F; try reflexivity; exfalso.
  - apply enough_spec in E; [|assumption].
    assert (ntm_too_few c n = false) by (apply ntm_too_few_spec; assumption). congruence.
  - apply ntm_too_few_spec in F. apply (enough_spec c n Hn) in F. congruence.
Qed.

(* … and differ for an empty validator set: enoughVote says yes, ntm says no *)
Lemma ntm_enough_differ_at_zero : enough 0 0 = true /\ ntm_too_few 0 0 = true.
Proof. split; reflexivity. Qed.

Lemma count_true_le v : count_true v <= length v.
Proof. induction v as [|[] v IH]; cbn; lia. Qed.

(* two flag vectors over the same n positions whose counts together exceed n
   have a common set position *)
Lemma count_overlap : forall a b : list bool,
  length a = length b -> count_true a + count_true b > length a ->
  exists i, nth_error a i = Some true /\ nth_error b i = Some true.
Proof.
  induction a as [|x a IH]; intros [|y b] Hl Hc; cbn in *; try lia.
  destruct x, y.
  - exists 0. split; reflexivity.
  - destruct (IH b) as [i [Ha Hb]]; [lia| pose proof (count_true_le b); lia |].
    exists (S i). split; assumption.
  - destruct (IH b) as [i [Ha Hb]]; [lia| pose proof (count_true_le a); lia |].
    exists (S i). split; assumption.
  - destruct (IH b) as [i [Ha Hb]]; [lia|lia|]. exists (S i). split; assumption.
Qed.

Lemma quorum_intersect (n : nat) (a b : list bool) :
  length a = n -> length b = n ->
  3 * count_true a > 2 * n -> 3 * count_true b > 2 * n ->
  exists i, nth_error a i = Some true /\ nth_error b i = Some true.
Proof.
  intros Ha Hb Qa Qb. apply count_overlap; lia.
Qed.
