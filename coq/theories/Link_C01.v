(* Link_C01.v -- ties the quorum predicate of the consensus specification (property C01:
   Spec_Tendermint.over23, used by quorum / polka / qprecommit, and the identical
   Model_ConsensusNode.over23 used by the engines of Model_ConsensusNet) to the kernels
   that tools/go2coq re-generates from consensus/voteset.go and
   consensus/commitvotelist.go on every run:

     hasOverTwoThirds        voteSet.hasOverTwoThirds:                vs.count > len(vs.msgs)*2/3
     overTwoThirdsDecision   getOverTwoThirdsRoundDecisionDigest:     max > len(vs.msgs)*2/3
     enoughVote              commit vote list (voters > 0):           voted > voters*2/3

   For every count c and every validator number n a Go slice can have (n <= 2^62-1) the
   threshold test of the CODE equals the quorum test  2n < 3c  of the SPECIFICATION, on
   which the agreement proof rests (quorum intersection under 3f < n).  Proved from the
   kernels' characterising lemmas (Proofs_K_<name>.v) and Proofs_Tendermint.over23_spec,
   never from the shape of the generated text: `>` turned into `>=` in voteset.go or
   commitvotelist.go breaks Proofs_K_<name>.v, hence this file, hence Prop_C01.v.
   Style: stdlib, lia. *)
From Coq Require Import List ZArith NArith Bool Arith Lia ZifyBool ZifyN ZifyNat.
From Goloop Require Import lib.GoInt.
From Goloop Require Spec_Tendermint Proofs_Tendermint Model_ConsensusNode.
From Goloop Require Import Proofs_K_tactics Proofs_K_hasOverTwoThirds Proofs_K_overTwoThirdsDecision
  Proofs_K_enoughVote.
From Goloop.gen Require Export K_hasOverTwoThirds K_overTwoThirdsDecision K_enoughVote.
Import ListNotations.
Local Open Scope nat_scope.

Ltac Zify.zify_post_hook ::= Z.to_euclidean_division_equations.

(* the largest validator count for which len*2 stays inside a Go int *)
Definition fits_int (n : nat) : Prop := (Z.of_nat n <= 4611686018427387903)%Z.

(* ---- the code's threshold tests are the specification's quorum test ---- *)

Lemma code_threshold_is_spec_quorum (c n : nat) :
  fits_int n ->
  (hasOverTwoThirds (Z.of_nat c) (Z.of_nat n) = true <-> 2 * n < 3 * c) /\
  (overTwoThirdsDecision (Z.of_nat c) (Z.of_nat n) = true <-> 2 * n < 3 * c) /\
  (n <> 0 -> (enoughVote (Z.of_nat c) (Z.of_nat n) = true <-> 2 * n < 3 * c)).
Proof.
  unfold fits_int. intros Hn. repeat split.
  - rewrite hasOverTwoThirds_spec by lia. lia.
  - rewrite hasOverTwoThirds_spec by lia. lia.
  - rewrite overTwoThirdsDecision_spec by lia. lia.
  - rewrite overTwoThirdsDecision_spec by lia. lia.
  - rewrite enoughVote_spec by lia. lia.
  - rewrite enoughVote_spec by lia. lia.
Qed.

Lemma spec_over23_is_hasOverTwoThirds (c n : nat) :
  fits_int n -> Spec_Tendermint.over23 c n = hasOverTwoThirds (Z.of_nat c) (Z.of_nat n).
Proof.
  unfold fits_int. intros Hn. apply bool_eq_iff.
  rewrite Proofs_Tendermint.over23_spec, hasOverTwoThirds_spec by lia. lia.
Qed.

Lemma spec_over23_is_overTwoThirdsDecision (c n : nat) :
  fits_int n -> Spec_Tendermint.over23 c n = overTwoThirdsDecision (Z.of_nat c) (Z.of_nat n).
Proof.
  unfold fits_int. intros Hn. apply bool_eq_iff.
  rewrite Proofs_Tendermint.over23_spec, overTwoThirdsDecision_spec by lia. lia.
Qed.

(* the commit-certificate threshold, whenever there is a validator *)
Lemma spec_over23_is_enoughVote (c n : nat) :
  n <> 0 -> fits_int n -> Spec_Tendermint.over23 c n = enoughVote (Z.of_nat c) (Z.of_nat n).
Proof.
  unfold fits_int. intros Hz Hn. apply bool_eq_iff.
  rewrite Proofs_Tendermint.over23_spec, enoughVote_spec by lia. lia.
Qed.

(* ---- the quorum predicates of the specification, through the kernels ---- *)

(* quorum: more than 2n/3 distinct slots hold the vote -- the test the code makes on the
   counter of a decision (getOverTwoThirdsRoundDecisionDigest) *)
Lemma quorum_is_overTwoThirdsDecision (n : nat) sp r t v :
  fits_int n ->
  Spec_Tendermint.quorum n sp r t v
  = overTwoThirdsDecision (Z.of_nat (Spec_Tendermint.countn (fun k => Spec_Tendermint.has_vote sp k r t v) n)) (Z.of_nat n).
Proof. intros Hn. unfold Spec_Tendermint.quorum. apply spec_over23_is_overTwoThirdsDecision. exact Hn. Qed.

Lemma polka_is_overTwoThirdsDecision (n : nat) sp r v :
  fits_int n ->
  Spec_Tendermint.polka n sp r v
  = overTwoThirdsDecision (Z.of_nat (Spec_Tendermint.countn (fun k => Spec_Tendermint.has_vote sp k r Spec_Tendermint.Prevote v) n)) (Z.of_nat n).
Proof. intros Hn. apply quorum_is_overTwoThirdsDecision. exact Hn. Qed.

Lemma qprecommit_is_overTwoThirdsDecision (n : nat) sp r v :
  fits_int n ->
  Spec_Tendermint.qprecommit n sp r v
  = overTwoThirdsDecision (Z.of_nat (Spec_Tendermint.countn (fun k => Spec_Tendermint.has_vote sp k r Spec_Tendermint.Precommit v) n)) (Z.of_nat n).
Proof. intros Hn. apply quorum_is_overTwoThirdsDecision. exact Hn. Qed.

(* ---- the engines of Model_ConsensusNet use the same predicate ---- *)

Lemma engine_over23_is_spec (c n : nat) : Model_ConsensusNode.over23 c n = Spec_Tendermint.over23 c n.
Proof. reflexivity. Qed.

Lemma engine_over23_is_hasOverTwoThirds (c n : nat) :
  fits_int n -> Model_ConsensusNode.over23 c n = hasOverTwoThirds (Z.of_nat c) (Z.of_nat n).
Proof. intros Hn. rewrite engine_over23_is_spec. apply spec_over23_is_hasOverTwoThirds. exact Hn. Qed.

Lemma engine_over23_is_overTwoThirdsDecision (c n : nat) :
  fits_int n -> Model_ConsensusNode.over23 c n = overTwoThirdsDecision (Z.of_nat c) (Z.of_nat n).
Proof. intros Hn. rewrite engine_over23_is_spec. apply spec_over23_is_overTwoThirdsDecision. exact Hn. Qed.

Definition kernel_params_pinned : Prop :=
  hasOverTwoThirds_params = ["vs.count"; "len(vs.msgs)"]%string /\
  overTwoThirdsDecision_params = ["max"; "len(vs.msgs)"]%string /\
  enoughVote_params = ["voted"; "voters"]%string.

Lemma kernel_params_ok : kernel_params_pinned.
Proof.
  exact (conj hasOverTwoThirds_params_ok (conj overTwoThirdsDecision_params_ok enoughVote_params_ok)).
Qed.

Example link_c01_nontrivial :
  fits_int 4 /\ Spec_Tendermint.over23 3 4 = true /\ hasOverTwoThirds 3 4 = true /\
  overTwoThirdsDecision 3 4 = true /\ enoughVote 3 4 = true /\
  Spec_Tendermint.over23 2 3 = false /\ hasOverTwoThirds 2 3 = false /\
  overTwoThirdsDecision 2 3 = false /\ enoughVote 2 3 = false.
Proof. unfold fits_int. repeat split; try reflexivity. lia. Qed.
