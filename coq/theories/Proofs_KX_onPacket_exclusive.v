(* Proofs_KX_onPacket_exclusive.v -- a packet is never both a one-hop packet and a broadcast
   Split out of Proofs_Kernels.v: this file imports ONLY the generated kernel(s)
   gen/K_onPacketIsOneHop.v, gen/K_onPacketIsBroadcast.v, so an edit of another kernel's Go source cannot break it.
   Style: stdlib only; arithmetic closed by lia with the euclidean-division hook. *)
From Coq Require Import ZArith Bool String List Lia.
From Coq Require Import ZifyBool.
From Goloop Require Import lib.GoInt Proofs_K_tactics Proofs_K_onPacketIsOneHop Proofs_K_onPacketIsBroadcast.
From Goloop.gen Require Import K_onPacketIsOneHop K_onPacketIsBroadcast.
Import ListNotations.
Local Open Scope Z_scope.

Ltac Zify.zify_post_hook ::= Z.to_euclidean_division_equations.

(* a packet is never both a one-hop packet and a broadcast *)
Lemma onPacket_oneHop_broadcast_exclusive ttl dest :
  onPacketIsBroadcast dest ttl = true -> onPacketIsOneHop ttl dest = false.
Proof.
  rewrite onPacketIsBroadcast_spec. intros [-> ->]. reflexivity.
Qed.
