(* Property C06 — Double-sign evidence is accepted only for genuine conflicts.
   Only the property theorems; proofs are in Proofs_DoubleSign.v, the model in
   Model_DoubleSign.v. *)
From Goloop Require Import lib.Bytes Model_DoubleSign Proofs_DoubleSign.
From Goloop Require Import Link_C06.
Open Scope N_scope.

(* IsConflictWith holds exactly for: same concrete type, signer, height, round,
   (votes) vote type, compatible network ids, different signed hashes. *)
Theorem C06_conflict_iff : forall a b,
  is_conflict a b = true <->
  mkind a = mkind b /\ signer a = signer b /\ height a = height b /\ round a = round b /\
  (mkind a = KVote -> vtype a = vtype b) /\
  match_nid (nid a) (nid b) = true /\ hash a <> hash b.
Proof. exact conflict_iff. Qed.
Print Assumptions C06_conflict_iff.

(* matchNID: equal, or either side unspecified (0) *)
Theorem C06_match_nid_spec : forall n1 n2,
  match_nid n1 n2 = true <-> (n1 = 0 \/ n2 = 0 \/ n1 = n2).
Proof. exact match_nid_spec. Qed.
Print Assumptions C06_match_nid_spec.

Theorem C06_symmetric : forall a b, is_conflict a b = is_conflict b a.
Proof. exact conflict_sym. Qed.
Print Assumptions C06_symmetric.

Theorem C06_irreflexive : forall a, is_conflict a a = false.
Proof. exact conflict_irrefl. Qed.
Print Assumptions C06_irreflexive.

(* "Messages from different networks, heights, rounds, types or signers, or identical
   messages, are never reported" *)
Theorem C06_never : forall a b,
  (mkind a <> mkind b \/ signer a <> signer b \/ height a <> height b \/ round a <> round b \/
   (mkind a = KVote /\ vtype a <> vtype b) \/
   (nid a <> 0 /\ nid b <> 0 /\ nid a <> nid b) \/ hash a = hash b) ->
  is_conflict a b = false.
Proof. exact conflict_never. Qed.
Print Assumptions C06_never.

(* the message log, any capacity, any history, any eviction choices: every reported
   pair is a conflict between the message just logged and an earlier message *)
Theorem C06_log_reports_only_conflicts : forall cap steps cf outs,
  run (make_cache cap) steps = Some (cf, outs) ->
  length outs = length steps /\
  forall i a b, nth_error outs i = Some (Some (a, b)) ->
    is_conflict a b = true /\
    nth_error (map fst steps) i = Some b /\
    In a (firstn i (map fst steps)).
Proof. exact log_sound. Qed.
Print Assumptions C06_log_reports_only_conflicts.

(* completeness inside the retained window: while the summed cost stays under the
   cap (nothing is evicted) and the network ids are mutually compatible (what
   Verify's ValidNID guarantees), two conflicting messages of the history always
   produce a report for their slot.  (The reported pair need not be (a, b) itself:
   the log keeps one message per slot.) *)
Theorem C06_log_complete_retained : forall cap steps a b,
  (forall x, In x (map fst steps) -> (0 <= cost x)%Z) ->
  (total_cost (map fst steps) <= cap)%Z ->
  (forall x y, In x (map fst steps) -> In y (map fst steps) -> match_nid (nid x) (nid y) = true) ->
  In a (map fst steps) -> In b (map fst steps) -> is_conflict a b = true ->
  exists cf outs x y, run (make_cache cap) steps = Some (cf, outs) /\
    In (Some (x, y)) outs /\ key_of y = key_of a /\ is_conflict x y = true.
Proof. exact log_complete. Qed.
Print Assumptions C06_log_complete_retained.

(* ... and not beyond it: after an eviction a conflicting pair can go unreported *)
Theorem C06_log_incomplete_after_eviction :
  is_conflict ev_a ev_b = true /\
  exists cf, run (make_cache 150) [(ev_a, []); (ev_x, [0]); (ev_b, [0])] = Some (cf, [None; None; None]).
Proof. exact log_incomplete_after_eviction. Qed.
Print Assumptions C06_log_incomplete_after_eviction.

(* transaction-level acceptance (doubleSignReportTx.PreValidate), for every decoder *)
Theorem C06_report_accept : forall decode_vote decode_proposal decode_ctx rev from r,
  pre_validate decode_vote decode_proposal decode_ctx rev from r = PVOk <->
  rev = true /\ from = true /\
  exists d1 d2 c, well_decoded decode_vote decode_proposal decode_ctx r d1 d2 c /\
    is_conflict d1 d2 = true /\ In (signer d1) (ctx_validators c).
Proof. exact pre_validate_ok. Qed.
Print Assumptions C06_report_accept.

(* an accepted report carries two different, ordered data of ONE type tag that decode
   to a genuine conflict of a validator of the context *)
Theorem C06_report_accept_genuine : forall decode_vote decode_proposal decode_ctx rev from r,
  pre_validate decode_vote decode_proposal decode_ctx rev from r = PVOk ->
  exists t b1 b2 d1 d2 c,
    r_tag r = Some t /\ r_data r = [b1; b2] /\ b1 <> b2 /\ bytes_compare b1 b2 = Lt /\
    decode_data decode_vote decode_proposal t b1 = Some d1 /\
    decode_data decode_vote decode_proposal t b2 = Some d2 /\
    decode_ctx (r_ctx r) = Some c /\
    mkind d1 = t /\ mkind d2 = t /\
    signer d1 = signer d2 /\ height d1 = height d2 /\ round d1 = round d2 /\
    (t = KVote -> vtype d1 = vtype d2) /\
    (nid d1 = 0 \/ nid d2 = 0 \/ nid d1 = nid d2) /\
    hash d1 <> hash d2 /\ In (signer d1) (ctx_validators c).
Proof. exact pre_validate_genuine. Qed.
Print Assumptions C06_report_accept_genuine.

(* execution-level acceptance (DSRHandler.DoExecuteSync reaches the chain-score call) *)
Theorem C06_handler_accept : forall decode_vote decode_proposal decode_ctx fs blk hist r k h s,
  handler_exec decode_vote decode_proposal decode_ctx fs blk hist r = HCall k h s <->
  fs = true /\
  exists d1 d2 c, well_decoded decode_vote decode_proposal decode_ctx r d1 d2 c /\
    is_conflict d1 d2 = true /\
    (height d1 <= blk)%Z /\ In (signer d1) (ctx_validators c) /\
    nil_bytes_eqb (hist_get hist (height d1 - 2)%Z) (ctx_hash c) = true /\
    k = mkind d1 /\ h = height d1 /\ s = signer d1.
Proof. exact handler_exec_call. Qed.
Print Assumptions C06_handler_accept.

(* dsrManager.Add queues only conflicts *)
Theorem C06_manager_queues_only_conflicts : forall st data ctx r st',
  (forall p, In p (dsm_todo st) -> is_conflict (fst p) (snd p) = true) ->
  dsm_add st data ctx = (r, st') ->
  forall p, In p (dsm_todo st') -> is_conflict (fst p) (snd p) = true.
Proof. exact dsm_todo_conflicts. Qed.
Print Assumptions C06_manager_queues_only_conflicts.

(* the pre-fix predicate (network id of the receiver read twice) violates the
   property: two votes of different non-zero networks conflict *)
Theorem C06_nidbug_refuted :
  nid nidbug_a <> 0 /\ nid nidbug_b <> 0 /\ nid nidbug_a <> nid nidbug_b /\
  is_conflict_nidbug nidbug_a nidbug_b = true /\ is_conflict nidbug_a nidbug_b = false.
Proof. exact nidbug_refuted. Qed.
Print Assumptions C06_nidbug_refuted.

(* what is not signed never matters: the predicate is invariant under any change of
   the unsigned attachments (NTS vote bases, proof parts) of either message ... *)
Theorem C06_unsigned_invariant : forall a b e1 c1 e2 c2,
  is_conflict (with_unsigned e1 c1 a) (with_unsigned e2 c2 b) = is_conflict a b.
Proof. exact conflict_unsigned_invariant. Qed.
Print Assumptions C06_unsigned_invariant.

Theorem C06_same_signed_same_verdict : forall a a' b b',
  same_signed a a' -> same_signed b b' -> is_conflict a b = is_conflict a' b'.
Proof. exact conflict_same_signed. Qed.
Print Assumptions C06_same_signed_same_verdict.

(* ... so ONE signed message and a copy with rewritten unsigned parts is never evidence *)
Theorem C06_rewritten_copy_is_not_evidence : forall a a',
  same_signed a a' -> is_conflict a a' = false.
Proof. exact conflict_rewritten_copy. Qed.
Print Assumptions C06_rewritten_copy_is_not_evidence.

(* the variant that compares votes by a digest covering unsigned parts violates this *)
Theorem C06_extbug_refuted :
  same_signed extbug_a extbug_b /\
  vote_conflict_extbug extbug_a extbug_b = true /\ is_conflict extbug_a extbug_b = false.
Proof. exact extbug_refuted. Qed.
Print Assumptions C06_extbug_refuted.

(* ---- kernel link (Link_C06.v).  matchNID is re-generated from
   consensus/doublesigndata.go on every run (tools/go2coq); match_nid of the model,
   used in all theorems above, IS the decision of the current Go code ---- *)
Theorem C06_kernel_matchNID : forall n1 n2 : N,
  match_nid n1 n2 = matchNID (Z.of_N n1) (Z.of_N n2).
Proof. exact match_nid_is_matchNID. Qed.
Print Assumptions C06_kernel_matchNID.

Theorem C06_kernel_params : Link_C06.kernel_params_pinned.
Proof. exact Link_C06.kernel_params_ok. Qed.
Print Assumptions C06_kernel_params.
