(* Proofs_ConsensusNode.v — invariants of Model_ConsensusNode over ALL event
   histories (any interleaving of messages, timeouts, callbacks, any crash point
   inside any event, any number of surviving unsynced WAL records, any restarts).

   Part 1 (C02): no equivocation, durable before sent.
     Inv s :  (dur)  every message in the ghost history [sent] is in the synced
                     prefix of the round WAL;
              (keys) [sent] has at most one entry per (round, type) resp. round;
              (ctl)  while the engine runs: every own vote / proposal record of
                     the round WAL lies at or before the engine's position
                     (round, step) in the lexicographic order, and an outstanding
                     Propose / ImportBlock request of the current round and step
                     means that the message it will produce is not in the WAL.
     The position only moves forward (isValidTransition), a vote of type t is
     written only on entering the step of t (or by the import callback, guarded
     by its outstanding request), and restart recomputes a position that is at or
     after every own record that survived.
   Part 2 (C01, node level): every vote the model emits satisfies the guards of
     the abstract protocol (see the section at the end). *)
From Coq Require Import List ZArith NArith Bool Arith Lia.
From Goloop Require Import Model_ConsensusNode.
Import ListNotations.
Open Scope Z_scope.

Set Implicit Arguments.

(* ------------------------------------------------------------------ order on positions *)

Definition pos_le (a b : Z * N) : Prop :=
  fst a < fst b \/ (fst a = fst b /\ (snd a <= snd b)%N).

Lemma pos_le_refl a : pos_le a a.
Proof. right; split; [reflexivity | apply N.le_refl]. Qed.

Lemma pos_le_trans a b c : pos_le a b -> pos_le b c -> pos_le a c.
Proof. unfold pos_le; intros [H|[H H']] [G|[G G']]; try (left; lia). right; split; [lia|eapply N.le_trans; eauto]. Qed.

Definition pos (s : st) : Z * N := (round s, step_code (stp s)).

Definition mcode (t : vtype) : N := match t with Prevote => 4%N | Precommit => 6%N end.

Lemma mstep_code t : step_code (mstep_of t) = mcode t.
Proof. destruct t; reflexivity. Qed.

(* ------------------------------------------------------------------ the invariant *)

Section Inv.
  Variable n : nat.
  Variable own : Z.
  Variable blocks : list blk.

  Definition rec_of (m : sentmsg) : wrec :=
    match m with
    | SVote r t d _ => RVote (mkVote own r t d 0%N)
    | SProposal r b pol _ => RProposal r b pol
    end.

  (* key of a sent message: what must be unique *)
  Definition skey (m : sentmsg) : Z * option vtype :=
    match m with
    | SVote r t _ _ => (r, Some t)
    | SProposal r _ _ _ => (r, None)
    end.

  Definition unblown (s : st) : Prop := blown s = false.

  Record Ctl (s : st) : Prop := {
    ctl_votes : forall v, In (RVote v) (wal_all (wal_r s)) -> v_from v = own ->
                pos_le (v_round v, mcode (v_type v)) (pos s);
    ctl_props : forall r b p, In (RProposal r b p) (wal_all (wal_r s)) -> pos_le (r, 3%N) (pos s);
    ctl_imp : forall r b, imp_req s = Some (r, b) ->
                pos_le (r, 4%N) (pos s) /\
                (r = round s -> (step_code (stp s) <= 5)%N ->
                 forall v, In (RVote v) (wal_all (wal_r s)) -> v_from v = own -> v_type v = Prevote -> v_round v <> r);
    ctl_prop : forall r, prop_req s = Some r ->
                pos_le (r, 3%N) (pos s) /\
                (r = round s -> stp s = SPropose -> forall b p, ~ In (RProposal r b p) (wal_all (wal_r s)))
  }.

  Record Inv (s : st) : Prop := {
    inv_dur : forall m, In m (sent s) -> In (rec_of m) (w_synced (wal_r s));
    inv_keys : NoDup (map skey (sent s));
    inv_ctl : status_ s = Running -> unblown s -> Ctl s
  }.

  (* ---------------- neutral steps: nothing the invariant looks at changes,
       except that the synced prefix may grow and records that are neither own
       votes nor proposals may be appended ---------------- *)

  Definition keyrec (r : wrec) : bool :=
    match r with RVote _ | RProposal _ _ _ => true | _ => false end.

  Record neutral (s s' : st) : Prop := {
    nt_status : status_ s' = status_ s;
    nt_round : round s' = round s;
    nt_stp : stp s' = stp s;
    nt_prop : prop_req s' = prop_req s;
    nt_imp : imp_req s' = imp_req s;
    nt_sent : sent s' = sent s;
    nt_synced : incl (w_synced (wal_r s)) (w_synced (wal_r s'));
    nt_recs : forall r, keyrec r = true -> (In r (wal_all (wal_r s')) <-> In r (wal_all (wal_r s)));
    nt_blown : blown s = true -> blown s' = true
  }.

  Lemma neutral_refl s : neutral s s.
  Proof. constructor; auto using incl_refl; tauto. Qed.

  Lemma neutral_trans s1 s2 s3 : neutral s1 s2 -> neutral s2 s3 -> neutral s1 s3.
  Proof.
    intros [] []; constructor; try congruence; auto.
    - eapply incl_tran; eauto.
    - intros r Hr. rewrite nt_recs1, nt_recs0; tauto.
  Qed.

  Lemma pos_neutral s s' : neutral s s' -> pos s' = pos s.
  Proof. intros []; unfold pos; congruence. Qed.

  Lemma Ctl_neutral s s' : neutral s s' -> Ctl s -> Ctl s'.
  Proof.
    intros N [cv cp ci cq]. pose proof (pos_neutral N) as HP. destruct N.
    constructor.
    - intros v Hv Ho. rewrite HP. apply cv; auto. apply nt_recs0; auto.
    - intros r b p Hr. rewrite HP. eapply cp. apply nt_recs0; eauto.
    - intros r b Hi. rewrite nt_imp0 in Hi. destruct (ci _ _ Hi) as [A B]. rewrite HP, nt_round0, nt_stp0.
      split; auto. intros E L v Hv. apply B; auto. apply nt_recs0; auto.
    - intros r Hq. rewrite nt_prop0 in Hq. destruct (cq _ Hq) as [A B]. rewrite HP, nt_round0, nt_stp0.
      split; auto. intros E L b p Hb. eapply B; eauto. apply nt_recs0; eauto.
  Qed.

  Lemma Inv_neutral s s' : neutral s s' -> Inv s -> Inv s'.
  Proof.
    intros N [d k c]. constructor.
    - intros m Hm. destruct N. rewrite nt_sent0 in Hm. apply nt_synced0. auto.
    - destruct N. rewrite nt_sent0. auto.
    - intros R U. eapply Ctl_neutral; eauto. destruct N. apply c; try congruence.
      unfold unblown in *. destruct (blown s) eqn:E; auto. rewrite nt_blown0 in U; auto.
  Qed.

  (* ---------------- emit ---------------- *)

  Lemma emit_blown o s : blown s = true -> emit o s = s.
  Proof. unfold blown, emit. destruct (fuse s) as [[|k]|]; congruence. Qed.

  Definition quiet (o : out) : bool :=
    match o with
    | OWrite WRound r => negb (keyrec r)
    | OSendVote _ | OSendProposal _ _ _ => false
    | _ => true
    end.

  Lemma blown_mono_emit o s : blown s = true -> blown (emit o s) = true.
  Proof. intro H. rewrite emit_blown; auto. Qed.

  Lemma wal_all_sync w : wal_all (wal_sync w) = wal_all w.
  Proof. unfold wal_all, wal_sync; cbn. now rewrite app_nil_r. Qed.

  Lemma emit_unblown o s : blown s = false ->
    exists k, emit o s = apply_out o (set_outs (outs s ++ [o]) k s).
  Proof.
    unfold blown, emit. destruct (fuse s) as [[|k]|]; try discriminate; eauto.
  Qed.

  Lemma neutral_apply o s x k : quiet o = true -> blown s = false ->
    neutral s (apply_out o (set_outs x k s)).
  Proof.
    intros Q B.
    assert (NB : blown s = true -> False) by congruence.
    destruct o as [w r|w| | | | | | | | ]; try discriminate Q.
    - destruct w; cbn in Q |- *.
      + constructor; cbn; auto using incl_refl; try tauto.
        intros r' Hr'. unfold wal_all; cbn. rewrite !in_app_iff; cbn.
        split; [|tauto]. intros [?|[?|[?|[]]]]; auto. subst r'. rewrite Hr' in Q; discriminate.
      + constructor; cbn; auto using incl_refl; tauto.
      + constructor; cbn; auto using incl_refl; tauto.
    - destruct w; cbn.
      + constructor; cbn; auto using incl_refl; try tauto.
        * apply incl_appl, incl_refl.
        * intros r' _. unfold wal_all; cbn. rewrite app_nil_r, !in_app_iff. tauto.
      + constructor; cbn; auto using incl_refl; tauto.
      + constructor; cbn; auto using incl_refl; tauto.
    - constructor; cbn; auto using incl_refl; tauto.
    - constructor; cbn; auto using incl_refl; tauto.
    - constructor; cbn; auto using incl_refl; tauto.
    - constructor; cbn; auto using incl_refl; tauto.
    - constructor; cbn; auto using incl_refl; tauto.
    - constructor; cbn; auto using incl_refl; tauto.
  Qed.

  Lemma neutral_emit o s : quiet o = true -> neutral s (emit o s).
  Proof.
    intro Q. destruct (blown s) eqn:B.
    { rewrite emit_blown; auto using neutral_refl. }
    destruct (emit_unblown o s B) as [k ->]. now apply neutral_apply.
  Qed.

  (* ---------------- steps that move the position forward ---------------- *)

  Record forward (s s' : st) : Prop := {
    fw_prop : prop_req s' = prop_req s;
    fw_imp : imp_req s' = imp_req s;
    fw_sent : sent s' = sent s;
    fw_wal : wal_r s' = wal_r s;
    fw_pos : pos_le (pos s) (pos s');
    fw_blown : blown s = true -> blown s' = true
  }.

  Lemma pos_le_round a b : pos_le a b -> fst a <= fst b.
  Proof. unfold pos_le; lia. Qed.

  Lemma pos_sandwich r c s s' : pos_le (r, c) (pos s) -> pos_le (pos s) (pos s') -> r = round s' ->
    round s = r /\ (c <= step_code (stp s))%N /\ (step_code (stp s) <= step_code (stp s'))%N.
  Proof.
    unfold pos_le, pos; cbn. intros [A|[A A']] [F|[F F']] E; lia.
  Qed.

  Lemma Ctl_forward s s' : forward s s' -> Ctl s -> Ctl s'.
  Proof.
    intros [fp fi fs fw fl fb] [cv cp ci cq]. constructor.
    - intros v Hv Ho. rewrite fw in Hv. eapply pos_le_trans; eauto.
    - intros r b p Hr. rewrite fw in Hr. eapply pos_le_trans; eauto.
    - intros r b Hi. rewrite fi in Hi. destruct (ci _ _ Hi) as [A B]. split.
      + eapply pos_le_trans; eauto.
      + intros E L v Hv. rewrite fw in Hv. 
        destruct (pos_sandwich A fl E) as [E1 [_ L1]].
        apply B; auto. eapply N.le_trans; eauto.
    - intros r Hq. rewrite fp in Hq. destruct (cq _ Hq) as [A B]. split.
      + eapply pos_le_trans; eauto.
      + intros E L b p Hb. rewrite fw in Hb.
        destruct (pos_sandwich A fl E) as [E1 [L0 L1]]. rewrite L in L1. cbn in L1.
        eapply B; eauto. destruct (stp s); cbn in *; try lia; reflexivity.
  Qed.

  Lemma Inv_forward s s' : forward s s' -> Inv s -> (status_ s' = Running -> status_ s = Running) -> Inv s'.
  Proof.
    intros F [d k c] HS. constructor.
    - intros m Hm. destruct F. rewrite fw_sent0 in Hm. rewrite fw_wal0. auto.
    - destruct F. rewrite fw_sent0. auto.
    - intros R U. eapply Ctl_forward; eauto. apply c; auto.
      unfold unblown in *. destruct (blown s) eqn:E; auto. destruct F. rewrite fw_blown0 in U; auto.
  Qed.

  Lemma Inv_down s s' : status_ s' <> Running -> sent s' = sent s -> wal_r s' = wal_r s -> Inv s -> Inv s'.
  Proof.
    intros HS E1 E2 [d k c]. constructor.
    - intros m Hm. rewrite E1 in Hm. rewrite E2. auto.
    - rewrite E1; auto.
    - intros R. contradiction.
  Qed.

  Lemma Inv_panic s : Inv s -> Inv (panic s).
  Proof. apply Inv_down; cbn; auto; discriminate. Qed.

  Lemma Inv_decided s : Inv s -> Inv (set_status Decided s).
  Proof. apply Inv_down; cbn; auto; discriminate. Qed.

  Definition plain_step (t : step) : Prop := t <> SNewHeight /\ t <> SNewRound.

  Lemma new_step_cases t s : plain_step t ->
    (new_step t s = panic (set_timer false s)) \/
    (forward s (new_step t s) /\ status_ (new_step t s) = status_ s /\ stp (new_step t s) = t
     /\ round (new_step t s) = round s /\ (step_code (stp s) < step_code t)%N).
  Proof.
    intros [P1 P2]. unfold new_step. cbn.
    destruct (valid_transition (stp s) t) eqn:V; [right|left; reflexivity].
    assert (L : (step_code (stp s) < step_code t)%N).
    { destruct t; try congruence; cbn in V; unfold step_ltb in V; apply N.ltb_lt in V; exact V. }
    split; [|cbn; auto].
    constructor; cbn; auto. unfold pos; cbn. right; split; auto. apply N.lt_le_incl; auto.
  Qed.

  Lemma Inv_new_step t s : plain_step t -> Inv s -> Inv (new_step t s).
  Proof.
    intros P HI. destruct (new_step_cases s P) as [E|[F [S _]]].
    - rewrite E. apply Inv_panic. eapply Inv_neutral; [|exact HI]. constructor; cbn; auto using incl_refl; tauto.
    - eapply Inv_forward; eauto. congruence.
  Qed.

  Lemma new_round_forward r s : round s < r -> forward s (new_round r s).
  Proof.
    intro L. constructor; cbn; auto. left; cbn; auto.
  Qed.

  Lemma Inv_new_round r s : round s < r -> Inv s -> Inv (new_round r s).
  Proof. intros L HI. eapply Inv_forward; eauto using new_round_forward. Qed.

  (* ---------------- sending an own vote: write, sync, broadcast ---------------- *)

  Definition vote_ok (s : st) (t : vtype) : Prop :=
    (mcode t <= step_code (stp s))%N /\
    (forall v, In (RVote v) (wal_all (wal_r s)) -> v_from v = own -> ~ (v_round v = round s /\ v_type v = t)) /\
    (t = Prevote -> forall b, imp_req s = Some (round s, b) -> (5 < step_code (stp s))%N).

  Definition send3 (v : vote) (s : st) : st :=
    emit (OSendVote v) (emit (OSync WRound) (emit (OWrite WRound (RVote v)) s)).

  (* what send3 leaves untouched *)
  Lemma send3_frame v s :
    status_ (send3 v s) = status_ s /\ round (send3 v s) = round s /\ stp (send3 v s) = stp s /\
    imp_req (send3 v s) = imp_req s /\ prop_req (send3 v s) = prop_req s /\
    (blown s = true -> blown (send3 v s) = true).
  Proof.
    unfold send3, emit, blown.
    destruct (fuse s) as [[|[|[|k]]]|] eqn:F; cbn; rewrite ?F; cbn; repeat split; auto; try discriminate.
  Qed.

  Lemma NoDup_app_one {A} (l : list A) x : NoDup l -> ~ In x l -> NoDup (l ++ [x]).
  Proof.
    intros H N. induction H; cbn.
    - constructor; [tauto|constructor].
    - constructor.
      + rewrite in_app_iff; cbn. intros [?|[?|[]]]; [tauto|]. subst. apply N; left; auto.
      + apply IHNoDup. intro; apply N; right; auto.
  Qed.

  Lemma Inv_send3 s t d :
    Inv s -> status_ s = Running -> (unblown s -> vote_ok s t) ->
    Inv (send3 (own_vote own s t d) s).
  Proof.
    intros [dur keys ctl] R OK. unfold send3, emit.
    destruct (fuse s) as [[|[|[|k]]]|] eqn:F; cbn; rewrite ?F; cbn.
    - (* already dead *) constructor; auto.
    - (* dies after the write *)
      constructor; cbn; auto. intros _ U. unfold unblown, blown in U; cbn in U. discriminate.
    - (* dies after the sync *)
      constructor; cbn; auto.
      + intros m Hm. apply in_or_app; left; auto.
      + intros _ U. unfold unblown, blown in U; cbn in U. discriminate.
    - (* all three happen, the process lives on or dies right after the send *)
      assert (U0 : unblown s) by (unfold unblown, blown; rewrite F; reflexivity).
      destruct (OK U0) as [K1 [K2 K3]]. specialize (ctl R U0). destruct ctl as [cv cp ci cq].
      constructor; cbn.
      + intros m Hm. apply in_app_or in Hm as [Hm|[<-|[]]].
        * apply in_or_app; left; auto.
        * cbn. apply in_or_app; right. apply in_or_app; right. left; reflexivity.
      + rewrite map_app; cbn. apply NoDup_app_one; auto.
        intros Hin. apply in_map_iff in Hin as [m [Hk Hm]].
        destruct m as [r' t' d' i'|]; cbn in Hk; inversion Hk; subst.
        specialize (dur _ Hm); cbn in dur.
        eapply (K2 (mkVote own (round s) t d' 0%N)); cbn; auto.
        unfold wal_all. apply in_or_app; left; auto.
      + intros _ _. constructor; cbn.
        * intros v Hv Ho. unfold wal_all in Hv; cbn in Hv. rewrite app_nil_r in Hv.
          apply in_app_or in Hv as [Hv|Hv]; [apply cv; auto; unfold wal_all; apply in_or_app; left; auto|].
          apply in_app_or in Hv as [Hv|[Hv|[]]]; [apply cv; auto; unfold wal_all; apply in_or_app; right; auto|].
          inversion Hv; subst; cbn. right; split; auto.
        * intros r b p Hr. unfold wal_all in Hr; cbn in Hr. rewrite app_nil_r in Hr.
          apply in_app_or in Hr as [Hr|Hr]; [eapply cp; unfold wal_all; apply in_or_app; left; eauto|].
          apply in_app_or in Hr as [Hr|[Hr|[]]]; [eapply cp; unfold wal_all; apply in_or_app; right; eauto|discriminate].
        * intros r b Hi. destruct (ci _ _ Hi) as [A B]. split; auto.
          intros E L v Hv Ho Ht. unfold wal_all in Hv; cbn in Hv. rewrite app_nil_r in Hv.
          apply in_app_or in Hv as [Hv|Hv]; [apply B; auto; unfold wal_all; apply in_or_app; left; auto|].
          apply in_app_or in Hv as [Hv|[Hv|[]]]; [apply B; auto; unfold wal_all; apply in_or_app; right; auto|].
          inversion Hv; subst; cbn in *. subst t. specialize (K3 eq_refl b). rewrite Hi in K3.
          specialize (K3 eq_refl). lia.
        * intros r Hq. destruct (cq _ Hq) as [A B]. split; auto.
          intros E L b p Hb. unfold wal_all in Hb; cbn in Hb. rewrite app_nil_r in Hb.
          apply in_app_or in Hb as [Hb|Hb]; [eapply B; eauto; unfold wal_all; apply in_or_app; left; eauto|].
          apply in_app_or in Hb as [Hb|[Hb|[]]]; [eapply B; eauto; unfold wal_all; apply in_or_app; right; eauto|discriminate].
    - (* no crash point in this event *)
      assert (U0 : unblown s) by (unfold unblown, blown; rewrite F; reflexivity).
      destruct (OK U0) as [K1 [K2 K3]]. specialize (ctl R U0). destruct ctl as [cv cp ci cq].
      constructor; cbn.
      + intros m Hm. apply in_app_or in Hm as [Hm|[<-|[]]].
        * apply in_or_app; left; auto.
        * cbn. apply in_or_app; right. apply in_or_app; right. left; reflexivity.
      + rewrite map_app; cbn. apply NoDup_app_one; auto.
        intros Hin. apply in_map_iff in Hin as [m [Hk Hm]].
        destruct m as [r' t' d' i'|]; cbn in Hk; inversion Hk; subst.
        specialize (dur _ Hm); cbn in dur.
        eapply (K2 (mkVote own (round s) t d' 0%N)); cbn; auto.
        unfold wal_all. apply in_or_app; left; auto.
      + intros _ _. constructor; cbn.
        * intros v Hv Ho. unfold wal_all in Hv; cbn in Hv. rewrite app_nil_r in Hv.
          apply in_app_or in Hv as [Hv|Hv]; [apply cv; auto; unfold wal_all; apply in_or_app; left; auto|].
          apply in_app_or in Hv as [Hv|[Hv|[]]]; [apply cv; auto; unfold wal_all; apply in_or_app; right; auto|].
          inversion Hv; subst; cbn. right; split; auto.
        * intros r b p Hr. unfold wal_all in Hr; cbn in Hr. rewrite app_nil_r in Hr.
          apply in_app_or in Hr as [Hr|Hr]; [eapply cp; unfold wal_all; apply in_or_app; left; eauto|].
          apply in_app_or in Hr as [Hr|[Hr|[]]]; [eapply cp; unfold wal_all; apply in_or_app; right; eauto|discriminate].
        * intros r b Hi. destruct (ci _ _ Hi) as [A B]. split; auto.
          intros E L v Hv Ho Ht. unfold wal_all in Hv; cbn in Hv. rewrite app_nil_r in Hv.
          apply in_app_or in Hv as [Hv|Hv]; [apply B; auto; unfold wal_all; apply in_or_app; left; auto|].
          apply in_app_or in Hv as [Hv|[Hv|[]]]; [apply B; auto; unfold wal_all; apply in_or_app; right; auto|].
          inversion Hv; subst; cbn in *. subst t. specialize (K3 eq_refl b). rewrite Hi in K3.
          specialize (K3 eq_refl). lia.
        * intros r Hq. destruct (cq _ Hq) as [A B]. split; auto.
          intros E L b p Hb. unfold wal_all in Hb; cbn in Hb. rewrite app_nil_r in Hb.
          apply in_app_or in Hb as [Hb|Hb]; [eapply B; eauto; unfold wal_all; apply in_or_app; left; eauto|].
          apply in_app_or in Hb as [Hb|[Hb|[]]]; [eapply B; eauto; unfold wal_all; apply in_or_app; right; eauto|discriminate].
  Qed.

  (* ---------------- sending an own proposal ---------------- *)

  Definition prop_ok (s : st) : Prop :=
    (3 <= step_code (stp s))%N /\
    (forall b p, ~ In (RProposal (round s) b p) (wal_all (wal_r s))) /\
    prop_req s <> Some (round s).

  Definition send3p (b : N) (pol : Z) (s : st) : st :=
    let s := emit (OWrite WRound (RProposal (round s) b pol)) s in
    let s := emit (OSync WRound) s in
    emit (OSendProposal (round s) b pol) s.

  Lemma Inv_send3p s b pol :
    Inv s -> status_ s = Running -> (unblown s -> prop_ok s) -> Inv (send3p b pol s).
  Proof.
    intros [dur keys ctl] R OK. unfold send3p, emit.
    destruct (fuse s) as [[|[|[|k]]]|] eqn:F; cbn; rewrite ?F; cbn.
    - constructor; auto.
    - constructor; cbn; auto. intros _ U. unfold unblown, blown in U; cbn in U. discriminate.
    - constructor; cbn; auto.
      + intros m Hm. apply in_or_app; left; auto.
      + intros _ U. unfold unblown, blown in U; cbn in U. discriminate.
    - assert (U0 : unblown s) by (unfold unblown, blown; rewrite F; reflexivity).
      destruct (OK U0) as [K1 [K2 K3]]. specialize (ctl R U0). destruct ctl as [cv cp ci cq].
      constructor; cbn.
      + intros m Hm. apply in_app_or in Hm as [Hm|[<-|[]]].
        * apply in_or_app; left; auto.
        * cbn. apply in_or_app; right. apply in_or_app; right. left; reflexivity.
      + rewrite map_app; cbn. apply NoDup_app_one; auto.
        intros Hin. apply in_map_iff in Hin as [m [Hk Hm]].
        destruct m as [|r' b' p' i']; cbn in Hk; inversion Hk; subst.
        specialize (dur _ Hm); cbn in dur.
        eapply K2. unfold wal_all. apply in_or_app; left; eauto.
      + intros _ _. constructor; cbn.
        * intros v Hv Ho. unfold wal_all in Hv; cbn in Hv. rewrite app_nil_r in Hv.
          apply in_app_or in Hv as [Hv|Hv]; [apply cv; auto; unfold wal_all; apply in_or_app; left; auto|].
          apply in_app_or in Hv as [Hv|[Hv|[]]]; [apply cv; auto; unfold wal_all; apply in_or_app; right; auto|discriminate].
        * intros r b0 p Hr. unfold wal_all in Hr; cbn in Hr. rewrite app_nil_r in Hr.
          apply in_app_or in Hr as [Hr|Hr]; [eapply cp; unfold wal_all; apply in_or_app; left; eauto|].
          apply in_app_or in Hr as [Hr|[Hr|[]]]; [eapply cp; unfold wal_all; apply in_or_app; right; eauto|].
          inversion Hr; subst. right; split; auto.
        * intros r b0 Hi. destruct (ci _ _ Hi) as [A B]. split; auto.
          intros E L v Hv Ho Ht. unfold wal_all in Hv; cbn in Hv. rewrite app_nil_r in Hv.
          apply in_app_or in Hv as [Hv|Hv]; [apply B; auto; unfold wal_all; apply in_or_app; left; auto|].
          apply in_app_or in Hv as [Hv|[Hv|[]]]; [apply B; auto; unfold wal_all; apply in_or_app; right; auto|discriminate].
        * intros r Hq. destruct (cq _ Hq) as [A B]. split; auto.
          intros E L b0 p Hb. subst r. congruence.
    - assert (U0 : unblown s) by (unfold unblown, blown; rewrite F; reflexivity).
      destruct (OK U0) as [K1 [K2 K3]]. specialize (ctl R U0). destruct ctl as [cv cp ci cq].
      constructor; cbn.
      + intros m Hm. apply in_app_or in Hm as [Hm|[<-|[]]].
        * apply in_or_app; left; auto.
        * cbn. apply in_or_app; right. apply in_or_app; right. left; reflexivity.
      + rewrite map_app; cbn. apply NoDup_app_one; auto.
        intros Hin. apply in_map_iff in Hin as [m [Hk Hm]].
        destruct m as [|r' b' p' i']; cbn in Hk; inversion Hk; subst.
        specialize (dur _ Hm); cbn in dur.
        eapply K2. unfold wal_all. apply in_or_app; left; eauto.
      + intros _ _. constructor; cbn.
        * intros v Hv Ho. unfold wal_all in Hv; cbn in Hv. rewrite app_nil_r in Hv.
          apply in_app_or in Hv as [Hv|Hv]; [apply cv; auto; unfold wal_all; apply in_or_app; left; auto|].
          apply in_app_or in Hv as [Hv|[Hv|[]]]; [apply cv; auto; unfold wal_all; apply in_or_app; right; auto|discriminate].
        * intros r b0 p Hr. unfold wal_all in Hr; cbn in Hr. rewrite app_nil_r in Hr.
          apply in_app_or in Hr as [Hr|Hr]; [eapply cp; unfold wal_all; apply in_or_app; left; eauto|].
          apply in_app_or in Hr as [Hr|[Hr|[]]]; [eapply cp; unfold wal_all; apply in_or_app; right; eauto|].
          inversion Hr; subst. right; split; auto.
        * intros r b0 Hi. destruct (ci _ _ Hi) as [A B]. split; auto.
          intros E L v Hv Ho Ht. unfold wal_all in Hv; cbn in Hv. rewrite app_nil_r in Hv.
          apply in_app_or in Hv as [Hv|Hv]; [apply B; auto; unfold wal_all; apply in_or_app; left; auto|].
          apply in_app_or in Hv as [Hv|[Hv|[]]]; [apply B; auto; unfold wal_all; apply in_or_app; right; auto|discriminate].
        * intros r Hq. destruct (cq _ Hq) as [A B]. split; auto.
          intros E L b0 p Hb. subst r. congruence.
  Qed.

  Lemma send3p_frame b pol s :
    status_ (send3p b pol s) = status_ s /\ round (send3p b pol s) = round s /\ stp (send3p b pol s) = stp s /\
    imp_req (send3p b pol s) = imp_req s /\ prop_req (send3p b pol s) = prop_req s.
  Proof.
    unfold send3p, emit.
    destruct (fuse s) as [[|[|[|k]]]|] eqn:F; cbn; rewrite ?F; cbn; repeat split; auto.
  Qed.

  Lemma neutral_emit_all l s : forallb quiet l = true -> neutral s (emit_all l s).
  Proof.
    revert s; induction l as [|o l IH]; intros s H; cbn in *.
    - apply neutral_refl.
    - apply andb_true_iff in H as [H1 H2]. eapply neutral_trans; [apply neutral_emit; eauto|apply IH; auto].
  Qed.

  Lemma send_proposal_eq b pol s :
    send_proposal n blocks b pol s =
    let s1 := send3p b pol s in
    let s2 := if Z.leb 0 pol then emit (OSendVoteList (vs_list23 (votes_for n s1 pol Prevote))) s1 else s1 in
    emit_all (map (OSendPart b) (all_parts blocks b)) s2.
  Proof. reflexivity. Qed.

  Lemma neutral_send_tail b pol s1 :
    neutral s1 (emit_all (map (OSendPart b) (all_parts blocks b))
                 (if Z.leb 0 pol then emit (OSendVoteList (vs_list23 (votes_for n s1 pol Prevote))) s1 else s1)).
  Proof.
    eapply neutral_trans.
    2: { apply neutral_emit_all. induction (all_parts blocks b); cbn; auto. }
    destruct (Z.leb 0 pol); [apply neutral_emit; reflexivity|apply neutral_refl].
  Qed.

  Lemma Inv_send_proposal s b pol :
    Inv s -> status_ s = Running -> (unblown s -> prop_ok s) -> Inv (send_proposal n blocks b pol s).
  Proof.
    intros. rewrite send_proposal_eq. cbv zeta.
    eapply Inv_neutral; [apply neutral_send_tail|]. apply Inv_send3p; auto.
  Qed.

  (* ---------------- neutral setters, in compositional form ---------------- *)

  Ltac nt_setter := intros [? ? ? ? ? ? ? ? ?]; constructor; cbn; auto.

  Lemma nt_set_hvs s s' x : neutral s s' -> neutral s (set_hvs x s').
  Proof. nt_setter. Qed.
  Lemma nt_set_lock s s' a b : neutral s s' -> neutral s (set_lock a b s').
  Proof. nt_setter. Qed.
  Lemma nt_set_cur s s' x : neutral s s' -> neutral s (set_cur x s').
  Proof. nt_setter. Qed.
  Lemma nt_set_pol s s' x : neutral s s' -> neutral s (set_pol x s').
  Proof. nt_setter. Qed.
  Lemma nt_set_timer s s' x : neutral s s' -> neutral s (set_timer x s').
  Proof. nt_setter. Qed.
  Lemma nt_set_commit_round s s' x : neutral s s' -> neutral s (set_commit_round x s').
  Proof. nt_setter. Qed.
  Lemma nt_set_commit_req s s' x : neutral s s' -> neutral s (set_commit_req x s').
  Proof. nt_setter. Qed.
  Lemma nt_set_bpm s s' x : neutral s s' -> neutral s (set_bpm x s').
  Proof. nt_setter. Qed.
  Lemma nt_unlock s s' : neutral s s' -> neutral s (unlock s').
  Proof. apply nt_set_lock. Qed.
  Lemma nt_set_glog s s' x : neutral s s' -> neutral s (set_glog x s').
  Proof. nt_setter. Qed.
  Lemma nt_glog_add s s' e : neutral s s' -> neutral s (glog_add e s').
  Proof. apply nt_set_glog. Qed.
  Lemma nt_unlock_on s s' r w ev : neutral s s' -> neutral s (unlock_on r w ev s').
  Proof. intro H. unfold unlock_on. destruct (locked s'); auto using nt_unlock, nt_glog_add. Qed.
  Lemma nt_set_by_psid s s' b : neutral s s' -> neutral s (set_by_psid b s').
  Proof. intro H. unfold set_by_psid. destruct (bps_id_is (cur s') b); auto using nt_set_cur. Qed.
  Lemma nt_emit s s' o : quiet o = true -> neutral s s' -> neutral s (emit o s').
  Proof. intros Q H. eapply neutral_trans; eauto using neutral_emit. Qed.
  Lemma nt_emit_all s s' l : forallb quiet l = true -> neutral s s' -> neutral s (emit_all l s').
  Proof. intros Q H. eapply neutral_trans; eauto using neutral_emit_all. Qed.
  Lemma nt_if s (c : bool) a b : neutral s a -> neutral s b -> neutral s (if c then a else b).
  Proof. destruct c; auto. Qed.

  Lemma nt_add_part s s' b i : neutral s s' -> neutral s (snd (add_part blocks b i s')).
  Proof.
    intro H. unfold add_part. destruct (cur s'); cbn; auto.
    destruct (negb (N.eqb (p_id b0) b)); cbn; auto.
    destruct (negb (N.ltb i (nparts blocks b))); cbn; auto.
    destruct (existsb (N.eqb i) (p_have b0)); cbn; auto.
    apply nt_set_cur; auto.
  Qed.

  Lemma nt_fill_from_cache s s' b : neutral s s' -> neutral s (fill_from_cache blocks b s').
  Proof.
    unfold fill_from_cache. generalize (all_parts blocks b). intros l; revert s'.
    induction l as [|i l IH]; intros s' H; cbn; auto.
    apply IH. destruct (existsb _ _); auto using nt_add_part.
  Qed.

  Lemma forallb_quiet_lockparts b l : forallb quiet (map (fun i => OWrite WLock (RPart b i)) l) = true.
  Proof. induction l; cbn; auto. Qed.

  Lemma nt_write_lock_wal s s' pv b : neutral s s' -> neutral s (write_lock_wal blocks pv b s').
  Proof.
    intro H. unfold write_lock_wal. apply nt_emit; [reflexivity|].
    apply nt_emit_all; [apply forallb_quiet_lockparts|]. apply nt_emit; [reflexivity|]. auto.
  Qed.

  Hint Resolve neutral_refl nt_set_hvs nt_set_lock nt_set_cur nt_set_pol nt_set_timer nt_set_commit_round
       nt_set_commit_req nt_set_bpm nt_unlock nt_set_by_psid nt_if nt_add_part nt_fill_from_cache
       nt_write_lock_wal : neut.

  Lemma vote_ok_neutral s s' t : neutral s s' -> vote_ok s t -> vote_ok s' t.
  Proof.
    intros [] [A [B C]]. unfold vote_ok. rewrite nt_stp0, nt_round0, nt_imp0. repeat split; auto.
    intros v Hv. apply B. apply nt_recs0; auto.
  Qed.

  Lemma unblown_neutral s s' : neutral s s' -> unblown s' -> unblown s.
  Proof. intros [] U. unfold unblown in *. destruct (blown s) eqn:E; auto. rewrite nt_blown0 in U; auto. Qed.

  Lemma blown_new_step t s : blown (new_step t s) = blown s.
  Proof. unfold new_step, blown. cbn. destruct (valid_transition _ _); reflexivity. Qed.

  (* entering the step of a vote type: no own vote of that type and round is in the WAL *)
  Lemma vote_ok_new_step s t :
    Inv s -> status_ s = Running -> status_ (new_step (mstep_of t) s) = Running ->
    unblown (new_step (mstep_of t) s) -> vote_ok (new_step (mstep_of t) s) t.
  Proof.
    intros HI R R' U.
    assert (P : plain_step (mstep_of t)) by (destruct t; split; discriminate).
    destruct (new_step_cases s P) as [E|[F [S [T [Rd L]]]]].
    { rewrite E in R'. cbn in R'. discriminate. }
    assert (U0 : unblown s) by (unfold unblown in *; rewrite blown_new_step in U; auto).
    destruct (inv_ctl HI R U0) as [cv cp ci cq].
    rewrite mstep_code in L.
    assert (W : wal_r (new_step (mstep_of t) s) = wal_r s) by (destruct F; auto).
    assert (I : imp_req (new_step (mstep_of t) s) = imp_req s) by (destruct F; auto).
    unfold vote_ok. rewrite T, Rd, W, I, mstep_code. repeat split.
    - apply N.le_refl.
    - intros v Hv Ho [E1 E2]. specialize (cv _ Hv Ho). rewrite E1, E2 in cv.
      unfold pos_le, pos in cv; cbn in cv. lia.
    - intros Et b Hb. subst t. destruct (ci _ _ Hb) as [A _]. unfold pos_le, pos in A; cbn in A, L. lia.
  Qed.

  Lemma prop_ok_neutral s s' : neutral s s' -> prop_ok s -> prop_ok s'.
  Proof.
    intros [] [A [B C]]. unfold prop_ok. rewrite nt_stp0, nt_round0, nt_prop0. repeat split; auto.
    intros b p Hb. eapply B. apply nt_recs0; eauto.
  Qed.

  Lemma prop_ok_new_step s :
    Inv s -> status_ s = Running -> status_ (new_step SPropose s) = Running ->
    unblown (new_step SPropose s) -> prop_ok (new_step SPropose s) /\ stp (new_step SPropose s) = SPropose.
  Proof.
    intros HI R R' U.
    assert (P : plain_step SPropose) by (split; discriminate).
    destruct (new_step_cases s P) as [E|[F [S [T [Rd L]]]]].
    { rewrite E in R'. cbn in R'. discriminate. }
    assert (U0 : unblown s) by (unfold unblown in *; rewrite blown_new_step in U; auto).
    destruct (inv_ctl HI R U0) as [cv cp ci cq].
    assert (W : wal_r (new_step SPropose s) = wal_r s) by (destruct F; auto).
    assert (Q : prop_req (new_step SPropose s) = prop_req s) by (destruct F; auto).
    split; auto. unfold prop_ok. rewrite T, Rd, W, Q. cbn in L |- *. repeat split.
    - lia.
    - intros b p Hb. specialize (cp _ _ _ Hb). unfold pos_le, pos in cp; cbn in cp. lia.
    - intros Hq. destruct (cq _ Hq) as [A _]. unfold pos_le, pos in A; cbn in A. lia.
  Qed.

  Lemma Inv_set_prop_req s :
    Inv s ->
    (status_ s = Running -> unblown s ->
     stp s = SPropose /\ forall b p, ~ In (RProposal (round s) b p) (wal_all (wal_r s))) ->
    Inv (set_prop_req (Some (round s)) s).
  Proof.
    intros [d k c] H. constructor; cbn; auto.
    intros R U. destruct (H R U) as [T Np]. destruct (c R U) as [cv cp ci cq].
    constructor; cbn; auto.
    intros r Hr. inversion Hr; subst. split.
    - right; cbn; split; auto. rewrite T; cbn; lia.
    - intros _ _. auto.
  Qed.

  Lemma Inv_set_imp_req s r b :
    Inv s -> r = round s ->
    (status_ s = Running -> unblown s ->
     (4 <= step_code (stp s))%N /\
     forall v, In (RVote v) (wal_all (wal_r s)) -> v_from v = own -> ~ (v_round v = round s /\ v_type v = Prevote)) ->
    Inv (set_imp_req (Some (r, b)) s).
  Proof.
    intros [d k c] -> H. constructor; cbn; auto.
    intros R U. destruct (H R U) as [T Np]. destruct (c R U) as [cv cp ci cq].
    constructor; cbn; auto.
    intros r b0 Hr. inversion Hr; subst. split.
    - right; cbn; split; auto.
    - intros _ _ v Hv Ho Ht E. eapply Np; eauto.
  Qed.

  Lemma Inv_clear_prop_req s : Inv s -> Inv (set_prop_req None s).
  Proof.
    intros [d k c]. constructor; cbn; auto. intros R U. destruct (c R U) as [cv cp ci cq].
    constructor; cbn; auto. intros r Hr; discriminate.
  Qed.

  Lemma Inv_clear_imp_req s : Inv s -> Inv (set_imp_req None s).
  Proof.
    intros [d k c]. constructor; cbn; auto. intros R U. destruct (c R U) as [cv cp ci cq].
    constructor; cbn; auto. intros r b Hr; discriminate.
  Qed.

  Lemma Inv_import_request s b :
    Inv s -> status_ s = Running -> status_ (new_step SPrevote s) = Running ->
    Inv (set_imp_req (Some (round (new_step SPrevote s), b))
           (emit (OImportReq b false false) (new_step SPrevote s))).
  Proof.
    intros HI R R'.
    assert (N : neutral (new_step SPrevote s) (emit (OImportReq b false false) (new_step SPrevote s)))
      by (apply neutral_emit; reflexivity).
    apply Inv_set_imp_req.
    - eapply Inv_neutral; [exact N|]. apply Inv_new_step; [split; discriminate|auto].
    - destruct N; auto.
    - intros R2 U2. assert (U1 := unblown_neutral N U2).
      destruct (vote_ok_neutral N (@vote_ok_new_step s Prevote HI R R' U1)) as [A [B _]].
      split; auto.
  Qed.

  (* ---------------- the engine proper ---------------- *)

  Hypothesis Hown : 0 <= own < Z.of_nat n.

  Section Run.
  Variable delay : bool.

  Definition pre (a : act) (s : st) : Prop :=
    match a with
    | ASendVote t d => unblown s -> vote_ok s t
    | _ => True
    end.

  Ltac peel1 lem := eapply Inv_neutral; [ apply lem; apply neutral_refl | ].

  Ltac peel :=
    first
      [ assumption
      | apply Inv_panic
      | apply Inv_decided
      | peel1 nt_set_hvs | peel1 nt_unlock_on | peel1 nt_glog_add | peel1 nt_unlock | peel1 nt_set_lock | peel1 nt_set_cur | peel1 nt_set_pol
      | peel1 nt_set_timer | peel1 nt_set_commit_round | peel1 nt_set_commit_req | peel1 nt_set_bpm
      | peel1 nt_set_by_psid | peel1 nt_fill_from_cache | peel1 nt_write_lock_wal
      | (eapply Inv_neutral; [ apply nt_emit; [ reflexivity | apply neutral_refl ] | ])
      | (apply Inv_new_step; [ split; discriminate | ])
      ].

  Lemma ltb_lt_round s r : Z.ltb (round s) r = true -> round s < r.
  Proof. apply Z.ltb_lt. Qed.

  Ltac let_step :=
    lazymatch goal with
    | |- Inv (let x := ?v in @?b x) =>
        let y := fresh "s" in let E := fresh "E" in
        remember v as y eqn:E; change (Inv (b y)); cbv beta
    end.

  Ltac andb_hyp :=
    match goal with
    | H : _ && _ = true |- _ => apply andb_true_iff in H; destruct H
    end.

  Ltac neut :=
    repeat first
      [ apply neutral_refl
      | apply nt_write_lock_wal
      | apply nt_emit; [ reflexivity | ]
      | apply nt_unlock_on | apply nt_glog_add | apply nt_unlock | apply nt_set_lock | apply nt_set_by_psid
      | apply nt_set_timer | apply nt_set_cur | apply nt_set_hvs | apply nt_set_pol ].

  Ltac crunch IH :=
    repeat match goal with
      | |- Inv (let x := ?v in _) => let_step
      | E : ?g = (fun _ => _) |- Inv (?g _) => rewrite E; cbv beta
      | |- Inv (run _ _ _ _ _ _ _) => apply IH
      | |- Inv (new_round _ _) => apply Inv_new_round; [ apply Z.ltb_lt; repeat andb_hyp; eauto | ]
      | |- Inv (if ?c then _ else _) => destruct c eqn:?
      | |- Inv (match ?x with _ => _ end) => destruct x eqn:?
      | E : ?y = _ |- Inv ?y => rewrite E
      | |- pre (ASendVote _ _) _ => cbn [pre]; intro
      | |- pre _ _ => exact I
      | _ => peel
      end.

  (* vote_ok for a state that is a neutral modification of [new_step (mstep_of t) s] *)
  Ltac vote_ok_tac HI R t :=
    subst;
    match goal with
    | U : unblown ?s' |- vote_ok ?s' _ =>
        match s' with
        | context [new_step ?st ?s0] =>
            let N := fresh "N" in
            assert (N : neutral (new_step st s0) s') by neut;
            eapply vote_ok_neutral; [ exact N | ];
            apply (@vote_ok_new_step s0 t);
            [ exact HI | exact R | cbn [mstep_of]; assumption
            | cbn [mstep_of]; eapply unblown_neutral; [ exact N | exact U ] ]
        end
    end.

  Lemma run_inv : forall f a s, Inv s -> pre a s -> Inv (run n own blocks delay f a s).
  Proof.
    induction f as [|f IH]; intros a s HI HP.
    { cbn. destruct (status_ s); auto. apply Inv_panic; auto. }
    cbn beta iota delta [run]. fold (run n own blocks delay). destruct (status_ s) eqn:R; auto.
    destruct a.
    - (* AEnterPropose *)
      crunch IH.
      + (* proposer with a locked block: re-propose it *)
        subst s1 s0. apply Inv_send_proposal.
        * repeat peel.
        * cbn. exact Heqs1.
        * intro U. eapply prop_ok_neutral; [apply nt_set_timer, neutral_refl|].
          apply prop_ok_new_step; auto.
      + (* proposer: ask the block manager *)
        subst s2. apply Inv_set_prop_req.
        * subst s1 s0. repeat peel.
        * intros R2 U2. subst s1 s0.
          assert (N2 : neutral (new_step SPropose s) (emit (OProposeReq false) (set_timer true (new_step SPropose s)))).
          { apply nt_emit; [reflexivity|]. apply nt_set_timer, neutral_refl. }
          assert (U1 := unblown_neutral N2 U2).
          destruct (prop_ok_new_step HI R Heqs1 U1) as [[K1 [K2 K3]] T].
          destruct N2. rewrite nt_stp0, nt_round0. split; auto.
          intros b p Hb. eapply K2. apply nt_recs0; eauto.
    - (* AEnterPrevote *)
      crunch IH; try solve [vote_ok_tac HI R Prevote].
      all: subst s0; apply Inv_import_request; auto.
    - (* AEnterPrevoteWait *)
      crunch IH.
    - (* AEnterPrecommit *)
      crunch IH; try solve [vote_ok_tac HI R Precommit].
    - (* AEnterPrecommitWait *)
      crunch IH.
    - (* AEnterCommit *)
      crunch IH.
    - (* AEnterNewRound *)
      let_step. destruct delay.
      + peel. subst s0. apply Inv_new_round; [lia|auto].
      + apply IH; [|exact I]. subst s0. apply Inv_new_round; [lia|auto].
    - (* ACommitNewHeight *)
      crunch IH.
    - (* ASendVote *)
      destruct (_ || _); auto.
      repeat let_step. apply IH; [|exact I]. subst s4 s3 s2.
      change (Inv (send3 s0 s1)). subst s0 s1.
      assert (N1 : neutral s (glog_add (GVote (round s) t d (lock_of s)) s)) by (apply nt_glog_add, neutral_refl).
      change (own_vote own s t d) with (own_vote own (glog_add (GVote (round s) t d (lock_of s)) s) t d).
      apply Inv_send3.
      + eapply Inv_neutral; eauto.
      + exact R.
      + intro U. eapply vote_ok_neutral; [exact N1|]. apply HP. eapply unblown_neutral; eauto.
    - (* ARecvVote *)
      crunch IH.
  Qed.
  (* ---------------- restart: the restored position covers every surviving own record ---------------- *)

  Definition pcode (rs : Z * step) : Z * N := (fst rs, step_code (snd rs)).

  Lemma bump_by_list_mono l h rs : pos_le (pcode rs) (pcode (bump_by_list n l h rs)).
  Proof.
    unfold bump_by_list. destruct l as [|v0 l]; [apply pos_le_refl|]. destruct rs as [r st0].
    destruct (_ || _) eqn:C; [|apply pos_le_refl].
    destruct (vs_has23 _); [|apply pos_le_refl].
    apply orb_true_iff in C as [C|C].
    - apply Z.ltb_lt in C. left; cbn; auto.
    - apply andb_true_iff in C as [C1 C2]. apply Z.eqb_eq in C1. unfold step_ltb in C2. apply N.ltb_lt in C2.
      right; cbn. rewrite mstep_code in *. split; auto. lia.
  Qed.

  Lemma apply_round_rec_mono acc rec :
    pos_le (pcode (snd (fst acc))) (pcode (snd (fst (apply_round_rec n own acc rec)))).
  Proof.
    destruct acc as [[h [r st0]] ok]. destruct rec; cbn [apply_round_rec fst snd]; try apply pos_le_refl.
    - destruct (negb _); [apply pos_le_refl|]. destruct (_ || _); [apply pos_le_refl|].
      destruct (_ || _) eqn:C; cbn [fst snd]; [|apply pos_le_refl].
      apply orb_true_iff in C as [C|C].
      + apply Z.ltb_lt in C. left; cbn; auto.
      + apply andb_true_iff in C as [C1 C2]. apply Z.eqb_eq in C1. unfold step_leb in C2. apply N.leb_le in C2.
        right; cbn. split; auto.
    - destruct (_ || _) eqn:C; cbn [fst snd]; [|apply pos_le_refl].
      apply orb_true_iff in C as [C|C].
      + apply Z.ltb_lt in C. left; cbn; auto.
      + apply andb_true_iff in C as [C1 C2]. apply Z.eqb_eq in C1. unfold step_leb in C2. apply N.leb_le in C2.
        right; cbn. split; auto.
    - destruct l; cbn [fst snd]; [apply pos_le_refl|]. apply bump_by_list_mono.
  Qed.

  Lemma fold_round_mono L acc :
    pos_le (pcode (snd (fst acc))) (pcode (snd (fst (fold_left (apply_round_rec n own) L acc)))).
  Proof.
    revert acc; induction L as [|x L IH]; intro acc; cbn; [apply pos_le_refl|].
    eapply pos_le_trans; [apply apply_round_rec_mono|apply IH].
  Qed.

  Lemma apply_round_rec_covers acc rec :
    let rs' := pcode (snd (fst (apply_round_rec n own acc rec))) in
    match rec with
    | RVote v => v_from v = own -> pos_le (v_round v, mcode (v_type v)) rs'
    | RProposal r _ _ => pos_le (r, 3%N) rs'
    | _ => True
    end.
  Proof.
    destruct acc as [[h [r st0]] ok]. destruct rec; cbn [apply_round_rec fst snd]; auto.
    - intro Ho. rewrite Ho, Z.eqb_refl. cbn [negb].
      replace (_ || _) with false.
      2:{ symmetry. apply orb_false_iff. split; [apply Z.ltb_ge; lia|apply Z.leb_gt; lia]. }
      destruct (_ || _) eqn:C; unfold pcode; cbn [fst snd].
      + rewrite mstep_code. apply pos_le_refl.
      + apply orb_false_iff in C as [C1 C2]. apply Z.ltb_ge in C1.
        unfold pos_le; cbn.
        destruct (Z.eq_dec r (v_round v)) as [E|E]; [|left; lia].
        right; split; auto. rewrite E, Z.eqb_refl in C2. cbn in C2. unfold step_leb in C2.
        apply N.leb_gt in C2. rewrite mstep_code in C2. lia.
    - destruct (_ || _) eqn:C; unfold pcode; cbn [fst snd].
      + apply pos_le_refl.
      + apply orb_false_iff in C as [C1 C2]. apply Z.ltb_ge in C1. unfold pos_le; cbn.
        destruct (Z.eq_dec r0 r) as [E|E]; [|left; lia].
        right; split; auto. rewrite E, Z.eqb_refl in C2. cbn in C2. unfold step_leb in C2.
        apply N.leb_gt in C2. cbn in C2. lia.
  Qed.

  Lemma fold_round_covers L : forall acc,
    let rs' := pcode (snd (fst (fold_left (apply_round_rec n own) L acc))) in
    (forall v, In (RVote v) L -> v_from v = own -> pos_le (v_round v, mcode (v_type v)) rs') /\
    (forall r b p, In (RProposal r b p) L -> pos_le (r, 3%N) rs').
  Proof.
    induction L as [|x L IH]; intro acc; cbn; [split; intros; contradiction|].
    destruct (IH (apply_round_rec n own acc x)) as [A B]. split.
    - intros v [E|Hv] Ho; [|apply A; auto]. subst x.
      eapply pos_le_trans; [|apply fold_round_mono].
      apply (apply_round_rec_covers acc (RVote v)); auto.
    - intros r b p [E|Hr]; [|eapply B; eauto]. subst x.
      eapply pos_le_trans; [|apply fold_round_mono].
      apply (apply_round_rec_covers acc (RProposal r b p)).
  Qed.

  Lemma apply_lock_rec_mono acc rec :
    pos_le (pcode (snd (fst (fst acc)))) (pcode (snd (fst (fst (apply_lock_rec n blocks acc rec))))).
  Proof.
    destruct acc as [[[h rs] bp] last]. destruct rec; cbn [apply_lock_rec fst snd]; try apply pos_le_refl.
    - destruct l; cbn [fst snd]; [apply pos_le_refl|]. apply bump_by_list_mono.
    - destruct bp as [[[pb plr] have]|]; cbn [fst snd]; [|apply pos_le_refl].
      destruct (_ || _); cbn [fst snd]; apply pos_le_refl.
  Qed.

  Lemma fold_lock_mono L acc :
    pos_le (pcode (snd (fst (fst acc)))) (pcode (snd (fst (fst (fold_left (apply_lock_rec n blocks) L acc))))).
  Proof.
    revert acc; induction L as [|x L IH]; intro acc; cbn; [apply pos_le_refl|].
    eapply pos_le_trans; [apply apply_lock_rec_mono|apply IH].
  Qed.

  Lemma apply_commit_rec_mono acc rec :
    pos_le (pcode (snd acc)) (pcode (snd (apply_commit_rec n acc rec))).
  Proof.
    destruct acc as [h rs]. destruct rec; cbn [apply_commit_rec fst snd]; try apply pos_le_refl.
    destruct l; cbn [fst snd]; [apply pos_le_refl|]. apply bump_by_list_mono.
  Qed.

  Lemma fold_commit_mono L acc :
    pos_le (pcode (snd acc)) (pcode (snd (fold_left (apply_commit_rec n) L acc))).
  Proof.
    revert acc; induction L as [|x L IH]; intro acc; cbn; [apply pos_le_refl|].
    eapply pos_le_trans; [apply apply_commit_rec_mono|apply IH].
  Qed.

  (* ---------------- the event handlers ---------------- *)

  Local Notation RUN := (run n own blocks delay).

  Ltac hcrunch :=
    repeat match goal with
      | |- Inv (let x := ?v in _) => let_step
      | |- Inv (run _ _ _ _ _ _ _) => apply run_inv
      | |- Inv (new_round _ _) => apply Inv_new_round; [ apply Z.ltb_lt; repeat andb_hyp; eauto | ]
      | |- Inv (if ?c then _ else _) => destruct c eqn:?
      | |- Inv (match ?x with _ => _ end) => destruct x eqn:?
      | E : ?y = _ |- Inv ?y => rewrite E
      | |- pre (ASendVote _ _) _ => cbn [pre]; intro
      | |- pre _ _ => exact I
      | _ => peel
      end.

  Lemma Inv_recv_proposal curh r from pol b s : Inv s -> Inv (recv_proposal n own blocks delay curh r from pol b s).
  Proof. intro HI. cbv beta delta [recv_proposal]. hcrunch. Qed.

  Lemma Inv_add_part b i s : Inv s -> Inv (snd (add_part blocks b i s)).
  Proof. intro. eapply Inv_neutral; [apply nt_add_part, neutral_refl|auto]. Qed.

  Lemma Inv_recv_part curh b idx s : Inv s -> Inv (recv_part n own blocks delay curh b idx s).
  Proof.
    intro HI. cbv beta delta [recv_part]. let_step.
    assert (H0 : Inv s0) by (subst s0; destruct (existsb _ _); auto; peel; auto).
    clear E HI. destruct (negb curh); auto. destruct (cur s0); auto. destruct (bps_complete _ _); auto.
    pose proof (Inv_add_part b idx H0) as H1. destruct (add_part blocks b idx s0) as [added s1]. cbn in H1.
    hcrunch.
  Qed.

  Lemma Inv_recv_vote curh v s : Inv s -> Inv (recv_vote n own blocks delay curh v s).
  Proof. intro HI. cbv beta delta [recv_vote]. hcrunch. Qed.

  Lemma Inv_timeout s : Inv s -> Inv (timeout n own blocks delay s).
  Proof. intro HI. cbv beta delta [timeout]. hcrunch. Qed.

  Lemma Inv_commit_cb rr ok s : Inv s -> Inv (commit_cb blocks rr ok s).
  Proof. intro HI. cbv beta delta [commit_cb]. hcrunch. Qed.

  Lemma step_code_inj a b : step_code a = step_code b -> a = b.
  Proof. destruct a, b; cbn; intro H; try reflexivity; discriminate. Qed.

  Lemma Inv_propose_cb rr ok b s :
    Inv s -> status_ s = Running -> Inv (propose_cb n own blocks delay rr ok b s).
  Proof.
    intros HI R. cbv beta delta [propose_cb]. destruct (prop_req s) as [r|] eqn:Q; auto.
    destruct (negb (Z.eqb r rr)); auto.
    let_step. assert (H0 : Inv s0) by (subst s0; apply Inv_clear_prop_req; auto).
    destruct (negb _) eqn:C; auto.
    destruct (negb ok); [apply run_inv; auto; exact I|].
    repeat let_step. apply run_inv; [|exact I]. subst s2. peel. subst s1.
    apply negb_false_iff in C. apply andb_true_iff in C as [C1 C2]. apply Z.eqb_eq in C1.
    unfold step_eqb in C2. apply N.eqb_eq in C2. apply step_code_inj in C2.
    apply Inv_send_proposal; auto.
    - subst s0. cbn. auto.
    - intros U. subst s0. cbn in *.
      assert (U0 : unblown s) by exact U.
      destruct (inv_ctl HI R U0) as [_ _ _ cq]. destruct (cq _ Q) as [_ B].
      unfold prop_ok; cbn. rewrite C2. repeat split.
      + cbn; lia.
      + rewrite C1. apply B; auto.
      + discriminate.
  Qed.

  Lemma Inv_import_cb rr ok s :
    Inv s -> status_ s = Running -> Inv (import_cb n own blocks delay rr ok s).
  Proof.
    intros HI R. cbv beta delta [import_cb]. destruct (imp_req s) as [[r b]|] eqn:Q; auto.
    destruct (negb (Z.eqb r rr)); auto.
    let_step. assert (H0 : Inv s0) by (subst s0; apply Inv_clear_imp_req; auto).
    destruct (_ || _) eqn:C; auto.
    apply orb_false_iff in C as [C1 C2]. apply negb_false_iff, Z.eqb_eq in C1.
    (* the vote the callback may send is not in the WAL yet *)
    assert (OK : forall s', neutral s0 s' -> step_leb (stp s') SPrevoteWait = true -> unblown s' -> vote_ok s' Prevote).
    { intros s' N L U. eapply vote_ok_neutral; [exact N|].
      assert (U0 : unblown s) by (apply (unblown_neutral N) in U; subst s0; exact U).
      destruct (inv_ctl HI R U0) as [_ _ ci _]. destruct (ci _ _ Q) as [A B].
      destruct N. rewrite nt_stp0 in L. subst s0. cbn in *.
      unfold step_leb in L. apply N.leb_le in L. cbn in L.
      unfold vote_ok; cbn. repeat split.
      - unfold pos_le, pos in A; cbn in A. lia.
      - intros v Hv Ho [E1 E2]. eapply B; eauto. congruence.
      - intros _ b0 Hb. discriminate. }
    destruct ok.
    - let_step.
      assert (N1 : neutral s0 s1) by (subst s1; destruct (_ && _); auto using neutral_refl, nt_set_cur).
      assert (H1 : Inv s1) by (eapply Inv_neutral; eauto).
      destruct (step_leb (stp s1) SPrevoteWait) eqn:L; auto.
      destruct (cur s1); [|apply Inv_panic; auto].
      destruct (p_block b0); [|apply Inv_panic; auto].
      apply run_inv; auto. cbn. intro U. apply OK; auto.
    - destruct (step_leb (stp s0) SPrevoteWait) eqn:L; auto.
      apply run_inv; auto. cbn. intro U. apply OK; auto using neutral_refl.
  Qed.

  (* ---------------- crash and restart ---------------- *)

  Lemma Inv_crash kr kl kc s : Inv s -> Inv (crash kr kl kc s).
  Proof.
    intros [d k c]. constructor; cbn; auto. intros; discriminate.
  Qed.

  Lemma Inv_restart s : Inv s -> Inv (restart n own blocks delay s).
  Proof.
    intros HI. cbv beta delta [restart]. repeat let_step.
    destruct (fold_left (apply_round_rec n own) _ _) as [[h rs] ok] eqn:F1.
    destruct (fold_left (apply_lock_rec n blocks) _ _) as [[[h2 rs2] bp] last] eqn:F2.
    destruct (fold_left (apply_commit_rec n) _ _) as [h3 rs3] eqn:F3.
    repeat let_step.
    (* the freshly restored state satisfies the invariant *)
    assert (H0 : Inv s4).
    { subst s4. destruct HI as [d k c]. constructor; cbn.
      - intros m Hm. subst s0. cbn. unfold wal_all. apply in_or_app; left; auto.
      - auto.
      - intros _ _.
        pose proof (fold_round_covers (w_synced s0) ([], (0, SNewHeight), true)) as Cov.
        cbv zeta in Cov. rewrite F1 in Cov. cbn [fst snd] in Cov. destruct Cov as [Cv Cp].
        pose proof (fold_lock_mono (w_synced s1) (h, rs, None, None)) as M2. rewrite F2 in M2. cbn [fst snd] in M2.
        pose proof (fold_commit_mono (w_synced s2) (h2, rs2)) as M3. rewrite F3 in M3. cbn [fst snd] in M3.
        assert (M : pos_le (pcode rs) (pcode rs3)) by (eapply pos_le_trans; eauto).
        assert (WA : wal_all s0 = w_synced s0) by (subst s0; unfold wal_all; cbn; apply app_nil_r).
        constructor; cbn; unfold pos; cbn.
        + intros v Hv Ho. rewrite WA in Hv. eapply pos_le_trans; [apply Cv; auto|exact M].
        + intros r b p Hr. rewrite WA in Hr. eapply pos_le_trans; [eapply Cp; eauto|exact M].
        + intros; discriminate.
        + intros; discriminate. }
    clear HI E3.
    destruct (negb ok); [apply Inv_panic; auto|].
    destruct last as [[b lr]|].
    - destruct (negb (decodable blocks b)); [apply Inv_panic; auto|].
      destruct (snd rs3); auto; hcrunch.
    - destruct (snd rs3); auto; hcrunch.
  Qed.

  (* ---------------- one event ---------------- *)

  Lemma Ctl_set_outs x fz s : Ctl s -> Ctl (set_outs x fz s).
  Proof. intros [cv cp ci cq]. constructor; cbn; auto. Qed.

  (* invariant at event boundaries: the control part holds whenever the engine runs *)
  Record InvB (s : st) : Prop := { ib_inv : Inv s; ib_ctl : status_ s = Running -> Ctl s }.

  Lemma Inv_event_body e s :
    Inv s ->
    Inv (match e with
         | ECrash kr kl kc => match status_ s with Decided => s | _ => crash kr kl kc s end
         | ERestart => match status_ s with Down => restart n own blocks delay s | _ => s end
         | _ =>
             match status_ s with
             | Running =>
                 match e with
                 | EProposal curh r from pol b => recv_proposal n own blocks delay curh r from pol b s
                 | EPart curh b idx => recv_part n own blocks delay curh b idx s
                 | EVote curh v => recv_vote n own blocks delay curh v s
                 | EVoteList l => fold_left (fun s cv => recv_vote n own blocks delay (fst cv) (snd cv) s) l s
                 | ETimeout => timeout n own blocks delay s
                 | EProposeCb rr ok b => propose_cb n own blocks delay rr ok b s
                 | EImportCb rr ok => import_cb n own blocks delay rr ok s
                 | ECommitCb rr ok => commit_cb blocks rr ok s
                 | _ => s
                 end
             | _ => s
             end
         end).
  Proof.
    intro HI. destruct e; try (destruct (status_ s) eqn:R; auto).
    - apply Inv_recv_proposal; auto.
    - apply Inv_recv_part; auto.
    - apply Inv_recv_vote; auto.
    - clear R. revert s HI. induction l as [|cv l IH]; intros s HI; cbn; auto.
      apply IH. apply Inv_recv_vote; auto.
    - apply Inv_timeout; auto.
    - apply Inv_propose_cb; auto.
    - apply Inv_import_cb; auto.
    - apply Inv_commit_cb; auto.
    - apply Inv_crash; auto.
    - apply Inv_crash; auto.
    - apply Inv_restart; auto.
  Qed.

  Lemma InvB_step_ev e fz s : InvB s -> InvB (step_ev n own blocks delay e fz s).
  Proof.
    intros [HI HC]. cbv beta delta [step_ev].
    set (s0 := set_outs [] fz s).
    assert (H0 : Inv s0).
    { subst s0. destruct HI as [d k c]. constructor; cbn; auto. intros R _. apply Ctl_set_outs; auto. }
    clearbody s0. cbv zeta.
    match goal with |- InvB (if blown ?x then _ else _) => set (s1 := x) end.
    assert (H1 : Inv s1) by (subst s1; apply Inv_event_body; auto).
    clearbody s1. destruct (blown s1) eqn:B.
    - constructor.
      + eapply Inv_down; [| | |exact H1]; cbn; auto. destruct (status_ s1); discriminate.
      + cbn. destruct (status_ s1); discriminate.
    - constructor; auto. intro R. apply (inv_ctl H1); auto.
  Qed.

  End Run.

  (* ---------------- histories ---------------- *)

  (* an input: the event, the crash point inside it (None: it completes), and
     whether enterNewRound finds the next propose time in the future *)
  Definition input := (event * option nat * bool)%type.

  Definition step_in (s : st) (i : input) : st :=
    step_ev n own blocks (snd i) (fst (fst i)) (snd (fst i)) s.

  Definition run_evs (l : list input) : st := fold_left step_in l init.

  Lemma InvB_init : InvB init.
  Proof.
    constructor.
    - constructor; cbn; [intros ? []|constructor|discriminate].
    - cbn. discriminate.
  Qed.

  Lemma InvB_run_from l : forall s, InvB s -> InvB (fold_left step_in l s).
  Proof.
    induction l as [|i l IH]; intros s H; cbn; auto. apply IH. apply InvB_step_ev; auto.
  Qed.

  Lemma InvB_run l : InvB (run_evs l).
  Proof. apply InvB_run_from, InvB_init. Qed.

  Lemma NoDup_map_inj {A B} (f : A -> B) l x y :
    NoDup (map f l) -> In x l -> In y l -> f x = f y -> x = y.
  Proof.
    induction l as [|a l IH]; cbn; [tauto|]. intros ND Hx Hy E. inversion ND; subst.
    destruct Hx as [->|Hx], Hy as [->|Hy]; auto.
    - exfalso. apply H1. rewrite E. apply in_map; auto.
    - exfalso. apply H1. rewrite <- E. apply in_map; auto.
  Qed.

  (* the engine never sends two votes of one type in one round: the two entries
     of the ghost history are the same entry (same decision, same emission) *)
  Lemma no_double_vote evs r t a b i j :
    In (SVote r t a i) (sent (run_evs evs)) -> In (SVote r t b j) (sent (run_evs evs)) -> a = b /\ i = j.
  Proof.
    intros H1 H2. pose proof (inv_keys (ib_inv (InvB_run evs))) as ND.
    assert (E := NoDup_map_inj skey _ _ _ ND H1 H2 eq_refl). inversion E; auto.
  Qed.

  Lemma no_double_proposal evs r b1 p1 i b2 p2 j :
    In (SProposal r b1 p1 i) (sent (run_evs evs)) -> In (SProposal r b2 p2 j) (sent (run_evs evs)) ->
    b1 = b2 /\ p1 = p2 /\ i = j.
  Proof.
    intros H1 H2. pose proof (inv_keys (ib_inv (InvB_run evs))) as ND.
    assert (E := NoDup_map_inj skey _ _ _ ND H1 H2 eq_refl). inversion E; auto.
  Qed.

  (* durably remembered before sent: at the end of ANY history -- in particular
     of a history whose last event is cut right after the broadcast -- every
     message handed to the network is in the synced prefix of the round WAL *)
  Definition durable_at_send (s : st) (m : sentmsg) : Prop := In (rec_of m) (w_synced (wal_r s)).

  Lemma logged_before_sent evs m : In m (sent (run_evs evs)) -> durable_at_send (run_evs evs) m.
  Proof. intro H. apply (inv_dur (ib_inv (InvB_run evs))); auto. Qed.

  Definition msg_round (m : sentmsg) : Z :=
    match m with SVote r _ _ _ => r | SProposal r _ _ _ => r end.

  (* rounds never go back: while the engine runs, every message it has ever sent
     is of a round <= its current round (so the next one it sends is not of an
     earlier round than any previous one) *)
  Lemma sent_rounds_le evs m :
    status_ (run_evs evs) = Running -> In m (sent (run_evs evs)) -> msg_round m <= round (run_evs evs).
  Proof.
    intros R Hm. pose proof (InvB_run evs) as [HI HC]. specialize (HC R).
    pose proof (inv_dur HI _ Hm) as D.
    assert (D' : In (rec_of m) (wal_all (wal_r (run_evs evs)))) by (unfold wal_all; apply in_or_app; left; auto).
    destruct m as [r t d i|r b p i]; cbn in *.
    - pose proof (ctl_votes HC _ D' eq_refl) as P. unfold pos_le, pos in P; cbn in P. lia.
    - pose proof (ctl_props HC _ _ _ D') as P. unfold pos_le, pos in P; cbn in P. lia.
  Qed.

  (* while the engine runs, its position is at or after every own message in the WAL *)
  Lemma position_covers_wal evs v :
    status_ (run_evs evs) = Running -> In (RVote v) (wal_all (wal_r (run_evs evs))) -> v_from v = own ->
    pos_le (v_round v, mcode (v_type v)) (pos (run_evs evs)).
  Proof. intros R Hv Ho. apply (ctl_votes (ib_ctl (InvB_run evs) R)); auto. Qed.

End Inv.

(* ------------------------------------------------------------------ non-vacuity *)

(* n = 4, this validator is slot 2, one block (id 1, one part, decodable, its
   proposer is slot 1 = the proposer of round 0 at height 1). *)
Definition ex_blocks : list blk := [mkBlk 1 1 true 1 false].

Example ex_own_in_range : 0 <= 2 < Z.of_nat 4.
Proof. cbn; lia. Qed.

(* History A: proposal and its part arrive, the block is imported, the callback
   sends the prevote; the process dies right AFTER the broadcast (3 outputs:
   write, sync, send), loses nothing, restarts, and the other validators'
   prevotes arrive.  Exactly one prevote of round 0 was ever sent, it is durable,
   and the restarted engine is in step prevote-wait .. precommit without having
   prevoted again. *)
Definition ex_hist_a : list (event * option nat * bool) :=
  [ (ERestart, None, false);
    (EProposal true 0 1 (-1) 1, None, false);
    (EPart true 1 0, None, false);
    (EImportCb 0 true, Some 3%nat, false);
    (ECrash 0 0 0, None, false);
    (ERestart, None, false);
    (EVote true (mkVote 0 0 Prevote (Some 1%N) 1), None, false);
    (EVote true (mkVote 1 0 Prevote (Some 1%N) 1), None, false) ].

Example ex_a_sent :
  sent (run_evs 4 2 ex_blocks ex_hist_a) =
  [SVote 0 Prevote (Some 1%N) 0; SVote 0 Precommit None 1].
Proof. vm_compute. reflexivity. Qed.

(* History B: the same, but the process dies between the WAL write and the Sync
   (1 output happened) and the unsynced record SURVIVES the crash (keep = 1):
   nothing was ever sent, yet the restarted engine finds its prevote in the WAL,
   is in step prevote and does not vote a second time when a +2/3 of prevotes
   arrives (it goes on to precommit). *)
Definition ex_hist_b : list (event * option nat * bool) :=
  [ (ERestart, None, false);
    (EProposal true 0 1 (-1) 1, None, false);
    (EPart true 1 0, None, false);
    (EImportCb 0 true, Some 1%nat, false);
    (ECrash 1 0 0, None, false);
    (ERestart, None, false) ].

Example ex_b_state :
  let s := run_evs 4 2 ex_blocks ex_hist_b in
  sent s = [] /\ status_ s = Running /\ round s = 0 /\ stp s = SPrevote /\
  wal_all (wal_r s) = [RVote (mkVote 2 0 Prevote (Some 1%N) 0)].
Proof. vm_compute. repeat split; reflexivity. Qed.

(* History C: the record does NOT survive (keep = 0): the engine is back before
   the prevote step; it may prevote again (here nil, the proposal is gone) and
   that is the only prevote of round 0 that was ever sent. *)
Definition ex_hist_c : list (event * option nat * bool) :=
  [ (ERestart, None, false);
    (EProposal true 0 1 (-1) 1, None, false);
    (EPart true 1 0, None, false);
    (EImportCb 0 true, Some 1%nat, false);
    (ECrash 0 0 0, None, false);
    (ERestart, None, false);
    (ETimeout, None, false) ].

Example ex_c_sent :
  sent (run_evs 4 2 ex_blocks ex_hist_c) = [SVote 0 Prevote None 0].
Proof. vm_compute. reflexivity. Qed.
