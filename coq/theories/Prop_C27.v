(* Property C27 — the Merkle accumulator (common/trie/mta) works for every length.
   Only the property theorems; proofs are in Proofs_Mta.v.  H is the hash
   (SHA3-256 in the code); the only thing assumed of it is its output length.
   Statements that depend on what the bucket returns after Flush end in
   "\/ collision H": the proof then exhibits two different byte strings with
   the same hash. *)
From Goloop Require Import lib.Bytes lib.BytesMap Model_Mta Proofs_Mta.
Open Scope N_scope.

(* every item of every sequence has a witness and Verify accepts it *)
Theorem C27_witness_verifies : forall H, hash32 H -> forall items i it s,
  Forall item_ok items -> nth_error items i = Some it ->
  exists a', witness_for s (add_all H items) (N.of_nat i) = (a', Ok (spec_of H items i)) /\
             verify H a' (spec_of H items i) (item_hash H it) = Ok tt /\
             verify H (add_all H items) (spec_of H items i) (item_hash H it) = Ok tt.
Proof. exact witness_verifies. Qed.
Print Assumptions C27_witness_verifies.

(* the same after any history of additions, Flush, Flush+Recover and queries;
   the witness is a function (spec_of) of the item sequence alone *)
Theorem C27_history_witness_verifies : forall H, hash32 H -> forall ops i it,
  Forall item_ok (ops_items ops) -> nth_error (ops_items ops) i = Some it ->
  (exists a', witness_for (snd (run H ops)) (fst (run H ops)) (N.of_nat i)
                = (a', Ok (spec_of H (ops_items ops) i)) /\
              verify H a' (spec_of H (ops_items ops) i) (item_hash H it) = Ok tt /\
              verify H (fst (run H ops)) (spec_of H (ops_items ops) i) (item_hash H it) = Ok tt)
  \/ collision H.
Proof. exact history_witness_verifies. Qed.
Print Assumptions C27_history_witness_verifies.

(* no error branch is reachable for a stored index *)
Theorem C27_witness_total : forall H, hash32 H -> forall ops idx,
  Forall item_ok (ops_items ops) -> idx < a_len (fst (run H ops)) ->
  (exists w, snd (witness_for (snd (run H ops)) (fst (run H ops)) idx) = Ok w) \/ collision H.
Proof. exact witness_total. Qed.
Print Assumptions C27_witness_total.

(* Flush and Flush+Recover keep length, root hashes and every witness *)
Theorem C27_persist : forall H, hash32 H -> forall ops,
  Forall item_ok (ops_items ops) ->
  (let a := fst (run H ops) in let s := snd (run H ops) in
   let a1 := fst (flush a s) in let s1 := snd (flush a s) in let a2 := recover s1 in
   a_len a2 = a_len a /\
   map (option_map node_hash) (a_roots a2) = map (option_map node_hash) (a_roots a) /\
   forall i it, nth_error (ops_items ops) i = Some it ->
     exists w b b1 b2,
       witness_for s a (N.of_nat i) = (b, Ok w) /\
       witness_for s1 a1 (N.of_nat i) = (b1, Ok w) /\
       witness_for s1 a2 (N.of_nat i) = (b2, Ok w) /\
       verify H b2 w (item_hash H it) = Ok tt)
  \/ collision H.
Proof. exact persist. Qed.
Print Assumptions C27_persist.

(* the witness returned by AddHash / AddData verifies against the new roots *)
Theorem C27_add_witness_verifies : forall H, hash32 H -> forall ops it,
  Forall item_ok (ops_items ops) -> item_ok it ->
  verify H (fst (add H (fst (run H ops)) it)) (snd (add H (fst (run H ops)) it)) (item_hash H it) = Ok tt
  \/ collision H.
Proof. exact add_witness_verifies. Qed.
Print Assumptions C27_add_witness_verifies.

(* slot k is occupied iff bit k of the length is set; an occupied slot is the
   perfect tree of height k over items [len / 2^(k+1) * 2^(k+1), + 2^k) *)
Theorem C27_roots_shape : forall H, hash32 H -> forall items,
  Forall item_ok items ->
  let a := add_all H items in
  a_len a = N.of_nat (length items) /\
  (forall k, (exists n, nth_error (a_roots a) k = Some (Some n)) <->
             N.testbit (N.of_nat (length items)) (N.of_nat k) = true) /\
  (forall k n, nth_error (a_roots a) k = Some (Some n) ->
     exists t, perfect k t /\ node_hash n = pt_hash H t /\
       pt_leaves t = firstn (N.to_nat (2 ^ N.of_nat k))
                       (skipn (N.to_nat (N.of_nat (length items) / 2 ^ N.of_nat (S k) * 2 ^ N.of_nat (S k)))
                              (map (item_hash H) items))).
Proof. exact roots_shape. Qed.
Print Assumptions C27_roots_shape.

Theorem C27_history_roots_shape : forall H, hash32 H -> forall ops,
  Forall item_ok (ops_items ops) ->
  (let a := fst (run H ops) in let items := ops_items ops in
   a_len a = N.of_nat (length items) /\
   (forall k, (exists n, nth_error (a_roots a) k = Some (Some n)) <->
              N.testbit (N.of_nat (length items)) (N.of_nat k) = true) /\
   (forall k n, nth_error (a_roots a) k = Some (Some n) ->
      exists t, perfect k t /\ node_hash n = pt_hash H t /\
        pt_leaves t = firstn (N.to_nat (2 ^ N.of_nat k))
                        (skipn (N.to_nat (N.of_nat (length items) / 2 ^ N.of_nat (S k) * 2 ^ N.of_nat (S k)))
                               (map (item_hash H) items))))
  \/ collision H.
Proof. exact history_roots_shape. Qed.
Print Assumptions C27_history_roots_shape.

(* the code before /repo commit 2615bc1 (nil root slots not skipped) fails *)
Theorem C27_flush_prefix_refuted : forall H,
  exists items, Forall item_ok items /\ flush_old (add_all H items) store_empty = Err EPanic.
Proof. exact flush_old_refuted. Qed.
Print Assumptions C27_flush_prefix_refuted.

Theorem C27_witness_prefix_refuted : forall H,
  exists items idx, Forall item_ok items /\ idx < N.of_nat (length items) /\
    snd (witness_for_old store_empty (add_all H items) idx) = Err EPanic.
Proof. exact witness_for_old_refuted. Qed.
Print Assumptions C27_witness_prefix_refuted.
