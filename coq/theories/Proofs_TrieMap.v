(* Proofs_TrieMap.v — get after set / delete: the trie is a map. *)
From Goloop Require Import lib.Bytes Model_RlpBytes Model_Trie Proofs_Trie.
From Coq Require Import ZifyBool ZifyN ZifyNat.
Open Scope N_scope.

Lemma eqb_cons x a y b : bytes_eqb (x :: a) (y :: b) = (x =? y) && bytes_eqb a b.
Proof. reflexivity. Qed.

Lemma eqb_nil_cons y b : bytes_eqb [] (y :: b) = false.
Proof. reflexivity. Qed.

Lemma eqb_cons_nil x a : bytes_eqb (x :: a) [] = false.
Proof. reflexivity. Qed.

Lemma eqb_app_head (c a b : nibs) : bytes_eqb (c ++ a) (c ++ b) = bytes_eqb a b.
Proof. induction c; cbn; [reflexivity|]. now rewrite N.eqb_refl. Qed.

Lemma get_leaf ks v k : get (Leaf ks v) k = if bytes_eqb k ks then Some v else None.
Proof. reflexivity. Qed.

Lemma get_upd cs bv j X k' :
  (N.to_nat j < length cs)%nat ->
  get (Branch (upd cs j X) bv) k' =
  match k' with
  | [] => bv
  | j' :: r => if j' =? j then get X r else get (Branch cs bv) k'
  end.
Proof.
  intros L. destruct k' as [|j' r]; [reflexivity|]. rewrite !get_branch.
  destruct (j' =? j) eqn:E.
  - apply N.eqb_eq in E; subst. now rewrite child_upd_same.
  - apply N.eqb_neq in E. rewrite child_upd_other by congruence. reflexivity.
Qed.

Lemma get_empty16 bv k : get (Branch empty16 bv) k = match k with [] => bv | _ => None end.
Proof. destruct k; [reflexivity|]. now rewrite get_branch, child_empty16. Qed.

(* ---------- the two-entry branch made by leaf.set ---------- *)

Definition compat (rk rks : nibs) : Prop := heads_differ rk rks /\ ~ (rk = [] /\ rks = []).

Definition two (rk : nibs) (v : bytes) (rks : nibs) (v0 : bytes) : node :=
  let '(cs1, bv1) := leaf_at rk v empty16 None in
  let '(cs2, bv2) := leaf_at rks v0 cs1 bv1 in
  Branch cs2 bv2.

Lemma len16 i : i < 16 -> (N.to_nat i < length empty16)%nat.
Proof. cbn. lia. Qed.

Lemma get_two rk v rks v0 r :
  nibs_ok rk = true -> nibs_ok rks = true -> compat rk rks ->
  get (two rk v rks v0) r =
  if bytes_eqb r rk then Some v else if bytes_eqb r rks then Some v0 else None.
Proof.
  intros Hk Hks [Hd Hne]. unfold two.
  destruct rk as [|i r1]; destruct rks as [|i2 r2]; cbn [leaf_at].
  - exfalso. apply Hne. now split.
  - apply nibs_ok_cons in Hks as [L2 _].
    rewrite get_upd by (now apply len16). destruct r as [|j r']; [reflexivity|].
    rewrite eqb_cons_nil, eqb_cons, get_empty16, get_leaf.
    destruct (j =? i2); cbn; reflexivity.
  - apply nibs_ok_cons in Hk as [L1 _].
    rewrite get_upd by (now apply len16). destruct r as [|j r']; [reflexivity|].
    rewrite eqb_cons_nil, eqb_cons, get_empty16, get_leaf.
    destruct (j =? i); cbn; [|reflexivity]. destruct (bytes_eqb r' r1); reflexivity.
  - apply nibs_ok_cons in Hk as [L1 _]. apply nibs_ok_cons in Hks as [L2 _]. cbn in Hd.
    rewrite get_upd by (rewrite upd_length; now apply len16).
    destruct r as [|j r']; [reflexivity|].
    rewrite get_upd by (now apply len16). rewrite get_empty16, !eqb_cons, !get_leaf.
    destruct (j =? i2) eqn:E2; destruct (j =? i) eqn:E1; cbn; try reflexivity.
    all: try (apply N.eqb_eq in E1, E2; congruence).
    all: try (destruct (bytes_eqb r' r1); reflexivity).
Qed.

Lemma set_leaf_eq ks v0 k v c rk rks :
  cp k ks = (c, rk, rks) ->
  set_leaf ks v0 k v =
  match rk, rks with
  | [], [] => Leaf ks v
  | _, _ => match c with [] => two rk v rks v0 | _ => Ext c (two rk v rks v0) end
  end.
Proof.
  intros E. destruct (cp_spec _ _ _ _ _ E) as (Hk & Hks & _).
  unfold set_leaf, two. rewrite E.
  destruct c as [|c0 c], rk as [|i r1], rks as [|i2 r2]; cbn; try reflexivity.
  rewrite Hks, app_nil_r. reflexivity.
Qed.

(* ---------- the branch made by extension.set ---------- *)

Definition oldx (r' : nibs) (n' : node) : node := match r' with [] => n' | _ => Ext r' n' end.

Lemma get_oldx r' n' t : get (oldx r' n') t = get (Ext r' n') t.
Proof. destruct r'; [|reflexivity]. cbn [oldx]. now rewrite get_ext. Qed.

Definition two_ext (rk : nibs) (v : bytes) (j : N) (r' : nibs) (n' : node) : node :=
  let '(cs1, bv1) := leaf_at rk v (upd empty16 j (oldx r' n')) None in Branch cs1 bv1.

Lemma upd_comm cs i j a b : i <> j -> upd (upd cs i a) j b = upd (upd cs j b) i a.
Proof.
  revert i j; induction cs as [|c t IH]; intros i j H; cbn; [reflexivity|].
  destruct (i =? 0) eqn:Ei; destruct (j =? 0) eqn:Ej; cbn; rewrite ?Ei, ?Ej; try reflexivity.
  - apply N.eqb_eq in Ei, Ej. congruence.
  - f_equal. apply IH. apply N.eqb_neq in Ei, Ej. lia.
Qed.

Lemma get_two_ext rk v j r' n' r :
  nibs_ok rk = true -> j < 16 -> heads_differ rk (j :: r') ->
  get (two_ext rk v j r' n') r =
  if bytes_eqb r rk then Some v
  else match r with
       | j' :: t => if j' =? j then get (Ext r' n') t else None
       | [] => None
       end.
Proof.
  intros Hk Lj Hd. unfold two_ext. destruct rk as [|i r1]; cbn [leaf_at].
  - rewrite get_upd by (now apply len16). destruct r as [|j' t]; [reflexivity|].
    rewrite eqb_cons_nil, get_oldx, get_empty16. reflexivity.
  - apply nibs_ok_cons in Hk as [Li _]. cbn in Hd.
    rewrite get_upd by (rewrite upd_length; now apply len16).
    destruct r as [|j' t]; [reflexivity|].
    rewrite get_upd by (now apply len16). rewrite eqb_cons, get_leaf, get_oldx, get_empty16.
    destruct (j' =? i) eqn:E1; destruct (j' =? j) eqn:E2; cbn; try reflexivity.
    all: try (apply N.eqb_eq in E1, E2; congruence).
    all: try (destruct (bytes_eqb t r1); reflexivity).
Qed.

Lemma set_ext_eq ks n' k v c rk rks :
  cp k ks = (c, rk, rks) -> ks <> [] ->
  set (Ext ks n') k v =
  match rks with
  | [] => Ext ks (set n' rk v)
  | j :: r' => match c with [] => two_ext rk v j r' n' | _ => Ext c (two_ext rk v j r' n') end
  end.
Proof.
  intros E Hne. destruct (cp_spec _ _ _ _ _ E) as (Hk & Hks & Hd).
  cbn [set]. rewrite E. unfold two_ext.
  destruct c as [|c0 c].
  - destruct rks as [|j r']; [cbn in Hks; congruence|].
    destruct rk as [|i r1]; cbn [leaf_at].
    + destruct r'; reflexivity.
    + cbn in Hd. assert (i <> j) by exact Hd.
      destruct r' as [|x r']; cbn [oldx]; rewrite upd_comm by assumption; reflexivity.
  - destruct rks as [|j r']; [reflexivity|].
    destruct rk as [|i r1]; cbn [leaf_at]; destruct r'; reflexivity.
Qed.

(* ---------- get after set ---------- *)

Lemma strip_eqb c k' r rk :
  strip c k' = Some r -> bytes_eqb k' (c ++ rk) = bytes_eqb r rk.
Proof. intros H. apply strip_some in H. subst. apply eqb_app_head. Qed.

Lemma strip_none_eqb c k' rk : strip c k' = None -> bytes_eqb k' (c ++ rk) = false.
Proof.
  intros H. apply nibs_eqb_neq. intro E. subst. rewrite strip_app in H. discriminate.
Qed.

Lemma strip_cons j r' k' :
  strip (j :: r') k' = match k' with j' :: t => if j =? j' then strip r' t else None | [] => None end.
Proof. destruct k'; reflexivity. Qed.

Lemma strip_app2 p q r : strip (p ++ q) (p ++ r) = strip q r.
Proof. induction p; cbn; rewrite ?N.eqb_refl; auto. Qed.

Theorem get_set t : forall k v k',
  wfe t -> nibs_ok k = true ->
  get (set t k v) k' = if bytes_eqb k' k then Some v else get t k'.
Proof.
  induction t as [ | ks v0 | ks n' IH | cs bv IH] using node_ind'; intros k v k' W Hk.
  - reflexivity.
  - (* leaf *)
    destruct W as [W|W]; [discriminate|]. cbn in W. destruct W as [Hks _].
    cbn [set]. destruct (cp k ks) as [[c rk] rks] eqn:E.
    rewrite (set_leaf_eq _ _ _ _ _ _ _ E).
    destruct (cp_spec _ _ _ _ _ E) as (-> & -> & Hd).
    apply nibs_ok_app in Hk as [Hc Hrk]. apply nibs_ok_app in Hks as [_ Hrks].
    assert (T : forall r, (match rk, rks with [], [] => False | _, _ => True end) ->
                get (two rk v rks v0) r =
                if bytes_eqb r rk then Some v else if bytes_eqb r rks then Some v0 else None).
    { intros r Hn. apply get_two; try assumption. split; [exact Hd|].
      intros [-> ->]. exact Hn. }
    destruct rk as [|i r1]; destruct rks as [|i2 r2].
    + rewrite !app_nil_r, !get_leaf. destruct (bytes_eqb k' c); reflexivity.
    + destruct c as [|c0 c].
      * cbn [app]. rewrite T by exact I. rewrite get_leaf. reflexivity.
      * rewrite get_ext, get_leaf. destruct (strip (c0 :: c) k') as [r|] eqn:S.
        -- rewrite T by exact I. now rewrite !(strip_eqb _ _ _ _ S).
        -- now rewrite !(strip_none_eqb _ _ _ S).
    + destruct c as [|c0 c].
      * cbn [app]. rewrite T by exact I. rewrite get_leaf. reflexivity.
      * rewrite get_ext, get_leaf. destruct (strip (c0 :: c) k') as [r|] eqn:S.
        -- rewrite T by exact I. now rewrite !(strip_eqb _ _ _ _ S).
        -- now rewrite !(strip_none_eqb _ _ _ S).
    + destruct c as [|c0 c].
      * cbn [app]. rewrite T by exact I. rewrite get_leaf. reflexivity.
      * rewrite get_ext, get_leaf. destruct (strip (c0 :: c) k') as [r|] eqn:S.
        -- rewrite T by exact I. now rewrite !(strip_eqb _ _ _ _ S).
        -- now rewrite !(strip_none_eqb _ _ _ S).
  - (* extension *)
    destruct W as [W|W]; [discriminate|]. cbn in W. destruct W as (Hne & Hks & _ & Wn).
    destruct (cp k ks) as [[c rk] rks] eqn:E.
    rewrite (set_ext_eq _ _ _ _ _ _ _ E Hne).
    destruct (cp_spec _ _ _ _ _ E) as (-> & -> & Hd).
    apply nibs_ok_app in Hk as [Hc Hrk]. apply nibs_ok_app in Hks as [_ Hrks].
    destruct rks as [|j r'].
    + rewrite app_nil_r. rewrite !get_ext. destruct (strip c k') as [r|] eqn:S.
      * rewrite IH by (try assumption; now right). now rewrite (strip_eqb _ _ _ _ S).
      * now rewrite (strip_none_eqb _ _ _ S).
    + apply nibs_ok_cons in Hrks as [Lj _].
      assert (T := fun r => get_two_ext rk v j r' n' r Hrk Lj Hd).
      assert (Hneq : forall t, bytes_eqb (j :: t) rk = false).
      { intros t. destruct rk as [|i r1]; [reflexivity|]. cbn in Hd. rewrite eqb_cons.
        destruct (j =? i) eqn:F; [apply N.eqb_eq in F; congruence|reflexivity]. }
      destruct c as [|c0 c].
      * cbn [app]. rewrite T. rewrite (get_ext (j :: r')), strip_cons.
        destruct (bytes_eqb k' rk) eqn:F; [reflexivity|].
        destruct k' as [|j' t]; [reflexivity|]. rewrite (N.eqb_sym j j').
        destruct (j' =? j); [|reflexivity]. now rewrite get_ext.
      * rewrite !get_ext. destruct (strip (c0 :: c) k') as [r|] eqn:S.
        -- rewrite T. rewrite (strip_eqb _ _ _ _ S).
           destruct (bytes_eqb r rk) eqn:F; [reflexivity|].
           apply strip_some in S. subst k'.
           rewrite strip_app2, strip_cons. destruct r as [|j' t]; [reflexivity|].
           rewrite (N.eqb_sym j j'). destruct (j' =? j); [|reflexivity]. now rewrite get_ext.
        -- rewrite (strip_none_eqb _ _ _ S).
           destruct (strip ((c0 :: c) ++ j :: r') k') eqn:S2; [|reflexivity].
           apply strip_some in S2. rewrite <- app_assoc in S2.
           exfalso. eapply strip_none; eauto.
  - (* branch *)
    destruct W as [W|W]; [discriminate|]. apply wf_branch_iff in W as (L & _ & _ & Wc).
    destruct k as [|i r].
    + cbn [set]. destruct k' as [|j t]; [reflexivity|]. rewrite !get_branch. reflexivity.
    + apply nibs_ok_cons in Hk as [Li Hr]. rewrite set_branch.
      rewrite get_upd by lia. destruct k' as [|j t]; [reflexivity|].
      rewrite eqb_cons. destruct (j =? i) eqn:F; cbn [andb].
      * apply N.eqb_eq in F. subst j.
        rewrite Forall_forall in IH. rewrite IH.
        -- now rewrite get_branch.
        -- apply child_in. lia.
        -- now apply wfe_child.
        -- assumption.
      * reflexivity.
Qed.

(* ---------- collapse and prepend keep the content ---------- *)

Lemma get_prepend p n k :
  get (prepend p n) k = match strip p k with Some r => get n r | None => None end.
Proof.
  destruct n as [ | ks v | ks n' | cs bv]; cbn [prepend].
  - destruct (strip p k); reflexivity.
  - rewrite get_leaf. destruct (strip p k) as [r|] eqn:S.
    + rewrite get_leaf. now rewrite (strip_eqb _ _ _ _ S).
    + now rewrite (strip_none_eqb _ _ _ S).
  - rewrite get_ext. destruct (strip p k) as [r|] eqn:S.
    + rewrite get_ext. apply strip_some in S. subst k.
      destruct (strip ks r) as [r2|] eqn:S2.
      * apply strip_some in S2. subst r. rewrite app_assoc, strip_app. reflexivity.
      * destruct (strip (p ++ ks) (p ++ r)) eqn:S3; [|reflexivity].
        apply strip_some in S3. rewrite <- app_assoc in S3. apply app_inv_head in S3.
        exfalso. eapply strip_none; eauto.
    + destruct (strip (p ++ ks) k) eqn:S3; [|reflexivity].
      apply strip_some in S3. rewrite <- app_assoc in S3. exfalso. eapply strip_none; eauto.
  - now rewrite get_ext.
Qed.

(* what scan says about the children *)
Lemma scan_spec cs : forall i0,
  match scan cs i0 with
  | Some None => forall j, child cs j = Empty
  | Some (Some i) => i0 <= i /\ (N.to_nat (i - i0) < length cs)%nat /\
                     is_empty (child cs (i - i0)) = false /\
                     forall j, j <> i - i0 -> child cs j = Empty
  | None => (2 <= count_children cs)%nat
  end /\
  match scan cs i0 with
  | Some None => count_children cs = 0%nat
  | Some (Some _) => count_children cs = 1%nat
  | None => True
  end.
Proof.
  induction cs as [|c t IH]; intros i0; cbn [scan].
  - split; [intros j; reflexivity|reflexivity].
  - specialize (IH (i0 + 1)). destruct (is_empty c) eqn:Ec.
    + apply is_empty_true in Ec. subst c.
      destruct (scan t (i0 + 1)) as [[i|]|]; destruct IH as [IH1 IH2]; split; cbn [count_children is_empty]; try lia.
      * destruct IH1 as (A & B & C & D). repeat split; try (cbn [length]; lia).
        -- rewrite child_cons. destruct (i - i0 =? 0) eqn:F; [apply N.eqb_eq in F; lia|].
           replace (i - i0 - 1) with (i - (i0 + 1)) by lia. exact C.
        -- intros j Hj. rewrite child_cons. destruct (j =? 0) eqn:G; [reflexivity|].
           apply D. apply N.eqb_neq in G. lia.
      * intros j. rewrite child_cons. destruct (j =? 0); [reflexivity|apply IH1].
    + destruct (scan t (i0 + 1)) as [[i|]|]; destruct IH as [IH1 IH2]; split; cbn [count_children]; rewrite ?Ec; try lia; try exact I.
      * repeat split; try (cbn [length]; lia).
        -- replace (i0 - i0) with 0 by lia. exact Ec.
        -- intros j Hj. rewrite child_cons. replace (i0 - i0) with 0 in Hj by lia.
           destruct (j =? 0) eqn:F; [apply N.eqb_eq in F; congruence|apply IH1].
Qed.

Lemma get_collapse cs bv k : get (collapse cs bv) k = get (Branch cs bv) k.
Proof.
  unfold collapse. pose proof (scan_spec cs 0) as [S _].
  destruct (scan cs 0) as [[i|]|].
  - destruct bv; [reflexivity|]. destruct S as (_ & _ & _ & D). rewrite N.sub_0_r in D.
    rewrite get_prepend. destruct k as [|j r]; [reflexivity|]. cbn [strip].
    rewrite get_branch. destruct (i =? j) eqn:F.
    + apply N.eqb_eq in F. now subst.
    + apply N.eqb_neq in F. rewrite D by congruence. reflexivity.
  - destruct bv as [v|]; [|reflexivity]. rewrite get_leaf.
    destruct k as [|j r]; [reflexivity|]. rewrite get_branch, S. reflexivity.
  - reflexivity.
Qed.

(* ---------- get after delete ---------- *)

Lemma delete_aux_clean n k : snd (delete_aux n k) = false -> fst (delete_aux n k) = n.
Proof.
  destruct n as [ | ks v | ks n' | cs bv]; cbn [delete_aux].
  - reflexivity.
  - destruct (bytes_eqb k ks); cbn; congruence.
  - destruct (cp k ks) as [[c rk] rks]. destruct rks; [|reflexivity].
    destruct (delete_aux n' rk) as [nx d]. destruct d; cbn; congruence.
  - destruct k as [|i r].
    + destruct bv; cbn; congruence.
    + match goal with |- context [match ?X with Some _ => _ | None => _ end] => destruct X end; cbn; congruence.
Qed.

(* the child step of branch.delete *)
Definition del_child (cs : list node) (i : N) (r : nibs) : option (list node) :=
  if (N.to_nat i <? length cs)%nat then
    match child cs i with
    | Empty => None
    | c => let '(c', d) := delete_aux c r in if d then Some (upd cs i c') else None
    end
  else None.

Lemma delete_branch cs bv i r :
  delete_aux (Branch cs bv) (i :: r) =
  match del_child cs i r with
  | None => (Branch cs bv, false)
  | Some cs' => (collapse cs' bv, true)
  end.
Proof.
  cbn [delete_aux].
  match goal with |- match ?X with _ => _ end = _ => assert (E : X = del_child cs i r) end.
  { unfold del_child. revert i. induction cs as [|c t IH]; intros i.
    - reflexivity.
    - cbn [child upd length]. destruct (i =? 0) eqn:F.
      + apply N.eqb_eq in F. subst i. cbn. destruct c; try reflexivity.
      + rewrite IH. apply N.eqb_neq in F.
        replace (N.to_nat i <? S (length t))%nat with (N.to_nat (i - 1) <? length t)%nat
          by (destruct (N.to_nat (i - 1) <? length t)%nat eqn:G; symmetry; lia).
        destruct (N.to_nat (i - 1) <? length t)%nat; [|reflexivity].
        destruct (child t (i - 1)); try reflexivity;
          match goal with |- context [delete_aux ?a ?b] => destruct (delete_aux a b) as [c' d]; destruct d; reflexivity end. }
  rewrite E. reflexivity.
Qed.

Theorem get_delete t : forall k k',
  get (delete t k) k' = if bytes_eqb k' k then None else get t k'.
Proof.
  unfold delete.
  induction t as [ | ks v0 | ks n' IH | cs bv IH] using node_ind'; intros k k'.
  - cbn. destruct (bytes_eqb k' k); reflexivity.
  - cbn [delete_aux]. destruct (bytes_eqb k ks) eqn:E.
    + apply nibs_eqb_eq in E. subst. cbn [fst]. rewrite get_leaf. cbn [get].
      destruct (bytes_eqb k' ks); reflexivity.
    + cbn [fst]. rewrite get_leaf. destruct (bytes_eqb k' k) eqn:F; [|reflexivity].
      apply nibs_eqb_eq in F. subst. now rewrite E.
  - cbn [delete_aux]. pose proof (cp_third_nil k ks) as T.
    destruct (cp k ks) as [[c rk] rks]. destruct rks as [|y rks].
    + apply strip_some in T. subst k.
      specialize (IH rk). pose proof (delete_aux_clean n' rk) as C.
      destruct (delete_aux n' rk) as [nx d]. cbn [fst snd] in *. destruct d; cbn [fst].
      * rewrite get_prepend, get_ext. destruct (strip ks k') as [r|] eqn:S.
        -- rewrite IH. now rewrite (strip_eqb _ _ _ _ S).
        -- now rewrite (strip_none_eqb _ _ _ S).
      * rewrite C in IH by reflexivity. rewrite get_ext.
        destruct (strip ks k') as [r|] eqn:S.
        -- rewrite (strip_eqb _ _ _ _ S). rewrite <- IH. destruct (bytes_eqb r rk); reflexivity.
        -- now rewrite (strip_none_eqb _ _ _ S).
    + cbn [fst]. destruct (bytes_eqb k' k) eqn:F; [|reflexivity].
      apply nibs_eqb_eq in F. subst. rewrite get_ext, T. reflexivity.
  - destruct k as [|i r].
    + cbn [delete_aux]. destruct bv as [v|]; cbn [fst].
      * rewrite get_collapse. destruct k' as [|j t]; [reflexivity|]. now rewrite !get_branch.
      * destruct k' as [|j t]; [reflexivity|]. reflexivity.
    + rewrite delete_branch. unfold del_child.
      destruct (N.to_nat i <? length cs)%nat eqn:L.
      * assert (Hin : In (child cs i) cs) by (apply child_in; lia).
        rewrite Forall_forall in IH. specialize (IH _ Hin r).
        pose proof (delete_aux_clean (child cs i) r) as C.
        assert (G : forall t, get (fst (delete_aux (child cs i) r)) t =
                              if bytes_eqb t r then None else get (child cs i) t) by exact IH.
        destruct (child cs i) eqn:Ec.
        -- cbn [fst]. destruct k' as [|j t]; [reflexivity|]. rewrite eqb_cons, get_branch.
           destruct (j =? i) eqn:F; cbn; [|reflexivity]. apply N.eqb_eq in F. subst.
           rewrite Ec. destruct (bytes_eqb t r); reflexivity.
        -- rewrite <- Ec in *. destruct (delete_aux (child cs i) r) as [c' d]. cbn [fst snd] in *.
           destruct d; cbn [fst].
           ++ rewrite get_collapse, get_upd by lia. destruct k' as [|j t]; [reflexivity|].
              rewrite eqb_cons. destruct (j =? i) eqn:F; cbn [andb]; [apply N.eqb_eq in F; subst j; rewrite get_branch; apply G|reflexivity].
           ++ rewrite C in G by reflexivity. destruct k' as [|j t]; [reflexivity|].
              rewrite eqb_cons, get_branch. destruct (j =? i) eqn:F; cbn; [|reflexivity].
              apply N.eqb_eq in F. subst. rewrite <- G. destruct (bytes_eqb t r); reflexivity.
        -- rewrite <- Ec in *. destruct (delete_aux (child cs i) r) as [c' d]. cbn [fst snd] in *.
           destruct d; cbn [fst].
           ++ rewrite get_collapse, get_upd by lia. destruct k' as [|j t]; [reflexivity|].
              rewrite eqb_cons. destruct (j =? i) eqn:F; cbn [andb]; [apply N.eqb_eq in F; subst j; rewrite get_branch; apply G|reflexivity].
           ++ rewrite C in G by reflexivity. destruct k' as [|j t]; [reflexivity|].
              rewrite eqb_cons, get_branch. destruct (j =? i) eqn:F; cbn; [|reflexivity].
              apply N.eqb_eq in F. subst. rewrite <- G. destruct (bytes_eqb t r); reflexivity.
        -- rewrite <- Ec in *. destruct (delete_aux (child cs i) r) as [c' d]. cbn [fst snd] in *.
           destruct d; cbn [fst].
           ++ rewrite get_collapse, get_upd by lia. destruct k' as [|j t]; [reflexivity|].
              rewrite eqb_cons. destruct (j =? i) eqn:F; cbn [andb]; [apply N.eqb_eq in F; subst j; rewrite get_branch; apply G|reflexivity].
           ++ rewrite C in G by reflexivity. destruct k' as [|j t]; [reflexivity|].
              rewrite eqb_cons, get_branch. destruct (j =? i) eqn:F; cbn; [|reflexivity].
              apply N.eqb_eq in F. subst. rewrite <- G. destruct (bytes_eqb t r); reflexivity.
      * cbn [fst]. destruct k' as [|j t]; [reflexivity|]. rewrite eqb_cons, get_branch.
        destruct (j =? i) eqn:F; cbn; [|reflexivity]. apply N.eqb_eq in F. subst.
        rewrite child_out by lia. destruct (bytes_eqb t r); reflexivity.
Qed.
