(* Property C23 — The RLP codec round-trips every supported value and rejects malformed
   input.  This file holds only the property theorems; proofs are in Proofs_Rlp.v.
   [unmarshal]/[marshal] model codec.RLP.UnmarshalFromBytes/MarshalToBytes of the current
   code; [unmarshal_pre] is the decoder as it was before commit 9a1f237 (refuted variant). *)
From Goloop Require Import lib.Bytes Model_Rlp Proofs_Rlp.
From Coq Require Import Permutation.
Open Scope N_scope.

(* encode, then decode (with arbitrary trailing bytes): the value comes back in canonical
   form (map pairs in key order; nil pointer to a nil-absorbing type = pointer to that nil),
   the trailing bytes are returned untouched, the decoder is left clean *)
Theorem C23_roundtrip : forall t v rest,
  ty_ok t = true -> wtb t v = true -> len (marshal v ++ rest) <= max_int ->
  unmarshal t (marshal v ++ rest) = ROk (canon t v) (rest, 0).
Proof. exact unmarshal_roundtrip. Qed.
Print Assumptions C23_roundtrip.

Theorem C23_injective : forall t v1 v2,
  ty_ok t = true -> wtb t v1 = true -> wtb t v2 = true -> len (marshal v1) <= max_int ->
  marshal v1 = marshal v2 -> canon t v1 = canon t v2.
Proof. exact marshal_injective. Qed.
Print Assumptions C23_injective.

(* where nil and empty are kept apart, and the one place the format cannot *)
Theorem C23_nil_vs_empty :
  marshal (VBytes None) <> marshal (VBytes (Some [])) /\
  marshal (VList None) <> marshal (VList (Some [])) /\
  marshal (VMap None) <> marshal (VMap (Some [])) /\
  forall rest, len rest + 2 <= max_int ->
    unmarshal TBytes (marshal (VBytes None) ++ rest) = ROk (VBytes None) (rest, 0) /\
    unmarshal TBytes (marshal (VBytes (Some [])) ++ rest) = ROk (VBytes (Some [])) (rest, 0) /\
    forall t, ty_ok t = true ->
      unmarshal (TList t) (marshal (VList None) ++ rest) = ROk (VList None) (rest, 0) /\
      unmarshal (TList t) (marshal (VList (Some [])) ++ rest) = ROk (VList (Some [])) (rest, 0) /\
      (forall k, ty_ok (TMap k t) = true ->
         unmarshal (TMap k t) (marshal (VMap None) ++ rest) = ROk (VMap None) (rest, 0) /\
         unmarshal (TMap k t) (marshal (VMap (Some [])) ++ rest) = ROk (VMap (Some [])) (rest, 0)) /\
      (absorbs t = false ->
         unmarshal (TPtr t) (marshal (VPtr None) ++ rest) = ROk (VPtr None) (rest, 0)) /\
      (absorbs t = true ->
         marshal (VPtr None) = marshal (VPtr (Some (nilv t))) /\
         unmarshal (TPtr t) (marshal (VPtr None) ++ rest) = ROk (VPtr (Some (nilv t))) (rest, 0)).
Proof. exact nil_vs_empty. Qed.
Print Assumptions C23_nil_vs_empty.

(* maps: every order of the pairs encodes alike (marshal is a function of the value) *)
Theorem C23_deterministic : forall k ps ps',
  key_ty k = true -> (forall kv, In kv ps -> wtb k (fst kv) = true) ->
  NoDup (map fst ps) -> Permutation ps ps' ->
  marshal (VMap (Some ps)) = marshal (VMap (Some ps')).
Proof. exact marshal_map_perm. Qed.
Print Assumptions C23_deterministic.

(* an integer item whose payload denotes a number outside the target type is an error *)
Theorem C23_int_overflow_rejected : forall w sh mx v p bs r,
  read_bytes sh mx v = HOk bs r ->
  (in_int_range w (bytes_to_z bs) = false -> dec (TInt w) sh mx v p = RErr) /\
  ((bytes_to_z bs < 0 \/ 2 ^ Z.of_N w <= bytes_to_z bs)%Z -> dec (TUint w) sh mx v p = RErr) /\
  (bytes_to_z bs <> 0%Z -> bytes_to_z bs <> 1%Z -> dec TBool sh mx v p = RErr).
Proof. exact (int_overflow_rejected false). Qed.
Print Assumptions C23_int_overflow_rejected.

Theorem C23_int_in_range : forall w sh mx v p s,
  (forall z, dec (TInt w) sh mx v p = ROk (VInt z) s -> in_int_range w z = true) /\
  (forall n, dec (TUint w) sh mx v p = ROk (VUint n) s -> n < 2 ^ w).
Proof. exact int_in_range. Qed.
Print Assumptions C23_int_in_range.

(* whatever is accepted was read from a non-empty prefix of the input; the rest is a tail *)
Theorem C23_never_reads_past : forall t sh mx bs p v rest p',
  dec t sh mx bs p = ROk v (rest, p') -> exists used, used <> [] /\ bs = used ++ rest.
Proof. exact (dec_reads_prefix false). Qed.
Print Assumptions C23_never_reads_past.

(* the fuel of the model's loops (input length) is never exhausted *)
Theorem C23_fuel_sufficient : forall t sh mx bs p, dec t sh mx bs p <> RFuel.
Proof. exact (dec_no_fuel false). Qed.
Print Assumptions C23_fuel_sufficient.

(* strings: a declared size beyond what is left (short or long header), or a cut size field,
   is an error for every string-like type *)
Theorem C23_size_bound_bytes : forall sh mx tag r,
  (0x80 <= tag <= 0xB7 -> len r < tag - 0x80 -> read_bytes sh mx (tag :: r) = HErr) /\
  (0xB8 <= tag <= 0xBF -> forall n r', read_size (tag - 0xB7) r = Some (n, r') -> len r' < n ->
     read_bytes sh mx (tag :: r) = HErr) /\
  (0xB8 <= tag <= 0xBF -> read_size (tag - 0xB7) r = None -> read_bytes sh mx (tag :: r) = HErr).
Proof. exact size_bound_bytes. Qed.
Print Assumptions C23_size_bound_bytes.

Theorem C23_size_bound_stringlike : forall t sh mx v p,
  stringlike t = true -> read_bytes sh mx v = HErr -> dec t sh mx v p = RErr.
Proof. exact (stringlike_err false). Qed.
Print Assumptions C23_size_bound_stringlike.

(* lists: a declared payload size beyond what is left is an error for slices, arrays,
   structs and maps — never a partial value, never "nil" *)
Theorem C23_size_bound_list : forall t sh mx v p sz r,
  container t = true -> read_list sh v = HOk sz r -> len r < sz ->
  dec t sh mx v p = RErr.
Proof. exact size_bound_list. Qed.
Print Assumptions C23_size_bound_list.

(* byte budget (maxSB): a long-form string announcing more than the budget is an error
   whatever follows it, and inside a list — whatever size the list header itself claims —
   the budget is still at most the caller's (the input length for UnmarshalFromBytes) *)
Theorem C23_string_over_budget : forall sh mx tag r n r',
  0xB8 <= tag <= 0xBF -> read_size (tag - 0xB7) r = Some (n, r') -> mx < n ->
  read_bytes sh mx (tag :: r) = HErr.
Proof. exact string_over_budget. Qed.
Print Assumptions C23_string_over_budget.

Theorem C23_size_bound_nested : forall t' sh mx v p sz r tag r1 n r2,
  stringlike t' = true -> read_list sh v = HOk sz r ->
  child_view sz r = tag :: r1 -> 0xB8 <= tag <= 0xBF ->
  read_size (tag - 0xB7) r1 = Some (n, r2) -> mx < n ->
  dec (TList t') sh mx v p = RErr.
Proof. exact (size_bound_nested false). Qed.
Print Assumptions C23_size_bound_nested.

(* an accepted input leaves no un-closed child reader in the (pooled) decoder *)
Theorem C23_decoder_left_clean : forall t bs x rest p,
  unmarshal t bs = ROk x (rest, p) -> p = 0.
Proof. exact unmarshal_clean. Qed.
Print Assumptions C23_decoder_left_clean.

(* the decoder before commit 9a1f237 violates the last two statements *)
Theorem C23_size_bound_prefix_variant_refuted :
  exists t bs sz r x rest p,
    read_list false bs = HOk sz r /\ len r < sz /\
    unmarshal_pre t bs = ROk x (rest, p) /\ 0 < p.
Proof. exact prefix_variant_refuted. Qed.
Print Assumptions C23_size_bound_prefix_variant_refuted.
