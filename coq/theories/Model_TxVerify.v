(* Model_TxVerify.v — who may authorise a v3 transaction:
   service/transaction/transaction_v3.go Verify / verifySignature,
   common/signature.go (RecoverPublicKey), common/crypto/signature.go
   (ParseSignature, ParseSignatureVRS, HasV, SerializeRS/RSV/VRS,
   RecoverPublicKey), common/address.go NewAccountAddressFromPublicKey.

   A crypto.Signature is its internal byte string: 65 bytes [V+27|R|S] when it
   has V, 64 bytes [R|S] otherwise (type tsig of Model_TxSerialize, which also
   holds ParseSignature = parse_signature, SerializeRSV = serialize_rsv and the
   two flag conversions).

   External primitives are Section variables: H (SHA3-256) and
   recover (ecdsa.RecoverCompact of decred/secp256k1: internal 65-byte
   signature, message hash -> uncompressed public key, or failure).
   No proofs in this file. *)
From Goloop Require Import lib.Bytes Model_Address Model_TxSerialize.
Open Scope N_scope.

(* ParseSignatureVRS: 65 bytes [V|R|S] *)
Definition parse_signature_vrs (b : bytes) : option tsig :=
  if Nat.eqb (length b) 65 then
    match b with
    | v :: rs => Some (SigV (flag_to_ecdsa v :: rs))
    | [] => None
    end
  else None.

Definition has_v (s : tsig) : bool := match s with SigV _ => true | _ => false end.

(* SerializeRS *)
Definition serialize_rs (s : tsig) : option bytes :=
  match s with
  | SigRS rs => Some rs
  | SigV (_ :: rs) => Some rs
  | _ => None
  end.

(* SerializeVRS *)
Definition serialize_vrs (s : tsig) : option bytes :=
  match s with
  | SigV (v :: rs) => Some (flag_to_compat v :: rs)
  | _ => None
  end.

Inductive verdict := VOk | VNoKey | VMismatch | VInvalidValue.

Section Verify.
  Variable H : bytes -> bytes.
  Variable recover : bytes -> bytes -> option bytes.

  (* common.Signature.RecoverPublicKey -> crypto.Signature.RecoverPublicKey *)
  Definition recover_public_key (s : tsig) (hash : bytes) : option bytes :=
    match s with
    | SigNone => None                                   (* "NoSignature" *)
    | SigRS _ => None                                   (* "signature has no V value" *)
    | SigV vrs =>
        if is_nil hash || Nat.ltb 32 (length hash) then None   (* "message hash is illegal" *)
        else recover vrs hash
    end.

  (* common.NewAccountAddressFromPublicKey: last 20 bytes of SHA3(pk[1:]) *)
  (* (an empty key cannot come out of SerializeUncompressed; the code would panic) *)
  Definition addr_of_pub (pk : bytes) : option address :=
    match pk with
    | [] => None
    | _ :: body => let d := H body in Some (set_type_and_id false (skipn (length d - 20) d))
    end.

  (* transactionV3.verifySignature *)
  Definition verify_signature (from : address) (s : tsig) (id : bytes) : verdict :=
    match recover_public_key s id with
    | None => VNoKey
    | Some pk =>
        match addr_of_pub pk with
        | Some a => if addr_eqb a from then VOk else VMismatch
        | None => VNoKey
        end
    end.

  (* transactionV3.Verify: the value / step limit / data checks come first
     (data_ok stands for the data-size and per-dataType checks) *)
  Definition verify (f : txdata) (data_ok : bool) (id : bytes) : verdict :=
    if match t_value f with Some v => (v <? 0)%Z | None => false end then VInvalidValue
    else if (t_stepLimit f <? 0)%Z then VInvalidValue
    else if negb data_ok then VInvalidValue
    else verify_signature (t_from f) (t_sig f) id.

End Verify.
