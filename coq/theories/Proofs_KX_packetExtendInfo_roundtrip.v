(* Proofs_KX_packetExtendInfo_roundtrip.v -- packetExtendInfo.hint / .len invert newPacketExtendInfo
   Split out of Proofs_Kernels.v: this file imports ONLY the generated kernel(s)
   gen/K_newPacketExtendInfo.v, gen/K_packetExtendInfoHint.v, gen/K_packetExtendInfoLen.v, so an edit of another kernel's Go source cannot break it.
   Style: stdlib only; arithmetic closed by lia with the euclidean-division hook. *)
From Coq Require Import ZArith Bool String List Lia.
From Coq Require Import ZifyBool.
From Goloop Require Import lib.GoInt Proofs_K_tactics Proofs_K_newPacketExtendInfo Proofs_K_packetExtendInfoHint Proofs_K_packetExtendInfoLen.
From Goloop.gen Require Import K_newPacketExtendInfo K_packetExtendInfoHint K_packetExtendInfoLen.
Import ListNotations.
Local Open Scope Z_scope.

Ltac Zify.zify_post_hook ::= Z.to_euclidean_division_equations.

Lemma packetExtendInfo_roundtrip hint len :
  0 <= hint <= 63 ->
  packetExtendInfoHint (newPacketExtendInfo hint len) = hint /\
  packetExtendInfoLen (newPacketExtendInfo hint len) = len mod 1024.
Proof.
  intros Hh. rewrite newPacketExtendInfo_spec by lia.
  unfold packetExtendInfoHint, packetExtendInfoLen. cbv zeta.
  rewrite shiftr_div by lia.
  change 63 with (2 ^ 6 - 1). change 1023 with (2 ^ 10 - 1).
  rewrite !land_ones_mod by lia. change (2 ^ 10) with 1024. change (2 ^ 6) with 64.
  split; [rewrite wrap_u8_small by lia|]; lia.
Qed.
