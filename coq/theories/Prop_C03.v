(* Property C03 — the write-ahead log recovers exactly the durable prefix after
   any crash.  Only the property theorems; proofs are in Proofs_Wal.v.

   Every theorem holds for EVERY checksum function crc (no collision
   hypothesis: a torn tail is a strict prefix of a genuine frame, so either its
   header is incomplete or its length field is genuine and the payload short —
   it can never parse as a record), for all histories h of
   Append / Flush / Sync / Shift / Crash k / Recover, all crash prefixes k, and
   all payloads with length + 8 < 2^32 (hist_ok).

   run crc h = (st, g): st the model state after h, g the bookkeeping
   (logl = logical log, durable g = its prefix covered by a completed
   Sync/Shift/Close or returned by a recovery; must_survive = logl for a running
   writer — Recover closes it first — and durable g after a crash). *)
From Goloop Require Import lib.Bytes Model_Wal Proofs_Wal.

(* The records returned by a recovery are a prefix of the records appended so
   far (in order, hence none is corrupted or invented), contain every record
   that had to survive, and the read ends with EOF or UnexpectedEOF — never
   with a checksum error. *)
Theorem C03_recover_prefix : forall crc h,
  hist_ok h -> forall st g, run crc h = (st, g) ->
  forall st' recs e, step crc st Recover = (st', Some (recs, e)) ->
    prefix recs (logl g) /\ prefix (must_survive st g) recs /\ (e = REof \/ e = RUnexpected).
Proof. exact recover_prefix. Qed.
Print Assumptions C03_recover_prefix.

(* After Recover the bytes on disk are exactly the frames of the returned
   records, every segment file holds a whole number of frames, the writer is
   open with an empty buffer, and whatever is appended next parses after them. *)
Theorem C03_recover_clean : forall crc h,
  hist_ok h -> forall st g, run crc h = (st, g) ->
  forall st' recs e, step crc st Recover = (st', Some (recs, e)) ->
    stream (disk_of st') = frames crc recs /\ buf st' = [] /\ up st' = true /\
    Forall (whole crc) (disk_of st') /\
    forall more, Forall payload_ok more ->
      read_stream crc (stream (disk_of st') ++ frames crc more)
      = (recs ++ more, REof, N.of_nat (length (frames crc (recs ++ more)))).
Proof. exact recover_clean. Qed.
Print Assumptions C03_recover_clean.

(* Any number of crash / recover / append / sync rounds: the durable prefix
   never shrinks ... *)
Theorem C03_cycles_durable_monotone : forall crc h1 h2,
  hist_ok (h1 ++ h2) ->
  prefix (durable (snd (run crc h1))) (durable (snd (run crc (h1 ++ h2)))).
Proof. exact cycles_durable_monotone. Qed.
Print Assumptions C03_cycles_durable_monotone.

(* ... everything that was durable at some point is returned, in order, by
   every later recovery ... *)
Theorem C03_cycles : forall crc h1 h2,
  hist_ok (h1 ++ h2) -> forall st g, run crc (h1 ++ h2) = (st, g) ->
  forall st' recs e, step crc st Recover = (st', Some (recs, e)) ->
    prefix (durable (snd (run crc h1))) recs.
Proof. exact cycles_no_loss. Qed.
Print Assumptions C03_cycles.

(* ... and, without bookkeeping in the statement: a record appended by a
   running writer (also after earlier recoveries, h1 is arbitrary) and then
   covered by a Sync or Shift is returned by every later recovery. *)
Theorem C03_cycles_returned : forall crc h1 p h2 o h3,
  hist_ok (h1 ++ Append p :: h2 ++ o :: h3) ->
  up (fst (run crc h1)) = true -> Forall quiet h2 -> (o = Sync \/ o = Shift) ->
  forall st g, run crc (h1 ++ Append p :: h2 ++ o :: h3) = (st, g) ->
  forall st' recs e, step crc st Recover = (st', Some (recs, e)) -> In p recs.
Proof. exact cycles_returned. Qed.
Print Assumptions C03_cycles_returned.
