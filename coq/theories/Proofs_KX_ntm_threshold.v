(* Proofs_KX_ntm_threshold.v -- the BTP proof threshold is the complement of the consensus threshold
   Split out of Proofs_Kernels.v: this file imports ONLY the generated kernel(s)
   gen/K_ntmNotEnoughParts.v, gen/K_hasOverTwoThirds.v, so an edit of another kernel's Go source cannot break it.
   Style: stdlib only; arithmetic closed by lia with the euclidean-division hook. *)
From Coq Require Import ZArith Bool String List Lia.
From Coq Require Import ZifyBool.
From Goloop Require Import lib.GoInt Proofs_K_tactics Proofs_K_ntmNotEnoughParts Proofs_K_hasOverTwoThirds.
From Goloop.gen Require Import K_ntmNotEnoughParts K_hasOverTwoThirds.
Import ListNotations.
Local Open Scope Z_scope.

Ltac Zify.zify_post_hook ::= Z.to_euclidean_division_equations.

(* the BTP proof threshold is the complement of the consensus threshold *)
Lemma ntm_threshold_is_consensus_threshold valid n :
  0 <= n <= half_i64 ->
  ntmNotEnoughParts valid n = negb (hasOverTwoThirds valid n).
Proof.
  intros Hn. apply bool_eq_iff. rewrite negb_true_iff.
  rewrite ntmNotEnoughParts_spec by lia.
  destruct (hasOverTwoThirds valid n) eqn:E.
  - apply hasOverTwoThirds_spec in E; [|lia]. split; [lia|discriminate].
  - split; [reflexivity|]. intros _.
    destruct (Z_le_gt_dec (3 * valid) (2 * n)); [assumption|].
    assert (hasOverTwoThirds valid n = true) by (apply hasOverTwoThirds_spec; lia). congruence.
Qed.
