(* Proofs_TrieWf.v — set and delete preserve the normal form. *)
From Goloop Require Import lib.Bytes Model_RlpBytes Model_Trie Proofs_Trie Proofs_TrieMap.
From Coq Require Import ZifyBool ZifyN ZifyNat.
Open Scope N_scope.

Lemma wf_leaf ks v : nibs_ok ks = true -> v <> [] -> wf_node (Leaf ks v).
Proof. cbn. tauto. Qed.

Lemma count_upd_empty16 i X :
  i < 16 -> is_empty X = false -> count_children (upd empty16 i X) = 1%nat.
Proof.
  intros L E. pose proof (count_upd empty16 i X (len16 i L)) as H.
  rewrite child_empty16, E, count_empty16 in H. cbn [is_empty] in H. lia.
Qed.

Lemma count_upd2_empty16 i X i2 Y :
  i < 16 -> i2 < 16 -> i <> i2 -> is_empty X = false -> is_empty Y = false ->
  count_children (upd (upd empty16 i X) i2 Y) = 2%nat.
Proof.
  intros L L2 Hne E E2.
  assert (Hl : (N.to_nat i2 < length (upd empty16 i X))%nat) by (rewrite upd_length; now apply len16).
  pose proof (count_upd (upd empty16 i X) i2 Y Hl) as H.
  rewrite child_upd_other, child_empty16, E2, (count_upd_empty16 i X L E) in H by assumption.
  cbn [is_empty] in H. lia.
Qed.

Lemma some_neq_nil (v : bytes) : v <> [] -> Some v <> Some [].
Proof. congruence. Qed.

Lemma wf_two rk v rks v0 :
  nibs_ok rk = true -> nibs_ok rks = true -> compat rk rks -> v <> [] -> v0 <> [] ->
  wf_node (two rk v rks v0).
Proof.
  intros Hk Hks [Hd Hne] Hv Hv0. unfold two.
  destruct rk as [|i r1]; destruct rks as [|i2 r2]; cbn [leaf_at].
  - exfalso. apply Hne. now split.
  - apply nibs_ok_cons in Hks as [L2 Hr2]. apply wf_branch_iff. repeat split.
    + now rewrite upd_length.
    + now apply some_neq_nil.
    + unfold occupants. rewrite count_upd_empty16 by (auto; reflexivity). lia.
    + apply Forall_upd; [apply Forall_wfe_empty16|]. right. now apply wf_leaf.
  - apply nibs_ok_cons in Hk as [L1 Hr1]. apply wf_branch_iff. repeat split.
    + now rewrite upd_length.
    + now apply some_neq_nil.
    + unfold occupants. rewrite count_upd_empty16 by (auto; reflexivity). lia.
    + apply Forall_upd; [apply Forall_wfe_empty16|]. right. now apply wf_leaf.
  - apply nibs_ok_cons in Hk as [L1 Hr1]. apply nibs_ok_cons in Hks as [L2 Hr2]. cbn in Hd.
    apply wf_branch_iff. repeat split.
    + now rewrite !upd_length.
    + discriminate.
    + unfold occupants. rewrite count_upd2_empty16 by (auto; reflexivity). lia.
    + apply Forall_upd; [apply Forall_upd; [apply Forall_wfe_empty16|]|]; right; now apply wf_leaf.
Qed.

Lemma two_is_branch rk v rks v0 : is_branch (two rk v rks v0) = true.
Proof. unfold two. destruct rk, rks; reflexivity. Qed.

Lemma wf_oldx r' n' :
  nibs_ok r' = true -> is_branch n' = true -> wf_node n' -> wf_node (oldx r' n').
Proof.
  intros Hr Hb W. destruct r' as [|x r']; [exact W|]. cbn [oldx wf_node]. repeat split; auto. discriminate.
Qed.

Lemma wf_two_ext rk v j r' n' :
  nibs_ok rk = true -> j < 16 -> heads_differ rk (j :: r') -> v <> [] ->
  nibs_ok r' = true -> is_branch n' = true -> wf_node n' ->
  wf_node (two_ext rk v j r' n').
Proof.
  intros Hk Lj Hd Hv Hr Hb W. pose proof (wf_oldx r' n' Hr Hb W) as Wo.
  pose proof (wf_node_nonempty _ Wo) as Eo.
  unfold two_ext. destruct rk as [|i r1]; cbn [leaf_at].
  - apply wf_branch_iff. repeat split.
    + now rewrite upd_length.
    + now apply some_neq_nil.
    + unfold occupants. rewrite count_upd_empty16 by auto. lia.
    + apply Forall_upd; [apply Forall_wfe_empty16|]. now right.
  - apply nibs_ok_cons in Hk as [Li Hr1]. cbn in Hd.
    apply wf_branch_iff. repeat split.
    + now rewrite !upd_length.
    + discriminate.
    + unfold occupants. rewrite count_upd2_empty16 by (auto; reflexivity). lia.
    + apply Forall_upd; [apply Forall_upd; [apply Forall_wfe_empty16|]|]; right; auto. now apply wf_leaf.
Qed.

Lemma two_ext_is_branch rk v j r' n' : is_branch (two_ext rk v j r' n') = true.
Proof. unfold two_ext. destruct rk; reflexivity. Qed.

Lemma set_is_branch n k v : is_branch n = true -> is_branch (set n k v) = true.
Proof.
  destruct n; try discriminate. intros _. destruct k; [reflexivity|]. now rewrite set_branch.
Qed.

Lemma cons_neq_nil {A} (x : A) l : x :: l <> [].
Proof. discriminate. Qed.

Theorem set_wf_node t : forall k v,
  wfe t -> nibs_ok k = true -> v <> [] -> wf_node (set t k v).
Proof.
  induction t as [ | ks v0 | ks n' IH | cs bv IH] using node_ind'; intros k v W Hk Hv.
  - cbn. tauto.
  - destruct W as [W|W]; [discriminate|]. cbn in W. destruct W as [Hks Hv0].
    cbn [set]. destruct (cp k ks) as [[c rk] rks] eqn:E.
    rewrite (set_leaf_eq _ _ _ _ _ _ _ E).
    destruct (cp_spec _ _ _ _ _ E) as (Ek & Eks & Hd).
    pose proof Hk as Hk'. pose proof Hks as Hks'.
    rewrite Ek in Hk'. rewrite Eks in Hks'.
    apply nibs_ok_app in Hk' as [Hc Hrk]. apply nibs_ok_app in Hks' as [_ Hrks].
    assert (T : (match rk, rks with [], [] => False | _, _ => True end) -> wf_node (two rk v rks v0)).
    { intros Hn. apply wf_two; try assumption. split; [exact Hd|]. intros [-> ->]. exact Hn. }
    destruct rk as [|i r1]; destruct rks as [|i2 r2].
    + now apply wf_leaf.
    + destruct c as [|c0 c]; [now apply T|]. cbn [wf_node]. split; [discriminate|]. split; [exact Hc|]. split; [apply two_is_branch|]. now apply T.
    + destruct c as [|c0 c]; [now apply T|]. cbn [wf_node]. split; [discriminate|]. split; [exact Hc|]. split; [apply two_is_branch|]. now apply T.
    + destruct c as [|c0 c]; [now apply T|]. cbn [wf_node]. split; [discriminate|]. split; [exact Hc|]. split; [apply two_is_branch|]. now apply T.
  - destruct W as [W|W]; [discriminate|]. cbn in W. destruct W as (Hne & Hks & Hb & Wn).
    destruct (cp k ks) as [[c rk] rks] eqn:E.
    rewrite (set_ext_eq _ _ _ _ _ _ _ E Hne).
    destruct (cp_spec _ _ _ _ _ E) as (Ek & Eks & Hd).
    pose proof Hk as Hk'. pose proof Hks as Hks'.
    rewrite Ek in Hk'. rewrite Eks in Hks'.
    apply nibs_ok_app in Hk' as [Hc Hrk]. apply nibs_ok_app in Hks' as [_ Hrks].
    destruct rks as [|j r'].
    + cbn [wf_node]. repeat split; auto.
      * now apply set_is_branch.
      * apply IH; auto. now right.
    + apply nibs_ok_cons in Hrks as [Lj Hr'].
      assert (T : wf_node (two_ext rk v j r' n')) by (apply wf_two_ext; auto).
      destruct c as [|c0 c]; [exact T|]. cbn [wf_node]. split; [discriminate|]. split; [exact Hc|]. split; [apply two_ext_is_branch|]. exact T.
  - destruct W as [W|W]; [discriminate|]. apply wf_branch_iff in W as (L & Hbv & Hocc & Wc).
    destruct k as [|i r].
    + cbn [set]. apply wf_branch_iff. repeat split; auto.
      * now apply some_neq_nil.
      * unfold occupants in *. destruct bv; lia.
    + apply nibs_ok_cons in Hk as [Li Hr]. rewrite set_branch.
      assert (Hin : In (child cs i) cs) by (apply child_in; lia).
      rewrite Forall_forall in IH.
      assert (Ws : wf_node (set (child cs i) r v)) by (apply IH; auto; now apply wfe_child).
      apply wf_branch_iff. repeat split; auto.
      * now rewrite upd_length.
      * pose proof (count_upd cs i (set (child cs i) r v)) as C.
        rewrite (wf_node_nonempty _ Ws) in C. unfold occupants in *.
        destruct (is_empty (child cs i)); destruct bv; lia.
      * apply Forall_upd; auto. now right.
Qed.

Theorem set_wf t k v : wf t -> nibs_ok k = true -> v <> [] -> wf (set t k v).
Proof. intros W Hk Hv. right. now apply set_wf_node. Qed.

(* ---------- delete ---------- *)

Lemma wf_ext ks n :
  ks <> [] -> nibs_ok ks = true -> is_branch n = true -> wf_node n -> wf_node (Ext ks n).
Proof. intros. cbn [wf_node]. auto. Qed.

Lemma prepend_wf p n : p <> [] -> nibs_ok p = true -> wf_node n -> wf_node (prepend p n).
Proof.
  intros Hp Hok W. destruct n as [ | ks v | ks n' | cs bv]; cbn [prepend].
  - destruct W.
  - cbn in W. destruct W. apply wf_leaf; auto. apply nibs_ok_app. tauto.
  - cbn in W. destruct W as (A & B & C & D). cbn [wf_node]. repeat split; auto.
    + destruct p; [congruence|discriminate].
    + apply nibs_ok_app. tauto.
  - apply wf_ext; auto.
Qed.

Lemma collapse_wf cs bv :
  length cs = 16%nat -> Forall wfe cs -> bv <> Some [] -> (1 <= occupants cs bv)%nat ->
  wf_node (collapse cs bv).
Proof.
  intros L Wc Hbv Hocc. unfold collapse. pose proof (scan_spec cs 0) as [S1 S2].
  destruct (scan cs 0) as [[i|]|].
  - destruct S1 as (_ & Li & Ne & _). rewrite N.sub_0_r in *.
    destruct bv as [v|].
    + apply wf_branch_iff. repeat split; auto. unfold occupants. lia.
    + apply prepend_wf.
      * discriminate.
      * cbn. rewrite andb_true_r. apply nib_ok_lt. lia.
      * destruct (wfe_child cs i Wc) as [E|W]; [|exact W]. rewrite E in Ne. discriminate.
  - unfold occupants in Hocc. destruct bv as [v|]; [|lia].
    apply wf_leaf; [reflexivity|congruence].
  - apply wf_branch_iff. repeat split; auto. unfold occupants. lia.
Qed.

Theorem delete_wfe t : forall k, wfe t -> wfe (delete t k).
Proof.
  unfold delete.
  induction t as [ | ks v0 | ks n' IH | cs bv IH] using node_ind'; intros k W.
  - now left.
  - cbn [delete_aux]. destruct (bytes_eqb k ks); [now left|exact W].
  - cbn [delete_aux]. destruct (cp k ks) as [[c rk] rks]. destruct rks; [|exact W].
    destruct W as [W|W]; [discriminate|]. pose proof W as W0. cbn in W. destruct W as (Hne & Hks & Hb & Wn).
    specialize (IH rk (or_intror Wn)).
    destruct (delete_aux n' rk) as [nx d]. cbn [fst] in *. destruct d; cbn [fst]; [|now right].
    destruct IH as [->|Wx]; [now left|]. right. now apply prepend_wf.
  - destruct W as [W|W]; [discriminate|]. pose proof W as W0.
    apply wf_branch_iff in W as (L & Hbv & Hocc & Wc).
    destruct k as [|i r].
    + cbn [delete_aux]. destruct bv as [v|]; cbn [fst]; [|now right].
      right. apply collapse_wf; auto; [discriminate|]. unfold occupants in *. lia.
    + rewrite delete_branch. unfold del_child.
      destruct (N.to_nat i <? length cs)%nat eqn:Li; [|now right].
      assert (Hin : In (child cs i) cs) by (apply child_in; lia).
      rewrite Forall_forall in IH. specialize (IH _ Hin r (wfe_child cs i Wc)).
      pose proof (count_upd cs i (fst (delete_aux (child cs i) r))) as C.
      destruct (child cs i) eqn:Ec; [now right| | | ];
        rewrite <- Ec in *; destruct (delete_aux (child cs i) r) as [c' d]; cbn [fst] in *;
        (destruct d; cbn [fst]; [|now right]);
        right; apply collapse_wf; auto;
        try (now rewrite upd_length); try (now apply Forall_upd);
        unfold occupants in *; destruct (is_empty (child cs i)); destruct (is_empty c'); destruct bv; lia.
Qed.

Theorem delete_wf t k : wf t -> wf (delete t k).
Proof. apply delete_wfe. Qed.
