(* Property C05 — commit certificates are accepted only with more than two
   thirds of distinct valid signatures.
   Only statements here; proofs are in Proofs_CommitVoteList.v / Proofs_Quorum.v.
   `recover` (secp256k1 recovery + address derivation over the hash of the vote
   bytes) and the address type are universally quantified. *)
From Goloop Require Import lib.Bytes Model_Quorum Proofs_Quorum Model_CommitVoteList Proofs_CommitVoteList.
From Goloop Require Import Link_C05.
Open Scope nat_scope.

(* enoughVote(voted, voters) with voters > 0 is exactly 3*voted > 2*voters *)
Theorem C05_threshold : forall voted voters,
  voters <> 0 -> (enough voted voters = true <-> 3 * voted > 2 * voters).
Proof. exact enough_spec. Qed.
Print Assumptions C05_threshold.

(* VerifyBlock accepts a list for (height, round, block id, part-set id) iff
   every item's signature recovers — against the PRECOMMIT message for exactly
   that height, round, block id and part-set id and the item's own timestamp —
   to a member of the validator list, the members are pairwise distinct, and
   3 * #items > 2 * #validators. *)
Theorem C05_accept_iff :
  forall (sigT addrT : Type) (addr_eqb : addrT -> addrT -> bool)
         (recover : vote_msg -> sigT -> option addrT),
    (forall a b, addr_eqb a b = true <-> a = b) ->
  forall height round bid ps (vals : list addrT) (items : list (Z * sigT)),
    height <> 0%Z -> vals <> [] -> NoDup vals ->
    (accepted (verify_block addr_eqb recover height round bid ps (Some vals) items) <->
     (exists signers,
        Forall2 (signed_by_member recover (item_msg height round bid ps) vals) items signers /\
        NoDup signers) /\
     3 * length items > 2 * length vals).
Proof. exact @accept_iff. Qed.
Print Assumptions C05_accept_iff.

(* the returned []bool has one flag per validator, flags exactly the positions
   of the signers, and the number of flags equals the number of items *)
Theorem C05_voted_flags :
  forall (sigT addrT : Type) (addr_eqb : addrT -> addrT -> bool)
         (recover : vote_msg -> sigT -> option addrT),
  forall height round bid ps (vals : list addrT) (items : list (Z * sigT)) v,
    height <> 0%Z ->
    verify_block addr_eqb recover height round bid ps (Some vals) items = Accept v ->
    length v = length vals /\
    count_true v = length items /\
    forall i, nth_error v i = Some true <->
              exists it, In it items /\
                signer_index addr_eqb recover (item_msg height round bid ps) vals it = Some i.
Proof. exact @accept_voted. Qed.
Print Assumptions C05_voted_flags.

(* two accepted certificates over one validator list have a common signer *)
Theorem C05_certificates_intersect :
  forall (sigT addrT : Type) (addr_eqb : addrT -> addrT -> bool)
         (recover : vote_msg -> sigT -> option addrT),
  forall (vals : list addrT) h1 r1 b1 p1 items1 v1 h2 r2 b2 p2 items2 v2,
    h1 <> 0%Z -> h2 <> 0%Z -> vals <> [] ->
    verify_block addr_eqb recover h1 r1 b1 p1 (Some vals) items1 = Accept v1 ->
    verify_block addr_eqb recover h2 r2 b2 p2 (Some vals) items2 = Accept v2 ->
    exists i, nth_error v1 i = Some true /\ nth_error v2 i = Some true.
Proof. exact @certs_intersect. Qed.
Print Assumptions C05_certificates_intersect.

(* height 0 or a nil validator list: exactly the empty list is accepted *)
Theorem C05_genesis :
  forall (sigT addrT : Type) (addr_eqb : addrT -> addrT -> bool)
         (recover : vote_msg -> sigT -> option addrT),
  forall height round bid ps (vals : option (list addrT)) (items : list (Z * sigT)),
    (height = 0%Z \/ vals = None) ->
    forall v, verify_block addr_eqb recover height round bid ps vals items = Accept v <->
              items = [] /\ v = [].
Proof. exact @genesis_accept. Qed.
Print Assumptions C05_genesis.

(* a validator list without members: exactly the empty list is accepted *)
Theorem C05_no_validators :
  forall (sigT addrT : Type) (addr_eqb : addrT -> addrT -> bool)
         (recover : vote_msg -> sigT -> option addrT),
  forall height round bid ps (items : list (Z * sigT)),
    height <> 0%Z ->
    forall v, verify_block addr_eqb recover height round bid ps (Some []) items = Accept v <->
              items = [] /\ v = [].
Proof. exact @no_validators_accept. Qed.
Print Assumptions C05_no_validators.

(* with the signature ground truth of the correspondence run: accepted iff every
   item is a correct signature of a distinct validator key over exactly the
   precommit message of this block, and there are enough of them *)
Theorem C05_accept_iff_ground_truth :
  forall height round bid ps (vals : list nat) (items : list (Z * gsig)),
    height <> 0%Z -> vals <> [] -> NoDup vals ->
    (accepted (gt_verify_block height round bid ps (Some vals) items) <->
     (exists ks, Forall2 (gt_signed (item_msg height round bid ps) vals) items ks /\ NoDup ks) /\
     3 * length items > 2 * length vals).
Proof. exact gt_accept_iff. Qed.
Print Assumptions C05_accept_iff_ground_truth.

(* the fast-sync path (consensus.processBlock: toVoteList + precommit vote set)
   consumes a block iff every item of its list is a validator's precommit
   signature for exactly this block, the DISTINCT signer positions are more
   than two thirds of the validators, and the part-set id voted for is the
   block's own.  Unlike VerifyBlock it tolerates a repeated signer (the
   repetition does not count). *)
Theorem C05_fastsync_accept_iff :
  forall (sigT addrT : Type) (addr_eqb : addrT -> addrT -> bool)
         (recover : vote_msg -> sigT -> option addrT),
  forall height round bid ps real (vals : list addrT) (items : list (Z * sigT)),
    fs_accept addr_eqb recover height round bid ps real vals items = true <->
    exists idxs distinct,
      Forall2 (fun it i => signer_index addr_eqb recover (item_msg height round bid ps) vals it = Some i)
              items idxs /\
      NoDup distinct /\ (forall i, In i distinct <-> In i idxs) /\
      3 * length distinct > 2 * length vals /\
      ps_id_matches ps real = true.
Proof. exact @fs_accept_iff. Qed.
Print Assumptions C05_fastsync_accept_iff.

(* VerifyBlock on one decoded list object, called again for another block: the
   k-th verdict is the verdict of a fresh call for the k-th block (a list
   accepted for one block is not thereby accepted for another) *)
Theorem C05_verify_stateless :
  forall (sigT addrT : Type) (addr_eqb : addrT -> addrT -> bool)
         (recover : vote_msg -> sigT -> option addrT),
  forall round ps vals (items : list (Z * sigT)) blocks k h bid,
    nth_error blocks k = Some (h, bid) ->
    nth_error (verify_session addr_eqb recover round ps vals items blocks) k =
    Some (verify_block addr_eqb recover h round bid ps vals items).
Proof. exact @verify_session_stateless. Qed.
Print Assumptions C05_verify_stateless.

(* ---- kernel link (Link_C05.v).  enoughVote is re-generated from
   consensus/commitvotelist.go on every run (tools/go2coq); the threshold `enough` of
   the model, used in all theorems above, IS the test of the current Go code for every
   number of voters a Go slice can have (voters <= 2^62-1), voters = 0 included ---- *)
Theorem C05_kernel_enoughVote : forall voted voters : nat,
  (Z.of_nat voters <= 4611686018427387903)%Z ->
  enough voted voters = enoughVote (Z.of_nat voted) (Z.of_nat voters).
Proof. exact enough_is_enoughVote. Qed.
Print Assumptions C05_kernel_enoughVote.

Theorem C05_kernel_params : Link_C05.kernel_params_pinned.
Proof. exact Link_C05.kernel_params_ok. Qed.
Print Assumptions C05_kernel_params.

(* ---- fast sync on a node that already holds votes (Model_FastSync.v,
   Model_VoteSet.v): whatever part set the received list names, a consumed block
   has, after the list's votes were added to the precommit vote set of that
   round, more than two thirds of the validator slots holding a precommit for ONE
   non-nil decision whose part set is the delivered block's ---- *)
From Goloop Require Import Model_VoteSet Model_FastSync Proofs_FastSync.

Theorem C05_fastsync_history_sound :
  forall n prior h r dl good idxs tss,
    fs_process n prior h r dl good idxs tss = true ->
    exists is_ s d,
      idxs = Some is_ /\
      run n (prior ++ list_ops h r dl is_ tss) = Some s /\
      d <> 0%N /\ good d = true /\
      (3 * votes_for s d > 2 * Z.of_nat n)%Z.
Proof. exact fs_process_sound. Qed.
Print Assumptions C05_fastsync_history_sound.

Theorem C05_fastsync_history_complete :
  forall n prior h r dl good is_ tss s d,
    run n (prior ++ list_ops h r dl is_ tss) = Some s ->
    (3 * votes_for s d > 2 * Z.of_nat n)%Z -> d <> 0%N ->
    fs_process n prior h r dl good (Some is_) tss = good d.
Proof. exact fs_process_complete. Qed.
Print Assumptions C05_fastsync_history_complete.

(* ---- kernel link for the fast-sync threshold: hasOverTwoThirds and the test of
   getOverTwoThirdsRoundDecisionDigest are re-generated from consensus/voteset.go
   on every run; the threshold inside C05_fastsync_accept_iff and the vote-set
   model behind C05_fastsync_history_sound ARE those tests ---- *)
Theorem C05_kernel_fastsync_threshold : forall c n : nat,
  (Z.of_nat n <= 4611686018427387903)%Z ->
  Nat.ltb (n * 2 / 3) c = overTwoThirdsDecision (Z.of_nat c) (Z.of_nat n) /\
  Nat.ltb (n * 2 / 3) c = hasOverTwoThirds (Z.of_nat c) (Z.of_nat n).
Proof. exact fs_threshold_is_kernels. Qed.
Print Assumptions C05_kernel_fastsync_threshold.

Theorem C05_kernel_fastsync_accept :
  forall (sigT addrT : Type) (addr_eqb : addrT -> addrT -> bool)
         (recover : vote_msg -> sigT -> option addrT),
  forall height round bid ps real (vals : list addrT) (items : list (Z * sigT)),
    (Z.of_nat (length vals) <= 4611686018427387903)%Z ->
    fs_accept addr_eqb recover height round bid ps real vals items =
    match indices addr_eqb recover (item_msg height round bid ps) vals items with
    | None => false
    | Some idxs =>
        overTwoThirdsDecision (Z.of_nat (length (dedup idxs))) (Z.of_nat (length vals)) &&
        ps_id_matches ps real
    end.
Proof. exact @fs_accept_kernel. Qed.
Print Assumptions C05_kernel_fastsync_accept.

Theorem C05_kernel_voteset_model : forall c n : Z,
  (0 <= n <= 4611686018427387903)%Z ->
  over23 c n = overTwoThirdsDecision c n /\ over23 c n = hasOverTwoThirds c n.
Proof. exact over23_is_kernels. Qed.
Print Assumptions C05_kernel_voteset_model.

Theorem C05_kernel_fastsync_params : fs_kernel_params_pinned.
Proof. exact fs_kernel_params_ok. Qed.
Print Assumptions C05_kernel_fastsync_params.
