(* Model_Mta.v — common/trie/mta/accumulator.go: the Merkle-tree accumulator.
   roots : a binary counter of perfect binary trees (slot h holds a tree of
   height h or nil), AddHash/AddData (addNode), WitnessFor, Verify, Flush,
   Recover, and the three node kinds (hashNode / dataNode / branchNode) with
   lazy resolution of hashNodes from the bucket.  No proofs in this file.

   The hash (crypto.SHA3Sum256) is the Section variable [H].

   Representation choices (the only places where the model is not literal):
   * a branchNode/dataNode computes its hash lazily and caches it (state
     dirty -> hashed); children never change their hash (WitnessFor replaces a
     hashNode child by the branchNode resolved from it, which keeps
     hashValue), so the cached value is a function of the node at creation.
     The model stores that value at creation (field hv).
   * the bucket holds node entries (hash -> bytes) and, under KeyForState, the
     JSON of (root hashes, length).  The model keeps the two apart: [s_nodes]
     and [s_state]; the JSON text is not modelled, its content is (a nil or
     empty root hash is [None]/[Some []], both read back as an empty slot).
   * the map database never fails: Bucket.Get of a missing key is (nil, nil),
     which hashNode.resolve reports as "InvalidData"; Set never fails. *)
From Goloop Require Import lib.Bytes lib.BytesMap.
Open Scope N_scope.

Inductive err := ENotFound | EInvalidDepth | EInvalidData | ENewer | EInvalidWitness | EPanic.
Inductive result (A : Type) := Ok (a : A) | Err (e : err).
Arguments Ok {A} a.
Arguments Err {A} e.

Inductive dir := Left | Right.
Record witness := mkW { w_dir : dir; w_hash : bytes }.

(* node kinds; fl = (state == stateFlushed) *)
Inductive node :=
| NHash (hv : bytes)
| NData (fl : bool) (hv : bytes) (d : bytes)
| NBranch (fl : bool) (hv : bytes) (l r : node).

Definition node_hash (n : node) : bytes :=
  match n with NHash hv => hv | NData _ hv _ => hv | NBranch _ hv _ _ => hv end.

Inductive item := IHash (h : bytes) | IData (d : bytes).

Record acc := mkAcc { a_roots : list (option node); a_len : N }.
Definition acc_empty : acc := mkAcc [] 0.

Record store := mkStore { s_nodes : bmap bytes; s_state : option (list (option bytes) * N) }.
Definition store_empty : store := mkStore bm_empty None.

(* Go's copy(buf[off:], src) on a fixed-length buffer *)
Definition copy_at (buf : bytes) (off : nat) (src : bytes) : bytes :=
  firstn off buf ++ firstn (length buf - off) src ++ skipn (off + length src) buf.

Definition hash_size : nat := 32.
Definition zeros64 : bytes := repeat 0 (2 * hash_size).

(* branchNode.Hash: bs := make(64); copy(bs, left); copy(bs[32:], right) *)
Definition pair_bytes (l r : bytes) : bytes := copy_at (copy_at zeros64 0 l) hash_size r.

Fixpoint set_nth {A} (l : list A) (i : nat) (x : A) : list A :=
  match l, i with
  | [], _ => []
  | _ :: r, O => x :: r
  | y :: r, S j => y :: set_nth r j x
  end.

Section Mta.
Variable H : bytes -> bytes.

Definition mk_data (d : bytes) : node := NData false (H d) d.
Definition mk_branch (l r : node) : node :=
  NBranch false (H (pair_bytes (node_hash l) (node_hash r))) l r.

Definition leaf_of (it : item) : node :=
  match it with IHash h => NHash h | IData d => mk_data d end.
Definition item_hash (it : item) : bytes :=
  match it with IHash h => h | IData d => H d end.

(* Accumulator.addNode(h, n, w); [roots] is a.roots[h:] *)
Fixpoint add_node (roots : list (option node)) (n : node) (w : list witness)
  : list (option node) * list witness :=
  match roots with
  | [] => ([Some n], w)
  | None :: rest => (Some n :: rest, w)
  | Some root :: rest =>
      let (rest', w') := add_node rest (mk_branch root n) (w ++ [mkW Left (node_hash root)]) in
      (None :: rest', w')
  end.

(* AddNode / AddHash / AddData: returns the witness of the new item *)
Definition add (a : acc) (it : item) : acc * list witness :=
  let (rs, w) := add_node (a_roots a) (leaf_of it) [] in
  (mkAcc rs (a_len a + 1), w).

Definition add_all (items : list item) : acc :=
  fold_left (fun a it => fst (add a it)) items acc_empty.

(* hashNode.resolve *)
Definition resolve (m : bmap bytes) (hv : bytes) : result (bytes * bytes) :=
  let bs := match bm_get hv m with Some bs => bs | None => [] end in
  if negb (Nat.eqb (length bs) (2 * hash_size)) then Err EInvalidData
  else Ok (firstn hash_size bs, skipn hash_size bs).

(* Node.WitnessFor(depth, idx, w) of the three node kinds; returns the node that
   the caller stores back (a resolved hashNode becomes a branchNode) *)
Fixpoint node_witness (m : bmap bytes) (depth : nat) (n : node) (idx : N) (w : list witness)
  {struct depth} : node * result (list witness) :=
  let branch (fl : bool) (hv : bytes) (l r : node) :=
    match depth with
    | O => (NBranch fl hv l r, Err EInvalidDepth)
    | S d =>
        let bound := 2 ^ N.of_nat d in
        if idx <? bound then
          let (l', rw) := node_witness m d l idx w in
          (NBranch fl hv l' r,
           match rw with Ok w' => Ok (w' ++ [mkW Right (node_hash r)]) | Err e => Err e end)
        else
          let (r', rw) := node_witness m d r (idx - bound) w in
          (NBranch fl hv l r',
           match rw with Ok w' => Ok (w' ++ [mkW Left (node_hash l)]) | Err e => Err e end)
    end in
  match n with
  | NData _ _ _ => match depth with O => (n, Ok w) | S _ => (n, Err EInvalidDepth) end
  | NBranch fl hv l r => branch fl hv l r
  | NHash hv =>
      match depth with
      | O => (n, Ok w)
      | S _ => match resolve m hv with
               | Err e => (n, Err e)
               | Ok (lh, rh) => branch true hv (NHash lh) (NHash rh)
               end
      end
  end.

(* the loop of Accumulator.WitnessFor; [offset] counts down from len(a.roots) *)
Fixpoint wf_loop (m : bmap bytes) (roots : list (option node)) (offset : nat) (idx : N)
  : list (option node) * result (list witness) :=
  match offset with
  | O => (roots, Err ENotFound)
  | S o =>
      match nth_error roots o with
      | None => (roots, Err EPanic)                       (* index out of range *)
      | Some None => wf_loop m roots o idx                (* nil slot: skipped *)
      | Some (Some root) =>
          let inbound := 2 ^ N.of_nat o in
          if idx <? inbound then
            let (root', rw) := node_witness m o root idx [] in
            (set_nth roots o (Some root'), rw)
          else wf_loop m roots o (idx - inbound)
      end
  end.

Definition witness_for (s : store) (a : acc) (idx : N) : acc * result (list witness) :=
  if a_len a <=? idx then (a, Err ENotFound) else
  let (rs, rw) := wf_loop (s_nodes s) (a_roots a) (length (a_roots a)) idx in
  (mkAcc rs (a_len a), rw).

(* Accumulator.Verify; buf is reused by every round *)
Fixpoint verify_loop (buf h : bytes) (ws : list witness) (height : nat) : bytes * nat :=
  match ws with
  | [] => (h, height)
  | w :: ws' =>
      let buf' := match w_dir w with
                  | Left => copy_at (copy_at buf 0 (w_hash w)) hash_size h
                  | Right => copy_at (copy_at buf 0 h) hash_size (w_hash w)
                  end in
      verify_loop buf' (H buf') ws' (S height)
  end.

Definition verify (a : acc) (ws : list witness) (h : bytes) : result unit :=
  let (h', height) := verify_loop zeros64 h ws 0 in
  match nth_error (a_roots a) height with
  | None => Err ENewer
  | Some None => Err ENewer
  | Some (Some root) => if bytes_eqb (node_hash root) h' then Ok tt else Err EInvalidWitness
  end.

(* Node.Flush *)
Fixpoint flush_node (n : node) (m : bmap bytes) : node * bmap bytes :=
  match n with
  | NHash _ => (n, m)
  | NData fl hv d => if fl then (n, m) else (NData true hv d, bm_set hv d m)
  | NBranch fl hv l r =>
      if fl then (n, m) else
      let (l', m1) := flush_node l m in
      let (r', m2) := flush_node r m1 in
      (NBranch true hv l' r', bm_set hv (pair_bytes (node_hash l) (node_hash r)) m2)
  end.

Fixpoint flush_roots (rs : list (option node)) (m : bmap bytes)
  : list (option node) * bmap bytes * list (option bytes) :=
  match rs with
  | [] => ([], m, [])
  | None :: r => let '(r', m', hs) := flush_roots r m in (None :: r', m', None :: hs)
  | Some n :: r =>
      let (n', m1) := flush_node n m in
      let '(r', m2, hs) := flush_roots r m1 in
      (Some n' :: r', m2, Some (node_hash n') :: hs)
  end.

(* Accumulator.Flush *)
Definition flush (a : acc) (s : store) : acc * store :=
  let '(rs, m, hs) := flush_roots (a_roots a) (s_nodes s) in
  (mkAcc rs (a_len a), mkStore m (Some (hs, a_len a))).

(* Accumulator.Recover *)
Definition recover_root (o : option bytes) : option node :=
  match o with
  | None => None
  | Some hv => if Nat.eqb (length hv) 0 then None
               else if Nat.eqb (length hv) hash_size then Some (NHash hv) else None
  end.

Definition recover (s : store) : acc :=
  match s_state s with
  | None => acc_empty
  | Some (hs, n) => mkAcc (map recover_root hs) n
  end.

(* ---- the code before commit 2615bc1 (no nil-slot checks in Flush and
        WitnessFor): calling a method through a nil Node interface panics ---- *)
Fixpoint wf_loop_old (m : bmap bytes) (roots : list (option node)) (offset : nat) (idx : N)
  : list (option node) * result (list witness) :=
  match offset with
  | O => (roots, Err ENotFound)
  | S o =>
      match nth_error roots o with
      | None => (roots, Err EPanic)
      | Some slot =>
          let inbound := 2 ^ N.of_nat o in
          if idx <? inbound then
            match slot with
            | None => (roots, Err EPanic)
            | Some root =>
                let (root', rw) := node_witness m o root idx [] in
                (set_nth roots o (Some root'), rw)
            end
          else wf_loop_old m roots o (idx - inbound)
      end
  end.

Definition witness_for_old (s : store) (a : acc) (idx : N) : acc * result (list witness) :=
  if a_len a <=? idx then (a, Err ENotFound) else
  let (rs, rw) := wf_loop_old (s_nodes s) (a_roots a) (length (a_roots a)) idx in
  (mkAcc rs (a_len a), rw).

Definition flush_old (a : acc) (s : store) : result (acc * store) :=
  if existsb (fun o => match o with None => true | Some _ => false end) (a_roots a)
  then Err EPanic else Ok (flush a s).

(* ---- histories: what a client can do with one accumulator and its bucket ---- *)
Inductive op := OpAdd (it : item) | OpFlush | OpFlushRecover | OpQuery (idx : N).

Definition step (st : acc * store) (o : op) : acc * store :=
  let (a, s) := st in
  match o with
  | OpAdd it => (fst (add a it), s)
  | OpFlush => flush a s
  | OpFlushRecover => let (_, s') := flush a s in (recover s', s')
  | OpQuery idx => (fst (witness_for s a idx), s)
  end.

Definition run (ops : list op) : acc * store := fold_left step ops (acc_empty, store_empty).

Definition op_items (o : op) : list item := match o with OpAdd it => [it] | _ => [] end.
Definition ops_items (ops : list op) : list item := flat_map op_items ops.

End Mta.
