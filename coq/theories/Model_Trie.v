(* Model_Trie.v — executable model of the Merkle Patricia trie in
   common/trie/ompt (mpt.go, leaf.go, extension.go, branch.go, hash.go, node.go).
   A library: definitions only, proofs are in Proofs_Trie.v / Proofs_TrieProof.v.

   Keys are nibble lists (mpt.bytesToNibs); a nil node is [Empty]; the node
   states (dirty/frozen/hashed/written/flushed), the hash-reference node and
   the node cache are not part of the model: GetSnapshot, Flush, ClearCache and
   reloading from a root hash are identities here, and the correspondence run
   checks that they are identities on the code. *)
From Goloop Require Import lib.Bytes Model_RlpBytes.
Open Scope N_scope.

Definition nibs := list N.
Definition nib_ok (x : N) : bool := x <? 16.
Definition nibs_ok (k : nibs) : bool := forallb nib_ok k.

(* mpt.bytesToNibs / node.keysToBytes *)
Fixpoint bytes_to_nibs (b : bytes) : nibs :=
  match b with
  | [] => []
  | x :: r => x / 16 :: x mod 16 :: bytes_to_nibs r
  end.
Fixpoint nibs_to_bytes (k : nibs) : bytes :=
  match k with
  | a :: b :: r => a * 16 + b :: nibs_to_bytes r
  | _ => []
  end.

Inductive node :=
| Empty
| Leaf (ks : nibs) (v : bytes)
| Ext (ks : nibs) (n : node)
| Branch (cs : list node) (v : option bytes).

(* node.compareKeys as a three-way split: (common prefix, rest of a, rest of b);
   cnt = length of the first component, match = both rests empty *)
Fixpoint cp (a b : nibs) : nibs * nibs * nibs :=
  match a, b with
  | x :: a', y :: b' =>
      if x =? y then let '(c, ra, rb) := cp a' b' in (x :: c, ra, rb) else ([], a, b)
  | _, _ => ([], a, b)
  end.

Definition empty16 : list node := repeat Empty 16.

Fixpoint child (cs : list node) (i : N) : node :=
  match cs with
  | [] => Empty
  | c :: t => if i =? 0 then c else child t (i - 1)
  end.

Fixpoint upd (cs : list node) (i : N) (n : node) : list node :=
  match cs with
  | [] => []
  | c :: t => if i =? 0 then n :: t else c :: upd t (i - 1) n
  end.

(* ---------- get ---------- *)

Fixpoint get (n : node) (k : nibs) : option bytes :=
  match n with
  | Empty => None
  | Leaf ks v => if bytes_eqb k ks then Some v else None
  | Ext ks n' =>
      match cp k ks with
      | (_, rk, []) => get n' rk
      | _ => None
      end
  | Branch cs v =>
      match k with
      | [] => v
      | i :: r =>
          (fix go (l : list node) (j : N) : option bytes :=
             match l with
             | [] => None
             | c :: t => if j =? 0 then get c r else go t (j - 1)
             end) cs i
      end
  end.

(* ---------- set ---------- *)

(* put a fresh leaf for the remaining key [k] into a branch under construction *)
Definition leaf_at (k : nibs) (v : bytes) (cs : list node) (bv : option bytes)
  : list node * option bytes :=
  match k with
  | [] => (cs, Some v)
  | i :: r => (upd cs i (Leaf r v), bv)
  end.

(* leaf.set *)
Definition set_leaf (ks : nibs) (v0 : bytes) (k : nibs) (v : bytes) : node :=
  match cp k ks with
  | ([], [], []) => Leaf ks v                           (* both keys empty: replace *)
  | ([], rk, rks) =>                                    (* cnt == 0 && !match *)
      let '(cs1, bv1) := leaf_at rk v empty16 None in
      let '(cs2, bv2) := leaf_at rks v0 cs1 bv1 in
      Branch cs2 bv2
  | (c, rk, j :: r') =>                                 (* cnt < len(n.keys) *)
      let '(cs1, bv1) := leaf_at rk v empty16 None in
      Ext c (Branch (upd cs1 j (Leaf r' v0)) bv1)
  | (c, i :: r, []) =>                                  (* cnt < len(keys) *)
      Ext ks (Branch (upd empty16 i (Leaf r v)) (Some v0))
  | (_, [], []) => Leaf ks v                            (* match: replace the value *)
  end.

Fixpoint set (n : node) (k : nibs) (v : bytes) : node :=
  match n with
  | Empty => Leaf k v                                   (* mpt.set on nil *)
  | Leaf ks v0 => set_leaf ks v0 k v
  | Ext ks n' =>                                        (* extension.set *)
      match cp k ks with
      | ([], rk, rks) =>                                (* cnt == 0 *)
          let '(cs1, bv1) := leaf_at rk v empty16 None in
          match rks with
          | [] => Ext ks (set n' rk v)                  (* empty extension key: not well formed *)
          | [j] => Branch (upd cs1 j n') bv1
          | j :: r' => Branch (upd cs1 j (Ext r' n')) bv1
          end
      | (c, rk, j :: r') =>                             (* cnt < len(n.keys) *)
          let old := match r' with [] => n' | _ => Ext r' n' end in
          let '(cs1, bv1) := leaf_at rk v (upd empty16 j old) None in
          Ext c (Branch cs1 bv1)
      | (_, rk, []) => Ext ks (set n' rk v)
      end
  | Branch cs bv =>                                     (* branch.set *)
      match k with
      | [] => Branch cs (Some v)
      | i :: r =>
          Branch ((fix go (l : list node) (j : N) : list node :=
                     match l with
                     | [] => []
                     | c :: t => if j =? 0 then set c r v :: t else c :: go t (j - 1)
                     end) cs i) bv
      end
  end.

(* ---------- delete ---------- *)

(* leaf/extension.getKeyPrepended, or a new extension in front of a branch *)
Definition prepend (p : nibs) (n : node) : node :=
  match n with
  | Empty => Empty
  | Leaf ks v => Leaf (p ++ ks) v
  | Ext ks n' => Ext (p ++ ks) n'
  | Branch _ _ => Ext p n
  end.

Definition is_empty (n : node) : bool := match n with Empty => true | _ => false end.

(* the child scan of branch.delete: Some None = no child (idx = 16),
   Some (Some i) = exactly one child i, None = two or more (idx = -1) *)
Fixpoint scan (cs : list node) (i : N) : option (option N) :=
  match cs with
  | [] => Some None
  | c :: t =>
      if is_empty c then scan t (i + 1)
      else match scan t (i + 1) with
           | Some None => Some (Some i)
           | _ => None
           end
  end.

(* the tail of branch.delete.  With no child and no value the code panics
   ("Value is nil"); that state is not reachable from a well-formed trie and the
   model leaves the branch as it is. *)
Definition collapse (cs : list node) (bv : option bytes) : node :=
  match scan cs 0 with
  | None => Branch cs bv
  | Some None => match bv with Some v => Leaf [] v | None => Branch cs bv end
  | Some (Some i) => match bv with None => prepend [i] (child cs i) | Some _ => Branch cs bv end
  end.

(* result and the "dirty" flag of node.delete *)
Fixpoint delete_aux (n : node) (k : nibs) : node * bool :=
  match n with
  | Empty => (Empty, false)
  | Leaf ks v => if bytes_eqb k ks then (Empty, true) else (n, false)
  | Ext ks n' =>
      match cp k ks with
      | (_, rk, []) =>
          let '(nx, d) := delete_aux n' rk in
          if d then (prepend ks nx, true) else (n, false)
      | _ => (n, false)
      end
  | Branch cs bv =>
      match k with
      | [] => match bv with None => (n, false) | Some _ => (collapse cs None, true) end
      | i :: r =>
          match (fix go (l : list node) (j : N) : option (list node) :=
                   match l with
                   | [] => None
                   | c :: t =>
                       if j =? 0 then
                         match c with
                         | Empty => None
                         | _ => let '(c', d) := delete_aux c r in if d then Some (c' :: t) else None
                         end
                       else option_map (cons c) (go t (j - 1))
                   end) cs i with
          | None => (n, false)
          | Some cs' => (collapse cs' bv, true)
          end
      end
  end.

Definition delete (n : node) (k : nibs) : node := fst (delete_aux n k).

(* ---------- iteration ---------- *)

Definition addp (p : nibs) (l : list (nibs * bytes)) : list (nibs * bytes) :=
  map (fun kv => (p ++ fst kv, snd kv)) l.

Definition optl (p : nibs) (v : option bytes) : list (nibs * bytes) :=
  match v with Some x => [(p, x)] | None => [] end.

(* the order in which mpt.iterator returns the entries: a branch value first,
   then the children 0..15 (iterator.Next pops a stack filled from 15 down to 0) *)
Fixpoint to_list (n : node) : list (nibs * bytes) :=
  match n with
  | Empty => []
  | Leaf ks v => [(ks, v)]
  | Ext ks n' => addp ks (to_list n')
  | Branch cs bv =>
      optl [] bv ++
      (fix go (l : list node) (i : N) : list (nibs * bytes) :=
         match l with
         | [] => []
         | c :: t => addp [i] (to_list c) ++ go t (i + 1)
         end) cs 0
  end.

Fixpoint is_prefix (p k : nibs) : bool :=
  match p, k with
  | [], _ => true
  | x :: p', y :: k' => (x =? y) && is_prefix p' k'
  | _, _ => false
  end.

(* mpt.Filter: [p] is the part of the prefix not yet consumed on the way down
   (iterator.traverse / filterItem / checkPrefix); keys are relative to [n] *)
Fixpoint filter (n : node) (p : nibs) : list (nibs * bytes) :=
  match p with
  | [] => to_list n
  | i :: r =>
      match n with
      | Empty => []
      | Leaf ks v => if is_prefix p ks then [(ks, v)] else []
      | Ext ks n' =>
          match cp p ks with
          | (_, [], _) => addp ks (to_list n')
          | (_, rp, []) => addp ks (filter n' rp)
          | _ => []
          end
      | Branch cs bv =>
          addp [i]
            ((fix go (l : list node) (j : N) : list (nibs * bytes) :=
                match l with
                | [] => []
                | c :: t => if j =? 0 then filter c r else go t (j - 1)
                end) cs i)
      end
  end.

(* ---------- normal form ---------- *)

Definition is_branch (n : node) : bool := match n with Branch _ _ => true | _ => false end.

Fixpoint count_children (cs : list node) : nat :=
  match cs with
  | [] => O
  | c :: t => (if is_empty c then 0 else 1) + count_children t
  end.

Definition occupants (cs : list node) (bv : option bytes) : nat :=
  (count_children cs + match bv with Some _ => 1 | None => 0 end)%nat.

(* a non-nil node in normal form *)
Fixpoint wf_node (n : node) : Prop :=
  match n with
  | Empty => False
  | Leaf ks v => nibs_ok ks = true /\ v <> []
  | Ext ks n' => ks <> [] /\ nibs_ok ks = true /\ is_branch n' = true /\ wf_node n'
  | Branch cs bv =>
      length cs = 16%nat /\ bv <> Some [] /\ (2 <= occupants cs bv)%nat /\
      (fix all (l : list node) : Prop :=
         match l with
         | [] => True
         | c :: t => (c = Empty \/ wf_node c) /\ all t
         end) cs
  end.

Definition wf (n : node) : Prop := n = Empty \/ wf_node n.

(* ---------- serialisation, hashing, proofs ---------- *)

Fixpoint pairs (k : nibs) : bytes :=
  match k with
  | a :: b :: r => a * 16 + b :: pairs r
  | _ => []
  end.

(* node.encodeKeys *)
Definition hp_encode (tag : N) (k : nibs) : bytes :=
  if Nat.odd (length k) then
    match k with
    | x :: r => tag + 16 + x :: pairs r
    | [] => [tag]
    end
  else tag :: pairs k.

Fixpoint unpairs (b : bytes) : nibs :=
  match b with
  | [] => []
  | x :: r => x / 16 :: x mod 16 :: unpairs r
  end.

(* node.decodeKeys; None where the code would index an empty slice *)
Definition hp_decode (b : bytes) : option nibs :=
  match b with
  | [] => None
  | f :: r => Some (if N.testbit f 4 then f mod 16 :: unpairs r else unpairs r)
  end.

Inductive presult :=
| PVal (v : bytes)     (* (value, nil) *)
| PNil                 (* (nil, nil): the key ends at a branch without value *)
| PNotFound            (* common.ErrNotFound *)
| PIllegal             (* common.ErrIllegalArgument *)
| PBad.                (* a node that matched its hash does not parse *)

Inductive wres := Done (r : presult) | Cont (h : bytes) (k : nibs).

Section Hashed.
  Variable H : bytes -> bytes.

  (* nodeBase.getLink(false): the node's RLP itself when it has at most 32 bytes,
     else the RLP string of its hash *)
  Definition link_of (s : bytes) : bytes :=
    if (length s <=? 32)%nat then s else rlp_str (H s).

  (* leaf/extension/branch.RLPListEncode + rlpEncodeList; a nil child and a
     missing branch value are the empty string *)
  Fixpoint ser (n : node) : bytes :=
    match n with
    | Empty => [128]
    | Leaf ks v => rlp_list [rlp_str (hp_encode 32 ks); rlp_str v]
    | Ext ks n' => rlp_list [rlp_str (hp_encode 0 ks); link_of (ser n')]
    | Branch cs bv =>
        rlp_list
          ((fix go (l : list node) : list bytes :=
              match l with
              | [] => []
              | c :: t => link_of (ser c) :: go t
              end) cs
           ++ [rlp_str (match bv with Some v => v | None => [] end)])
    end.

  (* mpt.Hash: getLink(true) always hashes the root; nil for the empty trie *)
  Definition root (n : node) : bytes :=
    match n with
    | Empty => []
    | _ => H (ser n)
    end.

  (* does the node carry a hash value (and so appear in proofs / in the database) *)
  Definition hashed (is_root : bool) (n : node) : bool :=
    is_root || negb (length (ser n) <=? 32)%nat.

  Definition cons_if (b : bool) (x : bytes) (l : list bytes) : list bytes :=
    if b then x :: l else l.

  (* node.getProof: None = nil result *)
  Fixpoint proof_from (is_root : bool) (n : node) (k : nibs) : option (list bytes) :=
    match n with
    | Empty => None
    | Leaf ks v =>
        if bytes_eqb ks k then Some (cons_if (hashed is_root n) (ser n) []) else None
    | Ext ks n' =>
        match cp k ks with
        | (_, rk, []) => option_map (cons_if (hashed is_root n) (ser n)) (proof_from false n' rk)
        | _ => None
        end
    | Branch cs bv =>
        match k with
        | [] => Some (cons_if (hashed is_root n) (ser n) [])
        | i :: r =>
            (fix go (l : list node) (j : N) : option (list bytes) :=
               match l with
               | [] => None
               | c :: t =>
                   if j =? 0 then
                     option_map (cons_if (hashed is_root n) (ser n)) (proof_from false c r)
                   else go t (j - 1)
               end) cs i
        end
    end.

  (* mpt.GetProof *)
  Definition proof (t : node) (k : nibs) : option (list bytes) := proof_from true t k.

  (* node.prove on the node deserialised from [s].  [hashed]: the node carries a
     hash value (it is the proof element just matched); [rest_empty]: no proof
     element follows it.  Inlined children are entered directly (they consume no
     proof element); a hash reference hands back to [prove_items]. *)
  Fixpoint walk (fuel : nat) (hashed rest_empty : bool) (s : bytes) (k : nibs) : wres :=
    match fuel with
    | O => Done PBad
    | S f =>
        let follow (link : bytes) (k' : nibs) (ext : bool) : wres :=
          match link with
          | [] => Done PBad
          | b0 :: _ =>
              if 192 <=? b0 then walk f false rest_empty link k'
              else match parse_bytes link with
                   | None => Done PBad
                   | Some [] => Done (if ext then PBad else PNotFound)
                   | Some h => Cont h k'
                   end
          end in
        match parse_list s with
        | None => Done PBad
        | Some [i0; i1] =>
            match parse_bytes i0 with
            | Some (f0 :: hr) =>
                match hp_decode (f0 :: hr) with
                | None => Done PBad
                | Some ks =>
                    if N.testbit f0 5 then
                      match parse_bytes i1 with
                      | None => Done PBad
                      | Some v =>
                          if hashed && negb rest_empty then Done PIllegal
                          else if bytes_eqb ks k then Done (PVal v) else Done PNotFound
                      end
                    else
                      match cp k ks with
                      | (_, rk, []) => follow i1 rk true
                      | _ => Done PNotFound
                      end
                end
            | _ => Done PBad
            end
        | Some items =>
            if Nat.eqb (length items) 17 then
              match k with
              | [] =>
                  match nth_error items 16 with
                  | None => Done PBad
                  | Some b =>
                      match parse_bytes b with
                      | None => Done PBad
                      | Some [] => Done PNil
                      | Some v => Done (PVal v)
                      end
                  end
              | i :: r =>
                  match nth_error items (N.to_nat i) with
                  | None => Done PBad
                  | Some l => if 16 <=? i then Done PBad else follow l r false
                  end
              end
            else Done PBad
        end
    end.

  (* hash.prove, iterated along the proof *)
  Fixpoint prove_items (h : bytes) (k : nibs) (items : list bytes) : presult :=
    match items with
    | [] => PIllegal
    | it :: rest =>
        if bytes_eqb (H it) h then
          match walk (S (length it)) true (match rest with [] => true | _ => false end) it k with
          | Done r => r
          | Cont h' k' => prove_items h' k' rest
          end
        else PIllegal
    end.

  (* mpt.Prove on a trie object made from a root hash (NewMPT: empty hash = nil root) *)
  Definition prove (r : bytes) (k : nibs) (p : list bytes) : presult :=
    match r with
    | [] => PIllegal
    | _ => prove_items r k p
    end.

End Hashed.
