(* Proofs_TrieProof.v — the proof checker (walk / prove_items) run on genuine
   serialised nodes does what the tree says ([expect]). *)
From Goloop Require Import lib.Bytes Model_RlpBytes Model_Trie Proofs_RlpBytes Proofs_Trie Proofs_TrieMap Proofs_TrieWf.
From Coq Require Import ZifyBool ZifyN ZifyNat.
Ltac Zify.zify_post_hook ::= Z.div_mod_to_equations.
Open Scope N_scope.

(* ---------- hex-prefix keys ---------- *)

Lemma nib_cases x : x < 16 ->
  x = 0 \/ x = 1 \/ x = 2 \/ x = 3 \/ x = 4 \/ x = 5 \/ x = 6 \/ x = 7 \/
  x = 8 \/ x = 9 \/ x = 10 \/ x = 11 \/ x = 12 \/ x = 13 \/ x = 14 \/ x = 15.
Proof. lia. Qed.

Lemma unpairs_pairs r : Nat.even (length r) = true -> nibs_ok r = true -> unpairs (pairs r) = r.
Proof.
  induction r as [ | x | x y r IH] using list_ind2; intros E Hok.
  - reflexivity.
  - discriminate.
  - cbn [length Nat.even] in E. apply nibs_ok_cons in Hok as [Hx Hok]. apply nibs_ok_cons in Hok as [Hy Hok].
    cbn [pairs unpairs]. rewrite IH by assumption.
    replace ((x * 16 + y) / 16) with x by lia. replace ((x * 16 + y) mod 16) with y by lia. reflexivity.
Qed.

Lemma odd_even_tail {A} (x : A) r : Nat.odd (length (x :: r)) = true -> Nat.even (length r) = true.
Proof. cbn [length]. rewrite Nat.odd_succ. auto. Qed.

Lemma hp_roundtrip tag ks :
  (tag = 0 \/ tag = 32) -> nibs_ok ks = true ->
  exists f0 hr, hp_encode tag ks = f0 :: hr /\ hp_decode (f0 :: hr) = Some ks /\
                N.testbit f0 5 = (tag =? 32).
Proof.
  intros Ht Hok. unfold hp_encode. destruct (Nat.odd (length ks)) eqn:Eo.
  - destruct ks as [|x r]; [discriminate|].
    apply nibs_ok_cons in Hok as [Hx Hok]. apply odd_even_tail in Eo.
    eexists _, _. split; [reflexivity|]. unfold hp_decode.
    assert (T4 : N.testbit (tag + 16 + x) 4 = true /\ (tag + 16 + x) mod 16 = x /\
                 N.testbit (tag + 16 + x) 5 = (tag =? 32)).
    { destruct (nib_cases x Hx) as [->|[->|[->|[->|[->|[->|[->|[->|[->|[->|[->|[->|[->|[->|[->| ->]]]]]]]]]]]]]]];
        destruct Ht as [-> | ->]; repeat split; reflexivity. }
    destruct T4 as (-> & -> & ->). rewrite unpairs_pairs by assumption. auto.
  - eexists _, _. split; [reflexivity|]. unfold hp_decode.
    assert (Ev : Nat.even (length ks) = true) by (rewrite <- Nat.negb_odd, Eo; reflexivity).
    assert (T4 : N.testbit tag 4 = false /\ N.testbit tag 5 = (tag =? 32))
      by (destruct Ht as [-> | ->]; split; reflexivity).
    destruct T4 as (-> & ->). rewrite unpairs_pairs by assumption. auto.
Qed.

(* ---------- the item list of a node ---------- *)

Section WithHash.
  Variable H : bytes -> bytes.
  Hypothesis H_len : forall x, length (H x) = 32%nat.

  Definition lnk (c : node) : bytes := link_of H (ser H c).
  Definition bval (bv : option bytes) : bytes := match bv with Some v => v | None => [] end.

  Lemma ser_branch cs bv :
    ser H (Branch cs bv) = rlp_list (map lnk cs ++ [rlp_str (bval bv)]).
  Proof.
    reflexivity.
  Qed.

  Definition ser_items (n : node) : list bytes :=
    match n with
    | Empty => []
    | Leaf ks v => [rlp_str (hp_encode 32 ks); rlp_str v]
    | Ext ks n' => [rlp_str (hp_encode 0 ks); lnk n']
    | Branch cs bv => map lnk cs ++ [rlp_str (bval bv)]
    end.

  Lemma ser_eq n : n <> Empty -> ser H n = rlp_list (ser_items n).
  Proof. destruct n; [congruence|reflexivity|reflexivity|intros _; apply ser_branch]. Qed.

  (* every node of the tree fits the 8-byte RLP size field *)
  Fixpoint sizes_ok (n : node) : Prop :=
    match n with
    | Empty => True
    | Leaf _ _ => blen (ser H n) < 2 ^ 64
    | Ext _ n' => blen (ser H n) < 2 ^ 64 /\ sizes_ok n'
    | Branch cs _ =>
        blen (ser H n) < 2 ^ 64 /\
        (fix all (l : list node) : Prop :=
           match l with [] => True | c :: t => sizes_ok c /\ all t end) cs
    end.

  Lemma sizes_branch cs bv :
    sizes_ok (Branch cs bv) <-> blen (ser H (Branch cs bv)) < 2 ^ 64 /\ Forall sizes_ok cs.
  Proof.
    cbn [sizes_ok].
    assert (E : forall l, (fix all (l : list node) : Prop :=
                    match l with [] => True | c :: t => sizes_ok c /\ all t end) l <-> Forall sizes_ok l).
    { induction l as [|c t IH]; split; intro X.
      - constructor.
      - exact I.
      - destruct X. constructor; [assumption|now apply IH].
      - inversion X; subst. split; [assumption|now apply IH]. }
    rewrite E. tauto.
  Qed.

  Lemma sizes_top n : n <> Empty -> sizes_ok n -> blen (ser H n) < 2 ^ 64.
  Proof. destruct n; cbn [sizes_ok]; tauto. Qed.

  Lemma sizes_child cs i : Forall sizes_ok cs -> sizes_ok (child cs i).
  Proof.
    intros F. destruct (Nat.lt_ge_cases (N.to_nat i) (length cs)) as [L|L].
    - rewrite Forall_forall in F. apply F. now apply child_in.
    - rewrite child_out by lia. exact I.
  Qed.

  Lemma payload_small n : n <> Empty -> sizes_ok n -> blen (concat (ser_items n)) < 2 ^ 64.
  Proof.
    intros Hne Hs. pose proof (sizes_top n Hne Hs) as B. rewrite (ser_eq n Hne) in B.
    pose proof (rlp_list_length (ser_items n)). unfold blen in *. lia.
  Qed.

  Lemma item_small n it : n <> Empty -> sizes_ok n -> In it (ser_items n) -> blen it < 2 ^ 64.
  Proof.
    intros Hne Hs Hin. pose proof (payload_small n Hne Hs). pose proof (concat_in_length it _ Hin).
    unfold blen in *. lia.
  Qed.

  Lemma str_small n b : n <> Empty -> sizes_ok n -> In (rlp_str b) (ser_items n) -> blen b < 2 ^ 64.
  Proof.
    intros Hne Hs Hin. pose proof (item_small n _ Hne Hs Hin). pose proof (rlp_str_length b).
    unfold blen in *. lia.
  Qed.

  (* links *)
  Definition inline (c : node) : bool := (length (ser H c) <=? 32)%nat.

  Lemma lnk_empty : lnk Empty = [128].
  Proof. reflexivity. Qed.

  Lemma lnk_inline c : inline c = true -> lnk c = ser H c.
  Proof. unfold lnk, link_of, inline. now intros ->. Qed.

  Lemma rlp_str_32 b : length b = 32%nat -> rlp_str b = 160 :: b.
  Proof.
    intros L. destruct b as [|x [|y r]]; try (cbn in L; lia).
    unfold rlp_str, rlp_hdr, blen. rewrite L. reflexivity.
  Qed.

  Lemma lnk_hashed c : inline c = false -> lnk c = 160 :: H (ser H c).
  Proof. unfold lnk, link_of, inline. intros ->. apply rlp_str_32, H_len. Qed.

  Lemma blen_hash x : blen (H x) < 2 ^ 64.
  Proof. unfold blen. rewrite H_len. reflexivity. Qed.

  Lemma rlp_item_lnk c : sizes_ok c -> rlp_item (lnk c).
  Proof.
    intros Hs. destruct (inline c) eqn:E.
    - rewrite lnk_inline by exact E. destruct c.
      + change (ser H Empty) with (rlp_str []). apply rlp_item_str. reflexivity.
      + rewrite ser_eq by discriminate. apply rlp_item_list, payload_small; [discriminate|exact Hs].
      + rewrite ser_eq by discriminate. apply rlp_item_list, payload_small; [discriminate|exact Hs].
      + rewrite ser_eq by discriminate. apply rlp_item_list, payload_small; [discriminate|exact Hs].
    - unfold lnk, link_of. fold (inline c). rewrite E. apply rlp_item_str, blen_hash.
  Qed.

  Lemma items_are_items n : wf_node n -> sizes_ok n -> Forall rlp_item (ser_items n).
  Proof.
    intros W Hs. assert (Hne : n <> Empty) by (destruct n; [destruct W|discriminate..]).
    destruct n as [ | ks v | ks n' | cs bv]; [constructor| | | ].
    - repeat constructor; apply rlp_item_str; apply (str_small _ _ Hne Hs); cbn; auto.
    - cbn [sizes_ok] in Hs. repeat constructor.
      + apply rlp_item_str. apply (str_small (Ext ks n') _ Hne); [exact Hs|cbn; auto].
      + apply rlp_item_lnk. tauto.
    - cbn [ser_items]. apply Forall_app. split.
      + apply sizes_branch in Hs as [_ F]. apply Forall_forall. intros it Hit.
        apply in_map_iff in Hit as (c & <- & Hc). apply rlp_item_lnk.
        rewrite Forall_forall in F. now apply F.
      + repeat constructor. apply rlp_item_str. apply (str_small (Branch cs bv) _ Hne Hs).
        cbn [ser_items]. apply in_or_app. right. now left.
  Qed.

  Lemma parse_ser n : wf_node n -> sizes_ok n -> parse_list (ser H n) = Some (ser_items n).
  Proof.
    intros W Hs. assert (Hne : n <> Empty) by (destruct n; [destruct W|discriminate..]).
    rewrite ser_eq by exact Hne. apply parse_list_list; [now apply items_are_items|now apply payload_small].
  Qed.

  Lemma ser_head n : wf_node n -> sizes_ok n -> exists b0 r, ser H n = b0 :: r /\ 192 <= b0.
  Proof.
    intros W Hs. assert (Hne : n <> Empty) by (destruct n; [destruct W|discriminate..]).
    rewrite ser_eq by exact Hne. destruct (rlp_list_head (ser_items n) (payload_small n Hne Hs)) as (b0 & r & E & L & _).
    eauto.
  Qed.

  Lemma lnk_shorter n c : n <> Empty -> In (lnk c) (ser_items n) -> inline c = true ->
    (length (ser H c) < length (ser H n))%nat.
  Proof.
    intros Hne Hin Ei. rewrite (ser_eq n Hne). rewrite lnk_inline in Hin by exact Ei.
    pose proof (concat_in_length _ _ Hin). pose proof (rlp_list_length (ser_items n)). lia.
  Qed.

  (* ---------- what the checker is expected to do on a genuine node ---------- *)

  Fixpoint expect (n : node) (k : nibs) (hashed re : bool) : wres :=
    match n with
    | Empty => Done PNotFound
    | Leaf ks v =>
        if hashed && negb re then Done PIllegal
        else if bytes_eqb ks k then Done (PVal v) else Done PNotFound
    | Ext ks n' =>
        match cp k ks with
        | (_, rk, []) => if inline n' then expect n' rk false re else Cont (H (ser H n')) rk
        | _ => Done PNotFound
        end
    | Branch cs bv =>
        match k with
        | [] => Done (match bv with Some v => PVal v | None => PNil end)
        | i :: r =>
            (fix go (l : list node) (j : N) : wres :=
               match l with
               | [] => Done PNotFound
               | c :: t =>
                   if j =? 0 then
                     match c with
                     | Empty => Done PNotFound
                     | _ => if inline c then expect c r false re else Cont (H (ser H c)) r
                     end
                   else go t (j - 1)
               end) cs i
        end
    end.

  Definition follow_e (c : node) (r : nibs) (re : bool) : wres :=
    match c with
    | Empty => Done PNotFound
    | _ => if inline c then expect c r false re else Cont (H (ser H c)) r
    end.

  Lemma expect_branch cs bv i r hashed re :
    expect (Branch cs bv) (i :: r) hashed re = follow_e (child cs i) r re.
  Proof.
    cbn [expect]. revert i. induction cs as [|c t IH]; intros i; cbn [child]; [reflexivity|].
    destruct (i =? 0); [reflexivity|apply IH].
  Qed.

  Lemma expect_ext ks n' k hashed re :
    expect (Ext ks n') k hashed re =
    match strip ks k with
    | Some rk => if inline n' then expect n' rk false re else Cont (H (ser H n')) rk
    | None => Done PNotFound
    end.
  Proof.
    cbn [expect]. pose proof (cp_third_nil k ks) as T.
    destruct (cp k ks) as [[c rk] rks]. destruct rks; rewrite T; reflexivity.
  Qed.

  (* ---------- walk on a genuine node ---------- *)

  (* the link step of walk, as a function *)
  Definition followf (f : nat) (re : bool) (link : bytes) (k' : nibs) (ext : bool) : wres :=
    match link with
    | [] => Done PBad
    | b0 :: _ =>
        if 192 <=? b0 then walk f false re link k'
        else match parse_bytes link with
             | None => Done PBad
             | Some [] => Done (if ext then PBad else PNotFound)
             | Some h => Cont h k'
             end
    end.

  Lemma walk_two f hashed re s k i0 i1 :
    parse_list s = Some [i0; i1] ->
    walk (S f) hashed re s k =
    match parse_bytes i0 with
    | Some (f0 :: hr) =>
        match hp_decode (f0 :: hr) with
        | None => Done PBad
        | Some ks =>
            if N.testbit f0 5 then
              match parse_bytes i1 with
              | None => Done PBad
              | Some v =>
                  if hashed && negb re then Done PIllegal
                  else if bytes_eqb ks k then Done (PVal v) else Done PNotFound
              end
            else
              match cp k ks with
              | (_, rk, []) => followf f re i1 rk true
              | _ => Done PNotFound
              end
        end
    | _ => Done PBad
    end.
  Proof. intros P. cbn [walk]. rewrite P. reflexivity. Qed.

  Lemma walk_seventeen f hashed re s k items :
    parse_list s = Some items -> length items = 17%nat ->
    walk (S f) hashed re s k =
    match k with
    | [] =>
        match nth_error items 16 with
        | None => Done PBad
        | Some b =>
            match parse_bytes b with
            | None => Done PBad
            | Some [] => Done PNil
            | Some v => Done (PVal v)
            end
        end
    | i :: r =>
        match nth_error items (N.to_nat i) with
        | None => Done PBad
        | Some l => if 16 <=? i then Done PBad else followf f re l r false
        end
    end.
  Proof.
    intros P L. cbn [walk]. rewrite P.
    destruct items as [|a [|b [|c t]]]; try (cbn in L; lia).
    cbn [length] in L. replace (Nat.eqb (length (a :: b :: c :: t)) 17) with true
      by (symmetry; apply Nat.eqb_eq; cbn [length]; lia).
    reflexivity.
  Qed.

  (* following the link of a genuine child *)
  Lemma follow_child f re c r ext :
    wfe c -> sizes_ok c -> (ext = true -> c <> Empty) ->
    (inline c = true -> c <> Empty -> walk f false re (ser H c) r = expect c r false re) ->
    followf f re (lnk c) r ext = follow_e c r re.
  Proof.
    intros W Hs Hext IH. unfold followf, follow_e. destruct (inline c) eqn:Ei.
    - rewrite lnk_inline by exact Ei. destruct W as [->|W].
      + cbn. destruct ext; [exfalso; now apply Hext|reflexivity].
      + destruct (ser_head c W Hs) as (b0 & r0 & E & L). rewrite E.
        replace (192 <=? b0) with true by lia. rewrite <- E.
        assert (Hne : c <> Empty) by (destruct c; [destruct W|discriminate..]).
        rewrite IH by auto. destruct c; [congruence|reflexivity..].
    - rewrite lnk_hashed by exact Ei. cbn [N.leb N.compare Pos.compare Pos.compare_cont].
      replace (192 <=? 160) with false by reflexivity.
      rewrite <- lnk_hashed by exact Ei. unfold lnk, link_of. fold (inline c). rewrite Ei.
      rewrite parse_bytes_str by apply blen_hash.
      assert (c <> Empty) by (intros ->; discriminate).
      destruct (H (ser H c)) as [|h0 ht] eqn:Eh.
      + pose proof (H_len (ser H c)) as X. rewrite Eh in X. discriminate.
      + destruct c; [congruence|reflexivity..].
  Qed.

  Theorem walk_ser n : forall fuel k hashed re,
    wf_node n -> sizes_ok n -> nibs_ok k = true -> (length (ser H n) < fuel)%nat ->
    walk fuel hashed re (ser H n) k = expect n k hashed re.
  Proof.
    induction n as [ | ks v | ks n' IH | cs bv IH] using node_ind'; intros fuel k hashed re W Hs Hk Hf.
    - destruct W.
    - destruct fuel as [|f]; [lia|].
      rewrite (walk_two f hashed re _ k _ _ (parse_ser _ W Hs)).
      pose proof W as W'. cbn in W'. destruct W' as [Hks Hv].
      destruct (hp_roundtrip 32 ks (or_intror eq_refl) Hks) as (f0 & hr & E1 & E2 & E3).
      rewrite parse_bytes_str by (apply (str_small (Leaf ks v)); [discriminate|exact Hs|cbn; auto]).
      rewrite E1, E2, E3. cbn [N.eqb Pos.eqb].
      rewrite parse_bytes_str by (apply (str_small (Leaf ks v)); [discriminate|exact Hs|cbn; auto]).
      reflexivity.
    - destruct fuel as [|f]; [lia|].
      rewrite (walk_two f hashed re _ k _ _ (parse_ser _ W Hs)).
      pose proof W as W'. cbn in W'. destruct W' as (Hne & Hks & Hb & Wn).
      destruct (hp_roundtrip 0 ks (or_introl eq_refl) Hks) as (f0 & hr & E1 & E2 & E3).
      rewrite parse_bytes_str by (apply (str_small (Ext ks n')); [discriminate|exact Hs|cbn; auto]).
      rewrite E1, E2, E3. cbn [N.eqb].
      rewrite expect_ext. pose proof (cp_third_nil k ks) as T.
      destruct (cp k ks) as [[c rk] rks]. destruct rks as [|y rks]; rewrite T; [|reflexivity].
      cbn [sizes_ok] in Hs. destruct Hs as [Hs0 Hsn].
      assert (Hrk : nibs_ok rk = true).
      { apply strip_some in T. subst k. apply nibs_ok_app in Hk. tauto. }
      rewrite (follow_child f re n' rk true).
      + unfold follow_e. destruct n'; [destruct Wn|reflexivity..].
      + now right.
      + exact Hsn.
      + intros _ ->. destruct Wn.
      + intros Ei Hnn. apply IH; auto.
        assert (X : (length (ser H n') < length (ser H (Ext ks n')))%nat).
        { apply lnk_shorter; [discriminate| |exact Ei]. cbn. auto. }
        lia.
    - destruct fuel as [|f]; [lia|].
      pose proof W as W'. apply wf_branch_iff in W' as (L & Hbv & Hocc & Wc).
      pose proof Hs as Hs'. apply sizes_branch in Hs' as [Hs0 Hsc].
      assert (Li : length (ser_items (Branch cs bv)) = 17%nat).
      { cbn [ser_items]. rewrite app_length, map_length, L. reflexivity. }
      rewrite (walk_seventeen f hashed re _ k _ (parse_ser _ W Hs) Li).
      destruct k as [|i r].
      + cbn [ser_items expect]. rewrite nth_error_app2 by (rewrite map_length; lia).
        rewrite map_length, L. cbn [Nat.sub nth_error].
        rewrite parse_bytes_str
          by (apply (str_small (Branch cs bv)); [discriminate|exact Hs|cbn [ser_items]; apply in_or_app; right; now left]).
        destruct bv as [[|v0 vt]|]; [exfalso; now apply Hbv|reflexivity|reflexivity].
      + apply nibs_ok_cons in Hk as [Hi Hr]. rewrite expect_branch.
        cbn [ser_items]. rewrite nth_error_app1 by (rewrite map_length; lia).
        assert (En : nth_error (map lnk cs) (N.to_nat i) = Some (lnk (child cs i))).
        { rewrite child_nth. apply map_nth_error. apply nth_error_nth'. lia. }
        rewrite En. replace (16 <=? i) with false by lia.
        apply follow_child.
        * now apply wfe_child.
        * now apply sizes_child.
        * discriminate.
        * intros Ei Hnn. rewrite Forall_forall in IH. apply IH; auto.
          -- apply child_in. lia.
          -- destruct (wfe_child cs i Wc) as [E|Wx]; [congruence|exact Wx].
          -- now apply sizes_child.
          -- assert (X : (length (ser H (child cs i)) < length (ser H (Branch cs bv)))%nat).
             { apply lnk_shorter; [discriminate| |exact Ei]. cbn [ser_items]. apply in_or_app. left.
               apply in_map. apply child_in. lia. }
             lia.
  Qed.

  (* ---------- running the checker from a node ---------- *)

  Definition is_nil {A} (l : list A) : bool := match l with [] => true | _ => false end.

  Definition run (n : node) (k : nibs) (hashed : bool) (rest : list bytes) : presult :=
    match expect n k hashed (is_nil rest) with
    | Done r => r
    | Cont h k' => prove_items H h k' rest
    end.

  Lemma prove_items_genuine n k rest :
    wf_node n -> sizes_ok n -> nibs_ok k = true ->
    prove_items H (H (ser H n)) k (ser H n :: rest) = run n k true rest.
  Proof.
    intros W Hs Hk. cbn [prove_items]. rewrite bytes_eqb_refl.
    rewrite walk_ser by (auto; lia). unfold run, is_nil. destruct rest; reflexivity.
  Qed.

End WithHash.
