(* Proofs_VoteSet.v — lemmas about Model_VoteSet (property C04).
   Style: stdlib, lia. *)
From Goloop Require Import lib.Bytes Model_VoteSet.
From Coq Require Import ZifyBool ZifyN ZifyNat Permutation.
Ltac Zify.zify_post_hook ::= Z.div_mod_to_equations.
Open Scope Z_scope.

(* ------------------------------------------------------------------ *)
(* threshold arithmetic                                                 *)

Lemma over23_spec c n : 0 <= n -> (over23 c n = true <-> 3 * c > 2 * n).
Proof.
  intros Hn. unfold over23. rewrite Z.quot_div_nonneg by lia.
  split; intro H; lia.
Qed.

Lemma over23_false c n : 0 <= n -> (over23 c n = false <-> 3 * c <= 2 * n).
Proof.
  intros Hn. pose proof (over23_spec c n Hn) as H.
  destruct (over23 c n); split; intro; try discriminate; try reflexivity.
  - assert (3 * c > 2 * n) by (apply H; reflexivity). lia.
  - lia.
Qed.

(* ------------------------------------------------------------------ *)
(* recount of slots                                                     *)

Definition vf (m : list (option vote)) (d : N) : Z := Z.of_nat (length (filter (holds d) m)).
Definition occ (m : list (option vote)) : Z := Z.of_nat (length (filter occupied_slot m)).

Lemma votes_for_vf s d : votes_for s d = vf (vs_msgs s) d. Proof. reflexivity. Qed.
Lemma occupied_occ s : occupied s = occ (vs_msgs s). Proof. reflexivity. Qed.

Lemma vf_nonneg m d : 0 <= vf m d. Proof. unfold vf; lia. Qed.
Lemma occ_nonneg m : 0 <= occ m. Proof. unfold occ; lia. Qed.

Lemma vf_app a b d : vf (a ++ b) d = vf a d + vf b d.
Proof. unfold vf. rewrite filter_app, app_length. lia. Qed.
Lemma occ_app a b : occ (a ++ b) = occ a + occ b.
Proof. unfold occ. rewrite filter_app, app_length. lia. Qed.

Lemma vf_cons x m d : vf (x :: m) d = (if holds d x then 1 else 0) + vf m d.
Proof. unfold vf. cbn [filter]. destruct (holds d x); cbn [length]; lia. Qed.
Lemma occ_cons x m : occ (x :: m) = (if occupied_slot x then 1 else 0) + occ m.
Proof. unfold occ. cbn [filter]. destruct (occupied_slot x); cbn [length]; lia. Qed.

Lemma vf_mid a x b d : vf (a ++ x :: b) d = vf a d + (if holds d x then 1 else 0) + vf b d.
Proof. rewrite vf_app, vf_cons. lia. Qed.
Lemma occ_mid a x b : occ (a ++ x :: b) = occ a + (if occupied_slot x then 1 else 0) + occ b.
Proof. rewrite occ_app, occ_cons. lia. Qed.

Lemma occ_le_length m : occ m <= Z.of_nat (length m).
Proof.
  induction m as [|x m IH]; [unfold occ; cbn; lia|].
  rewrite occ_cons. cbn [length]. destruct (occupied_slot x); lia.
Qed.

Lemma vf_two_le_occ m d1 d2 : d1 <> d2 -> vf m d1 + vf m d2 <= occ m.
Proof.
  intros Hd. induction m as [|x m IH]; [unfold vf, occ; cbn; lia|].
  rewrite !vf_cons, occ_cons. destruct x as [v|]; cbn [holds occupied_slot].
  - destruct (N.eqb_spec (v_dec v) d1), (N.eqb_spec (v_dec v) d2); lia.
  - lia.
Qed.

Lemma vf_le_occ m d : vf m d <= occ m.
Proof.
  induction m as [|x m IH]; [unfold vf, occ; cbn; lia|].
  rewrite vf_cons, occ_cons. destruct x as [v|]; cbn [holds occupied_slot].
  - destruct (v_dec v =? d)%N; lia.
  - lia.
Qed.

Lemma vf_repeat_none n d : vf (repeat None n) d = 0.
Proof. induction n; [reflexivity|]. cbn [repeat]. rewrite vf_cons. cbn [holds]. lia. Qed.
Lemma occ_repeat_none n : occ (repeat None n) = 0.
Proof. induction n; [reflexivity|]. cbn [repeat]. rewrite occ_cons. cbn [occupied_slot]. lia. Qed.

(* ------------------------------------------------------------------ *)
(* list surgery                                                         *)

Lemma set_nth_length {A} i (x : A) l : length (set_nth i x l) = length l.
Proof. revert i; induction l as [|y l IH]; intros [|i]; cbn; auto. Qed.

Lemma set_nth_app {A} (a : list A) x y b : set_nth (length a) y (a ++ x :: b) = a ++ y :: b.
Proof. induction a as [|z a IH]; cbn; [reflexivity|]. now rewrite IH. Qed.

Lemma nth_error_mid {A} (a : list A) x b : nth_error (a ++ x :: b) (length a) = Some x.
Proof. induction a; cbn; auto. Qed.

Lemma nth_z_mid {A} (a : list A) x b : nth_z (a ++ x :: b) (Z.of_nat (length a)) = Some x.
Proof.
  unfold nth_z. destruct (Z.of_nat (length a) <? 0) eqn:E; [lia|].
  rewrite Nat2Z.id. apply nth_error_mid.
Qed.

Lemma nth_z_some {A} (l : list A) i x : nth_z l i = Some x -> 0 <= i /\ In x l.
Proof.
  unfold nth_z. destruct (i <? 0) eqn:E; [discriminate|]. intro H.
  split; [lia|]. eapply nth_error_In; eauto.
Qed.

Lemma find_idx_none cs d : find_idx cs d = None -> ~ In d (map c_dec cs).
Proof.
  induction cs as [|c r IH]; cbn; [tauto|].
  destruct (N.eqb_spec (c_dec c) d); [discriminate|].
  destruct (find_idx r d); cbn; [discriminate|].
  intros _ [H|H]; [congruence|]. now apply IH.
Qed.

Lemma find_idx_some cs d i : find_idx cs d = Some i ->
  exists a x b, cs = a ++ x :: b /\ length a = i /\ c_dec x = d /\ ~ In d (map c_dec a).
Proof.
  revert i; induction cs as [|c r IH]; cbn; [discriminate|]. intros i.
  destruct (N.eqb_spec (c_dec c) d) as [E|E].
  - intros [= <-]. exists [], c, r. cbn. tauto.
  - destruct (find_idx r d) as [j|] eqn:F; cbn; [|discriminate].
    intros [= <-]. destruct (IH j eq_refl) as (a & x & b & -> & <- & Hx & Hn).
    exists (c :: a), x, b. cbn. repeat split; auto. intros [H|H]; [congruence|tauto].
Qed.

Lemma swap_remove_last cs y i : swap_remove (cs ++ [y]) i = removelast (set_nth i y (cs ++ [y])).
Proof. unfold swap_remove. now rewrite rev_unit. Qed.

Lemma swap_remove_perm a x b : Permutation (swap_remove (a ++ x :: b) (length a)) (a ++ b).
Proof.
  induction b as [|y b' _] using rev_ind.
  - rewrite swap_remove_last, set_nth_app, removelast_last, app_nil_r. reflexivity.
  - replace (a ++ x :: b' ++ [y]) with ((a ++ x :: b') ++ [y])
      by (rewrite <- app_assoc; reflexivity).
    rewrite swap_remove_last.
    replace ((a ++ x :: b') ++ [y]) with (a ++ x :: b' ++ [y])
      by (rewrite <- app_assoc; reflexivity).
    rewrite set_nth_app.
    replace (a ++ y :: b' ++ [y]) with ((a ++ y :: b') ++ [y])
      by (rewrite <- app_assoc; reflexivity).
    rewrite removelast_last.
    apply Permutation_app_head. apply Permutation_cons_append.
Qed.

(* ------------------------------------------------------------------ *)
(* counters = recount                                                   *)

Definition cnt_inv (cs : list counter) (m : list (option vote)) : Prop :=
  NoDup (map c_dec cs) /\
  Forall (fun c => 0 < c_count c /\ c_count c = vf m (c_dec c)) cs /\
  (forall d, 0 < vf m d -> In d (map c_dec cs)).

Lemma cnt_inv_perm cs cs' m : Permutation cs cs' -> cnt_inv cs m -> cnt_inv cs' m.
Proof.
  intros P (ND & FA & CV). repeat split.
  - eapply Permutation_NoDup; [apply Permutation_map; exact P|exact ND].
  - eapply Permutation_Forall; eauto.
  - intros d Hd. eapply Permutation_in; [apply Permutation_map; exact P|auto].
Qed.

Lemma nodup_mid_neq (a : list counter) x b c :
  NoDup (map c_dec (a ++ x :: b)) -> In c (a ++ b) -> c_dec c <> c_dec x.
Proof.
  rewrite map_app. cbn [map]. intros ND Hc E.
  apply NoDup_remove_2 in ND. apply ND. rewrite <- map_app, <- E. now apply in_map.
Qed.

Lemma in_mid_other {A} (a : list A) x b y : In y (a ++ x :: b) -> y <> x -> In y (a ++ b).
Proof. rewrite !in_app_iff. cbn. intros [H|[H|H]] N; auto. congruence. Qed.

Lemma in_mid_incl {A} (a : list A) x b y : In y (a ++ b) -> In y (a ++ x :: b).
Proof. rewrite !in_app_iff. cbn. tauto. Qed.

Lemma dec_counter_inv cs ma o mb :
  cnt_inv cs (ma ++ Some o :: mb) ->
  cnt_inv (dec_counter cs (v_dec o)) (ma ++ None :: mb).
Proof.
  intros (ND & FA & CV).
  set (d := v_dec o).
  assert (Hvf : forall d', vf (ma ++ None :: mb) d' =
                           vf (ma ++ Some o :: mb) d' - (if (d =? d')%N then 1 else 0)).
  { intro d'. rewrite !vf_mid. cbn [holds]. fold d. lia. }
  assert (Hin : In d (map c_dec cs)).
  { apply CV. rewrite vf_mid. cbn [holds]. fold d. rewrite N.eqb_refl.
    pose proof (vf_nonneg ma d). pose proof (vf_nonneg mb d). lia. }
  unfold dec_counter. fold d.
  destruct (find_idx cs d) as [i|] eqn:F; [|exfalso; eapply find_idx_none; eauto].
  destruct (find_idx_some _ _ _ F) as (a & x & b & -> & <- & Hx & Hna).
  rewrite nth_error_mid.
  assert (Hxc : 0 < c_count x /\ c_count x = vf (ma ++ Some o :: mb) d).
  { rewrite Forall_forall in FA. rewrite <- Hx. apply FA. apply in_elt. }
  destruct (c_count x - 1 =? 0) eqn:K.
  - eapply cnt_inv_perm; [symmetry; apply swap_remove_perm|].
    repeat split.
    + rewrite map_app in *. cbn [map] in ND. eapply NoDup_remove_1; eauto.
    + rewrite Forall_forall in *. intros c Hc.
      pose proof (nodup_mid_neq _ _ _ _ ND Hc) as Hne.
      specialize (FA c (in_mid_incl _ _ _ _ Hc)). rewrite Hvf.
      destruct (N.eqb_spec d (c_dec c)); [congruence|]. lia.
    + intros d' Hd'. rewrite Hvf in Hd'.
      destruct (N.eqb_spec d d') as [E|E].
      * subst d'. lia.
      * assert (Hi : In d' (map c_dec (a ++ x :: b))) by (apply CV; lia).
        rewrite map_app in *. cbn [map] in Hi. eapply in_mid_other; eauto. congruence.
  - rewrite set_nth_app.
    assert (Hmap : map c_dec (a ++ {| c_dec := c_dec x; c_count := c_count x - 1 |} :: b)
                   = map c_dec (a ++ x :: b)).
    { rewrite !map_app. reflexivity. }
    repeat split.
    + now rewrite Hmap.
    + rewrite Forall_forall in *. intros c Hc.
      apply in_app_or in Hc. destruct Hc as [Hc|[Hc|Hc]].
      * assert (Hc' : In c (a ++ b)) by (apply in_or_app; auto).
        pose proof (nodup_mid_neq _ _ _ _ ND Hc') as Hne.
        specialize (FA c (in_mid_incl _ _ _ _ Hc')). rewrite Hvf.
        destruct (N.eqb_spec d (c_dec c)); [congruence|]. lia.
      * subst c. cbn [c_dec c_count]. rewrite Hvf, Hx, N.eqb_refl. lia.
      * assert (Hc' : In c (a ++ b)) by (apply in_or_app; auto).
        pose proof (nodup_mid_neq _ _ _ _ ND Hc') as Hne.
        specialize (FA c (in_mid_incl _ _ _ _ Hc')). rewrite Hvf.
        destruct (N.eqb_spec d (c_dec c)); [congruence|]. lia.
    + intros d' Hd'. rewrite Hmap. apply CV. rewrite Hvf in Hd'.
      destruct (d =? d')%N; lia.
Qed.

Lemma inc_counter_inv cs ma v mb :
  cnt_inv cs (ma ++ None :: mb) ->
  cnt_inv (inc_counter cs (v_dec v)) (ma ++ Some v :: mb).
Proof.
  intros (ND & FA & CV).
  set (d := v_dec v).
  assert (Hvf : forall d', vf (ma ++ Some v :: mb) d' =
                           vf (ma ++ None :: mb) d' + (if (d =? d')%N then 1 else 0)).
  { intro d'. rewrite !vf_mid. cbn [holds]. fold d. lia. }
  unfold inc_counter. fold d.
  destruct (find_idx cs d) as [i|] eqn:F.
  - destruct (find_idx_some _ _ _ F) as (a & x & b & -> & <- & Hx & Hna).
    rewrite nth_error_mid, set_nth_app.
    assert (Hxc : 0 < c_count x /\ c_count x = vf (ma ++ None :: mb) d).
    { rewrite Forall_forall in FA. rewrite <- Hx. apply FA. apply in_elt. }
    assert (Hmap : map c_dec (a ++ {| c_dec := c_dec x; c_count := c_count x + 1 |} :: b)
                   = map c_dec (a ++ x :: b)).
    { rewrite !map_app. reflexivity. }
    repeat split.
    + now rewrite Hmap.
    + rewrite Forall_forall in *. intros c Hc.
      apply in_app_or in Hc. destruct Hc as [Hc|[Hc|Hc]].
      * assert (Hc' : In c (a ++ b)) by (apply in_or_app; auto).
        pose proof (nodup_mid_neq _ _ _ _ ND Hc') as Hne.
        specialize (FA c (in_mid_incl _ _ _ _ Hc')). rewrite Hvf.
        destruct (N.eqb_spec d (c_dec c)); [congruence|]. lia.
      * subst c. cbn [c_dec c_count]. rewrite Hvf, Hx, N.eqb_refl. lia.
      * assert (Hc' : In c (a ++ b)) by (apply in_or_app; auto).
        pose proof (nodup_mid_neq _ _ _ _ ND Hc') as Hne.
        specialize (FA c (in_mid_incl _ _ _ _ Hc')). rewrite Hvf.
        destruct (N.eqb_spec d (c_dec c)); [congruence|]. lia.
    + intros d' Hd'. rewrite Hmap. rewrite Hvf in Hd'.
      destruct (N.eqb_spec d d') as [E|E].
      * subst d'. rewrite <- Hx. rewrite map_app. cbn [map]. apply in_elt.
      * apply CV. lia.
  - pose proof (find_idx_none _ _ F) as Hn.
    assert (H0 : vf (ma ++ None :: mb) d = 0).
    { pose proof (vf_nonneg (ma ++ None :: mb) d).
      destruct (Z.eq_dec (vf (ma ++ None :: mb) d) 0); auto.
      exfalso. apply Hn, CV. lia. }
    repeat split.
    + rewrite map_app. cbn [map].
      eapply Permutation_NoDup; [apply Permutation_cons_append|].
      constructor; auto.
    + apply Forall_app. split.
      * rewrite Forall_forall in *. intros c Hc. specialize (FA c Hc). rewrite Hvf.
        destruct (N.eqb_spec d (c_dec c)) as [E|E]; [|lia].
        exfalso. apply Hn. rewrite E. now apply in_map.
      * constructor; [|constructor]. cbn [c_dec c_count]. rewrite Hvf, N.eqb_refl. lia.
    + intros d' Hd'. rewrite map_app. cbn [map]. apply in_or_app. rewrite Hvf in Hd'.
      destruct (N.eqb_spec d d') as [E|E]; [right; left; auto|].
      left. apply CV. lia.
Qed.

(* counter_of agrees with the recount *)
Lemma counter_of_in cs c : NoDup (map c_dec cs) -> In c cs -> counter_of cs (c_dec c) = c_count c.
Proof.
  induction cs as [|x r IH]; cbn; [tauto|]. intros ND [->|H].
  - now rewrite N.eqb_refl.
  - inversion ND; subst. destruct (N.eqb_spec (c_dec x) (c_dec c)) as [E|E].
    + exfalso. apply H2. rewrite E. now apply in_map.
    + auto.
Qed.

Lemma counter_of_notin cs d : ~ In d (map c_dec cs) -> counter_of cs d = 0.
Proof.
  induction cs as [|x r IH]; cbn; [auto|]. intros H.
  destruct (N.eqb_spec (c_dec x) d); [tauto|]. apply IH. tauto.
Qed.

Lemma cnt_inv_counter_of cs m d : cnt_inv cs m -> counter_of cs d = vf m d.
Proof.
  intros (ND & FA & CV).
  destruct (in_dec N.eq_dec d (map c_dec cs)) as [H|H].
  - apply in_map_iff in H. destruct H as (c & <- & Hc).
    rewrite counter_of_in by auto. rewrite Forall_forall in FA. now apply FA.
  - rewrite counter_of_notin by auto. pose proof (vf_nonneg m d).
    destruct (Z.eq_dec (vf m d) 0); [lia|]. exfalso. apply H, CV. lia.
Qed.

(* ------------------------------------------------------------------ *)
(* the scan and the cache                                               *)

Lemma scan_spec cs : forall pre i mi mx,
  i = Z.of_nat (length pre) -> 0 <= mx ->
  Forall (fun c => c_count c <= mx) pre ->
  ((mx = 0 /\ mi = -1) \/ exists c, nth_z (pre ++ cs) mi = Some c /\ c_count c = mx) ->
  0 <= snd (scan cs i mi mx) /\
  Forall (fun c => c_count c <= snd (scan cs i mi mx)) (pre ++ cs) /\
  ((snd (scan cs i mi mx) = 0 /\ fst (scan cs i mi mx) = -1) \/
   exists c, nth_z (pre ++ cs) (fst (scan cs i mi mx)) = Some c /\
             c_count c = snd (scan cs i mi mx)).
Proof.
  induction cs as [|c r IH]; intros pre i mi mx Hi Hmx Hpre Hw.
  - cbn [scan fst snd]. rewrite app_nil_r in *. auto.
  - cbn [scan].
    assert (Hi' : i + 1 = Z.of_nat (length (pre ++ [c]))) by (rewrite app_length; cbn; lia).
    destruct (c_count c >? mx) eqn:G.
    + specialize (IH (pre ++ [c]) (i + 1) i (c_count c) Hi').
      rewrite <- app_assoc in IH. cbn [app] in IH. apply IH.
      * lia.
      * apply Forall_app. split.
        -- eapply Forall_impl; [|exact Hpre]. cbn. intros; lia.
        -- constructor; [lia|constructor].
      * right. exists c. split; [|reflexivity]. subst i. apply nth_z_mid.
    + specialize (IH (pre ++ [c]) (i + 1) mi mx Hi').
      rewrite <- app_assoc in IH. cbn [app] in IH. apply IH; auto.
      apply Forall_app. split; auto. constructor; [lia|constructor].
Qed.

Definition qspec (cs : list counter) : Z * Z := scan cs 0 (-1) 0.

Lemma qspec_spec cs :
  0 <= snd (qspec cs) /\
  Forall (fun c => c_count c <= snd (qspec cs)) cs /\
  ((snd (qspec cs) = 0 /\ fst (qspec cs) = -1) \/
   exists c, nth_z cs (fst (qspec cs)) = Some c /\ c_count c = snd (qspec cs)).
Proof.
  unfold qspec. apply (scan_spec cs [] 0 (-1) 0); auto; try reflexivity; try lia.
Qed.

Definition cache_ok (s : voteset) : Prop :=
  vs_max_index s = -1 \/ (0 <= vs_max_index s /\ fst (qspec (vs_counters s)) = vs_max_index s).

Definition inv (n : nat) (s : voteset) : Prop :=
  length (vs_msgs s) = n /\
  cnt_inv (vs_counters s) (vs_msgs s) /\
  vs_count s = occ (vs_msgs s) /\
  cache_ok s.

(* what the query computes, free of the cache *)
Definition decision (s : voteset) : option N :=
  if over23 (snd (qspec (vs_counters s))) (nvals s)
  then option_map c_dec (nth_z (vs_counters s) (fst (qspec (vs_counters s))))
  else None.

Definition cached (s : voteset) : voteset :=
  {| vs_msgs := vs_msgs s; vs_max_index := fst (qspec (vs_counters s)); vs_round := vs_round s;
     vs_counters := vs_counters s; vs_count := vs_count s |}.

Lemma nvals_nonneg s : 0 <= nvals s. Proof. unfold nvals; lia. Qed.

Lemma query_eq n s : inv n s -> query s = Some (cached s, decision s).
Proof.
  intros (Hl & HC & Hc & HK).
  pose proof (qspec_spec (vs_counters s)) as (Q0 & QF & QW).
  pose proof (nvals_nonneg s) as Hn.
  unfold query, decision, cached.
  destruct HK as [HK|[HK1 HK2]].
  - rewrite HK. change (-1 <? 0) with true. cbn iota.
    change (scan (vs_counters s) 0 (-1) 0) with (qspec (vs_counters s)).
    destruct (qspec (vs_counters s)) as [mi mx] eqn:Q. cbn [fst snd] in *.
    destruct (over23 mx (nvals s)) eqn:O; [|reflexivity].
    apply over23_spec in O; auto.
    destruct QW as [[Q1 _]|(c & Hc1 & Hc2)]; [lia|].
    rewrite Hc1. reflexivity.
  - destruct (vs_max_index s <? 0) eqn:E; [lia|].
    destruct QW as [[_ Q1]|(c & Hc1 & Hc2)]; [lia|].
    rewrite <- HK2. rewrite Hc1. cbn beta iota. rewrite Hc2.
    destruct (over23 (snd (qspec (vs_counters s))) (nvals s)); [rewrite Hc1|]; reflexivity.
Qed.

Lemma cached_inv n s : inv n s -> inv n (cached s).
Proof.
  intros (Hl & HC & Hc & HK). repeat split; auto; try apply HC.
  unfold cache_ok, cached; cbn [vs_max_index vs_counters].
  pose proof (qspec_spec (vs_counters s)) as (Q0 & QF & QW).
  destruct QW as [[_ Q1]|(c & Hc1 & Hc2)]; [left; auto|].
  right. split; [|reflexivity]. now apply nth_z_some in Hc1.
Qed.

Lemma decision_iff n s d : inv n s ->
  (decision s = Some d <-> 3 * vf (vs_msgs s) d > 2 * Z.of_nat n).
Proof.
  intros (Hl & (ND & FA & CV) & Hc & HK).
  pose proof (qspec_spec (vs_counters s)) as (Q0 & QF & QW).
  assert (Hn : nvals s = Z.of_nat n) by (unfold nvals; now rewrite Hl).
  unfold decision. rewrite Hn. rewrite Forall_forall in FA, QF.
  split.
  - destruct (over23 _ _) eqn:O; [|discriminate].
    apply over23_spec in O; [|lia].
    destruct QW as [[Q1 _]|(c & Hc1 & Hc2)]; [lia|].
    rewrite Hc1. cbn [option_map]. intros [= <-].
    apply nth_z_some in Hc1. destruct Hc1 as [_ Hin].
    destruct (FA c Hin) as [_ E]. lia.
  - intro H. pose proof (vf_nonneg (vs_msgs s) d).
    assert (Hd : In d (map c_dec (vs_counters s))) by (apply CV; lia).
    apply in_map_iff in Hd. destruct Hd as (c' & Hc'd & Hc'in).
    destruct (FA c' Hc'in) as [_ Ec']. rewrite Hc'd in Ec'.
    pose proof (QF c' Hc'in) as Hle.
    assert (O : over23 (snd (qspec (vs_counters s))) (Z.of_nat n) = true)
      by (apply over23_spec; lia).
    rewrite O.
    destruct QW as [[Q1 _]|(c & Hc1 & Hc2)]; [lia|].
    rewrite Hc1. cbn [option_map]. f_equal.
    apply nth_z_some in Hc1. destruct Hc1 as [_ Hin].
    destruct (FA c Hin) as [_ E].
    destruct (N.eq_dec (c_dec c) d) as [|Hne]; auto. exfalso.
    pose proof (vf_two_le_occ (vs_msgs s) _ _ Hne).
    pose proof (occ_le_length (vs_msgs s)). rewrite Hl in *. lia.
Qed.

(* ------------------------------------------------------------------ *)
(* add preserves the invariant                                          *)

Lemma init_inv n : inv n (init n).
Proof.
  unfold inv, init; cbn [vs_msgs vs_counters vs_count vs_max_index].
  repeat split.
  - apply repeat_length.
  - constructor.
  - constructor.
  - intros d Hd. rewrite vf_repeat_none in Hd. lia.
  - now rewrite occ_repeat_none.
  - left. reflexivity.
Qed.

Lemma store_inv n ma x mb cs rnd cnt mi v :
  length (ma ++ x :: mb) = n ->
  cnt_inv cs (ma ++ None :: mb) ->
  cnt = occ (ma ++ None :: mb) ->
  inv n (store {| vs_msgs := ma ++ x :: mb; vs_max_index := mi; vs_round := rnd;
                  vs_counters := cs; vs_count := cnt |} (length ma) v).
Proof.
  intros Hl HC Hc. unfold store, inv. cbn [vs_msgs vs_counters vs_count vs_max_index].
  rewrite set_nth_app. split; [|split; [|split]].
  - rewrite app_length in *. cbn [length] in *. lia.
  - apply inc_counter_inv, HC.
  - subst cnt. rewrite !occ_mid. cbn [occupied_slot]. lia.
  - left. reflexivity.
Qed.

Lemma vote_eqb_eq a b : vote_eqb a b = true <-> a = b.
Proof.
  unfold vote_eqb. destruct a as [d1 t1 h1 r1 y1], b as [d2 t2 h2 r2 y2];
    cbn [v_dec v_ts v_height v_round v_type].
  rewrite !andb_true_iff, !Z.eqb_eq, !N.eqb_eq. split.
  - intros ((((-> & ->) & ->) & ->) & ->). reflexivity.
  - intros [= -> -> -> -> ->]. tauto.
Qed.

(* the shape of add's result, in terms of the cache-free decision *)
Lemma add_eq n s i v : inv n s ->
  add s i v =
  match nth_error (vs_msgs s) i with
  | None => None
  | Some None => Some (store s i v, true)
  | Some (Some o) =>
      if vote_eqb o v then Some (s, false)
      else if match decision s with Some rdd => (rdd =? v_dec o)%N | None => false end
      then Some (cached s, false)
      else Some (store {| vs_msgs := vs_msgs s; vs_max_index := fst (qspec (vs_counters s));
                          vs_round := vs_round s;
                          vs_counters := dec_counter (vs_counters s) (v_dec o);
                          vs_count := vs_count s - 1 |} i v, true)
  end.
Proof.
  intro H. unfold add. destruct (nth_error (vs_msgs s) i) as [[o|]|]; auto.
  destruct (vote_eqb o v); auto. rewrite (query_eq n s H). reflexivity.
Qed.

Lemma add_inv n s i v s' b : inv n s -> add s i v = Some (s', b) -> inv n s'.
Proof.
  intros H. rewrite (add_eq n s i v H).
  destruct (nth_error (vs_msgs s) i) as [[o|]|] eqn:E; [| |discriminate].
  - destruct (vote_eqb o v); [intros [= <- <-]; auto|].
    destruct (match decision s with Some rdd => (rdd =? v_dec o)%N | None => false end).
    + intros [= <- <-]. now apply cached_inv.
    + intros [= <- <-].
      destruct (nth_error_split _ _ E) as (ma & mb & Hm & Hi).
      destruct H as (Hl & HC & Hc & HK).
      rewrite Hm in *. subst i.
      apply store_inv; auto.
      * now apply dec_counter_inv.
      * rewrite Hc, !occ_mid. cbn [occupied_slot]. lia.
  - intros [= <- <-].
    destruct (nth_error_split _ _ E) as (ma & mb & Hm & Hi).
    destruct H as (Hl & HC & Hc & HK). destruct s as [msgs mi rnd cs cnt].
    cbn [vs_msgs vs_counters vs_count vs_max_index vs_round] in *. subst msgs i.
    apply store_inv; auto.
Qed.

Lemma step_inv n s o s' : inv n s -> step (Some s) o = Some s' -> inv n s'.
Proof.
  intros H. destruct o as [i v|]; cbn [step].
  - destruct (add s i v) as [[s1 b]|] eqn:E; cbn; [|discriminate].
    intros [= <-]. eapply add_inv; eauto.
  - rewrite (query_eq n s H). cbn. intros [= <-]. now apply cached_inv.
Qed.

Lemma fold_step_none ops : fold_left step ops None = None.
Proof. induction ops; cbn; auto. Qed.

Lemma run_from_inv n ops : forall s s', inv n s -> run_from s ops = Some s' -> inv n s'.
Proof.
  unfold run_from. induction ops as [|o ops IH]; intros s s' H.
  - cbn. intros [= <-]. auto.
  - cbn [fold_left]. destruct (step (Some s) o) as [s1|] eqn:E.
    + apply IH. eapply step_inv; eauto.
    + rewrite fold_step_none. discriminate.
Qed.

Lemma run_inv n ops s : run n ops = Some s -> inv n s.
Proof. unfold run. apply run_from_inv, init_inv. Qed.

(* ------------------------------------------------------------------ *)
(* the statements of C04                                                *)

Lemma counters_are_recount n ops s : run n ops = Some s ->
  length (vs_msgs s) = n /\
  NoDup (map c_dec (vs_counters s)) /\
  (forall d, counter_of (vs_counters s) d = votes_for s d) /\
  (forall c, In c (vs_counters s) -> c_count c <> 0) /\
  vs_count s = occupied s.
Proof.
  intro R. destruct (run_inv _ _ _ R) as (Hl & HC & Hc & HK).
  repeat split; auto.
  - apply HC.
  - intro d. rewrite votes_for_vf. now apply cnt_inv_counter_of.
  - intros c Hin. destruct HC as (_ & FA & _). rewrite Forall_forall in FA.
    specialize (FA c Hin). lia.
Qed.

Lemma over23_decision_eq n s : inv n s -> over23_decision s = Some (decision s).
Proof. intro H. unfold over23_decision. now rewrite (query_eq n s H). Qed.

Lemma reports_iff n ops s d : run n ops = Some s ->
  (over23_decision s = Some (Some d) <-> 3 * votes_for s d > 2 * Z.of_nat n).
Proof.
  intro R. pose proof (run_inv _ _ _ R) as H.
  rewrite (over23_decision_eq n s H), votes_for_vf, <- (decision_iff n s d H).
  split; [intros [= ->]; auto|intros ->; auto].
Qed.

Lemma reports_none_iff n ops s : run n ops = Some s ->
  (over23_decision s = Some None <-> forall d, 3 * votes_for s d <= 2 * Z.of_nat n).
Proof.
  intro R. pose proof (run_inv _ _ _ R) as H.
  rewrite (over23_decision_eq n s H). split.
  - intros [= E] d. rewrite votes_for_vf.
    destruct (Z_le_gt_dec (3 * vf (vs_msgs s) d) (2 * Z.of_nat n)) as [|G]; auto.
    apply (decision_iff n s d H) in G. congruence.
  - intros A. destruct (decision s) as [d|] eqn:E; auto.
    apply (decision_iff n s d H) in E. specialize (A d). rewrite votes_for_vf in A. lia.
Qed.

Lemma has_over23_iff n ops s : run n ops = Some s ->
  (has_over23 s = true <-> 3 * occupied s > 2 * Z.of_nat n).
Proof.
  intro R. destruct (run_inv _ _ _ R) as (Hl & HC & Hc & HK).
  unfold has_over23, nvals. rewrite Hl, Hc, occupied_occ. apply over23_spec. lia.
Qed.

Lemma unique23 n ops s d1 d2 : run n ops = Some s ->
  3 * votes_for s d1 > 2 * Z.of_nat n -> 3 * votes_for s d2 > 2 * Z.of_nat n -> d1 = d2.
Proof.
  intros R H1 H2. destruct (run_inv _ _ _ R) as (Hl & _).
  destruct (N.eq_dec d1 d2) as [|Hne]; auto. exfalso.
  rewrite !votes_for_vf in *.
  pose proof (vf_two_le_occ (vs_msgs s) _ _ Hne).
  pose proof (occ_le_length (vs_msgs s)). rewrite Hl in *. lia.
Qed.

Lemma unique_report n ops s d1 d2 : run n ops = Some s ->
  over23_decision s = Some (Some d1) -> 3 * votes_for s d2 > 2 * Z.of_nat n -> d1 = d2.
Proof.
  intros R H1 H2. apply (reports_iff n ops s d1 R) in H1. eapply unique23; eauto.
Qed.

(* no panic: every in-range add and every query is defined on a reachable state *)
Lemma no_panic n ops s : run n ops = Some s ->
  (forall i v, (i < n)%nat -> exists s' b, add s i v = Some (s', b)) /\
  (exists s' r, query s = Some (s', r)).
Proof.
  intro R. pose proof (run_inv _ _ _ R) as H. split.
  - intros i v Hi. rewrite (add_eq n s i v H).
    destruct H as (Hl & _).
    destruct (nth_error (vs_msgs s) i) as [[o|]|] eqn:E.
    + destruct (vote_eqb o v); [eauto|].
      destruct (match decision s with Some _ => _ | None => _ end); eauto.
    + eauto.
    + apply nth_error_None in E. lia.
  - rewrite (query_eq n s H). eauto.
Qed.

Lemma add_out_of_range s i v : (length (vs_msgs s) <= i)%nat -> add s i v = None.
Proof. intro H. unfold add. apply nth_error_None in H. now rewrite H. Qed.

(* what add returns and does to the slots *)
Lemma set_nth_same {A} (l : list A) i x : nth_error l i = Some x -> set_nth i x l = l.
Proof.
  intro E. destruct (nth_error_split _ _ E) as (a & b & -> & <-). apply set_nth_app.
Qed.

Lemma add_result n ops s i v s' b : run n ops = Some s -> add s i v = Some (s', b) ->
  match nth_error (vs_msgs s) i with
  | None => False
  | Some None => b = true /\ vs_msgs s' = set_nth i (Some v) (vs_msgs s)
  | Some (Some o) =>
      if vote_eqb o v then b = false /\ s' = s
      else if 3 * votes_for s (v_dec o) >? 2 * Z.of_nat n
      then b = false /\ vs_msgs s' = vs_msgs s /\ vs_counters s' = vs_counters s
           /\ vs_count s' = vs_count s
      else b = true /\ vs_msgs s' = set_nth i (Some v) (vs_msgs s)
  end.
Proof.
  intros R. pose proof (run_inv _ _ _ R) as H. rewrite (add_eq n s i v H).
  destruct (nth_error (vs_msgs s) i) as [[o|]|] eqn:E; [| |discriminate].
  - destruct (vote_eqb o v); [intros [= <- <-]; auto|].
    rewrite votes_for_vf.
    destruct (decision s) as [rdd|] eqn:D.
    + pose proof (proj1 (decision_iff n s rdd H) D) as G.
      destruct (N.eqb_spec rdd (v_dec o)) as [Eq|Ne].
      * subst rdd. intros [= <- <-].
        destruct (3 * vf (vs_msgs s) (v_dec o) >? 2 * Z.of_nat n) eqn:T; [|lia].
        cbn. auto.
      * intros [= <- <-].
        destruct (3 * vf (vs_msgs s) (v_dec o) >? 2 * Z.of_nat n) eqn:T.
        -- exfalso. apply Ne. symmetry.
           assert (T' : 3 * vf (vs_msgs s) (v_dec o) > 2 * Z.of_nat n) by lia.
           apply (decision_iff n s _ H) in T'. congruence.
        -- cbn. auto.
    + intros [= <- <-].
      destruct (3 * vf (vs_msgs s) (v_dec o) >? 2 * Z.of_nat n) eqn:T.
      * exfalso.
        assert (T' : 3 * vf (vs_msgs s) (v_dec o) > 2 * Z.of_nat n) by lia.
        apply (decision_iff n s _ H) in T'. congruence.
      * cbn. auto.
  - intros [= <- <-]. cbn. auto.
Qed.

(* votes_for after a store *)
Lemma vf_set_nth m i o v d : nth_error m i = Some o ->
  vf (set_nth i (Some v) m) d =
  vf m d - (if holds d o then 1 else 0) + (if (v_dec v =? d)%N then 1 else 0).
Proof.
  intro E. destruct (nth_error_split _ _ E) as (a & b & -> & <-).
  rewrite set_nth_app, !vf_mid. cbn [holds]. lia.
Qed.

Lemma sticky_add n s i v s' b d : inv n s ->
  3 * vf (vs_msgs s) d > 2 * Z.of_nat n ->
  add s i v = Some (s', b) -> vf (vs_msgs s) d <= vf (vs_msgs s') d.
Proof.
  intros H G. rewrite (add_eq n s i v H).
  destruct (nth_error (vs_msgs s) i) as [[o|]|] eqn:E; [| |discriminate].
  - destruct (vote_eqb o v); [intros [= <- <-]; lia|].
    apply (decision_iff n s d H) in G. rewrite G.
    destruct (N.eqb_spec d (v_dec o)) as [Eq|Ne].
    + intros [= <- <-]. cbn. lia.
    + intros [= <- <-]. cbn [store vs_msgs].
      rewrite (vf_set_nth _ _ _ _ _ E). cbn [holds].
      destruct (N.eqb_spec (v_dec o) d); [congruence|].
      destruct (v_dec v =? d)%N; lia.
  - intros [= <- <-]. cbn [store vs_msgs].
    rewrite (vf_set_nth _ _ _ _ _ E). cbn [holds].
    destruct (v_dec v =? d)%N; lia.
Qed.

Lemma sticky_step n s o s' d : inv n s ->
  3 * vf (vs_msgs s) d > 2 * Z.of_nat n ->
  step (Some s) o = Some s' -> vf (vs_msgs s) d <= vf (vs_msgs s') d.
Proof.
  intros H G. destruct o as [i v|]; cbn [step].
  - destruct (add s i v) as [[s1 b]|] eqn:E; cbn; [|discriminate].
    intros [= <-]. eapply sticky_add; eauto.
  - rewrite (query_eq n s H). cbn. intros [= <-]. cbn. lia.
Qed.

Lemma sticky_run_from n ops : forall s s' d, inv n s ->
  3 * vf (vs_msgs s) d > 2 * Z.of_nat n ->
  run_from s ops = Some s' -> vf (vs_msgs s) d <= vf (vs_msgs s') d.
Proof.
  unfold run_from. induction ops as [|o ops IH]; intros s s' d H G.
  - cbn. intros [= <-]. lia.
  - cbn [fold_left]. destruct (step (Some s) o) as [s1|] eqn:E.
    + intro R. pose proof (sticky_step n s o s1 d H G E) as L.
      pose proof (step_inv n s o s1 H E) as H1.
      assert (G1 : 3 * vf (vs_msgs s1) d > 2 * Z.of_nat n) by lia.
      specialize (IH s1 s' d H1 G1 R). lia.
    + rewrite fold_step_none. discriminate.
Qed.

Lemma run_app n ops ops' s s' : run n ops = Some s -> run_from s ops' = Some s' ->
  run n (ops ++ ops') = Some s'.
Proof. unfold run, run_from. intros R R'. now rewrite fold_left_app, R. Qed.

Lemma sticky n ops s d ops' s' : run n ops = Some s ->
  3 * votes_for s d > 2 * Z.of_nat n ->
  run_from s ops' = Some s' ->
  votes_for s d <= votes_for s' d /\ over23_decision s' = Some (Some d).
Proof.
  intros R G R'. pose proof (run_inv _ _ _ R) as H. rewrite !votes_for_vf in *.
  pose proof (sticky_run_from n ops' s s' d H G R') as L. split; auto.
  apply (reports_iff n (ops ++ ops') s' d (run_app _ _ _ _ _ R R')).
  rewrite votes_for_vf. lia.
Qed.

(* the mechanism: a slot that backs the +2/3 decision is never overwritten *)
Lemma sticky_slot n ops s d i o v s' b : run n ops = Some s ->
  3 * votes_for s d > 2 * Z.of_nat n ->
  nth_error (vs_msgs s) i = Some (Some o) -> v_dec o = d ->
  add s i v = Some (s', b) -> b = false /\ vs_msgs s' = vs_msgs s.
Proof.
  intros R G E Hd A. pose proof (add_result n ops s i v s' b R A) as AR.
  rewrite E in AR. destruct (vote_eqb o v).
  - destruct AR as [-> ->]. auto.
  - rewrite Hd in AR. destruct (3 * votes_for s d >? 2 * Z.of_nat n) eqn:T; [|lia].
    tauto.
Qed.

(* ------------------------------------------------------------------ *)
(* non-vacuity                                                          *)

Definition vA := mkVote 1 100 5 0 0.
Definition vB := mkVote 2 100 5 0 0.
Definition vNil := mkVote 0 100 5 0 0.
Definition vA' := mkVote 1 101 5 0 0.

(* 4 validators: A, B, B then validator 0 re-votes B (replacement, counter of A removed by
   the swap), a query, then validator 0 tries to go back to A (refused) *)
Definition ex_ops : list op :=
  [OAdd 0 vA; OAdd 1 vB; OAdd 2 vB; OQuery; OAdd 0 vB; OQuery; OAdd 0 vA; OAdd 3 vNil].

Example ex_run_defined : exists s, run 4 ex_ops = Some s /\
  over23_decision s = Some (Some 2%N) /\ votes_for s 2%N = 3 /\ vs_counters s <> [] /\
  vs_count s = 4.
Proof. eexists. split; [vm_compute; reflexivity|]. vm_compute. repeat split; discriminate. Qed.

Example ex_before_no_decision : exists s, run 4 [OAdd 0 vA; OAdd 1 vB; OAdd 2 vB] = Some s /\
  over23_decision s = Some None /\ has_over23 s = true.
Proof. eexists. split; [vm_compute; reflexivity|]. vm_compute. auto. Qed.

Example ex_sticky_hyp : exists s s', run 4 [OAdd 0 vA; OAdd 1 vB; OAdd 2 vB; OAdd 0 vB] = Some s /\
  3 * votes_for s 2%N > 2 * 4 /\
  run_from s [OAdd 0 vA; OAdd 1 vNil; OAdd 3 vA] = Some s' /\ votes_for s' 2%N = 3.
Proof.
  eexists. eexists. split; [vm_compute; reflexivity|]. split; [vm_compute; reflexivity|].
  split; vm_compute; reflexivity.
Qed.

Example ex_add_results :
  option_map snd (add (init 4) 0 vA) = Some true /\
  (exists s, run 4 [OAdd 0 vA] = Some s /\ option_map snd (add s 0 vA) = Some false
             /\ option_map snd (add s 0 vA') = Some true
             /\ option_map snd (add s 0 vB) = Some true) /\
  (exists s, run 4 [OAdd 0 vA; OAdd 1 vA; OAdd 2 vA] = Some s
             /\ option_map snd (add s 0 vB) = Some false
             /\ option_map snd (add s 0 vA') = Some false
             /\ option_map snd (add s 3 vB) = Some true
             /\ add s 4 vB = None).
Proof.
  split; [vm_compute; reflexivity|]. split.
  - eexists. split; [vm_compute; reflexivity|]. vm_compute. auto.
  - eexists. split; [vm_compute; reflexivity|]. vm_compute. repeat split; reflexivity.
Qed.

Example ex_unique_hyp : exists s, run 3 [OAdd 0 vNil; OAdd 1 vNil; OAdd 2 vNil] = Some s /\
  3 * votes_for s 0%N > 2 * 3 /\ over23_psid s = Some (None, true).
Proof. eexists. split; [vm_compute; reflexivity|]. vm_compute. auto. Qed.

Example ex_threshold_boundary :
  over23 2 3 = false /\ over23 3 3 = true /\ over23 2 2 = true /\ over23 1 2 = false /\
  over23 6 9 = false /\ over23 7 9 = true /\ over23 7 10 = true /\ over23 6 10 = false /\
  over23 0 0 = false /\ over23 1 1 = true.
Proof. vm_compute. repeat split; reflexivity. Qed.
