(* Proofs_Lzw.v — lemmas about Model_Lzw (property C25). stdlib only.
   Part 1: the shared counters.  Part 2: code-level round trip (dictionary
   synchronisation, KwKwK, resets).  Part 3: the emitted widths are the
   reader's.  Part 4: bit-level round trip.  Part 5: the theorems. *)
From Coq Require Import FMapPositive.
From Goloop Require Import lib.Bytes Model_Lzw.
From Coq Require Import ZifyBool ZifyN ZifyNat.
Open Scope N_scope.

(* ================================================================ *)
(* Part 1: hi / width / overflow                                    *)
(* ================================================================ *)

(* the states the writer is in between two emissions *)
Definition wf_sched (s : sched) : Prop :=
  257 <= s_hi s /\ s_hi s < s_overflow s /\ s_hi s <= 4094 /\
  ((s_width s = 9 /\ s_overflow s = 512) \/ (s_width s = 10 /\ s_overflow s = 1024) \/
   (s_width s = 11 /\ s_overflow s = 2048) \/ (s_width s = 12 /\ s_overflow s = 4096)).

Definition width_ok (s : sched) : Prop :=
  (s_width s = 9 /\ s_overflow s = 512) \/ (s_width s = 10 /\ s_overflow s = 1024) \/
  (s_width s = 11 /\ s_overflow s = 2048) \/ (s_width s = 12 /\ s_overflow s = 4096).

Lemma wf_sched0 : wf_sched sched0.
Proof. unfold wf_sched, sched0; cbn. lia. Qed.

Lemma wf_width_ok s : wf_sched s -> width_ok s.
Proof. unfold wf_sched, width_ok. tauto. Qed.

Lemma width_ok_pow s : width_ok s -> s_overflow s = 2 ^ s_width s /\ 9 <= s_width s <= 12.
Proof.
  unfold width_ok. intros [[-> ->]|[[-> ->]|[[-> ->]|[-> ->]]]]; split; try reflexivity; lia.
Qed.

(* the writer's incHi and the reader's advance move the counters identically *)
Lemma inc_hi_spec s : wf_sched s ->
  exists s1, w_inc_hi s = (s1, s_hi s + 1 =? 4095) /\ r_advance s = (s1, false) /\
             s_hi s1 = s_hi s + 1 /\ width_ok s1 /\ s_hi s1 < s_overflow s1 /\
             (s_hi s + 1 <> 4095 -> wf_sched s1).
Proof.
  destruct s as [hi w ov]. unfold wf_sched, width_ok, w_inc_hi, r_advance, max_code, max_width.
  cbn [s_hi s_width s_overflow].
  intros (H1 & H2 & H3 & Hw).
  destruct (hi + 1 =? ov) eqn:E.
  - assert (Eo : (ov <=? hi + 1) = true) by lia. rewrite Eo.
    destruct Hw as [[-> ->]|[[-> ->]|[[-> ->]|[-> ->]]]]; try lia;
      eexists; (split; [reflexivity|]); cbn; repeat split; try lia.
  - assert (Eo : (ov <=? hi + 1) = false) by lia. rewrite Eo.
    eexists. split; [reflexivity|]. cbn [s_hi s_width s_overflow]. repeat split; try lia.
Qed.

(* ================================================================ *)
(* keys                                                             *)
(* ================================================================ *)

Lemma succ_pos_inj a b : N.succ_pos a = N.succ_pos b -> a = b.
Proof.
  intro E. apply (f_equal Pos.pred_N) in E. now rewrite !N.pos_pred_succ in E.
Qed.

Lemma ckey_inj a b : ckey a = ckey b -> a = b.
Proof. apply succ_pos_inj. Qed.

Lemma dkey_inj c x c' x' : x < 256 -> x' < 256 -> dkey c x = dkey c' x' -> c = c' /\ x = x'.
Proof. unfold dkey. intros Hx Hx' E. apply succ_pos_inj in E. lia. Qed.

(* ================================================================ *)
(* Part 2: code level                                               *)
(* ================================================================ *)

(* what a code stands for, given the reader's table *)
Definition expT (T : dtab) (c : N) : option bytes :=
  if c <? 256 then Some [c] else PositiveMap.find (ckey c) T.

(* the reader's table after it has seen the code the writer is about to send:
   entry hi = previous expansion + first byte of the pending phrase w *)
Definition pend (T : dtab) (h : N) (last : option bytes) (w : bytes) : dtab :=
  match last, w with
  | Some lw, b :: _ => PositiveMap.add (ckey h) (lw ++ [b]) T
  | _, _ => T
  end.

Lemma pend_app T h last w l : w <> [] -> pend T h last (w ++ l) = pend T h last w.
Proof. destruct w; [congruence|reflexivity]. Qed.

Lemma expT_add_other T h v c : c <> h -> expT (PositiveMap.add (ckey h) v T) c = expT T c.
Proof.
  intro Hn. unfold expT. destruct (c <? 256); [reflexivity|].
  apply PositiveMap.gso. intro E. apply ckey_inj in E. congruence.
Qed.

Lemma expT_add_same T h v : 256 <= h -> expT (PositiveMap.add (ckey h) v T) h = Some v.
Proof.
  intro Hh. unfold expT. destruct (h <? 256) eqn:E; [lia|]. apply PositiveMap.gss.
Qed.

(* the synchronisation invariant between the writer (dictionary d, counters s,
   pending code `code` standing for the phrase w) and the reader (table T,
   same counters, expansion `last` of the previous code) *)
Record inv (d : dict) (s : sched) (code : N) (w : bytes) (T : dtab) (last : option bytes) : Prop := {
  i_wf : wf_sched s;
  i_w : w <> [];
  i_code : code < 256 \/ 258 <= code <= s_hi s;
  i_exp : expT (pend T (s_hi s) last w) code = Some w;
  i_last : match last with None => s_hi s = 257 | Some lw => lw <> [] end;
  i_dict : forall c x k, x < 256 -> PositiveMap.find (dkey c x) d = Some k ->
      (c < 256 \/ 258 <= c <= s_hi s) /\ 258 <= k <= s_hi s /\
      exists ec, expT (pend T (s_hi s) last w) c = Some ec /\
                 expT (pend T (s_hi s) last w) k = Some (ec ++ [x])
}.

Lemma inv_init a : a < 256 -> inv dict_empty sched0 a [a] dtab_empty None.
Proof.
  intro Ha. split.
  - apply wf_sched0.
  - discriminate.
  - now left.
  - cbn [pend]. unfold expT. destruct (a <? 256) eqn:E; [reflexivity|lia].
  - reflexivity.
  - intros c x k _ Hf. unfold dict_empty in Hf. rewrite PositiveMap.gempty in Hf. discriminate.
Qed.

(* the dictionary has the next byte: the phrase grows, nothing is sent *)
Lemma inv_found d s code w T last x k :
  inv d s code w T last -> x < 256 -> PositiveMap.find (dkey code x) d = Some k ->
  inv d s k (w ++ [x]) T last.
Proof.
  intros I Hx Hf. destruct I as [Iwf Iw Icode Iexp Ilast Idict].
  destruct (Idict _ _ _ Hx Hf) as (Hc & Hk & ec & E1 & E2).
  rewrite Iexp in E1. inversion E1; subst ec.
  split; try assumption.
  - destruct w; discriminate.
  - now right.
  - now rewrite pend_app.
  - intros c y k' Hy Hf'. rewrite pend_app by assumption. now apply Idict.
Qed.

(* the code is sent, hi moves, a new dictionary entry is made *)
Lemma inv_next d s code w T last x s1 :
  inv d s code w T last -> x < 256 ->
  s_hi s1 = s_hi s + 1 -> wf_sched s1 ->
  inv (PositiveMap.add (dkey code x) (s_hi s1) d) s1 x [x] (pend T (s_hi s) last w) (Some w).
Proof.
  intros I Hx Hh Hwf. destruct I as [Iwf Iw Icode Iexp Ilast Idict].
  assert (H257 : 257 <= s_hi s) by (destruct Iwf; lia).
  set (T' := pend T (s_hi s) last w) in *.
  split; try assumption.
  - discriminate.
  - now left.
  - cbn [pend]. unfold expT. destruct (x <? 256) eqn:E; [reflexivity|lia].
  - intros c y k Hy Hf. cbn [pend app].
    destruct (Pos.eq_dec (dkey c y) (dkey code x)) as [Ek|Nk].
    + rewrite Ek, PositiveMap.gss in Hf. inversion Hf; subst k.
      apply dkey_inj in Ek as [-> ->]; try assumption.
      split; [lia|]. split; [lia|].
      exists w. split.
      * rewrite expT_add_other by lia. exact Iexp.
      * apply expT_add_same. lia.
    + rewrite PositiveMap.gso in Hf by assumption.
      destruct (Idict _ _ _ Hy Hf) as (Hc & Hk & ec & E1 & E2).
      split; [lia|]. split; [lia|].
      exists ec. split; rewrite expT_add_other by lia; assumption.
Qed.

(* ---- the reader's step on a code sent under the invariant ---- *)

Lemma dec_loop_cons st c r :
  dec_loop st (c :: r) =
  if c =? clear_code then dec_loop dstate0 r
  else if c =? eof_code then ([], StEof)
  else match expand st c with
       | None => ([], StInvalid)
       | Some e =>
           let tab' := match d_last st, e with
                       | Some lw, b :: _ => PositiveMap.add (ckey (s_hi (d_s st))) (lw ++ [b]) (d_tab st)
                       | _, _ => d_tab st
                       end in
           let '(s', sat) := r_advance (d_s st) in
           let st' := {| d_tab := tab'; d_s := s'; d_last := if sat then None else Some e |} in
           let '(o, z) := dec_loop st' r in (e ++ o, z)
       end.
Proof. reflexivity. Qed.

Lemma expand_inv d s code w T last :
  inv d s code w T last ->
  expand {| d_tab := T; d_s := s; d_last := last |} code = Some w.
Proof.
  intros [Iwf Iw Icode Iexp Ilast Idict].
  unfold expand, clear_code. cbn [d_tab d_s d_last].
  unfold expT in Iexp.
  destruct (code <? 256) eqn:Elit; [exact Iexp|].
  assert (Hr : 258 <= code <= s_hi s) by lia.
  assert (El : (code <=? s_hi s) = true) by lia. rewrite El.
  destruct last as [lw|].
  - destruct (code =? s_hi s) eqn:Eh.
    + assert (code = s_hi s) by lia. subst code.
      destruct w as [|b w']; [congruence|]. cbn [pend] in Iexp.
      rewrite PositiveMap.gss in Iexp.
      destruct lw as [|b0 lw']; [congruence|].
      inversion Iexp as [E]. cbn [app] in E. inversion E; subst. reflexivity.
    + destruct w as [|b w']; [congruence|]. cbn [pend] in Iexp.
      rewrite PositiveMap.gso in Iexp; [exact Iexp|].
      intro E. apply ckey_inj in E. lia.
  - cbn [pend] in Iexp. exact Iexp.
Qed.

Lemma dec_step d s code w T last rest s1 :
  inv d s code w T last -> r_advance s = (s1, false) ->
  dec_loop {| d_tab := T; d_s := s; d_last := last |} (code :: rest) =
  let '(o, z) := dec_loop {| d_tab := pend T (s_hi s) last w; d_s := s1; d_last := Some w |} rest in
  (w ++ o, z).
Proof.
  intros I Er. rewrite dec_loop_cons.
  destruct I as [Iwf Iw Icode Iexp Ilast Idict] eqn:EI. clear EI.
  assert (E1 : (code =? clear_code) = false) by (unfold clear_code; lia).
  assert (E2 : (code =? eof_code) = false) by (unfold eof_code; lia).
  rewrite E1, E2.
  rewrite (expand_inv d s code w T last) by (split; assumption).
  cbn [d_tab d_s d_last]. rewrite Er. reflexivity.
Qed.

(* ---- the code-level round trip ---- *)

Lemma bytes_ok_cons x p : bytes_ok (x :: p) = true -> x < 256 /\ bytes_ok p = true.
Proof.
  unfold bytes_ok. cbn [forallb]. intro Hb. apply andb_true_iff in Hb as [Hx Hp].
  unfold byte_ok in Hx. split; [lia|assumption].
Qed.

Lemma enc_dec : forall p d s code w T last,
  bytes_ok p = true -> inv d s code w T last ->
  dec_loop {| d_tab := T; d_s := s; d_last := last |} (map snd (enc_loop d s code p)) = (w ++ p, StEof).
Proof.
  induction p as [|x p IH]; intros d s code w T last Hb I.
  - cbn [enc_loop].
    destruct (inc_hi_spec s (i_wf _ _ _ _ _ _ I)) as (s1 & Ew & Er & Hh & Hwo & Hlt & Hwf).
    rewrite Ew. cbn [map snd].
    rewrite (dec_step d s code w T last _ s1 I Er).
    destruct (s_hi s + 1 =? 4095).
    + cbn [map snd]. rewrite dec_loop_cons. cbn [N.eqb clear_code Pos.eqb].
      rewrite dec_loop_cons. cbn. reflexivity.
    + cbn [map snd]. rewrite dec_loop_cons. cbn. reflexivity.
  - apply bytes_ok_cons in Hb as [Hx Hp].
    cbn [enc_loop].
    destruct (PositiveMap.find (dkey code x) d) as [k|] eqn:Ef.
    + rewrite (IH d s k (w ++ [x]) T last Hp (inv_found _ _ _ _ _ _ _ _ I Hx Ef)).
      now rewrite <- app_assoc.
    + destruct (inc_hi_spec s (i_wf _ _ _ _ _ _ I)) as (s1 & Ew & Er & Hh & Hwo & Hlt & Hwf).
      rewrite Ew. cbn [map snd].
      rewrite (dec_step d s code w T last _ s1 I Er).
      destruct (s_hi s + 1 =? 4095) eqn:E95.
      * cbn [map snd]. rewrite dec_loop_cons. cbn [N.eqb clear_code Pos.eqb].
        fold dstate0. unfold dstate0 at 1.
        rewrite (IH dict_empty sched0 x [x] dtab_empty None Hp (inv_init x Hx)).
        reflexivity.
      * assert (Hne : s_hi s + 1 <> 4095) by lia.
        rewrite (IH _ s1 x [x] _ (Some w) Hp (inv_next _ _ _ _ _ _ x s1 I Hx Hh (Hwf Hne))).
        reflexivity.
Qed.

Lemma encode_decode a p :
  bytes_ok (a :: p) = true -> dec_loop dstate0 (map snd (encode (a :: p))) = (a :: p, StEof).
Proof.
  intro Hb. apply bytes_ok_cons in Hb as [Ha Hp]. cbn [encode]. unfold dstate0.
  apply (enc_dec p dict_empty sched0 a [a] dtab_empty None Hp (inv_init a Ha)).
Qed.

(* ================================================================ *)
(* Part 3: the widths the writer uses are the reader's              *)
(* ================================================================ *)

(* a token stream that a reader starting with counters s reads back code by
   code: each width is the reader's current width, each code fits it, the
   stream ends with its only eof code *)
Fixpoint wf_stream (s : sched) (l : list token) : Prop :=
  match l with
  | [] => False
  | t :: r =>
      fst t = s_width s /\ 9 <= fst t /\ snd t < 2 ^ fst t /\
      (if snd t =? eof_code then r = []
       else wf_stream (if snd t =? clear_code then sched0 else fst (r_advance s)) r)
  end.

Definition dict_range (d : dict) (h : N) : Prop :=
  forall key k, PositiveMap.find key d = Some k -> 258 <= k <= h.

Lemma wf_stream_eof s : width_ok s -> wf_stream s [(s_width s, eof_code)].
Proof.
  intro Hw. destruct (width_ok_pow s Hw) as [_ Hr]. cbn [wf_stream fst snd].
  repeat split; try lia.
  - unfold eof_code. apply N.lt_le_trans with (2 ^ 9); [reflexivity|].
    apply N.pow_le_mono_r; lia.
Qed.

Lemma code_fits s c : width_ok s -> c < s_overflow s -> c < 2 ^ s_width s.
Proof. intros Hw Hc. destruct (width_ok_pow s Hw) as [E _]. now rewrite <- E. Qed.

Lemma enc_wf : forall p d s code,
  bytes_ok p = true ->
  wf_sched s -> (code < 256 \/ 258 <= code <= s_hi s) -> dict_range d (s_hi s) ->
  wf_stream s (enc_loop d s code p).
Proof.
  induction p as [|x p IH]; intros d s code Hb Hwf Hcode Hd.
  - cbn [enc_loop].
    destruct (inc_hi_spec s Hwf) as (s1 & Ew & Er & Hh & Hwo & Hlt & Hwf1).
    rewrite Ew.
    pose proof (wf_width_ok s Hwf) as Hws. destruct (width_ok_pow s Hws) as [Eo Hr].
    assert (Hov : s_hi s < s_overflow s) by (destruct Hwf; tauto).
    cbn [wf_stream fst snd].
    assert (E1 : (code =? eof_code) = false) by (unfold eof_code; lia).
    assert (E2 : (code =? clear_code) = false) by (unfold clear_code; lia).
    rewrite E1, E2, Er. cbn [fst].
    split; [reflexivity|]. split; [lia|]. split.
    { apply code_fits; [assumption|]. destruct Hwf as (? & ? & ? & ?). lia. }
    destruct (s_hi s + 1 =? 4095).
    + destruct (width_ok_pow s1 Hwo) as [Eo1 Hr1].
      cbn [wf_stream fst snd]. cbn [N.eqb clear_code eof_code Pos.eqb].
      split; [reflexivity|]. split; [lia|]. split.
      { apply N.lt_le_trans with (2 ^ 9); [reflexivity|]. apply N.pow_le_mono_r; lia. }
      apply (wf_stream_eof sched0). apply wf_width_ok, wf_sched0.
    + apply wf_stream_eof. assumption.
  - apply bytes_ok_cons in Hb as [Hx Hp]. cbn [enc_loop].
    destruct (PositiveMap.find (dkey code x) d) as [k|] eqn:Ef.
    + apply IH; try assumption. right. apply (Hd _ _ Ef).
    + destruct (inc_hi_spec s Hwf) as (s1 & Ew & Er & Hh & Hwo & Hlt & Hwf1).
      rewrite Ew.
      pose proof (wf_width_ok s Hwf) as Hws. destruct (width_ok_pow s Hws) as [Eo Hr].
      cbn [wf_stream fst snd].
      assert (E1 : (code =? eof_code) = false) by (unfold eof_code; lia).
      assert (E2 : (code =? clear_code) = false) by (unfold clear_code; lia).
      rewrite E1, E2, Er. cbn [fst].
      split; [reflexivity|]. split; [lia|]. split.
      { apply code_fits; [assumption|]. destruct Hwf as (? & ? & ? & ?). lia. }
      destruct (s_hi s + 1 =? 4095) eqn:E95.
      * destruct (width_ok_pow s1 Hwo) as [Eo1 Hr1].
        cbn [wf_stream fst snd]. cbn [N.eqb clear_code eof_code Pos.eqb].
        split; [reflexivity|]. split; [lia|]. split.
        { apply N.lt_le_trans with (2 ^ 9); [reflexivity|]. apply N.pow_le_mono_r; lia. }
        apply IH; [exact Hp|apply wf_sched0|left|].
        -- exact Hx.
        -- intros key k Hf. unfold dict_empty in Hf. rewrite PositiveMap.gempty in Hf. discriminate.
      * assert (Hne : s_hi s + 1 <> 4095) by lia.
        apply IH; [exact Hp|apply (Hwf1 Hne)|left|].
        -- exact Hx.
        -- intros key k Hf.
           destruct (Pos.eq_dec key (dkey code x)) as [->|Nk].
           ++ rewrite PositiveMap.gss in Hf. inversion Hf; subst. destruct Hwf; lia.
           ++ rewrite PositiveMap.gso in Hf by assumption. specialize (Hd _ _ Hf). lia.
Qed.

(* ================================================================ *)
(* Part 4: bit level                                                *)
(* ================================================================ *)

Lemma code_bits_length w c : length (code_bits w c) = w.
Proof. induction w; cbn [code_bits length]; congruence. Qed.

Lemma take_code_bits : forall w c rest acc,
  take_bits w (code_bits w c ++ rest) acc = Some (acc * 2 ^ N.of_nat w + c mod 2 ^ N.of_nat w, rest).
Proof.
  induction w as [|w IH]; intros c rest acc.
  - cbn [code_bits app take_bits N.of_nat]. rewrite N.pow_0_r, N.mod_1_r. do 2 f_equal. lia.
  - cbn [code_bits app take_bits]. rewrite IH. do 2 f_equal.
    rewrite Nat2N.inj_succ, N.pow_succ_r'.
    rewrite N.testbit_spec'.
    set (P := 2 ^ N.of_nat w).
    assert (HP : P <> 0) by (apply N.pow_nonzero; discriminate).
    rewrite (N.mul_comm 2 P), N.mod_mul_r by (try assumption; discriminate).
    lia.
Qed.

Lemma read_pack : forall l s tail fuel, wf_stream s l ->
  (length (stream_bits l ++ tail) <= fuel)%nat ->
  read_codes fuel s (stream_bits l ++ tail) = (map snd l, true).
Proof.
  induction l as [|[w c] r IH]; intros s tail fuel Hwf Hlen; [destruct Hwf|].
  cbn [wf_stream fst snd] in Hwf. destruct Hwf as (Ew & H9 & Hc & Hrest).
  unfold stream_bits in *. cbn [flat_map fst snd] in *. fold (stream_bits r) in *.
  rewrite <- app_assoc in *.
  rewrite app_length, code_bits_length in Hlen.
  destruct fuel as [|f]; [lia|].
  cbn [read_codes]. rewrite <- Ew, take_code_bits, N2Nat.id.
  rewrite N.mod_small by assumption. cbn [N.mul N.add].
  destruct (c =? eof_code) eqn:Ee.
  - subst r. reflexivity.
  - rewrite IH; [reflexivity|exact Hrest|lia].
Qed.

Lemma code_bits8_val b7 b6 b5 b4 b3 b2 b1 b0 :
  code_bits 8 (bits_val [b7; b6; b5; b4; b3; b2; b1; b0] 0) = [b7; b6; b5; b4; b3; b2; b1; b0].
Proof. destruct b7, b6, b5, b4, b3, b2, b1, b0; reflexivity. Qed.

Lemma bits_of_bytes_cons a r : bits_of_bytes (a :: r) = code_bits 8 a ++ bits_of_bytes r.
Proof. reflexivity. Qed.

(* unpacking the packed bits gives them back, followed by fewer than 8 zero bits *)
Lemma pack_unpack : forall n l, (length l <= n)%nat ->
  exists pad, bits_of_bytes (pack_bytes l) = l ++ pad.
Proof.
  induction n as [|n IH]; intros l Hl.
  - destruct l; [|cbn in Hl; lia]. exists []. reflexivity.
  - destruct l as [|b7 [|b6 [|b5 [|b4 [|b3 [|b2 [|b1 [|b0 r]]]]]]]].
    + exists []. reflexivity.
    + exists (repeat false 7). destruct b7; reflexivity.
    + exists (repeat false 6). destruct b7, b6; reflexivity.
    + exists (repeat false 5). destruct b7, b6, b5; reflexivity.
    + exists (repeat false 4). destruct b7, b6, b5, b4; reflexivity.
    + exists (repeat false 3). destruct b7, b6, b5, b4, b3; reflexivity.
    + exists (repeat false 2). destruct b7, b6, b5, b4, b3, b2; reflexivity.
    + exists (repeat false 1). destruct b7, b6, b5, b4, b3, b2, b1; reflexivity.
    + destruct (IH r) as [pad Ep]; [cbn [length] in Hl; lia|].
      exists pad. cbn [pack_bytes]. rewrite bits_of_bytes_cons, code_bits8_val, Ep. reflexivity.
Qed.

(* ================================================================ *)
(* Part 5: the theorems                                             *)
(* ================================================================ *)

Lemma encode_wf a p : bytes_ok (a :: p) = true -> wf_stream sched0 (encode (a :: p)).
Proof.
  intro Hb. apply bytes_ok_cons in Hb as [Ha Hp]. cbn [encode].
  apply enc_wf; [assumption|apply wf_sched0|now left|].
  intros key k Hf. unfold dict_empty in Hf. rewrite PositiveMap.gempty in Hf. discriminate.
Qed.

(* bit level: the codes read from the packed stream are the codes written *)
Lemma bit_roundtrip l :
  wf_stream sched0 l ->
  let bits := bits_of_bytes (pack_bytes (stream_bits l)) in
  read_codes (length bits) sched0 bits = (map snd l, true).
Proof.
  intros Hwf bits. subst bits.
  destruct (pack_unpack _ (stream_bits l) (le_n _)) as [pad Ep]. rewrite Ep.
  apply read_pack; [assumption|apply le_n].
Qed.

Lemma wf_stream_bits_nonempty s l : wf_stream s l -> stream_bits l <> [].
Proof.
  destruct l as [|[w c] r]; [intros []|]. cbn [wf_stream fst snd]. intros (_ & H9 & _).
  unfold stream_bits. cbn [flat_map fst snd].
  destruct (N.to_nat w) as [|k] eqn:E; [lia|]. cbn [code_bits app]. discriminate.
Qed.

Lemma pack_bytes_nonempty l : l <> [] -> pack_bytes l <> [].
Proof.
  intros Hl Hp. destruct (pack_unpack _ l (le_n _)) as [pad Ep]. rewrite Hp in Ep.
  cbn in Ep. destruct l; [congruence|discriminate].
Qed.

Lemma decompress_raw_nonempty bs : bs <> [] ->
  decompress_raw bs =
  dec_loop dstate0 (fst (read_codes (length (bits_of_bytes bs)) sched0 (bits_of_bytes bs))).
Proof. destruct bs; [congruence|reflexivity]. Qed.

Lemma raw_roundtrip x : bytes_ok x = true -> decompress_raw (compress x) = (x, StEof).
Proof.
  intro Hb. destruct x as [|a p]; [reflexivity|].
  pose proof (encode_wf a p Hb) as Hwf.
  unfold compress.
  rewrite decompress_raw_nonempty
    by (apply pack_bytes_nonempty; apply (wf_stream_bits_nonempty sched0); exact Hwf).
  rewrite (bit_roundtrip _ Hwf). cbn [fst].
  now apply encode_decode.
Qed.

Theorem lzw_roundtrip x : bytes_ok x = true -> decompress (compress x) = Some x.
Proof. intro Hb. unfold decompress. now rewrite raw_roundtrip. Qed.

Theorem lzw_roundtrip_lenient x : bytes_ok x = true -> decompress_lenient (compress x) = x.
Proof. intro Hb. unfold decompress_lenient. now rewrite raw_roundtrip. Qed.

Theorem lzw_empty : compress [] = [] /\ decompress [] = Some [] /\ decompress_lenient [] = [].
Proof. repeat split. Qed.

Theorem lzw_compress_injective x y :
  bytes_ok x = true -> bytes_ok y = true -> compress x = compress y -> x = y.
Proof.
  intros Hx Hy E. pose proof (lzw_roundtrip x Hx) as Rx. rewrite E, (lzw_roundtrip y Hy) in Rx.
  now inversion Rx.
Qed.

Theorem lzw_nonempty x : bytes_ok x = true -> x <> [] -> compress x <> [].
Proof.
  intros Hb Hx E. apply Hx. apply (lzw_compress_injective x []); [assumption|reflexivity|].
  now rewrite E.
Qed.

(* the first code is the literal first byte, written with 9 bits: no clear code in front *)
Lemma enc_loop_first a p : exists r, enc_loop dict_empty sched0 a p = (9, a) :: r.
Proof.
  destruct p as [|x p]; cbn [enc_loop].
  - eexists. reflexivity.
  - unfold dict_empty at 1. rewrite PositiveMap.gempty. eexists. reflexivity.
Qed.

Theorem lzw_no_leading_clear a p :
  bytes_ok (a :: p) = true ->
  first_code (compress (a :: p)) = Some a /\ a <> clear_code.
Proof.
  intro Hb. pose proof Hb as Hb'. apply bytes_ok_cons in Hb' as [Ha _].
  split; [|unfold clear_code; lia].
  unfold first_code, compress.
  destruct (pack_unpack _ (stream_bits (encode (a :: p))) (le_n _)) as [pad Ep]. rewrite Ep.
  cbn [encode]. destruct (enc_loop_first a p) as [r Er]. rewrite Er.
  unfold stream_bits. cbn [flat_map fst snd]. rewrite <- app_assoc.
  change (N.to_nat 9) with 9%nat.
  rewrite take_code_bits. cbn [option_map fst].
  rewrite N.mod_small; [reflexivity|]. change (2 ^ N.of_nat 9) with 512. lia.
Qed.

(* code level, stated on its own *)
Theorem lzw_code_roundtrip a p :
  bytes_ok (a :: p) = true -> dec_loop dstate0 (map snd (encode (a :: p))) = (a :: p, StEof).
Proof. exact (encode_decode a p). Qed.

(* bit level, stated on its own: for every token stream whose widths follow the reader *)
Theorem lzw_bit_roundtrip l :
  wf_stream sched0 l ->
  fst (read_codes (length (bits_of_bytes (pack_bytes (stream_bits l)))) sched0
                  (bits_of_bytes (pack_bytes (stream_bits l)))) = map snd l.
Proof. intro Hwf. now rewrite (bit_roundtrip l Hwf). Qed.

(* the reader also accepts a leading clear code (the format of Go's compress/lzw) *)
Theorem lzw_reader_accepts_leading_clear cs : dec_loop dstate0 (clear_code :: cs) = dec_loop dstate0 cs.
Proof. reflexivity. Qed.

(* ---------- non-vacuity examples ---------- *)

(* 'aaaaaaa' uses the code being defined (KwKwK): codes 97 258 259 97 eof *)
Example ex_kwkwk : map snd (encode [97; 97; 97; 97; 97; 97; 97]) = [97; 258; 259; 97; 257]
  /\ bytes_ok [97; 97; 97; 97; 97; 97; 97] = true
  /\ compress [97; 97; 97; 97; 97; 97; 97] = [48; 192; 160; 102; 24; 8].
Proof. vm_compute. repeat split. Qed.

Example ex_wf_stream : wf_stream sched0 (encode [0; 0; 0; 1]).
Proof. apply encode_wf. reflexivity. Qed.
