(* Proofs_K_peerRoleHas.v -- network PeerRoleFlag.Has
   Split out of Proofs_Kernels.v: this file imports ONLY the generated kernel(s)
   gen/K_peerRoleHas.v, so an edit of another kernel's Go source cannot break it.
   Style: stdlib only; arithmetic closed by lia with the euclidean-division hook. *)
From Coq Require Import ZArith Bool String List Lia.
From Coq Require Import ZifyBool.
From Goloop Require Import lib.GoInt Proofs_K_tactics.
From Goloop.gen Require Import K_peerRoleHas.
Import ListNotations.
Local Open Scope Z_scope.

Ltac Zify.zify_post_hook ::= Z.to_euclidean_division_equations.

Lemma peerRoleHas_spec pr o : peerRoleHas pr o = true <-> Z.land pr o = o.
Proof. unfold peerRoleHas. apply Z.eqb_eq. Qed.

Lemma peerRoleHas_bits pr o :
  peerRoleHas pr o = true <->
  (forall n, 0 <= n -> Z.testbit o n = true -> Z.testbit pr n = true).
Proof.
  rewrite peerRoleHas_spec. split.
  - intros H n Hn Ho. rewrite <- H in Ho. rewrite Z.land_spec in Ho.
    apply andb_true_iff in Ho. tauto.
  - intros H. apply Z.bits_inj'. intros n Hn. rewrite Z.land_spec.
    destruct (Z.testbit o n) eqn:Eo.
    + rewrite (H n Hn Eo). reflexivity.
    + apply andb_false_r.
Qed.
