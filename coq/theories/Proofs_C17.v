(* Proofs_C17.v — the statements of Prop_C17 as corollaries of the trie lemmas. *)
From Coq Require Import Sorting.Sorted.
From Goloop Require Import lib.Bytes Model_RlpBytes Model_Trie Proofs_Trie Proofs_TrieMap Proofs_TrieWf
  Proofs_TrieList Proofs_TrieUnique.
Open Scope N_scope.

Lemma set_get t k v : wf t -> nibs_ok k = true -> get (set t k v) k = Some v.
Proof. intros W Hk. rewrite get_set by assumption. now rewrite bytes_eqb_refl. Qed.

Lemma get_set_other t k v k' :
  wf t -> nibs_ok k = true -> k' <> k -> get (set t k v) k' = get t k'.
Proof.
  intros W Hk Hne. rewrite get_set by assumption.
  destruct (bytes_eqb k' k) eqn:E; [|reflexivity]. apply bytes_eqb_eq in E. contradiction.
Qed.

Lemma delete_get t k : get (delete t k) k = None.
Proof. rewrite get_delete. now rewrite bytes_eqb_refl. Qed.

Lemma delete_get_other t k k' : k' <> k -> get (delete t k) k' = get t k'.
Proof.
  intros Hne. rewrite get_delete.
  destruct (bytes_eqb k' k) eqn:E; [|reflexivity]. apply bytes_eqb_eq in E. contradiction.
Qed.

Lemma to_list_sorted_complete t :
  StronglySorted lex_lt (map fst (to_list t)) /\
  forall k v, In (k, v) (to_list t) <-> get t k = Some v.
Proof. split; [apply to_list_sorted|apply to_list_complete]. Qed.

Lemma filter_is_prefix_filter t p :
  filter t p = List.filter (fun kv => is_prefix p (fst kv)) (to_list t).
Proof. apply filter_spec. Qed.

(* non-vacuity of the hypotheses used above *)
Example ex_wf_tree : node := run_ops ex_ops1.
Example ex_wf : wf ex_wf_tree /\ ex_wf_tree <> Empty /\ nibs_ok [1;2;3;4] = true.
Proof.
  split; [apply run_ops_wf, ex_ops_ok|]. split; [vm_compute; discriminate|reflexivity].
Qed.
Example ex_two_wf_same_content :
  wf (run_ops ex_ops1) /\ wf (run_ops ex_ops2) /\
  forall k, get (run_ops ex_ops1) k = get (run_ops ex_ops2) k.
Proof.
  split; [apply run_ops_wf, ex_ops_ok|]. split; [apply run_ops_wf, ex_ops_ok|].
  intros k. now rewrite (proj1 ex_same_tree).
Qed.
