(* Model_BlockExec.v — executable model of block execution in goloop
   (service/transition.go executeTxs, service/transition_se.go
   executeTxsSequential, service/transition_pe.go executeTxsConcurrent and
   executionContext).  No proofs here; see Proofs_BlockExec.v / Prop_C10.v.

   What one attempt of one transaction does (Handler.Execute, Dispose,
   Platform.OnTransactionEnd) is abstracted to its outcome, given by a script
   indexed by the position of the transaction in the block and by the attempt
   number:
     OOk r     Execute and OnTransactionEnd succeed; r identifies the receipt
     ORetry    the error is ExecutionFailError or CriticalRerunError
     OFatal    any other error (also: Reset or GetHandler failing on a rerun)

   Goroutines of the concurrent executor are modelled as actors taking atomic
   steps; a schedule is the list of actors chosen, in order.  Style: stdlib. *)
From Coq Require Import List Arith Bool NArith.
Import ListNotations.

(* transition.go: const RetryCount = 2 *)
Definition RetryCount : nat := 2.

Inductive outcome := OOk (r : N) | ORetry | OFatal.

(* script i k = outcome of attempt number k (0-based) of the transaction at position i *)
Definition script := nat -> nat -> outcome.

Record tx := { tx_skippable : bool }.

Inductive receipt := RExec (r : N) | RSkip.

(* rctBuf: one slot per transaction, nil until written *)
Definition slots := list (option receipt).

Inductive result := Err | Ok (rs : slots) | Unfinished.

(* rctBuf[i] = x   (the index is in range on every path of the model: lemmas
   upd_length / nth_error_upd_* in the proofs never need the out-of-range case) *)
Fixpoint upd {A} (l : list A) (i : nat) (x : A) : list A :=
  match l, i with
  | [], _ => []
  | _ :: r, O => x :: r
  | y :: r, S j => y :: upd r j x
  end.

(* ------------------------------------------------------------------ *)
(* The attempt loop  `for retry := 0; ; retry++ { … }`  shared by both
   executors:
       rct, err := Execute; Dispose; OnTransactionEnd
       err == nil                                  -> receipt, break
       !ExecutionFailError && !CriticalRerunError  -> fail
       retry >= RetryCount                         -> fail
       otherwise Reset and go round again                                 *)
Inductive tx_res := TxOk (r : N) | TxFail | TxFuel.

Fixpoint tx_loop (sc : nat -> outcome) (retry fuel : nat) : tx_res :=
  match fuel with
  | O => TxFuel
  | S f =>
      match sc retry with
      | OOk r => TxOk r
      | OFatal => TxFail
      | ORetry => if RetryCount <=? retry then TxFail else tx_loop sc (S retry) f
      end
  end.

Definition run_tx (sc : nat -> outcome) : tx_res := tx_loop sc 0 (S RetryCount).

(* number of Execute calls the loop makes *)
Fixpoint tx_loop_count (sc : nat -> outcome) (retry fuel : nat) : nat :=
  match fuel with
  | O => 0
  | S f =>
      match sc retry with
      | ORetry => if RetryCount <=? retry then 1 else S (tx_loop_count sc (S retry) f)
      | _ => 1
      end
  end.
Definition tx_attempts (sc : nat -> outcome) : nat := tx_loop_count sc 0 (S RetryCount).

(* ------------------------------------------------------------------ *)
(* executeTxsSequential.  cnt = position; buf = rctBuf.
   skipping = ctx.SkipTransactionEnabled().                              *)
Fixpoint seq_loop (skipping : bool) (s : script) (txs : list tx) (cnt : nat) (buf : slots) : result :=
  match txs with
  | [] => Ok buf
  | t :: rest =>
      if skipping && tx_skippable t
      then seq_loop skipping s rest (S cnt) (upd buf cnt (Some RSkip))
      else match run_tx (s cnt) with
           | TxOk r => seq_loop skipping s rest (S cnt) (upd buf cnt (Some (RExec r)))
           | TxFail => Err            (* return err *)
           | TxFuel => Unfinished
           end
  end.

Definition exec_seq (skipping : bool) (txs : list tx) (s : script) : result :=
  seq_loop skipping s txs 0 (repeat None (length txs)).

(* ------------------------------------------------------------------ *)
(* executeTxsConcurrent as a small-step system.                         *)

(* The two places repaired by commit b7219de are kept as knobs so that the
   pre-fix code can be stated (and refuted) in the proofs file:
     v_report_first  : Report stores e iff lastError == nil     (current code)
                       false: `if c.lastError != nil` (stores only over an error)
     v_return_latch  : the function ends with `return ec.Error()` (current code)
                       false: `return nil`                                     *)
(* A third knob states an ordering the proof depends on:
     v_report_before_commit : a failing worker calls ec.Report(err) inside the
                       loop, i.e. BEFORE wvs.Commit()                 (current code)
                       false: the error is kept in a local, wvs.Commit() runs
                       first and ec.Report(err) only afterwards                *)
Record variant := { v_report_first : bool; v_return_latch : bool; v_report_before_commit : bool }.
Definition current : variant :=
  {| v_report_first := true; v_return_latch := true; v_report_before_commit := true |}.

(* executionContext.Report(e) by worker i; the latch remembers who set it *)
Definition report (v : variant) (latch : option nat) (i : nat) : option nat :=
  if v_report_first v
  then match latch with None => Some i | Some j => Some j end
  else match latch with None => None | Some _ => Some i end.

(* worker goroutine of transaction i *)
Inductive wphase :=
| WRun (retry : nat)   (* about to run attempt `retry` *)
| WReport              (* failed; about to call ec.Report(err) *)
| WCommit              (* left the loop; about to call wvs.Commit() *)
| WRelease             (* committed; about to call ec.Done() *)
| WFinished
(* only reachable when v_report_before_commit = false: *)
| WCommitF             (* failed, error kept in a local; about to call wvs.Commit() *)
| WLateReport.         (* committed; about to call ec.Report(err) *)

(* where a worker goes when its transaction has failed *)
Definition fail_phase (v : variant) : wphase :=
  if v_report_before_commit v then WReport else WCommitF.

Definition committed (p : wphase) : bool :=
  match p with WRelease | WFinished | WLateReport => true | _ => false end.

(* the dispatching goroutine (the body of executeTxsConcurrent) *)
Inductive dphase :=
| DCheck (i : nat)     (* loop head for transaction i: i.Has(), then ec.Error() *)
| DAcquire (i : nat)   (* Get/GetHandler/Prepare done; blocked in ec.Ready() *)
| DWait (j : nat)      (* wvs.Realize(): waiting for worker j to have committed *)
| DReturn              (* about to return (reads the latch) *)
| DDone (r : result).

Record cstate := mkC {
  c_disp : dphase;
  c_tokens : nat;                 (* free slots of the `waiter` channel *)
  c_latch : option nat;           (* lastError (index of the reporting worker) *)
  c_workers : list wphase;        (* spawned workers; position = transaction index *)
  c_rcts : slots                  (* rctBuf *)
}.

Inductive actor := ADisp | AWorker (i : nat).

Definition init (level n : nat) : cstate :=
  {| c_disp := DCheck 0; c_tokens := level; c_latch := None; c_workers := []; c_rcts := repeat None n |}.

Definition set_disp (st : cstate) (d : dphase) : cstate :=
  mkC d (c_tokens st) (c_latch st) (c_workers st) (c_rcts st).
Definition set_worker (st : cstate) (i : nat) (p : wphase) : cstate :=
  mkC (c_disp st) (c_tokens st) (c_latch st) (upd (c_workers st) i p) (c_rcts st).

Definition step_disp (v : variant) (n : nat) (st : cstate) : option cstate :=
  match c_disp st with
  | DCheck i =>
      if i <? n
      then match c_latch st with
           | Some _ => Some (set_disp st (DDone Err))          (* if err := ec.Error(); err != nil { return err } *)
           | None => Some (set_disp st (DAcquire i))
           end
      else Some (set_disp st (DWait 0))
  | DAcquire i =>
      match c_tokens st with
      | O => None                                               (* ec.Ready() blocks *)
      | S k => Some (mkC (DCheck (S i)) k (c_latch st) (c_workers st ++ [WRun 0]) (c_rcts st))  (* go func(…); cnt++ *)
      end
  | DWait j =>
      if j <? n
      then match nth_error (c_workers st) j with
           | Some p => if committed p then Some (set_disp st (DWait (S j))) else None   (* waitCommit blocks *)
           | None => None
           end
      else Some (set_disp st DReturn)
  | DReturn =>
      Some (set_disp st (DDone
        (if v_return_latch v
         then match c_latch st with Some _ => Err | None => Ok (c_rcts st) end
         else Ok (c_rcts st))))
  | DDone _ => None
  end.

Definition step_worker (v : variant) (s : script) (st : cstate) (i : nat) : option cstate :=
  match nth_error (c_workers st) i with
  | None => None
  | Some (WRun retry) =>
      match s i retry with
      | OOk r => Some (mkC (c_disp st) (c_tokens st) (c_latch st)
                           (upd (c_workers st) i WCommit) (upd (c_rcts st) i (Some (RExec r))))   (* *rb = rct; break *)
      | OFatal => Some (set_worker st i (fail_phase v))
      | ORetry => if RetryCount <=? retry
                  then Some (set_worker st i (fail_phase v))
                  else Some (set_worker st i (WRun (S retry)))
      end
  | Some WReport =>
      Some (mkC (c_disp st) (c_tokens st) (report v (c_latch st) i) (upd (c_workers st) i WCommit) (c_rcts st))
  | Some WCommit => Some (set_worker st i WRelease)
  | Some WRelease =>
      Some (mkC (c_disp st) (S (c_tokens st)) (c_latch st) (upd (c_workers st) i WFinished) (c_rcts st))
  | Some WFinished => None
  | Some WCommitF => Some (set_worker st i WLateReport)
  | Some WLateReport =>
      Some (mkC (c_disp st) (c_tokens st) (report v (c_latch st) i) (upd (c_workers st) i WRelease) (c_rcts st))
  end.

Definition step (v : variant) (n : nat) (s : script) (st : cstate) (a : actor) : option cstate :=
  match a with
  | ADisp => step_disp v n st
  | AWorker i => step_worker v s st i
  end.

(* run a schedule; an actor that is chosen while it is blocked (or does not
   exist, or has finished) simply does nothing *)
Fixpoint run (v : variant) (n : nat) (s : script) (st : cstate) (sched : list actor) : cstate :=
  match sched with
  | [] => st
  | a :: rest =>
      match step v n s st a with
      | Some st' => run v n s st' rest
      | None => run v n s st rest
      end
  end.

Definition final_state (v : variant) (level : nat) (txs : list tx) (s : script) (sched : list actor) : cstate :=
  run v (length txs) s (init level (length txs)) sched.

Definition result_of (st : cstate) : result :=
  match c_disp st with DDone r => r | _ => Unfinished end.

Definition exec_conc_gen (v : variant) (level : nat) (txs : list tx) (s : script) (sched : list actor) : result :=
  result_of (final_state v level txs s sched).

Definition exec_conc := exec_conc_gen current.

(* the schedule lets executeTxsConcurrent return *)
Definition is_done (st : cstate) : bool :=
  match c_disp st with DDone _ => true | _ => false end.
Definition complete (level : nat) (txs : list tx) (s : script) (sched : list actor) : Prop :=
  is_done (final_state current level txs s sched) = true.

(* the actors that can take a step in st *)
Definition actors (st : cstate) : list actor := ADisp :: map AWorker (seq 0 (length (c_workers st))).
Definition enabled (v : variant) (n : nat) (s : script) (st : cstate) : list actor :=
  filter (fun a => match step v n s st a with Some _ => true | None => false end) (actors st).

(* ------------------------------------------------------------------ *)
(* executeTxs: the mode switch                                          *)
Definition exec_txs (skipping : bool) (level : nat) (txs : list tx) (s : script) (sched : list actor) : result :=
  if skipping then exec_seq true txs s
  else if 1 <? level then exec_conc level txs s sched
  else exec_seq false txs s.

(* ------------------------------------------------------------------ *)
(* What the property calls "the result of transaction i": the receipt the
   script determines for the transaction t at position i                *)
Definition slot_of (skipping : bool) (s : script) (t : tx) (i : nat) : option receipt :=
  if skipping && tx_skippable t then Some RSkip
  else match run_tx (s i) with TxOk r => Some (RExec r) | _ => None end.

Definition receipt_of (skipping : bool) (txs : list tx) (s : script) (i : nat) : option receipt :=
  match nth_error txs i with
  | None => None
  | Some t => slot_of skipping s t i
  end.
