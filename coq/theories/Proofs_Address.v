From Goloop Require Import lib.Bytes Model_Address.
From Coq Require Import ZifyBool ZifyN ZifyNat.
Ltac Zify.zify_post_hook ::= Z.div_mod_to_equations.
Open Scope N_scope.

Lemma lhexval_hexdigit n : n < 16 -> lhexval (hexdigit n) = Some n.
Proof.
  intros Hn. unfold lhexval, hexdigit.
  destruct (n <? 10) eqn:E.
  - replace ((48 <=? 48 + n) && (48 + n <=? 57)) with true by lia. f_equal. lia.
  - replace ((48 <=? 87 + n) && (87 + n <=? 57)) with false by lia.
    replace ((97 <=? 87 + n) && (87 + n <=? 102)) with true by lia. f_equal. lia.
Qed.

Lemma lhexval_range c v : lhexval c = Some v -> v < 16 /\ hexdigit v = c.
Proof.
  unfold lhexval, hexdigit. intros H.
  destruct ((48 <=? c) && (c <=? 57)) eqn:E1.
  - inversion H; subst. replace (c - 48 <? 10) with true by lia. lia.
  - destruct ((97 <=? c) && (c <=? 102)) eqn:E2; [|discriminate].
    inversion H; subst. replace (c - 87 <? 10) with false by lia. lia.
Qed.

Lemma lhex_decode_encode bs : bytes_ok bs = true -> lhex_decode (hex_encode bs) = Some bs.
Proof.
  induction bs as [|b r IH]; cbn [hex_encode lhex_decode bytes_ok forallb]; intro H; [reflexivity|].
  apply andb_true_iff in H as [Hb Hr]. unfold byte_ok in Hb.
  rewrite !lhexval_hexdigit by lia. fold (bytes_ok r) in Hr. rewrite (IH Hr).
  f_equal. f_equal. lia.
Qed.

Lemma hex_encode_length bs : length (hex_encode bs) = (2 * length bs)%nat.
Proof. induction bs as [|b r IH]; cbn [hex_encode length]; lia. Qed.

(* strong induction on pairs *)
Lemma lhex_decode_inv : forall s bs, lhex_decode s = Some bs ->
  hex_encode bs = s /\ bytes_ok bs = true /\ length s = (2 * length bs)%nat.
Proof.
  intros s. induction s as [|h|h l r IH] using list_ind2; intros bs H; cbn [lhex_decode] in H.
  - inversion H; subst. now cbn.
  - discriminate.
  - destruct (lhexval h) as [x|] eqn:Eh; [|discriminate].
    destruct (lhexval l) as [y|] eqn:El; [|discriminate].
    destruct (lhex_decode r) as [t|] eqn:Er; [|discriminate].
    inversion H; subst. destruct (IH t eq_refl) as (E1 & E2 & E3).
    apply lhexval_range in Eh as [Hx Hh]. apply lhexval_range in El as [Hy Hl].
    cbn [hex_encode bytes_ok forallb length]. fold (bytes_ok t).
    replace ((x * 16 + y) / 16) with x by lia.
    replace ((x * 16 + y) mod 16) with y by lia.
    rewrite Hh, Hl, E1, E2. unfold byte_ok.
    replace (x * 16 + y <? 256) with true by lia. repeat split; lia.
Qed.

Lemma strict_roundtrip a : addr_ok a = true -> parse_strict (to_string a) = Some a.
Proof.
  unfold addr_ok. intros H. apply andb_true_iff in H as [Hl Hb].
  apply Nat.eqb_eq in Hl. destruct a as [c id]; cbn [a_contract a_id] in *.
  unfold parse_strict, to_string; cbn [a_contract a_id length].
  rewrite hex_encode_length, Hl. cbn [Nat.mul Nat.add Nat.eqb negb].
  rewrite (lhex_decode_encode _ Hb). destruct c; reflexivity.
Qed.

Lemma strict_only_canonical s a : parse_strict s = Some a -> to_string a = s /\ addr_ok a = true.
Proof.
  unfold parse_strict. destruct (Nat.eqb (length s) 42) eqn:El; cbn [negb]; [|discriminate].
  apply Nat.eqb_eq in El.
  destruct s as [|p [|x body]]; try discriminate.
  destruct (x =? c_x) eqn:Ex; cbn [negb]; [|discriminate]. apply N.eqb_eq in Ex. subst x.
  cbn [length] in El.
  destruct (p =? c_c) eqn:Ec; [|destruct (p =? c_h) eqn:Eh; [|discriminate]];
    (destruct (lhex_decode body) as [id|] eqn:Ed; cbn [option_map]; [|discriminate]);
    intro H; inversion H; subst; clear H;
    apply lhex_decode_inv in Ed as (E1 & E2 & E3);
    unfold to_string, addr_ok; cbn [a_contract a_id]; rewrite E1, E2.
  - apply N.eqb_eq in Ec. subst. split; [reflexivity|].
    replace (length id) with 20%nat by lia. reflexivity.
  - apply N.eqb_eq in Eh. subst. split; [reflexivity|].
    replace (length id) with 20%nat by lia. reflexivity.
Qed.

Lemma bytes_roundtrip a : addr_ok a = true -> of_bytes (to_bytes a) = Some a.
Proof.
  unfold addr_ok. intros H. apply andb_true_iff in H as [Hl _]. apply Nat.eqb_eq in Hl.
  destruct a as [c id]. cbn [a_id] in Hl. unfold of_bytes, to_bytes. cbn [a_contract a_id length].
  rewrite Hl. cbn [Nat.eqb]. destruct c; reflexivity.
Qed.

Lemma of_bytes_21_canonical b a : length b = 21%nat -> of_bytes b = Some a -> to_bytes a = b.
Proof.
  unfold of_bytes. intros Hl. rewrite Hl. cbn [Nat.eqb].
  destruct b as [|t id]; [discriminate|].
  destruct t as [|p]; [intro H; inversion H; reflexivity|].
  destruct p; try discriminate. intro H; inversion H; reflexivity.
Qed.

Lemma of_bytes_accepts b : (exists a, of_bytes b = Some a) <->
  (length b = 20%nat \/ (length b = 21%nat /\ exists id, b = 0 :: id \/ b = 1 :: id)).
Proof.
  unfold of_bytes. split.
  - intros [a H]. destruct (Nat.eqb (length b) 21) eqn:E21.
    + apply Nat.eqb_eq in E21. right. split; [assumption|].
      destruct b as [|t id]; [discriminate|]. exists id.
      destruct t as [|p]; [now left|]. destruct p; try discriminate. now right.
    + destruct (Nat.eqb (length b) 20) eqn:E20; [|discriminate]. apply Nat.eqb_eq in E20. now left.
  - intros [H|[H [id [E|E]]]].
    + rewrite H. cbn. eauto.
    + rewrite H. cbn [Nat.eqb]. subst. eauto.
    + rewrite H. cbn [Nat.eqb]. subst. eauto.
Qed.

Lemma forallb_is_lhex_decode : forall body, Nat.even (length body) = true -> forallb is_lhex body = true ->
  exists id, lhex_decode body = Some id.
Proof.
  intros body. induction body as [|h|h l r IH] using list_ind2; intros He Hf.
  - now exists [].
  - discriminate.
  - cbn [forallb] in Hf. apply andb_true_iff in Hf as [Hh Hf]. apply andb_true_iff in Hf as [Hl Hf].
    cbn [length Nat.even] in He. destruct (IH He Hf) as [t Ht].
    unfold is_lhex in Hh, Hl. cbn [lhex_decode].
    destruct (lhexval h); [|discriminate]. destruct (lhexval l); [|discriminate]. rewrite Ht. eauto.
Qed.

Lemma lhex_decode_forallb : forall body id, lhex_decode body = Some id -> forallb is_lhex body = true.
Proof.
  intros body. induction body as [|h|h l r IH] using list_ind2; intros id H; cbn [lhex_decode] in H.
  - reflexivity.
  - discriminate.
  - cbn [forallb]. unfold is_lhex at 1 2.
    destruct (lhexval h); [|discriminate]. destruct (lhexval l); [|discriminate].
    destruct (lhex_decode r) eqn:Er; [|discriminate]. cbn. eapply IH; eauto.
Qed.

Lemma rpc_regex_agrees s : rpc_regex s = true <-> exists a, parse_strict s = Some a.
Proof.
  unfold rpc_regex, parse_strict. split.
  - destruct s as [|p [|x body]]; try discriminate. intro H.
    repeat (apply andb_true_iff in H as [H ?]).
    match goal with Hl : Nat.eqb (length body) 40 = true |- _ => apply Nat.eqb_eq in Hl; rename Hl into Hlen end.
    cbn [length]. rewrite Hlen. cbn [Nat.eqb negb].
    match goal with Hx : (x =? c_x) = true |- _ => rewrite Hx end. cbn [negb].
    destruct (forallb_is_lhex_decode body) as [id Hid]; [rewrite Hlen; reflexivity|assumption|].
    rewrite Hid. cbn [option_map].
    destruct (p =? c_c) eqn:Ec; [eauto|].
    apply orb_true_iff in H as [H|H]; [rewrite H; eauto|congruence].
  - intros [a H]. destruct (Nat.eqb (length s) 42) eqn:El; cbn [negb] in H; [|discriminate].
    apply Nat.eqb_eq in El. destruct s as [|p [|x body]]; try discriminate.
    cbn [length] in El.
    destruct (x =? c_x) eqn:Ex; cbn [negb] in H; [|discriminate].
    assert (Hb : exists id, lhex_decode body = Some id /\ ((p =? c_h) || (p =? c_c)) = true).
    { destruct (p =? c_c) eqn:Ec; [|destruct (p =? c_h) eqn:Eh; [|discriminate]];
      (destruct (lhex_decode body) as [id|]; [|discriminate]); exists id; split; auto using orb_true_r. }
    destruct Hb as [id [Hd Hp]]. rewrite Hp. cbn [andb].
    replace (length body) with 40%nat by lia. cbn [Nat.eqb andb].
    eapply lhex_decode_forallb; eauto.
Qed.

(* non-vacuity: a concrete well-formed address *)
Definition ex_addr : address :=
  {| a_contract := true; a_id := [0;1;2;3;4;5;6;7;8;9;10;171;205;239;255;16;17;18;19;20] |}.
Example ex_addr_ok : addr_ok ex_addr = true. Proof. reflexivity. Qed.
Example ex_addr_rt : parse_strict (to_string ex_addr) = Some ex_addr. Proof. vm_compute. reflexivity. Qed.
