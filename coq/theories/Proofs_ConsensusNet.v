(* Proofs_ConsensusNet.v — the network of engine models (Model_ConsensusNet.v)
   refines the abstract protocol (Spec_Tendermint.v); agreement and
   "finalize needs +2/3 precommits" for the network follow from the protocol's
   theorems (Proofs_Tendermint.v).

   [NetInv net T]: T is a reachable state of the abstract protocol and EVERY
   correct engine i of the network is related to it by the simulation relation
   of Proofs_ConsensusNet_Sim.v, the environment of engine i being the votes of
   everybody else.  One event of engine i maps T to T' by abstract actions of
   slot i ([run_P] / [P_step_ev], Proofs_ConsensusNet_Run.v); the relation of the
   other engines is monotone in the soup ([NodeOK_transfer]); a Byzantine send is
   the abstract [ByzSend]. *)
From Coq Require Import List ZArith NArith Bool Arith Lia ZifyBool.
From Goloop Require Import Model_ConsensusNode Proofs_ConsensusNode Proofs_ConsensusNode_C01
  Model_ConsensusNet Proofs_ConsensusNet_Link Proofs_ConsensusNet_LockWAL Proofs_ConsensusNet_Sim
  Proofs_ConsensusNet_Run.
Import ListNotations.
Open Scope Z_scope.

Set Implicit Arguments.

(* ------------------------------------------------------------------ votes, lists *)

Lemma vtype_eqb_true a b : vtype_eqb a b = true -> a = b.
Proof. destruct a, b; cbn; intro H; try reflexivity; discriminate. Qed.

Lemma vote_eqb_true a b : vote_eqb a b = true -> a = b.
Proof.
  destruct a, b. unfold vote_eqb. cbn. rewrite !andb_true_iff. intros [[[[A B] C] D] F].
  apply Z.eqb_eq in A. apply Z.eqb_eq in B. apply vtype_eqb_true in C. apply dec_eqb_true in D.
  apply N.eqb_eq in F. subst. reflexivity.
Qed.

Lemma vote_mem_In v l : vote_mem v l = true -> In v l.
Proof.
  unfold vote_mem. intro H. apply existsb_exists in H as [x [Hx E]]. apply vote_eqb_true in E. subst; auto.
Qed.

Lemma in_own_votes i s v : In v (own_votes i s) <-> sent_vote i s v.
Proof.
  unfold own_votes, sent_vote. rewrite in_flat_map. split.
  - intros [m [Hm Hv]]. destruct m as [r t d k|]; [|destruct Hv]. destruct Hv as [<-|[]]. exists r, t, d, k; auto.
  - intros [r [t [d [k [H ->]]]]]. exists (SVote r t d k). split; auto. left; auto.
Qed.

Lemma nth_error_set_nth_same {A} i (x : A) l : (i < length l)%nat -> nth_error (set_nth i x l) i = Some x.
Proof.
  intro L. rewrite nth_error_set_nth, Nat.eqb_refl. apply Nat.ltb_lt in L. rewrite L. reflexivity.
Qed.

Lemma nth_error_set_nth_other {A} i j (x : A) l : i <> j -> nth_error (set_nth i x l) j = nth_error l j.
Proof. intro N. rewrite nth_error_set_nth. apply Nat.eqb_neq in N. rewrite N. reflexivity. Qed.

Lemma nth_set_node_other i j s' net : j <> i -> nth_error (nodes (set_node i s' net)) j = nth_error (nodes net) j.
Proof. intro N. unfold set_node. cbn [nodes]. apply nth_error_set_nth_other. auto. Qed.

Lemma nth_set_node_same i s' net : (i < length (nodes net))%nat -> nth_error (nodes (set_node i s' net)) i = Some s'.
Proof. intro L. unfold set_node. cbn [nodes]. apply nth_error_set_nth_same. auto. Qed.

Section NetProof.
  Variable n : nat.
  Variable byz : nat -> bool.
  Variable blocks : list blk.
  (* a part set has at least one part *)
  Hypothesis blocks_ok : forall x, In x blocks -> (1 <= b_parts x)%N.

  Local Notation soup := (soup byz).

  (* ---------------- who is in the soup ---------------- *)

  Lemma in_soup_from l : forall a v,
    In v (soup_from byz a l) <->
    exists k s, nth_error l k = Some s /\ byz (a + k)%nat = false /\ In v (own_votes (a + k) s).
  Proof.
    induction l as [|x l IH]; intros a v; cbn [soup_from].
    - split; [intros []|intros [k [s [H _]]]; destruct k; discriminate].
    - rewrite in_app_iff, IH. split.
      + intros [H|[k [s [A [B C]]]]].
        * destruct (byz a) eqn:Bz; [destruct H|]. exists 0%nat, x. rewrite Nat.add_0_r. auto.
        * exists (S k), s. rewrite Nat.add_succ_r. auto.
      + intros [[|k] [s [A [B C]]]].
        * cbn in A. inversion A; subst. rewrite Nat.add_0_r in *. left. rewrite B. auto.
        * right. exists k, s. cbn in A. rewrite Nat.add_succ_r in *. auto.
  Qed.

  Lemma in_soup net v :
    In v (soup net) <->
    In v (byzsent net) \/ exists k s, nth_error (nodes net) k = Some s /\ byz k = false /\ sent_vote k s v.
  Proof.
    unfold Model_ConsensusNet.soup. rewrite in_app_iff, in_soup_from. cbn [Nat.add].
    split; (intros [H|[k [s [A [B C]]]]]; [left; auto|right; exists k, s; repeat split; auto; apply in_own_votes; auto]).
  Qed.

  (* the votes of everybody but engine i *)
  Definition env (i : nat) (net : netstate) : list vote :=
    filter (fun v => negb (Z.eqb (v_from v) (Z.of_nat i))) (soup net).

  Definition nsoup (net : netstate) (v : vote) : Prop := In v (soup net).

  Lemma in_env i net v : In v (env i net) <-> In v (soup net) /\ v_from v <> Z.of_nat i.
  Proof.
    unfold env. rewrite filter_In, negb_true_iff, Z.eqb_neq. tauto.
  Qed.

  Record NodeOK (net : netstate) (T : TM.state) (i : nat) (s : st) : Prop := {
    no_inv : Inv (Z.of_nat i) s;
    no_invd : InvD n s;
    no_sim : Sim n byz blocks i (env i net) T (nsoup net) s T
  }.

  Definition byz_legal (net : netstate) : Prop := forall v, In v (byzsent net) -> legal_byz n byz v = true.

  Record NetInv (net : netstate) (T : TM.state) : Prop := {
    ni_len : length (nodes net) = n;
    ni_byz : byz_legal net;
    ni_reach : TM.reachable n byz T;
    ni_nodes : forall i s, (i < n)%nat -> byz i = false -> nth_error (nodes net) i = Some s -> NodeOK net T i s
  }.

  Lemma legal_byz_spec v : legal_byz n byz v = true ->
    0 <= v_from v < Z.of_nat n /\ byz (Z.to_nat (v_from v)) = true /\ 0 <= v_round v.
  Proof. unfold legal_byz. rewrite !andb_true_iff. intros [[[A B] C] D]. lia. Qed.

  (* for a correct engine: known = member of the network soup *)
  Lemma known_env net i s v :
    byz_legal net -> byz i = false -> nth_error (nodes net) i = Some s ->
    (known i (env i net) s v <-> In v (soup net)).
  Proof.
    intros BL Bi Hi. split.
    - intros [H|H]; [apply in_env in H; tauto|]. apply in_soup. right. exists i, s. auto.
    - intro H. destruct (Z.eq_dec (v_from v) (Z.of_nat i)) as [Eq|Ne].
      + apply in_soup in H as [H|[k [sk [A [B C]]]]].
        * apply BL, legal_byz_spec in H as [_ [H _]]. rewrite Eq, Nat2Z.id in H. congruence.
        * right. destruct C as [r [t [d [c [C ->]]]]]. cbn in Eq. apply Nat2Z.inj in Eq. subst k.
          rewrite Hi in A. inversion A; subst. exists r, t, d, c. auto.
      + left. apply in_env. auto.
  Qed.

  Lemma env_ok net T i :
    NetInv net T ->
    forall v, In v (env i net) -> 0 <= v_from v < Z.of_nat n /\ 0 <= v_round v /\ v_from v <> Z.of_nat i.
  Proof.
    intros NI v Hv. apply in_env in Hv as [Hv Ne]. split; [|split]; auto.
    - apply in_soup in Hv as [H|[k [sk [A [B [r [t [d [c [C ->]]]]]]]]]].
      + apply (ni_byz NI), legal_byz_spec in H. tauto.
      + cbn. assert (k < n)%nat by (rewrite <- (ni_len NI); apply nth_error_Some; congruence). lia.
    - apply in_soup in Hv as [H|[k [sk [A [B [r [t [d [c [C ->]]]]]]]]]].
      + apply (ni_byz NI), legal_byz_spec in H. tauto.
      + cbn. assert (L : (k < n)%nat) by (rewrite <- (ni_len NI); apply nth_error_Some; congruence).
        apply (sm_sent (no_sim (ni_nodes NI L B A)) _ _ _ _ C).
  Qed.

  (* ---------------- the relation of an engine that does not move ---------------- *)

  Lemma Sim_transfer i E T0 K0 s T E' T' (K0' : vote -> Prop) :
    Sim n byz blocks i E T0 K0 s T ->
    TM.reachable n byz T' -> TM.lock T' i = TM.lock T i -> TM.decided T' i = TM.decided T i ->
    incl (TM.soup T) (TM.soup T') ->
    (forall m, In m (TM.soup T') <-> exists v, known i E' s v /\ conv v = m) ->
    (forall v, known i E s v -> known i E' s v) ->
    (forall v, K0' v -> known i E' s v) ->
    Sim n byz blocks i E' T' K0' s T'.
  Proof.
    intros H Rc Lk Dc Inc Sp Mono K0ok. constructor.
    - exact Rc.
    - split; [auto|apply incl_refl].
    - exact Sp.
    - rewrite Lk. apply (sm_lock H).
    - intros lr b El. rewrite Lk in El. eapply TP.polka_mono; [exact Inc|]. apply (sm_lpolka H El).
    - intros u Hu. apply Mono. apply (sm_hvs H); auto.
    - intros e u He Hu. apply Mono. eapply (sm_glog H); eauto.
    - rewrite Dc. apply (sm_dec H).
    - apply (sm_round H).
    - apply (sm_sent H).
    - apply (sm_fuse H).
    - exact K0ok.
    - eapply Forall_rec_sub_mono; [exact Mono|apply (sm_walr H)].
    - eapply Forall_rec_sub_mono; [exact Mono|apply (sm_walc H)].
    - destruct (sm_shape H) as [L [Sh LL]]. exists L. rewrite Lk. split; auto.
      eapply lockwal_shape_mono; [exact Mono|exact Sh].
    - apply (sm_lsync H).
  Qed.

  Lemma NodeOK_transfer net T net' T' j s :
    NodeOK net T j s -> byz_legal net -> byz_legal net' -> byz j = false ->
    nth_error (nodes net) j = Some s -> nth_error (nodes net') j = Some s ->
    TM.reachable n byz T' -> TM.lock T' j = TM.lock T j -> TM.decided T' j = TM.decided T j ->
    incl (TM.soup T) (TM.soup T') ->
    (forall v, In v (soup net) -> In v (soup net')) ->
    (forall m, In m (TM.soup T') <-> exists v, In v (soup net') /\ conv v = m) ->
    NodeOK net' T' j s.
  Proof.
    intros [HI HD HS] BL BL' Bj N N' Rc Lk Dc Inc SM Sp. constructor; auto.
    eapply Sim_transfer; eauto.
    - intro m. rewrite Sp. split; intros [v [A B]]; exists v; split; auto; eapply (known_env v BL' Bj N'); eauto.
    - intros v K. apply (known_env v BL' Bj N'). apply SM. apply (known_env v BL Bj N). exact K.
    - intros v K. apply (known_env v BL' Bj N'). exact K.
  Qed.

  (* ---------------- a correct engine moves ---------------- *)

  Lemma soup_set_node net i s' v :
    (i < length (nodes net))%nat ->
    (In v (soup (set_node i s' net)) <->
     In v (byzsent net) \/ (byz i = false /\ sent_vote i s' v) \/
     exists k s, k <> i /\ nth_error (nodes net) k = Some s /\ byz k = false /\ sent_vote k s v).
  Proof.
    intro L. rewrite in_soup. cbn [set_node nodes byzsent]. split.
    - intros [H|[k [s [A [B C]]]]]; auto. destruct (Nat.eq_dec k i) as [->|Ne].
      + rewrite nth_error_set_nth_same in A; auto. inversion A; subst. auto.
      + rewrite nth_error_set_nth_other in A; auto. right. right. exists k, s. auto.
    - intros [H|[[B C]|[k [s [Ne [A [B C]]]]]]]; auto.
      + right. exists i, s'. rewrite nth_error_set_nth_same; auto.
      + right. exists k, s. rewrite nth_error_set_nth_other; auto.
  Qed.

  Lemma NetInv_node_step net T i s s' :
    NetInv net T -> (i < n)%nat -> byz i = false -> nth_error (nodes net) i = Some s ->
    P n byz blocks i (env i net) T (nsoup net) s' ->
    exists T', NetInv (set_node i s' net) T' /\ forall j, j <> i -> TM.lock T' j = TM.lock T j.
  Proof.
    intros NI Li Bi Hs [HI HD [T' HS]].
    pose proof (ni_len NI) as Ln. pose proof (ni_byz NI) as BL.
    assert (Li' : (i < length (nodes net))%nat) by lia.
    set (net' := set_node i s' net).
    assert (BL' : byz_legal net') by exact BL.
    (* known to engine i after the step = the new soup *)
    assert (A : forall v, known i (env i net) s' v <-> In v (soup net')).
    { intro v. subst net'. rewrite soup_set_node; auto. split.
      - intros [H|H]; [|auto]. apply in_env in H as [H Ne]. apply in_soup in H as [H|[k [sk [A1 [B1 C1]]]]]; auto.
        right. right. exists k, sk. repeat split; auto. intros ->. destruct C1 as [r [t [d [c [_ ->]]]]]. cbn in Ne. lia.
      - intros [H|[[_ H]|[k [sk [Ne [A1 [B1 C1]]]]]]].
        + left. apply in_env. split; [apply in_soup; auto|].
          apply BL, legal_byz_spec in H as [H0 [H _]]. intro Eq. rewrite Eq, Nat2Z.id in H. congruence.
        + right. exact H.
        + left. apply in_env. split; [apply in_soup; right; exists k, sk; auto|].
          destruct C1 as [r [t [d [c [_ ->]]]]]. cbn. lia. }
    assert (SM : forall v, In v (soup net) -> In v (soup net')).
    { intros v Hv. apply A. apply (sm_k0 HS). exact Hv. }
    assert (Sp : forall m, In m (TM.soup T') <-> exists v, In v (soup net') /\ conv v = m).
    { intro m. rewrite (sm_soup HS). split; intros [v [K C]]; exists v; split; auto; apply A; auto. }
    destruct (sm_frame HS) as [Fr Inc].
    assert (N' : nth_error (nodes net') i = Some s') by (subst net'; cbn; apply nth_error_set_nth_same; auto).
    exists T'. split; [|intros j Hj; apply (Fr j Hj)].
    constructor.
    - subst net'. cbn. rewrite set_nth_length. exact Ln.
    - exact BL'.
    - apply (sm_reach HS).
    - intros j sj Lj Bj Hj. destruct (Nat.eq_dec j i) as [->|Ne].
      + rewrite N' in Hj. inversion Hj; subst sj. constructor; auto.
        eapply Sim_transfer; eauto using (sm_reach HS), incl_refl.
        * intro m. rewrite Sp. split; intros [v [K C]]; exists v; split; auto; eapply (known_env v BL' Bi N'); eauto.
        * intros v K. apply (known_env v BL' Bi N'). apply A; auto.
        * intros v K. apply (known_env v BL' Bi N'). exact K.
      + assert (Hj0 : nth_error (nodes net) j = Some sj).
        { subst net'. cbn in Hj. rewrite nth_error_set_nth_other in Hj; auto. }
        destruct (Fr j Ne) as [F1 F2].
        exact (NodeOK_transfer (ni_nodes NI Lj Bj Hj0) BL BL' Bj Hj0 Hj (sm_reach HS) F1 F2 Inc SM Sp).
  Qed.

  (* an engine in a Byzantine slot: whatever it does is invisible (its votes
     reach the others only as Byzantine sends) *)
  Lemma NetInv_byz_node net T i s' :
    NetInv net T -> (i < length (nodes net))%nat -> byz i = true -> NetInv (set_node i s' net) T.
  Proof.
    intros NI Li' Bi. pose proof (ni_len NI) as Ln. pose proof (ni_byz NI) as BL.
    set (net' := set_node i s' net).
    assert (SE : forall v, In v (soup net') <-> In v (soup net)).
    { intro v. subst net'. rewrite soup_set_node, in_soup; auto. split.
      - intros [H|[[B H]|[k [sk [Ne [A1 [B1 C1]]]]]]]; auto; [congruence|].
        right. exists k, sk. auto.
      - intros [H|[k [sk [A1 [B1 C1]]]]]; auto. destruct (Nat.eq_dec k i) as [->|Ne]; [congruence|].
        right. right. exists k, sk. auto. }
    constructor.
    - subst net'. cbn. rewrite set_nth_length. exact Ln.
    - exact BL.
    - apply (ni_reach NI).
    - intros j sj Lj Bj Hj. assert (Ne : j <> i) by congruence.
      assert (Hj0 : nth_error (nodes net) j = Some sj).
      { subst net'. rewrite nth_set_node_other in Hj; auto. }
      pose proof (ni_nodes NI Lj Bj Hj0) as OK.
      refine (NodeOK_transfer OK BL (BL : byz_legal net') Bj Hj0 Hj (ni_reach NI) eq_refl eq_refl (incl_refl _) _ _).
      + intros v Hv. apply SE; auto.
      + intro m. rewrite (sm_soup (no_sim OK)). split; intros [v [K C]]; exists v; split; auto.
        * apply SE. apply (known_env v BL Bj Hj0). exact K.
        * apply (known_env v BL Bj Hj0). apply SE. exact K.
  Qed.

  (* ---------------- a Byzantine send ---------------- *)

  Lemma NetInv_byz net T v :
    NetInv net T -> legal_byz n byz v = true ->
    exists T', NetInv (mkNet (nodes net) (byzsent net ++ [v])) T' /\ forall j, TM.lock T' j = TM.lock T j.
  Proof.
    intros NI Lg. pose proof (ni_byz NI) as BL. destruct (@legal_byz_spec v Lg) as [Rg [Bz Rd]].
    set (net' := mkNet (nodes net) (byzsent net ++ [v])).
    set (T' := TM.add_vote T (conv v)).
    assert (St : TM.step n byz T (TM.ByzSend (conv v)) = Some T') by (apply tm_byzsend; exact Bz).
    assert (Rc : TM.reachable n byz T') by (eapply TP.reachable_step; [apply (ni_reach NI)|exact St]).
    assert (BL' : byz_legal net').
    { intros u Hu. subst net'. cbn in Hu. apply in_app_or in Hu as [Hu|[<-|[]]]; auto. }
    assert (SE : forall u, In u (soup net') <-> In u (soup net) \/ u = v).
    { intro u. rewrite !in_soup. subst net'. cbn [byzsent nodes]. rewrite In_app_one. tauto. }
    exists T'. split; [|reflexivity]. constructor; auto.
    - apply (ni_len NI).
    - intros j sj Lj Bj Hj. pose proof (ni_nodes NI Lj Bj Hj) as OK.
      refine (NodeOK_transfer OK BL BL' Bj Hj Hj Rc eq_refl eq_refl _ _ _).
      + subst T'. cbn. apply incl_tl, incl_refl.
      + intros u Hu. apply SE; auto.
      + intro m. subst T'. cbn [TM.add_vote TM.soup]. cbn [In].
        rewrite (sm_soup (no_sim OK)). split.
        * intros [<-|[u [K C]]]; [exists v; split; auto; apply SE; auto|].
          exists u. split; auto. apply SE. left. apply (known_env u BL Bj Hj). exact K.
        * intros [u [K C]]. apply SE in K as [K| ->]; auto.
          right. exists u. split; auto. apply (known_env u BL Bj Hj). exact K.
  Qed.

  (* ---------------- the initial network ---------------- *)

  Lemma nth_repeat {A} (x y : A) k m : nth_error (repeat x m) k = Some y -> y = x.
  Proof. intro H. apply nth_error_In in H. apply repeat_spec in H. auto. Qed.

  Lemma soup_init v : ~ In v (soup (net_init n)).
  Proof.
    rewrite in_soup. cbn. intros [[]|[k [s [A [B [r [t [d [c [C _]]]]]]]]]].
    apply nth_repeat in A. subst s. destruct C.
  Qed.

  Lemma NetInv_init : NetInv (net_init n) (TM.init).
  Proof.
    constructor.
    - cbn. apply repeat_length.
    - intros v [].
    - apply TP.reachable_init.
    - intros i s Li Bi Hs. cbn in Hs. apply nth_repeat in Hs. subst s.
      assert (NK : forall v, ~ known i (env i (net_init n)) init v).
      { intros v [H|[r [t [d [c [[] _]]]]]]. apply in_env in H as [H _]. exact (@soup_init v H). }
      constructor.
      + apply (ib_inv (InvB_init (Z.of_nat i))).
      + apply InvD_init.
      + constructor.
        * apply TP.reachable_init.
        * split; [auto|apply incl_refl].
        * intro m. split; [intros []|intros [v [K _]]; exact (NK v K)].
        * cbn. discriminate.
        * cbn. discriminate.
        * intros u Hu. exfalso. exact (@hvs_has_nil u Hu).
        * intros e u [].
        * cbn. discriminate.
        * cbn. lia.
        * intros r t d k [].
        * reflexivity.
        * intros v Hv. exfalso. exact (@soup_init v Hv).
        * constructor.
        * constructor.
        * exists None. split; [constructor|left; reflexivity].
        * reflexivity.
  Qed.

  (* ---------------- one event of the network ---------------- *)

  (* durable = sent, as long as no process dies inside an event *)
  Lemma in_cast_votes1 s v : In v (cast_votes s) <-> In (RVote v) (w_synced (wal_r s)).
  Proof.
    unfold cast_votes. rewrite in_flat_map. split.
    - intros [r [Hr Hv]]. destruct r as [u| | | | ]; try (destruct Hv; fail). destruct Hv as [<-|[]]. exact Hr.
    - intro H. exists (RVote v). split; auto. left; auto.
  Qed.

  Lemma in_csoup_from1 l : forall a v,
    In v (csoup_from byz a l) <->
    exists k s, nth_error l k = Some s /\ byz (a + k)%nat = false /\ In (RVote v) (w_synced (wal_r s)).
  Proof.
    induction l as [|x l IH]; intros a v; cbn [csoup_from].
    - split; [intros []|intros [k [s [H _]]]; destruct k; discriminate].
    - rewrite in_app_iff, IH. split.
      + intros [H|[k [s [A [B C]]]]].
        * destruct (byz a) eqn:Bz; [destruct H|]. exists 0%nat, x. rewrite Nat.add_0_r.
          repeat split; auto. apply in_cast_votes1; auto.
        * exists (S k), s. rewrite Nat.add_succ_r. auto.
      + intros [[|k] [s [A [B C]]]].
        * cbn in A. inversion A; subst. rewrite Nat.add_0_r in *. left. rewrite B. apply in_cast_votes1; auto.
        * right. exists k, s. cbn in A. rewrite Nat.add_succ_r in *. auto.
  Qed.

  Lemma csoup_soup net T v : NetInv net T -> In v (csoup byz net) -> In v (soup net).
  Proof.
    intros NI Hv. unfold csoup in Hv. apply in_app_or in Hv as [Hv|Hv]; [apply in_soup; auto|].
    apply in_csoup_from1 in Hv as [k [sk [A [B C]]]]. cbn [Nat.add] in B.
    assert (L : (k < n)%nat) by (rewrite <- (ni_len NI); apply nth_error_Some; congruence).
    pose proof (sm_walr (no_sim (ni_nodes NI L B A))) as W. rewrite Forall_forall in W.
    assert (Hw : In (RVote v) (wal_all (wal_r sk))) by (unfold wal_all; apply in_or_app; left; exact C).
    specialize (W _ Hw). cbn in W.
    apply (known_env v (ni_byz NI) B A). exact W.
  Qed.

  Lemma legal_ev_k0 net T e : NetInv net T -> legal_event (csoup byz net) e = true -> ev_k0 (nsoup net) e.
  Proof.
    intro NI. destruct e; cbn; auto.
    - destruct curh; auto. intro H. apply (csoup_soup v NI). apply vote_mem_In; auto.
    - intros H c v Hin Hc. rewrite forallb_forall in H. specialize (H _ Hin). cbn in H. subst c. cbn in H.
      apply (csoup_soup v NI). apply vote_mem_In; auto.
  Qed.

  Lemma soup_wf net T v : NetInv net T -> In v (soup net) -> 0 <= v_from v < Z.of_nat n /\ 0 <= v_round v.
  Proof.
    intros NI Hv.
    apply in_soup in Hv as [H|[k [sk [A [B [r [t [d [c [C ->]]]]]]]]]].
    - apply (ni_byz NI), legal_byz_spec in H. tauto.
    - cbn. assert (L : (k < n)%nat) by (rewrite <- (ni_len NI); apply nth_error_Some; congruence).
      split; [lia|]. apply (sm_sent (no_sim (ni_nodes NI L B A)) _ _ _ _ C).
  Qed.

  Lemma NodeOK_P net T i s : NodeOK net T i s -> P n byz blocks i (env i net) T (nsoup net) s.
  Proof. intros [HI HD HS]. constructor; eauto. Qed.

  (* fewer than a third of the slots are Byzantine (needed already for the
     invariant: a restart replays the lock WAL correctly only because the soup
     has at most one polka per round) *)
  Hypothesis Hb3 : (3 * nbyz n byz < n)%nat.

  (* any event without a crash point inside it: message, timeout, callback,
     crash with any number of surviving unsynced records, restart, Byzantine send *)
  Lemma net_step_boundary net T e :
    NetInv net T -> ev_fuse_none e = true -> exists T', NetInv (net_step n byz blocks net e) T'.
  Proof.
    intros NI Fz. destruct e as [i [[ev fz] d]|v]; cbn [net_step fst snd].
    - destruct fz; [discriminate Fz|].
      destruct (nth_error (nodes net) i) as [s|] eqn:Hs; [|exists T; auto].
      destruct (legal_event (csoup byz net) ev) eqn:Lg; [|exists T; auto].
      assert (Li : (i < n)%nat) by (rewrite <- (ni_len NI); apply nth_error_Some; congruence).
      assert (Li' : (i < length (nodes net))%nat) by (rewrite (ni_len NI); auto).
      destruct (byz i) eqn:Bi.
      { exists T. apply NetInv_byz_node; auto. }
      pose proof (NodeOK_P (ni_nodes NI Li Bi Hs)) as P0.
      unfold node_step. cbn [fst snd].
      assert (P' := P_step_ev_any Li Bi (env_ok i NI) blocks_ok d Hb3 ev P0 (legal_ev_k0 _ NI Lg)).
      remember (step_ev n (Z.of_nat i) blocks d ev None s) as s' eqn:Es. clear Es.
      destruct (NetInv_node_step NI Li Bi Hs P') as [T' [NI' _]]. exists T'. exact NI'.
    - destruct (legal_byz n byz v) eqn:Lg; [|exists T; auto].
      destruct (NetInv_byz v NI Lg) as [T' [NI' _]]. exists T'. exact NI'.
  Qed.

  Lemma run_net_boundary evs : forall net T,
    NetInv net T -> forallb ev_fuse_none evs = true ->
    exists T', NetInv (run_net_from n byz blocks net evs) T'.
  Proof.
    induction evs as [|e evs IH]; intros net T NI Fz; cbn [run_net_from fold_left].
    - exists T; auto.
    - cbn in Fz. apply andb_true_iff in Fz as [Fz1 Fz2].
      destruct (@net_step_boundary net T e NI Fz1) as [T' NI']. apply (IH _ T'); auto.
  Qed.

  Lemma boundary_inv evs : boundary_crashes evs = true -> exists T, NetInv (run_net n byz blocks evs) T.
  Proof. intro B. apply (@run_net_boundary evs (net_init n) TM.init); auto using NetInv_init. Qed.

  Lemma no_crash_boundary evs : no_crash evs = true -> boundary_crashes evs = true.
  Proof. unfold no_crash, boundary_crashes. rewrite !andb_true_iff. tauto. Qed.

  (* ---------------- what the invariant gives ---------------- *)

  Lemma inv_agreement net T :
    NetInv net T ->
    forall i j v w, correct n byz i -> correct n byz j ->
      decided_of net i = Some v -> decided_of net j = Some w -> v = w.
  Proof.
    intros NI i j v w [Li Bi] [Lj Bj] Di Dj. unfold decided_of in *.
    destruct (nth_error (nodes net) i) as [si|] eqn:Hi; [|discriminate].
    destruct (nth_error (nodes net) j) as [sj|] eqn:Hj; [|discriminate].
    pose proof (sm_dec (no_sim (ni_nodes NI Li Bi Hi)) Di) as Ti.
    pose proof (sm_dec (no_sim (ni_nodes NI Lj Bj Hj)) Dj) as Tj.
    exact (TP.tm_agreement n byz Hb3 T i j v w (ni_reach NI) (correct_i n byz i Li Bi) (correct_i n byz j Lj Bj) Ti Tj).
  Qed.

  Lemma inv_finalize_needs_quorum net T :
    NetInv net T ->
    forall i b, correct n byz i -> decided_of net i = Some b ->
      exists r, 0 <= r /\ over23 (count_precommits (soup net) n r b) n = true.
  Proof.
    intros NI i b [Li Bi] Di. unfold decided_of in *.
    destruct (nth_error (nodes net) i) as [si|] eqn:Hi; [|discriminate].
    pose proof (no_sim (ni_nodes NI Li Bi Hi)) as HS.
    pose proof (sm_dec HS Di) as Ti.
    destruct (TP.tm_decide_needs_quorum n byz Hb3 T i b (ni_reach NI) Ti) as [r Q].
    exists (Z.of_N r). split; [lia|].
    unfold TM.qprecommit, TM.quorum in Q.
    change (TM.over23 (TM.countn (fun k => has_vote_of (soup net) k (Z.of_N r) Precommit (Some b)) n) n = true).
    eapply TP.over23_mono; [|exact Q]. apply TP.countn_mono. intros k Lk Hk.
    apply TP.has_vote_In in Hk. apply (sm_soup HS) in Hk as [v [K C]].
    apply (known_env v (ni_byz NI) Bi Hi) in K. destruct (soup_wf v NI K) as [W1 W2].
    unfold has_vote_of. apply existsb_exists. exists v. split; auto.
    unfold conv in C. inversion C. 
    rewrite !andb_true_iff. repeat split.
    - apply Z.eqb_eq. lia.
    - apply Z.eqb_eq. lia.
    - destruct (v_type v); [discriminate|reflexivity].
    - rewrite H3. apply dec_eqb_refl.
  Qed.

  (* agreement for every history whose crashes happen between events *)
  Theorem agreement_boundary evs :
    boundary_crashes evs = true ->
    forall i j v w, correct n byz i -> correct n byz j ->
      decided_of (run_net n byz blocks evs) i = Some v ->
      decided_of (run_net n byz blocks evs) j = Some w -> v = w.
  Proof. intros B. destruct (@boundary_inv evs B) as [T NI]. exact (inv_agreement NI). Qed.

  Theorem finalize_needs_quorum_boundary evs :
    boundary_crashes evs = true ->
    forall i b, correct n byz i -> decided_of (run_net n byz blocks evs) i = Some b ->
      exists r, 0 <= r /\ over23 (count_precommits (soup (run_net n byz blocks evs)) n r b) n = true.
  Proof. intros B. destruct (@boundary_inv evs B) as [T NI]. exact (inv_finalize_needs_quorum NI). Qed.

  (* the network refines the protocol: the final state is related to a reachable
     protocol state whose soup is the image of the network's soup and whose
     decisions cover the finalized blocks *)
  Theorem refinement_boundary evs :
    boundary_crashes evs = true ->
    exists T, TM.reachable n byz T /\
      forall i s, correct n byz i -> node_of (run_net n byz blocks evs) i = Some s ->
        (forall m, In m (TM.soup T) <-> exists v, In v (soup (run_net n byz blocks evs)) /\ conv v = m) /\
        (status_ s = Running -> TM.lock T i = convlock (lock_of s)) /\
        (forall b, decided s = Some b -> TM.decided T i = Some b).
  Proof.
    intros B. destruct (@boundary_inv evs B) as [T NI]. exists T. split; [apply (ni_reach NI)|].
    intros i s [Li Bi] Hs. unfold node_of in Hs. pose proof (no_sim (ni_nodes NI Li Bi Hs)) as HS.
    split; [|split].
    - intro m. rewrite (sm_soup HS). split; intros [v [K C]]; exists v; split; auto;
        apply (known_env v (ni_byz NI) Bi Hs); auto.
    - apply (sm_lock HS).
    - apply (sm_dec HS).
  Qed.

End NetProof.

(* ================================================================== *)
(* Non-vacuity: n = 4, slot 3 Byzantine and equivocating, one block.   *)

Definition ex_blocks1 : list blk := [mkBlk 1 1 true 1 false].
Definition ex_byz3 (k : nat) : bool := Nat.eqb k 3.
Definition ex_pv (i r : Z) (d : option N) : vote := mkVote i r Prevote d 0.
Definition ex_pc (i r : Z) (d : option N) : vote := mkVote i r Precommit d 0.

(* engines 0,1,2 start; 1 is the proposer of round 0 and proposes block 1; 0 and
   2 receive proposal and part and import the block; everybody prevotes block 1;
   the Byzantine slot prevotes block 1 towards engine 0 and block 9 towards
   engine 2 (equivocation); the prevotes and precommits travel; engines 0 and 1
   finalize block 1, engine 2 is still waiting for a precommit *)
Definition ex_hist : list nev :=
  [ Restart 0; Restart 1; Restart 2;
    Callback 1 (EProposeCb 0 true 1);
    Deliver 0 (EProposal true 0 1 (-1) 1); Deliver 0 (EPart true 1 0); Callback 0 (EImportCb 0 true);
    Deliver 2 (EProposal true 0 1 (-1) 1); Deliver 2 (EPart true 1 0); Callback 2 (EImportCb 0 true);
    ByzSend (mkVote 3 0 Prevote (Some 1%N) 5); ByzSend (mkVote 3 0 Prevote (Some 9%N) 6);
    DeliverVotes 0 [ex_pv 1 0 (Some 1%N); mkVote 3 0 Prevote (Some 1%N) 5];
    DeliverVotes 1 [ex_pv 0 0 (Some 1%N); ex_pv 2 0 (Some 1%N)];
    DeliverVotes 2 [mkVote 3 0 Prevote (Some 9%N) 6; ex_pv 0 0 (Some 1%N); ex_pv 1 0 (Some 1%N)];
    DeliverVotes 0 [ex_pc 1 0 (Some 1%N); ex_pc 2 0 (Some 1%N)];
    DeliverVotes 1 [ex_pc 0 0 (Some 1%N); ex_pc 2 0 (Some 1%N)] ].

Example ex_hist_meets_hypotheses :
  no_crash ex_hist = true /\ boundary_crashes ex_hist = true /\ (3 * nbyz 4 ex_byz3 < 4)%nat /\
  correct 4 ex_byz3 0 /\ correct 4 ex_byz3 1.
Proof. vm_compute. repeat split; auto; lia. Qed.

Example ex_hist_decides :
  let net := run_net 4 ex_byz3 ex_blocks1 ex_hist in
  decided_of net 0 = Some 1%N /\ decided_of net 1 = Some 1%N /\ decided_of net 2 = None /\
  over23 (count_precommits (soup ex_byz3 net) 4 0 1) 4 = true /\
  vote_mem (mkVote 3 0 Prevote (Some 9%N) 6) (soup ex_byz3 net) = true /\
  vote_mem (mkVote 3 0 Prevote (Some 1%N) 5) (soup ex_byz3 net) = true.
Proof. vm_compute. repeat split; reflexivity. Qed.

(* the legality filter: a prevote of the Byzantine slot that was never sent (and
   a forged vote of a correct slot) is not delivered — the event is dropped and
   engine 0 does not see a polka *)
Definition ex_forged : list nev :=
  firstn 10 ex_hist ++
  [ DeliverVotes 0 [ex_pv 1 0 (Some 1%N); ex_pv 2 0 (Some 1%N); mkVote 3 0 Prevote (Some 1%N) 5] ].

Example ex_forged_dropped :
  run_net 4 ex_byz3 ex_blocks1 ex_forged = run_net 4 ex_byz3 ex_blocks1 (firstn 10 ex_hist) /\
  option_map lock_of (node_of (run_net 4 ex_byz3 ex_blocks1 ex_forged) 0) = Some None /\
  (* the same delivery after the Byzantine vote was published is accepted: engine 0 locks *)
  option_map lock_of (node_of (run_net 4 ex_byz3 ex_blocks1
     (firstn 11 ex_hist ++ [DeliverVotes 0 [ex_pv 1 0 (Some 1%N); ex_pv 2 0 (Some 1%N); mkVote 3 0 Prevote (Some 1%N) 5]])) 0)
  = Some (Some (0, 1%N)) /\
  (* a correct slot cannot be impersonated by ByzSend *)
  run_net 4 ex_byz3 ex_blocks1 [ByzSend (ex_pv 1 0 None)] = net_init 4.
Proof. vm_compute. repeat split; reflexivity. Qed.

(* a crash between events and a restart: engine 0 locks block 1 on the polka and
   precommits it, crashes (5 unsynced records per WAL would survive), restarts —
   the lock (0, 1) comes back from the lock WAL, its two votes from the round WAL
   — receives the precommits of 1 and 2, commits through the forced import and
   finalizes block 1; engine 1 finalizes it as well *)
Definition ex_hist_crash : list nev :=
  firstn 13 ex_hist ++
  [ Crash 0 5 5 5; Restart 0;
    DeliverVotes 1 [ex_pv 0 0 (Some 1%N); ex_pv 2 0 (Some 1%N)];
    DeliverVotes 2 [mkVote 3 0 Prevote (Some 9%N) 6; ex_pv 0 0 (Some 1%N); ex_pv 1 0 (Some 1%N)];
    DeliverVotes 0 [ex_pc 1 0 (Some 1%N); ex_pc 2 0 (Some 1%N)];
    Callback 0 (ECommitCb 0 true);
    DeliverVotes 1 [ex_pc 0 0 (Some 1%N); ex_pc 2 0 (Some 1%N)] ].

Example ex_blocks1_ok : forall x, In x ex_blocks1 -> (1 <= b_parts x)%N.
Proof. intros x [<-|[]]. cbn. lia. Qed.

Example ex_hist_crash_meets_hypotheses :
  boundary_crashes ex_hist_crash = true /\ no_crash ex_hist_crash = false /\
  (3 * nbyz 4 ex_byz3 < 4)%nat.
Proof. vm_compute. repeat split; auto; lia. Qed.

Example ex_hist_crash_decides :
  let mid := run_net 4 ex_byz3 ex_blocks1 (firstn 15 ex_hist_crash) in
  let net := run_net 4 ex_byz3 ex_blocks1 ex_hist_crash in
  (* right after the restart: running, step precommit, lock restored, nothing sent twice *)
  option_map (fun s => (status_ s, stp s, lock_of s, length (sent s))) (node_of mid 0)
    = Some (Running, SPrecommit, Some (0, 1%N), 2%nat) /\
  decided_of net 0 = Some 1%N /\ decided_of net 1 = Some 1%N.
Proof. vm_compute. repeat split; reflexivity. Qed.
