(* Property C21 — Contract storage containers do not collide.
   Only the property theorems; proofs are in Proofs_ContainerKey.v / Proofs_ContainerKeyKernel.v.
   Key parts are byte strings; typed parts go through to_bytes (ToBytes) first.
   H is the hash of the hashed builders: every theorem holds for every H, and where
   distinctness rests on H the theorem returns the colliding pair. *)
From Goloop Require Import lib.Bytes lib.GoInt Model_ContainerKey Proofs_ContainerKey Proofs_ContainerKeyKernel gen.K_rlpCountBytesForSize.

(* ---- the RLP item encoding is prefix-free, for byte strings of every length ---- *)
Theorem C21_item_prefix_free : forall a b x y : bytes, rlp_item a ++ x = rlp_item b ++ y -> a = b /\ x = y.
Proof. exact rlp_item_prefix_free. Qed.
Print Assumptions C21_item_prefix_free.

(* ---- AppendKeys: equal keys imply equal part lists (and equal prefixes of equal length) ---- *)
Theorem C21_append_injective : forall pre ps qs, append_keys pre ps = append_keys pre qs -> ps = qs.
Proof. exact append_injective. Qed.
Print Assumptions C21_append_injective.

Theorem C21_append_injective_prefix : forall pre1 pre2 ps qs, length pre1 = length pre2 ->
  append_keys pre1 ps = append_keys pre2 qs -> pre1 = pre2 /\ ps = qs.
Proof. exact append_injective_prefix. Qed.
Print Assumptions C21_append_injective_prefix.

(* ---- SplitKeys inverts AppendKeys (parts no longer than a Go int allows) ---- *)
Theorem C21_split_append : forall ps, Forall (fun p => (lenN p <= max_int)%N) ps ->
  split_keys (append_keys [] ps) = SOk ps.
Proof. exact split_append. Qed.
Print Assumptions C21_split_append.

Theorem C21_split_total : forall key, split_keys key <> SFuel.
Proof. exact split_keys_total. Qed.
Print Assumptions C21_split_total.

(* ---- hashed builders: distinct paths, distinct keys — or a collision of H ---- *)
Theorem C21_hashed_distinct_or_collision : forall H pre ps qs,
  b_build H (b_append (BHash pre) ps) = b_build H (b_append (BHash pre) qs) -> ps = qs \/ collision H.
Proof. exact hashed_distinct_or_collision. Qed.
Print Assumptions C21_hashed_distinct_or_collision.

Theorem C21_prefixed_hashed_distinct_or_collision : forall H raw1 raw2 pre ps qs, length raw1 = length raw2 ->
  b_build H (b_append (BPrefixedHash raw1 pre) ps) = b_build H (b_append (BPrefixedHash raw2 pre) qs) ->
  (raw1 = raw2 /\ ps = qs) \/ collision H.
Proof. exact prefixed_distinct_or_collision. Qed.
Print Assumptions C21_prefixed_hashed_distinct_or_collision.

Theorem C21_to_key_rlp_injective : forall H ps qs b1 b2,
  to_key KRlp ps = Some b1 -> to_key KRlp qs = Some b2 -> b_build H b1 = b_build H b2 -> ps = qs.
Proof. exact to_key_rlp_inj. Qed.
Print Assumptions C21_to_key_rlp_injective.

Theorem C21_to_key_hash_distinct_or_collision : forall H ps qs b1 b2,
  to_key KHash ps = Some b1 -> to_key KHash qs = Some b2 -> b_build H b1 = b_build H b2 -> ps = qs \/ collision H.
Proof. exact to_key_hash_distinct_or_collision. Qed.
Print Assumptions C21_to_key_hash_distinct_or_collision.

(* Append(x).Append(y) = Append(x ++ y) for every builder: nesting is concatenation of paths *)
Theorem C21_append_nesting : forall b x y, b_append (b_append b x) y = b_append b (x ++ y).
Proof. exact b_append_app. Qed.
Print Assumptions C21_append_nesting.

(* ---- containers under paths none of which extends the other never share a slot;
        in particular containers of different kinds (first part = the var/array/dict tag) ---- *)
Theorem C21_prefix_separation : forall pre (p q e1 e2 : list bytes),
  (forall r, p <> q ++ r) -> (forall r, q <> p ++ r) ->
  append_keys pre (p ++ e1) <> append_keys pre (q ++ e2).
Proof. exact prefix_separation. Qed.
Print Assumptions C21_prefix_separation.

Theorem C21_tag_separation : forall pre (t1 t2 : bytes) (p q e1 e2 : list bytes), t1 <> t2 ->
  append_keys pre ((t1 :: p) ++ e1) <> append_keys pre ((t2 :: q) ++ e2).
Proof. exact tag_separation. Qed.
Print Assumptions C21_tag_separation.

Theorem C21_tag_separation_hashed : forall H pre (t1 t2 : bytes) (p q e1 e2 : list bytes), t1 <> t2 ->
  H (append_keys pre ((t1 :: p) ++ e1)) = H (append_keys pre ((t2 :: q) ++ e2)) -> collision H.
Proof. exact tag_separation_hashed. Qed.
Print Assumptions C21_tag_separation_hashed.

(* ---- ToBytes is injective on each type (values of different types may coincide by design) ---- *)
Theorem C21_to_bytes_int_injective : forall v w, in_i64 v -> in_i64 w -> to_bytes (VInt v) = to_bytes (VInt w) -> v = w.
Proof. exact to_bytes_int_inj. Qed.
Print Assumptions C21_to_bytes_int_injective.

Theorem C21_int_roundtrip : forall v, in_i64 v -> bytes_to_int64 (int64_to_bytes v) = Some v.
Proof. exact int64_roundtrip. Qed.
Print Assumptions C21_int_roundtrip.

Theorem C21_to_bytes_bool_injective : forall a b, to_bytes (VBool a) = to_bytes (VBool b) -> a = b.
Proof. exact to_bytes_bool_inj. Qed.
Print Assumptions C21_to_bytes_bool_injective.

Theorem C21_to_bytes_addr_injective : forall c1 i1 c2 i2, to_bytes (VAddr c1 i1) = to_bytes (VAddr c2 i2) -> c1 = c2 /\ i1 = i2.
Proof. exact to_bytes_addr_inj. Qed.
Print Assumptions C21_to_bytes_addr_injective.

Theorem C21_to_bytes_str_injective : forall a b, to_bytes (VStr a) = to_bytes (VStr b) -> a = b.
Proof. exact to_bytes_str_inj. Qed.
Print Assumptions C21_to_bytes_str_injective.

(* ---- ArrayDB behaves like a list: every result of every history of Put/Pop/Get/Set/Size
        (indices are Go ints, fewer than 2^63-1 operations) on empty slots equals the list's ---- *)
Theorem C21_array_is_list : forall H key s0 ops, array_slots_ok H key ->
  kv_get s0 (array_size_key H key) = None ->
  (forall i, in_i64 i -> kv_get s0 (array_elem_key H key i) = None) ->
  Forall aop_ok ops -> (Z.of_nat (length ops) < max_len)%Z ->
  arr_run (array_size_key H key) (array_elem_key H key) s0 ops = lst_run [] ops.
Proof. exact array_is_list. Qed.
Print Assumptions C21_array_is_list.

(* the view depends on the store only: from the store reached by any earlier history (the state a
   rollback resets to), through whichever handle, the results are those of the list reached by it *)
Theorem C21_array_resume : forall H key s0 ops1 ops2, array_slots_ok H key ->
  kv_get s0 (array_size_key H key) = None ->
  (forall i, in_i64 i -> kv_get s0 (array_elem_key H key i) = None) ->
  Forall aop_ok ops1 -> Forall aop_ok ops2 -> (Z.of_nat (length ops1 + length ops2) < max_len)%Z ->
  arr_run (array_size_key H key) (array_elem_key H key)
    (arr_exec (array_size_key H key) (array_elem_key H key) s0 ops1) ops2
  = lst_run (lst_exec [] ops1) ops2.
Proof. exact array_resume. Qed.
Print Assumptions C21_array_resume.

(* its hypothesis holds for the RLP and raw builders under every prefix; with the hashed
   builder two slots can only coincide through a collision of H *)
Theorem C21_array_slots_rlp : forall H acc, array_slots_ok H (BRlp acc).
Proof. exact rlp_array_slots. Qed.
Print Assumptions C21_array_slots_rlp.

Theorem C21_array_slots_raw : forall H acc, array_slots_ok H (BRaw acc).
Proof. exact raw_array_slots. Qed.
Print Assumptions C21_array_slots_raw.

Theorem C21_array_slots_hashed : forall H acc,
  (forall i j, in_i64 i -> in_i64 j -> array_elem_key H (BHash acc) i = array_elem_key H (BHash acc) j -> i = j \/ collision H) /\
  (forall i, in_i64 i -> array_elem_key H (BHash acc) i = array_size_key H (BHash acc) -> collision H).
Proof. exact hash_array_slot_clash. Qed.
Print Assumptions C21_array_slots_hashed.

Theorem C21_array_frame : forall H key s o k, k <> array_size_key H key -> (forall i, k <> array_elem_key H key i) ->
  kv_get (fst (array_step H key s o)) k = kv_get s k.
Proof. exact array_frame. Qed.
Print Assumptions C21_array_frame.

(* ---- DictDB (with GetDB chains and wrong arities) behaves like a map from key tuples ---- *)
Theorem C21_dict_is_map : forall H key depth,
  (forall t1 t2, length t1 = depth -> length t2 = depth -> dK H key t1 = dK H key t2 -> t1 = t2) ->
  forall s0 ops, (forall t, length t = depth -> kv_get s0 (dK H key t) = None) ->
  dict_run H {| d_key := key; d_depth := depth |} s0 ops = dmap_run depth (fun _ => None) ops.
Proof. exact dict_is_map. Qed.
Print Assumptions C21_dict_is_map.

Theorem C21_dict_keys_rlp : forall H acc t1 t2, dK H (BRlp acc) t1 = dK H (BRlp acc) t2 -> t1 = t2.
Proof. exact rlp_dict_keys_inj. Qed.
Print Assumptions C21_dict_keys_rlp.

Theorem C21_dict_keys_hashed : forall H acc t1 t2, dK H (BHash acc) t1 = dK H (BHash acc) t2 -> t1 = t2 \/ collision H.
Proof. exact hash_dict_keys_inj_or_collision. Qed.
Print Assumptions C21_dict_keys_hashed.

Theorem C21_dict_frame : forall H key depth s chain o k, (forall t, k <> dK H key t) ->
  kv_get (fst (dict_chain_step H {| d_key := key; d_depth := depth |} s chain o)) k = kv_get s k.
Proof. exact dict_step_frame. Qed.
Print Assumptions C21_dict_frame.

(* ---- the model's length-of-length is the function generated from common.go on this run ---- *)
Theorem C21_count_kernel_agrees : forall l : bytes, (lenN l <= max_int)%N ->
  rlpCountBytesForSize 8 (Z.of_N (lenN l)) = Some (Z.of_nat (rlp_count_bytes (length l) (lenN l))).
Proof. exact count_kernel_agrees. Qed.
Print Assumptions C21_count_kernel_agrees.
