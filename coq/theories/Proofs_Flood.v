(* Proofs_Flood.v — lemmas about Model_Flood: the ring-buffer invariant of PacketPool,
   Put/Contains never index out of range, the retention window of the pool, and the
   acceptance rules of onPacket.  Style: stdlib, lia. *)
From Goloop Require Import Model_Flood.
From Coq Require Import List ZArith Bool Lia.
Import ListNotations.

(* ---------- small list facts ---------- *)

Lemma set_nth_length {A} i (x : A) l : length (set_nth i x l) = length l.
Proof. revert i; induction l as [|y l IH]; intros [|i]; cbn; auto. Qed.

Lemma nth_error_set_nth_eq {A} i (x : A) l : (i < length l)%nat -> nth_error (set_nth i x l) i = Some x.
Proof. revert i; induction l as [|y l IH]; intros [|i] H; cbn in *; try lia; auto. apply IH. lia. Qed.

Lemma nth_error_set_nth_neq {A} i j (x : A) l : i <> j -> nth_error (set_nth i x l) j = nth_error l j.
Proof.
  revert i j; induction l as [|y l IH]; intros [|i] [|j] H; cbn; auto; try congruence.
Qed.

Lemma nth_error_repeat {A} (x : A) n i : (i < n)%nat -> nth_error (repeat x n) i = Some x.
Proof. revert i; induction n as [|n IH]; intros [|i] H; cbn; try lia; auto. apply IH. lia. Qed.

Lemma nth_error_in_range {A} (l : list A) i : (i < length l)%nat -> exists x, nth_error l i = Some x.
Proof. intro H. destruct (nth_error l i) eqn:E; eauto. apply nth_error_None in E. lia. Qed.

Lemma memZ_In h m : memZ h m = true <-> In h m.
Proof.
  unfold memZ. rewrite existsb_exists. split.
  - intros [x [Hin E]]. apply Z.eqb_eq in E. now subst.
  - intro Hin. exists h. split; auto. apply Z.eqb_refl.
Qed.

Fixpoint count_true (l : list bool) : nat :=
  match l with [] => O | b :: r => (if b then 1 else 0) + count_true r end.

Section PoolProofs.
  Variable NB : nat.
  Variable LB : Z.
  Hypothesis NB_pos : (1 <= NB)%nat.

  Notation contains := (contains NB).
  Notation put := (put NB LB).
  Notation puts := (puts NB LB).
  Notation prev_idx := (prev_idx NB).
  Notation next_idx := (next_idx NB).

  (* how many buckets back from cur (on the ring) bucket b lies *)
  Definition dist (cur b : nat) : nat := if Nat.leb b cur then (cur - b)%nat else (cur + NB - b)%nat.

  Ltac dist_tac :=
    unfold dist, Model_Flood.prev_idx, Model_Flood.next_idx in *;
    repeat match goal with
           | |- context[Nat.leb ?a ?b] => destruct (Nat.leb_spec a b)
           | |- context[Nat.ltb ?a ?b] => destruct (Nat.ltb_spec a b)
           | H : context[Nat.leb ?a ?b] |- _ => destruct (Nat.leb_spec a b)
           | H : context[Nat.ltb ?a ?b] |- _ => destruct (Nat.ltb_spec a b)
           end; try lia.

  Lemma dist_lt cur b : (cur < NB)%nat -> (b < NB)%nat -> (dist cur b < NB)%nat.
  Proof. intros. dist_tac. Qed.

  Lemma dist_inj cur b c : (cur < NB)%nat -> (b < NB)%nat -> (c < NB)%nat -> dist cur b = dist cur c -> b = c.
  Proof. intros. dist_tac. Qed.

  Lemma dist_self cur : dist cur cur = O.
  Proof. dist_tac. Qed.

  Lemma dist_prev cur c : (cur < NB)%nat -> (c < NB)%nat -> (dist cur c + 1 < NB)%nat ->
    dist cur (prev_idx c) = (dist cur c + 1)%nat /\ (prev_idx c < NB)%nat.
  Proof. intros. split; dist_tac. Qed.

  Lemma next_lt cur : (cur < NB)%nat -> (next_idx cur < NB)%nat.
  Proof. intros. dist_tac. Qed.

  Lemma dist_next_self cur : (cur < NB)%nat -> dist cur (next_idx cur) = (NB - 1)%nat.
  Proof. intros. dist_tac. Qed.

  Lemma dist_next cur b : (cur < NB)%nat -> (b < NB)%nat -> b <> next_idx cur ->
    dist (next_idx cur) b = (dist cur b + 1)%nat.
  Proof. intros. dist_tac. Qed.

  (* ---------- the invariant ---------- *)

  Definition live (p : pool) (b : nat) : Prop := exists m, nth_error (pl_buckets p) b = Some (Some m).

  Record Inv (p : pool) : Prop := {
    inv_lb : length (pl_buckets p) = NB;
    inv_ll : length (pl_len p) = NB;
    inv_cur : (pl_cur p < NB)%nat;
    (* the allocated buckets are the k most recent ones *)
    inv_k : exists k, (1 <= k <= NB)%nat /\
            forall b, (b < NB)%nat -> ((dist (pl_cur p) b < k)%nat <-> live p b)
  }.

  (* h is in some bucket *)
  Definition holds (p : pool) (h : Z) : Prop :=
    exists b m, (b < NB)%nat /\ nth_error (pl_buckets p) b = Some (Some m) /\ In h m.

  Lemma new_pool_inv : Inv (new_pool NB).
  Proof.
    constructor; cbn.
    - rewrite repeat_length. lia.
    - apply repeat_length.
    - lia.
    - exists 1%nat. split; [lia|]. intros b Hb. unfold live. cbn. split.
      + intro H. assert (b = O) by dist_tac. subst. cbn. eauto.
      + intros [m E]. destruct b as [|b]; [dist_tac|]. cbn in E.
        rewrite nth_error_repeat in E by lia. discriminate.
  Qed.

  Lemma contains_loop_spec p h : Inv p ->
    forall i c, (c < NB)%nat -> (dist (pl_cur p) c + i = NB)%nat ->
    exists r, contains_loop NB i c (pl_buckets p) h = Some r /\
      (r = true <-> exists b m, (b < NB)%nat /\ (dist (pl_cur p) c <= dist (pl_cur p) b)%nat /\
                      nth_error (pl_buckets p) b = Some (Some m) /\ In h m).
  Proof.
    intros [Hlb Hll Hcur [k [Hk Hlive]]].
    induction i as [|i IH]; intros c Hc Hd.
    - pose proof (dist_lt (pl_cur p) c Hcur Hc). lia.
    - cbn [contains_loop].
      destruct (nth_error_in_range (pl_buckets p) c ltac:(lia)) as [x Ex]. rewrite Ex.
      destruct x as [m|].
      + destruct (memZ h m) eqn:Em.
        * exists true. split; [reflexivity|]. split; [|reflexivity]. intros _.
          exists c, m. repeat split; auto. now apply memZ_In.
        * assert (Hnotin : ~ In h m) by (rewrite <- memZ_In; congruence).
          destruct i as [|i'].
          { exists false. split; [reflexivity|]. split; [discriminate|].
            intros [b [m' [Hb [Hge [Eb Hin]]]]]. exfalso.
            pose proof (dist_lt (pl_cur p) b Hcur Hb).
            assert (b = c) by (apply (dist_inj (pl_cur p)); auto; lia). subst b.
            rewrite Ex in Eb. inversion Eb; subst. contradiction. }
          destruct (dist_prev (pl_cur p) c Hcur Hc ltac:(lia)) as [Hdp Hpl].
          destruct (IH (prev_idx c) Hpl ltac:(lia)) as [r [Er Hr]].
          exists r. split; [exact Er|]. rewrite Hr. split.
          { intros [b [m' [Hb [Hge [Eb Hin]]]]]. exists b, m'. repeat split; auto. lia. }
          { intros [b [m' [Hb [Hge [Eb Hin]]]]]. exists b, m'. repeat split; auto.
            destruct (Nat.eq_dec (dist (pl_cur p) b) (dist (pl_cur p) c)) as [E|E]; [|lia].
            apply dist_inj in E; auto. subst b. rewrite Ex in Eb. inversion Eb; subst. contradiction. }
      + exists false. split; [reflexivity|]. split; [discriminate|].
        intros [b [m' [Hb [Hge [Eb Hin]]]]]. exfalso.
        assert (Lb : live p b) by (exists m'; exact Eb).
        apply Hlive in Lb; auto.
        assert (Lc : ~ live p c) by (intros [m Em]; rewrite Ex in Em; discriminate).
        apply Lc, Hlive; auto. lia.
  Qed.

  Lemma contains_spec p h : Inv p ->
    exists r, contains p h = Some r /\ (r = true <-> holds p h).
  Proof.
    intro I. pose proof (inv_cur p I) as Hcur.
    destruct (contains_loop_spec p h I NB (pl_cur p) Hcur ltac:(rewrite dist_self; lia)) as [r [Er Hr]].
    exists r. split; [exact Er|]. rewrite Hr, dist_self. unfold holds. split.
    - intros [b [m [Hb [_ [Eb Hin]]]]]. eauto.
    - intros [b [m [Hb [Eb Hin]]]]. exists b, m. repeat split; auto. lia.
  Qed.

  (* ---------- Put ---------- *)

  Definition LBp : Z := Z.max LB 1.

  (* h is in the pool and stays there for at least c more successful Puts *)
  Definition tracked (p : pool) (h : Z) (c : Z) : Prop :=
    Inv p /\
    ((c <= 0)%Z \/
     exists b m l, (b < NB)%nat /\ nth_error (pl_buckets p) b = Some (Some m) /\ In h m /\
                   nth_error (pl_len p) (pl_cur p) = Some l /\
                   (c <= Z.of_nat (NB - 1 - dist (pl_cur p) b) * LBp + Z.max 1 (LB - l))%Z).

  Lemma tracked_contains p h c : tracked p h c -> (1 <= c)%Z -> contains p h = Some true.
  Proof.
    intros [I [Hc|[b [m [l [Hb [Eb [Hin _]]]]]]]] H1; [lia|].
    destruct (contains_spec p h I) as [r [Er Hr]]. rewrite Er. f_equal. apply Hr.
    exists b, m. auto.
  Qed.

  Lemma tracked_weaken p h c c' : tracked p h c -> (c' <= c)%Z -> tracked p h c'.
  Proof.
    intros [I [Hc|[b [m [l [Hb [Eb [Hin [El Hle]]]]]]]]] H; split; auto; [left; lia|].
    right. exists b, m, l. repeat split; auto. lia.
  Qed.

  (* shape of a successful Put *)
  Lemma put_new_shape p h p' : Inv p -> put p h = Some (p', true) ->
    ~ holds p h /\
    exists m l, nth_error (pl_buckets p) (pl_cur p) = Some (Some m) /\
                nth_error (pl_len p) (pl_cur p) = Some l /\
      let bs1 := set_nth (pl_cur p) (Some (h :: m)) (pl_buckets p) in
      let ls1 := set_nth (pl_cur p) (l + 1)%Z (pl_len p) in
      if (LB <=? l + 1)%Z then
        p' = {| pl_buckets := set_nth (next_idx (pl_cur p)) (Some []) bs1;
                pl_len := set_nth (next_idx (pl_cur p)) 0%Z ls1; pl_cur := next_idx (pl_cur p) |}
      else p' = {| pl_buckets := bs1; pl_len := ls1; pl_cur := pl_cur p |}.
  Proof.
    intros I E. unfold Model_Flood.put in E.
    destruct (contains_spec p h I) as [r [Er Hr]]. rewrite Er in E.
    destruct r; [inversion E|].
    split; [intro Hh; apply Hr in Hh; discriminate|].
    destruct (nth_error (pl_buckets p) (pl_cur p)) as [[m|]|] eqn:Eb; try discriminate.
    destruct (nth_error (pl_len p) (pl_cur p)) as [l|] eqn:El; try discriminate.
    exists m, l. repeat split; auto. cbv zeta in *.
    destruct (LB <=? l + 1)%Z.
    - destruct (nth_error _ (next_idx (pl_cur p))); [|discriminate].
      destruct (nth_error (set_nth _ _ (pl_len p)) (next_idx (pl_cur p))); [|discriminate].
      now inversion E.
    - now inversion E.
  Qed.

  Lemma put_total p h : Inv p -> exists p' r, put p h = Some (p', r).
  Proof.
    intro I. pose proof I as [Hlb Hll Hcur [k [Hk Hlive]]]. unfold bucket in *.
    unfold Model_Flood.put.
    destruct (contains_spec p h I) as [r [Er _]]. rewrite Er.
    destruct r; [eauto|].
    assert (L : live p (pl_cur p)) by (apply Hlive; auto; rewrite dist_self; lia).
    destruct L as [m Em]. rewrite Em.
    destruct (nth_error_in_range (pl_len p) (pl_cur p) ltac:(lia)) as [l El]. rewrite El.
    cbv zeta. destruct (LB <=? l + 1)%Z; [|eauto].
    pose proof (next_lt (pl_cur p) Hcur).
    assert (X1 : (next_idx (pl_cur p) < length (set_nth (pl_cur p) (Some (h :: m)) (pl_buckets p)))%nat)
      by (rewrite set_nth_length, Hlb; assumption).
    assert (X2 : (next_idx (pl_cur p) < length (set_nth (pl_cur p) (l + 1)%Z (pl_len p)))%nat)
      by (rewrite set_nth_length, Hll; assumption).
    destruct (nth_error_in_range _ _ X1) as [x ->].
    destruct (nth_error_in_range _ _ X2) as [y ->].
    eauto.
  Qed.

  Lemma put_old p h p' : put p h = Some (p', false) -> p' = p.
  Proof.
    unfold Model_Flood.put. destruct (contains p h) as [[|]|]; try discriminate.
    - now inversion 1.
    - destruct (nth_error (pl_buckets p) (pl_cur p)) as [[m|]|]; try discriminate.
      destruct (nth_error (pl_len p) (pl_cur p)) as [l|]; try discriminate.
      cbv zeta. destruct (LB <=? l + 1)%Z.
      + destruct (nth_error _ _); [|discriminate]. destruct (nth_error _ _); discriminate.
      + discriminate.
  Qed.

  (* liveness of buckets after writing a set into bucket i *)
  Lemma live_set_some (bs : list (option (list Z))) i (x : list Z) b :
    (i < length bs)%nat ->
    ((exists m, nth_error (set_nth i (Some x) bs) b = Some (Some m)) <->
     (b = i \/ exists m, nth_error bs b = Some (Some m))).
  Proof.
    intro Hi. destruct (Nat.eq_dec i b) as [->|N].
    - rewrite nth_error_set_nth_eq by assumption. split; eauto.
    - rewrite nth_error_set_nth_neq by assumption. split; [eauto|]. intros [E|E]; [congruence|exact E].
  Qed.

  Lemma put_inv p h p' r : Inv p -> put p h = Some (p', r) -> Inv p'.
  Proof.
    intros I E. destruct r; [|apply put_old in E; now subst].
    destruct (put_new_shape p h p' I E) as [_ [m [l [Eb [El Hp']]]]].
    pose proof I as [Hlb Hll Hcur [k [Hk Hlive]]]. cbv zeta in Hp'. unfold bucket in *.
    destruct (LB <=? l + 1)%Z; subst p'.
    - pose proof (next_lt (pl_cur p) Hcur) as Hn.
      constructor; cbn [pl_buckets pl_len pl_cur].
      + now rewrite !set_nth_length.
      + now rewrite !set_nth_length.
      + exact Hn.
      + exists (Nat.min (k + 1) NB). split; [lia|]. intros b Hb. unfold live. cbn [pl_buckets pl_cur].
        rewrite live_set_some by (rewrite set_nth_length; lia).
        rewrite live_set_some by lia.
        destruct (Nat.eq_dec b (next_idx (pl_cur p))) as [->|Nb].
        * rewrite dist_self. split; [auto|lia].
        * rewrite dist_next by auto. specialize (Hlive b Hb). unfold live in Hlive.
          pose proof (dist_next_self (pl_cur p) Hcur).
          pose proof (dist_lt (pl_cur p) b Hcur Hb).
          assert (dist (pl_cur p) b <> (NB - 1)%nat).
          { intro Q. apply Nb. apply (dist_inj (pl_cur p)); auto. lia. }
          split.
          { intro Hd. right. destruct (Nat.eq_dec b (pl_cur p)) as [->|]; [left; reflexivity|].
            right. apply Hlive. lia. }
          { intros [F|[->|L]]; [contradiction|rewrite dist_self; lia|]. apply Hlive in L. lia. }
    - constructor; cbn [pl_buckets pl_len pl_cur].
      + now rewrite set_nth_length.
      + now rewrite set_nth_length.
      + exact Hcur.
      + exists k. split; [lia|]. intros b Hb. unfold live. cbn [pl_buckets pl_cur].
        rewrite live_set_some by lia. specialize (Hlive b Hb). unfold live in Hlive. rewrite Hlive. split; [auto|].
        intros [->|L]; [|exact L]. eauto.
  Qed.

  Lemma LBp_ge : (LB <= LBp)%Z /\ (1 <= LBp)%Z.
  Proof. unfold LBp. lia. Qed.

  (* a packet just put is retained for the next (NB-1)*LBp successful Puts *)
  Lemma tracked_put_new p h p' : Inv p -> put p h = Some (p', true) ->
    tracked p' h (Z.of_nat (NB - 1) * LBp).
  Proof.
    intros I E. split; [eapply put_inv; eauto|].
    destruct (put_new_shape p h p' I E) as [_ [m [l [Eb [El Hp']]]]].
    pose proof I as [Hlb Hll Hcur _]. pose proof LBp_ge as [G1 G2]. cbv zeta in Hp'. unfold bucket in *.
    destruct (Nat.eq_dec NB 1) as [N1|N1]; [left; rewrite N1; cbn; lia|].
    right.
    destruct (LB <=? l + 1)%Z eqn:Erot; subst p'; cbn [pl_buckets pl_len pl_cur].
    - pose proof (next_lt (pl_cur p) Hcur) as Hn.
      assert (Hne : next_idx (pl_cur p) <> pl_cur p) by dist_tac.
      exists (pl_cur p), (h :: m), 0%Z. repeat split.
      + exact Hcur.
      + rewrite nth_error_set_nth_neq by assumption. apply nth_error_set_nth_eq. lia.
      + now left.
      + apply nth_error_set_nth_eq. rewrite set_nth_length. lia.
      + rewrite dist_next by auto. rewrite dist_self.
        replace (Z.of_nat (NB - 1)) with (Z.of_nat (NB - 1 - (0 + 1)) + 1)%Z by lia.
        replace (Z.max 1 (LB - 0)) with LBp by (unfold LBp; lia). rewrite Z.mul_add_distr_r. lia.
    - exists (pl_cur p), (h :: m), (l + 1)%Z. repeat split.
      + exact Hcur.
      + apply nth_error_set_nth_eq. lia.
      + now left.
      + apply nth_error_set_nth_eq. lia.
      + rewrite dist_self. replace (NB - 1 - 0)%nat with (NB - 1)%nat by lia. lia.
  Qed.

  (* every successful Put of another hash uses up one unit, an unsuccessful one none *)
  Lemma tracked_put p h c g p' r : tracked p h c -> put p g = Some (p', r) ->
    tracked p' h (if r then c - 1 else c)%Z.
  Proof.
    intros T E. destruct r; [|apply put_old in E; now subst].
    destruct T as [I T]. split; [eapply put_inv; eauto|].
    destruct T as [Hc|[b [mb [lc [Hb [Eb [Hin [Elc Hle]]]]]]]]; [left; lia|].
    destruct (put_new_shape p g p' I E) as [_ [m [l [Ecur [El Hp']]]]].
    rewrite Elc in El. inversion El; subst lc. clear El.
    pose proof I as [Hlb Hll Hcur _]. pose proof LBp_ge as [G1 G2]. cbv zeta in Hp'. unfold bucket in *.
    destruct (Z.leb_spec LB (l + 1)) as [Hrot|Hrot]; subst p'; cbn [pl_buckets pl_len pl_cur].
    - (* rotation *)
      pose proof (next_lt (pl_cur p) Hcur) as Hn.
      destruct (Nat.eq_dec b (next_idx (pl_cur p))) as [Eq|Nb].
      + left. subst b. rewrite dist_next_self in Hle by assumption.
        replace (NB - 1 - (NB - 1))%nat with O in Hle by lia. lia.
      + right.
        assert (Hd : (dist (pl_cur p) b + 1 < NB)%nat).
        { pose proof (dist_lt (pl_cur p) b Hcur Hb). pose proof (dist_next_self (pl_cur p) Hcur).
          destruct (Nat.eq_dec (dist (pl_cur p) b) (NB - 1)) as [Q|Q]; [|lia].
          exfalso. apply Nb. apply (dist_inj (pl_cur p)); auto. lia. }
        exists b, (if Nat.eq_dec b (pl_cur p) then g :: m else mb), 0%Z. repeat split.
        * exact Hb.
        * rewrite nth_error_set_nth_neq by auto.
          destruct (Nat.eq_dec b (pl_cur p)) as [->|Nc].
          { apply nth_error_set_nth_eq. lia. }
          { rewrite nth_error_set_nth_neq by auto. exact Eb. }
        * destruct (Nat.eq_dec b (pl_cur p)) as [->|Nc]; [|exact Hin].
          rewrite Ecur in Eb. inversion Eb; subst. now right.
        * apply nth_error_set_nth_eq. rewrite set_nth_length. lia.
        * rewrite dist_next by auto.
          replace (Z.of_nat (NB - 1 - (dist (pl_cur p) b + 1))) with (Z.of_nat (NB - 1 - dist (pl_cur p) b) - 1)%Z by lia.
          replace (Z.max 1 (LB - 0)) with LBp by (unfold LBp; lia).
          replace (Z.max 1 (LB - l)) with 1%Z in Hle by lia.
          lia.
    - (* same bucket *)
      right. exists b, (if Nat.eq_dec b (pl_cur p) then g :: m else mb), (l + 1)%Z. repeat split.
      + exact Hb.
      + destruct (Nat.eq_dec b (pl_cur p)) as [->|Nc].
        { apply nth_error_set_nth_eq. lia. }
        { rewrite nth_error_set_nth_neq by auto. exact Eb. }
      + destruct (Nat.eq_dec b (pl_cur p)) as [->|Nc]; [|exact Hin].
        rewrite Ecur in Eb. inversion Eb; subst. now right.
      + apply nth_error_set_nth_eq. lia.
      + lia.
  Qed.

  Lemma tracked_puts gs : forall p h c p' rs, tracked p h c -> puts p gs = Some (p', rs) ->
    tracked p' h (c - Z.of_nat (count_true rs))%Z.
  Proof.
    induction gs as [|g gs IH]; intros p h c p' rs T E; cbn [Model_Flood.puts] in E.
    - inversion E; subst. cbn. now rewrite Z.sub_0_r.
    - destruct (put p g) as [[p1 r]|] eqn:E1; [|discriminate].
      destruct (puts p1 gs) as [[p2 rs']|] eqn:E2; [|discriminate].
      inversion E; subst. pose proof (tracked_put _ _ _ _ _ _ T E1) as T1.
      specialize (IH _ _ _ _ _ T1 E2). eapply tracked_weaken; [exact IH|].
      cbn [count_true]. destruct r; lia.
  Qed.

  Lemma puts_total gs : forall p, Inv p -> exists p' rs, puts p gs = Some (p', rs) /\ Inv p'.
  Proof.
    induction gs as [|g gs IH]; intros p I; cbn [Model_Flood.puts]; [eauto|].
    destruct (put_total p g I) as [p1 [r E1]]. rewrite E1.
    destruct (IH p1 (put_inv _ _ _ _ I E1)) as [p2 [rs [E2 I2]]]. rewrite E2. eauto.
  Qed.

  (* the retention window of the pool *)
  Lemma pool_window p h p1 mid p2 rs : Inv p ->
    put p h = Some (p1, true) -> puts p1 mid = Some (p2, rs) ->
    (Z.of_nat (count_true rs) < Z.of_nat (NB - 1) * LB)%Z ->
    put p2 h = Some (p2, false).
  Proof.
    intros I E1 E2 Hlt. pose proof (tracked_put_new _ _ _ I E1) as T.
    pose proof (tracked_puts _ _ _ _ _ _ T E2) as T2. pose proof LBp_ge as [G1 G2].
    assert (C : contains p2 h = Some true).
    { eapply tracked_contains; [exact T2|]. nia. }
    unfold Model_Flood.put. now rewrite C.
  Qed.
End PoolProofs.

(* ------------------------------------------------------------------ *)
(* onPacket                                                            *)
(* ------------------------------------------------------------------ *)

Fixpoint count_flood (os : list outcome) : nat :=
  match os with [] => O | o :: r => (if is_flood o then 1 else 0) + count_flood r end.

Section NodeProofs.
  Variable NB : nat.
  Variable LB : Z.
  Hypothesis NB_pos : (1 <= NB)%nat.

  Notation on_packet := (on_packet NB LB).
  Notation run := (run NB LB).
  Notation put := (put NB LB).
  Notation puts := (puts NB LB).

  Definition node_inv (n : node) : Prop := Inv NB (nd_pool n).

  (* the packet passes the checks that do not depend on ttl/dest/src/role:
     protocol known to the peer, a data protocol, connection type decided,
     not our own id as source, a callback is registered *)
  Record eligible (n : node) (p : peer) (k : pkt) : Prop := {
    el_proto : memZ (k_proto k) (pr_protos p) = true;
    el_data : Z.shiftr (k_proto k) 8 <> 0%Z;
    el_conn : pr_conn p <> 0%Z;
    el_notself : nd_self n <> k_src k;
    el_cb : memZ (k_proto k) (nd_cbs n) = true
  }.

  Ltac op_cases E :=
    unfold Model_Flood.on_packet in E;
    repeat match type of E with
           | (if ?c then _ else _) = _ => let Q := fresh "Q" in destruct c eqn:Q
           | (let _ := _ in _) = _ => cbv zeta in E
           | match ?c with _ => _ end = _ => let Q := fresh "Q" in destruct c eqn:Q
           end.

  (* how onPacket uses the pool *)
  Lemma on_packet_pool n p k n' o : on_packet n p k = Some (n', o) ->
    (o = ODeliverFlood /\ put (nd_pool n) (k_hash k) = Some (nd_pool n', true)) \/
    (o = ODropDup /\ put (nd_pool n) (k_hash k) = Some (nd_pool n', false)) \/
    (is_flood o = false /\ o <> ODropDup /\ n' = n).
  Proof.
    intro E. op_cases E; inversion E; subst; cbn; auto.
    all: try (right; right; repeat split; auto; discriminate).
  Qed.

  Lemma on_packet_total n p k : node_inv n -> exists n' o, on_packet n p k = Some (n', o) /\ node_inv n'.
  Proof.
    intro I. unfold Model_Flood.on_packet. cbv zeta.
    repeat match goal with |- context[if ?c then _ else _] => destruct c; eauto end.
    destruct (put_total NB LB NB_pos _ (k_hash k) I) as [pl [r E]]. rewrite E.
    pose proof (put_inv NB LB NB_pos _ _ _ _ I E).
    destruct r; eauto.
  Qed.

  Lemma on_packet_inv n p k n' o : node_inv n -> on_packet n p k = Some (n', o) -> node_inv n'.
  Proof.
    intros I E. destruct (on_packet_total n p k I) as [n2 [o2 [E2 I2]]]. rewrite E in E2. now inversion E2; subst.
  Qed.

  Lemma run_total evs : forall n, node_inv n -> exists n' os, run n evs = Some (n', os) /\ node_inv n'.
  Proof.
    induction evs as [|[p k] evs IH]; intros n I; cbn [Model_Flood.run]; [eauto|].
    destruct (on_packet_total n p k I) as [n1 [o [E1 I1]]]. rewrite E1.
    destruct (IH n1 I1) as [n2 [os [E2 I2]]]. rewrite E2. eauto.
  Qed.

  Lemma run_app a : forall b n n' os, run n (a ++ b) = Some (n', os) ->
    exists n1 oa ob, run n a = Some (n1, oa) /\ run n1 b = Some (n', ob) /\ os = oa ++ ob /\ length oa = length a.
  Proof.
    induction a as [|[p k] a IH]; intros b n n' os E; cbn [app Model_Flood.run] in *.
    - exists n, [], os. auto.
    - destruct (on_packet n p k) as [[n1 o]|]; [|discriminate].
      destruct (run n1 (a ++ b)) as [[n2 os2]|] eqn:E2; [|discriminate].
      inversion E; subst. destruct (IH _ _ _ _ E2) as [m [oa [ob [Ea [Eb [Eo El]]]]]].
      rewrite Ea. exists m, (o :: oa), ob. subst. cbn. auto.
  Qed.

  Lemma run_length evs : forall n n' os, run n evs = Some (n', os) -> length os = length evs.
  Proof.
    induction evs as [|[p k] evs IH]; intros n n' os E; cbn [Model_Flood.run] in E.
    - now inversion E.
    - destruct (on_packet n p k) as [[n1 o]|]; [|discriminate].
      destruct (run n1 evs) as [[n2 os2]|] eqn:E2; [|discriminate].
      inversion E; subst. cbn. f_equal. eauto.
  Qed.

  (* a run acts on the pool as a sequence of Puts; the successful ones are the flood deliveries *)
  Lemma run_puts evs : forall n n' os, run n evs = Some (n', os) ->
    exists hs rs, puts (nd_pool n) hs = Some (nd_pool n', rs) /\ count_true rs = count_flood os.
  Proof.
    induction evs as [|[p k] evs IH]; intros n n' os E; cbn [Model_Flood.run] in E.
    - inversion E; subst. exists [], []. auto.
    - destruct (on_packet n p k) as [[n1 o]|] eqn:E1; [|discriminate].
      destruct (run n1 evs) as [[n2 os2]|] eqn:E2; [|discriminate].
      inversion E; subst. destruct (IH _ _ _ E2) as [hs [rs [Ep Ec]]].
      destruct (on_packet_pool _ _ _ _ _ E1) as [[-> Eput]|[[-> Eput]|[Hf [_ ->]]]].
      + exists (k_hash k :: hs), (true :: rs). cbn [Model_Flood.puts]. rewrite Eput, Ep. cbn. auto.
      + exists (k_hash k :: hs), (false :: rs). cbn [Model_Flood.puts]. rewrite Eput, Ep. cbn. auto.
      + exists hs, rs. cbn [count_flood]. rewrite Hf. auto.
  Qed.

  (* ---------- C33 statements ---------- *)

  (* a one-hop packet is delivered iff its source is the sending peer *)
  Lemma one_hop_iff n p k n' o : eligible n p k ->
    is_one_hop (k_ttl k) (k_dest k) = true -> on_packet n p k = Some (n', o) ->
    (delivered o = true <-> pr_id p = k_src k).
  Proof.
    intros [A1 A2 A3 A4 A5] Hoh E. unfold Model_Flood.on_packet in E. cbv zeta in E.
    rewrite A1, A5, Hoh in E. cbn [negb] in E.
    destruct (Z.eqb_spec (Z.shiftr (k_proto k) 8) 0); [contradiction|].
    destruct (Z.eqb_spec (pr_conn p) 0); [contradiction|].
    destruct (Z.eqb_spec (nd_self n) (k_src k)); [contradiction|].
    destruct (Z.eqb_spec (pr_id p) (k_src k)) as [Es|Es]; cbn in E.
    - assert (B : is_broadcast (k_dest k) (k_ttl k) = false).
      { unfold is_one_hop, is_broadcast in *. destruct (k_ttl k =? 0)%Z, (k_dest k =? 0)%Z eqn:D; auto.
        apply Z.eqb_eq in D. rewrite D in Hoh. discriminate. }
      rewrite B in E. cbn in E. inversion E; subst. cbn. tauto.
    - inversion E; subst. cbn. split; [discriminate|contradiction].
  Qed.

  (* without any side condition: a delivered one-hop packet came from its source *)
  Lemma one_hop_only_from_source n p k n' o :
    on_packet n p k = Some (n', o) -> is_one_hop (k_ttl k) (k_dest k) = true ->
    delivered o = true -> pr_id p = k_src k.
  Proof.
    intros E Hoh D. unfold Model_Flood.on_packet in E. cbv zeta in E. rewrite Hoh in E.
    destruct (Z.eqb_spec (pr_id p) (k_src k)) as [Es|Es]; [exact Es|]. cbn [negb drop_one_hop andb] in E.
    repeat match type of E with
           | (if ?c then _ else _) = _ => destruct c
           end; inversion E; subst; discriminate.
  Qed.

  (* a delivered broadcast whose source is the sending peer came from a peer with the root role *)
  Lemma originator_needs_role n p k n' o :
    on_packet n p k = Some (n', o) -> is_broadcast (k_dest k) (k_ttl k) = true ->
    pr_id p = k_src k -> delivered o = true -> role_has (pr_role p) role_root = true.
  Proof.
    intros E Hb Es D. unfold Model_Flood.on_packet in E. cbv zeta in E. rewrite Hb in E.
    apply Z.eqb_eq in Es. rewrite Es in E.
    destruct (role_has (pr_role p) role_root); [reflexivity|]. cbn [drop_broadcast andb negb] in E.
    repeat match type of E with
           | (if ?c then _ else _) = _ => destruct c
           end; inversion E; subst; discriminate.
  Qed.

  (* conversely an originator broadcast of a root peer passes the checks: it is delivered
     unless it is a duplicate *)
  Lemma originator_with_role_accepted n p k : node_inv n -> eligible n p k ->
    is_broadcast (k_dest k) (k_ttl k) = true -> pr_id p = k_src k ->
    role_has (pr_role p) role_root = true ->
    exists n' o, on_packet n p k = Some (n', o) /\ (o = ODeliverFlood \/ o = ODropDup).
  Proof.
    intros I [A1 A2 A3 A4 A5] Hb Es Hr. unfold Model_Flood.on_packet. cbv zeta.
    rewrite A1, A5, Hb, Hr. cbn [negb].
    destruct (Z.eqb_spec (Z.shiftr (k_proto k) 8) 0); [contradiction|].
    destruct (Z.eqb_spec (pr_conn p) 0); [contradiction|].
    destruct (Z.eqb_spec (nd_self n) (k_src k)); [contradiction|].
    assert (O : is_one_hop (k_ttl k) (k_dest k) = false).
    { unfold is_one_hop, is_broadcast in *. apply andb_true_iff in Hb as [D T].
      rewrite T. apply Z.eqb_eq in D. rewrite D. reflexivity. }
    rewrite O. cbn.
    destruct (put_total NB LB NB_pos _ (k_hash k) I) as [pl [r E]]. rewrite E.
    unfold drop_broadcast. rewrite andb_false_r. destruct r; eauto.
  Qed.

  (* the pool window, at the level of onPacket *)
  Lemma at_most_once_step n p1 k1 n1 mid n2 os p2 k2 n3 o :
    node_inv n ->
    on_packet n p1 k1 = Some (n1, ODeliverFlood) ->
    run n1 mid = Some (n2, os) ->
    (Z.of_nat (count_flood os) < Z.of_nat (NB - 1) * LB)%Z ->
    k_hash k2 = k_hash k1 ->
    on_packet n2 p2 k2 = Some (n3, o) -> o <> ODeliverFlood.
  Proof.
    intros I E1 Er Hlt Hh E2 ->.
    destruct (on_packet_pool _ _ _ _ _ E1) as [[_ P1]|[[Q _]|[Q _]]]; try discriminate.
    destruct (run_puts _ _ _ _ Er) as [hs [rs [Ep Ec]]].
    destruct (on_packet_pool _ _ _ _ _ E2) as [[_ P2]|[[Q _]|[Q _]]]; try discriminate.
    rewrite <- Ec in Hlt. rewrite Hh in P2.
    pose proof (pool_window NB LB NB_pos _ _ _ _ _ _ I P1 Ep Hlt) as W.
    rewrite W in P2. discriminate.
  Qed.

  Lemma new_node_inv self cbs : node_inv (new_node NB self cbs).
  Proof. apply new_pool_inv. exact NB_pos. Qed.

  (* for any stream received by a fresh node: two flood deliveries of packets with the same hash
     are separated by at least (NB-1)*LB flood deliveries *)
  Lemma at_most_once self cbs pre p1 k1 mid p2 k2 post n os :
    run (new_node NB self cbs) (pre ++ (p1, k1) :: mid ++ (p2, k2) :: post) = Some (n, os) ->
    k_hash k2 = k_hash k1 ->
    nth_error os (length pre) = Some ODeliverFlood ->
    (Z.of_nat (count_flood (firstn (length mid) (skipn (S (length pre)) os))) < Z.of_nat (NB - 1) * LB)%Z ->
    nth_error os (length pre + 1 + length mid) <> Some ODeliverFlood.
  Proof.
    intros E Hh H1 Hlt.
    apply run_app in E as [na [oa [ob [Ea [Eb [-> La]]]]]].
    destruct (run_total pre _ (new_node_inv self cbs)) as [na' [oa' [Ea' Ia]]].
    rewrite Ea in Ea'. inversion Ea'; subst na' oa'. clear Ea'.
    cbn [Model_Flood.run] in Eb.
    destruct (on_packet na p1 k1) as [[n1 o1]|] eqn:E1; [|discriminate].
    destruct (run n1 (mid ++ (p2, k2) :: post)) as [[n9 orest]|] eqn:Er; [|discriminate].
    inversion Eb; subst n9 ob. clear Eb.
    rewrite nth_error_app2 in H1 by lia. replace (length pre - length oa)%nat with O in H1 by lia.
    cbn in H1. inversion H1; subst o1.
    apply run_app in Er as [nb [om [oc [Em [Ec [-> Lm]]]]]].
    cbn [Model_Flood.run] in Ec.
    destruct (on_packet nb p2 k2) as [[n3 o2]|] eqn:E2; [|discriminate].
    destruct (run n3 post) as [[n4 op]|]; [|discriminate]. inversion Ec; subst. clear Ec.
    replace (skipn (S (length pre)) (oa ++ ODeliverFlood :: om ++ o2 :: op)) with (om ++ o2 :: op) in Hlt.
    2:{ rewrite skipn_app. rewrite skipn_all2 by lia. cbn [app].
        replace (S (length pre) - length oa)%nat with 1%nat by lia. reflexivity. }
    rewrite firstn_app, <- Lm, Nat.sub_diag, firstn_all in Hlt. cbn [firstn] in Hlt. rewrite app_nil_r in Hlt.
    rewrite nth_error_app2 by lia.
    replace (length pre + 1 + length mid - length oa)%nat with (S (length om)) by lia.
    cbn [nth_error]. rewrite nth_error_app2 by lia. rewrite Nat.sub_diag. cbn [nth_error].
    intro Q. inversion Q; subst o2.
    eapply (at_most_once_step na p1 k1 n1 mid nb om p2 k2 n3 ODeliverFlood); eauto.
  Qed.
End NodeProofs.

(* ------------------------------------------------------------------ *)
(* the window counted in DISTINCT packets                              *)
(* ------------------------------------------------------------------ *)

(* hashes of the packets that were flood-delivered in a run *)
Fixpoint flood_hashes (evs : list (peer * pkt)) (os : list outcome) : list Z :=
  match evs, os with
  | (p, k) :: evs', o :: os' => (if is_flood o then [k_hash k] else []) ++ flood_hashes evs' os'
  | _, _ => []
  end.

(* D has fewer than W distinct elements *)
Definition fewer_distinct (D : list Z) (W : Z) : Prop :=
  forall l, NoDup l -> incl l D -> (Z.of_nat (length l) < W)%Z.

Lemma flood_hashes_length evs : forall os, length os = length evs ->
  length (flood_hashes evs os) = count_flood os.
Proof.
  induction evs as [|[p k] evs IH]; intros [|o os] L; cbn in *; try discriminate; auto.
  rewrite app_length, IH by lia. destruct (is_flood o); reflexivity.
Qed.

Lemma flood_hashes_app a : forall oa b ob, length oa = length a ->
  flood_hashes (a ++ b) (oa ++ ob) = flood_hashes a oa ++ flood_hashes b ob.
Proof.
  induction a as [|[p k] a IH]; intros [|o oa] b ob L; cbn in *; try discriminate; auto.
  rewrite IH by lia. now rewrite app_assoc.
Qed.

Lemma flood_hashes_in h evs : forall os, length os = length evs -> In h (flood_hashes evs os) ->
  exists a p0 k0 b oa ob, evs = a ++ (p0, k0) :: b /\ os = oa ++ ODeliverFlood :: ob /\
                          length oa = length a /\ k_hash k0 = h.
Proof.
  induction evs as [|[p k] evs IH]; intros [|o os] L Hin; cbn in *; try contradiction; try discriminate.
  apply in_app_or in Hin as [Hin|Hin].
  - destruct o; cbn in Hin; try contradiction. destruct Hin as [<-|[]].
    exists [], p, k, evs, [], os. auto.
  - destruct (IH os ltac:(lia) Hin) as [a [p0 [k0 [b [oa [ob [-> [-> [La Hk]]]]]]]]].
    exists ((p, k) :: a), p0, k0, b, (o :: oa), ob. cbn. repeat split; auto.
Qed.

Lemma app_inj_length {A} (a b c d : list A) : length a = length c -> a ++ b = c ++ d -> a = c /\ b = d.
Proof.
  revert c; induction a as [|x a IH]; intros [|y c] L E; cbn in *; try discriminate; auto.
  inversion E; subst. destruct (IH c ltac:(lia) H1); subst; auto.
Qed.

Lemma NoDup_snoc {A} (l : list A) x : NoDup l -> ~ In x l -> NoDup (l ++ [x]).
Proof.
  induction l as [|y l IH]; intros N Hn; cbn.
  - constructor; [intros []|constructor].
  - inversion N; subst. constructor.
    + intro Hi. apply in_app_or in Hi as [Hi|[->|[]]]; [contradiction|]. apply Hn. now left.
    + apply IH; auto. intro Hi. apply Hn. now right.
Qed.

Lemma NoDup_app_r {A} (l r : list A) : NoDup (l ++ r) -> NoDup r.
Proof. induction l as [|y l IH]; cbn; auto. intro N. inversion N; auto. Qed.

Section DistinctWindow.
  Variable NB : nat.
  Variable LB : Z.
  Hypothesis NB_pos : (1 <= NB)%nat.
  Notation on_packet := (on_packet NB LB).
  Notation run := (run NB LB).
  Let W : Z := (Z.of_nat (NB - 1) * LB)%Z.

  Lemma run_snoc mid p k n n' os : run n (mid ++ [(p, k)]) = Some (n', os) ->
    exists n1 oa o, run n mid = Some (n1, oa) /\ on_packet n1 p k = Some (n', o) /\ os = oa ++ [o] /\ length oa = length mid.
  Proof.
    intro E. apply run_app in E as [n1 [oa [ob [Ea [Eb [-> La]]]]]].
    cbn [Model_Flood.run] in Eb. destruct (on_packet n1 p k) as [[n2 o]|] eqn:E2; [|discriminate].
    inversion Eb; subst. eauto 8.
  Qed.

  (* with fewer than W distinct flood-delivered hashes, no hash is flood-delivered twice *)
  Lemma flood_nodup mid : forall n n' os, node_inv NB n -> run n mid = Some (n', os) ->
    fewer_distinct (flood_hashes mid os) W -> NoDup (flood_hashes mid os).
  Proof.
    induction mid as [|[p k] mid IH] using rev_ind; intros n n' os I E F.
    - cbn. constructor.
    - apply run_snoc in E as [n1 [oa [o [Ea [Eo [-> La]]]]]].
      rewrite flood_hashes_app in * by assumption. cbn [flood_hashes] in *. rewrite app_nil_r in *.
      assert (F' : fewer_distinct (flood_hashes mid oa) W).
      { intros l Nl Il. apply F; auto. intros x Hx. apply in_or_app. left. now apply Il. }
      specialize (IH n n1 oa I Ea F').
      destruct (is_flood o) eqn:Fo; [|now rewrite app_nil_r].
      destruct o; try discriminate. clear Fo.
      apply NoDup_snoc; [exact IH|]. intro Hin.
      destruct (flood_hashes_in _ _ _ La Hin) as [a [p0 [k0 [b [xa [xb [-> [-> [Lx Hk]]]]]]]]].
      apply run_app in Ea as [na [ya [yb [Eya [Eyb [Eapp Lya]]]]]].
      apply app_inj_length in Eapp as [Exa Exb]; [|lia]. subst xa yb.
      cbn [Model_Flood.run] in Eyb.
      destruct (on_packet na p0 k0) as [[nb o0]|] eqn:E0; [|discriminate].
      destruct (run nb b) as [[nc ob]|] eqn:Eb; [|discriminate].
      inversion Eyb; subst o0 xb nc. clear Eyb.
      destruct (run_total NB LB NB_pos a _ I) as [na' [oa' [Ea' Ia]]]. rewrite Eya in Ea'. inversion Ea'; subst na' oa'.
      (* the deliveries between the two copies are distinct, hence fewer than W *)
      assert (Lb : length ob = length b) by (eapply run_length; eauto).
      rewrite flood_hashes_app in IH, F by assumption.
      cbn [flood_hashes is_flood] in IH, F.
      assert (Nb : NoDup (flood_hashes b ob)).
      { apply NoDup_app_r in IH. cbn [app] in IH. now inversion IH. }
      assert (Cb : (Z.of_nat (count_flood ob) < W)%Z).
      { rewrite <- (flood_hashes_length b) by assumption. apply F; auto.
        intros x Hx. apply in_or_app. left. apply in_or_app. right. right. exact Hx. }
      eapply (at_most_once_step NB LB NB_pos na p0 k0 nb b n1 ob p k n' ODeliverFlood); eauto.
  Qed.

  Lemma at_most_once_distinct_step n p1 k1 n1 mid n2 os p2 k2 n3 o :
    node_inv NB n ->
    on_packet n p1 k1 = Some (n1, ODeliverFlood) ->
    run n1 mid = Some (n2, os) ->
    fewer_distinct (flood_hashes mid os) W ->
    k_hash k2 = k_hash k1 ->
    on_packet n2 p2 k2 = Some (n3, o) -> o <> ODeliverFlood.
  Proof.
    intros I E1 Er F Hh E2.
    pose proof (on_packet_inv NB LB NB_pos _ _ _ _ _ I E1) as I1.
    pose proof (flood_nodup mid _ _ _ I1 Er F) as Nd.
    assert (C : (Z.of_nat (count_flood os) < W)%Z).
    { rewrite <- (flood_hashes_length mid) by (eapply run_length; eauto). apply F; auto. apply incl_refl. }
    exact (at_most_once_step NB LB NB_pos n p1 k1 n1 mid n2 os p2 k2 n3 o I E1 Er C Hh E2).
  Qed.
End DistinctWindow.

(* ------------------------------------------------------------------ *)
(* Clear keeps the invariant (so the window theorem also holds after it) *)
(* ------------------------------------------------------------------ *)

Lemma clear_inv NB : (1 <= NB)%nat -> forall p, Inv NB p -> Inv NB (clear p).
Proof.
  intros NB_pos p [Hlb Hll Hcur _]. unfold clear.
  destruct (pl_buckets p) as [|b0 r] eqn:Eb; [cbn in Hlb; lia|]. cbn [length] in Hlb.
  constructor; cbn [pl_buckets pl_len pl_cur].
  - cbn. rewrite map_length. exact Hlb.
  - exact Hll.
  - lia.
  - exists 1%nat. split; [lia|]. intros b Hb. unfold live. cbn [pl_buckets pl_cur]. split.
    + intro H. assert (b = O).
      { unfold dist in H. destruct (Nat.leb_spec b 0); lia. }
      subst. cbn. eauto.
    + intros [m E]. destruct b as [|b].
      * unfold dist. cbn. lia.
      * cbn in E. destruct (nth_error r b) eqn:Er.
        { erewrite map_nth_error in E by exact Er. discriminate. }
        { apply nth_error_None in Er. lia. }
Qed.

(* ------------------------------------------------------------------ *)
(* tightness and non-vacuity                                           *)
(* ------------------------------------------------------------------ *)

Fixpoint zseq (n : nat) (a : Z) : list Z :=
  match n with O => [] | S k => a :: zseq k (a + 1)%Z end.

(* fill the current bucket up to its last slot, put h (the bucket rotates), then W other
   distinct hashes, then h again *)
Definition window (NB : nat) (LB : Z) : Z := (Z.of_nat (NB - 1) * LB)%Z.
Definition tight_stream (NB : nat) (LB : Z) (between : Z) : list Z :=
  zseq (Z.to_nat (LB - 1)) 1000000 ++ [7%Z] ++ zseq (Z.to_nat between) 2000000 ++ [7%Z].

Definition last_result (NB : nat) (LB : Z) (hs : list Z) : option bool :=
  match puts NB LB (new_pool NB) hs with
  | Some (_, rs) => Some (last rs false)
  | None => None
  end.

(* with exactly (NB-1)*LB distinct packets in between the pool has forgotten h: the bound of
   the window theorem cannot be improved; with one fewer h is still known *)
Example tight_2_2 : last_result 2 2 (tight_stream 2 2 (window 2 2)) = Some true
                 /\ last_result 2 2 (tight_stream 2 2 (window 2 2 - 1)) = Some false.
Proof. split; vm_compute; reflexivity. Qed.

Example tight_3_4 : last_result 3 4 (tight_stream 3 4 (window 3 4)) = Some true
                 /\ last_result 3 4 (tight_stream 3 4 (window 3 4 - 1)) = Some false.
Proof. split; vm_compute; reflexivity. Qed.

Example tight_7_1 : last_result 7 1 (tight_stream 7 1 (window 7 1)) = Some true
                 /\ last_result 7 1 (tight_stream 7 1 (window 7 1 - 1)) = Some false.
Proof. split; vm_compute; reflexivity. Qed.

(* the production parameters DefaultPacketPoolNumBucket = 20, DefaultPacketPoolBucketLen = 500:
   9500 distinct packets in between make the pool forget (one evaluation, checked at Qed) *)
Example window_default : window 20 500 = 9500%Z.
Proof. reflexivity. Qed.

Example tight_default : last_result 20 500 (tight_stream 20 500 9500) = Some true.
Proof. vm_cast_no_check (eq_refl (Some true)). Qed.

(* a validator peer 11, a citizen peer 12, this node 1, data protocol 0x0300 *)
Definition ex_root : peer := {| pr_id := 11; pr_role := 2; pr_recv_role := 2; pr_conn := 5; pr_protos := [768%Z] |}.
Definition ex_citizen : peer := {| pr_id := 12; pr_role := 0; pr_recv_role := 3; pr_conn := 2; pr_protos := [768%Z] |}.
Definition ex_node : node := new_node 20 1 [768%Z].
Definition ex_bcast (src h : Z) : pkt := {| k_proto := 768; k_src := src; k_dest := 0; k_ttl := 0; k_hash := h |}.
Definition ex_onehop (src h : Z) : pkt := {| k_proto := 768; k_src := src; k_dest := 255; k_ttl := 1; k_hash := h |}.

Example ex_eligible : eligible ex_node ex_root (ex_bcast 11 5) /\ eligible ex_node ex_citizen (ex_onehop 11 6).
Proof. split; constructor; cbn; try reflexivity; discriminate. Qed.

(* the same broadcast relayed by three peers is delivered once; a citizen's own broadcast and a
   one-hop packet with a foreign source are dropped; a one-hop packet is delivered each time *)
Example ex_run :
  option_map snd (run 20 500 ex_node
    [(ex_root, ex_bcast 11 5); (ex_citizen, ex_bcast 11 5); (ex_root, ex_bcast 11 5);
     (ex_citizen, ex_bcast 12 8); (ex_citizen, ex_onehop 11 6);
     (ex_citizen, ex_onehop 12 9); (ex_citizen, ex_onehop 12 9)])
  = Some [ODeliverFlood; ODropDup; ODropDup; ODropNotAuth; ODropOneHopSrc; ODeliverDirect; ODeliverDirect].
Proof. vm_compute. reflexivity. Qed.

Example ex_fewer_distinct : fewer_distinct [5%Z; 5%Z; 8%Z] (window 20 500).
Proof.
  intros l N I. assert (length l <= 2)%nat; [|unfold window; cbn; lia].
  assert (incl l [5%Z; 8%Z]) by (intros x Hx; apply I in Hx; cbn in *; tauto).
  replace 2%nat with (length [5%Z; 8%Z]) by reflexivity. now apply NoDup_incl_length.
Qed.

(* ------------------------------------------------------------------ *)
(* atomicity of Put                                                    *)
(* ------------------------------------------------------------------ *)

Section Atomicity.
  Variable NB : nat.
  Variable LB : Z.
  Hypothesis NB_pos : (1 <= NB)%nat.
  Notation contains := (contains NB).
  Notation put := (put NB LB).
  Notation puts := (puts NB LB).
  Notation put_insert := (put_insert NB LB).
  Notation put_split := (put_split NB LB).

  (* Put = the test followed, in the same step, by the insertion *)
  Lemma put_check_then_insert p h :
    put p h = match contains p h with
              | None => None
              | Some true => Some (p, false)
              | Some false => match put_insert p h with Some q => Some (q, true) | None => None end
              end.
  Proof.
    unfold Model_Flood.put, Model_Flood.put_insert.
    destruct (contains p h) as [[|]|]; try reflexivity.
    destruct (nth_error (pl_buckets p) (pl_cur p)) as [[m|]|]; try reflexivity.
    destruct (nth_error (pl_len p) (pl_cur p)) as [l|]; try reflexivity.
    cbv zeta. destruct (LB <=? l + 1)%Z; [|reflexivity].
    destruct (nth_error _ _); [|reflexivity]. destruct (nth_error _ _); reflexivity.
  Qed.

  (* the insertion half alone neither fails nor breaks the ring invariant, whatever the hash *)
  Lemma put_insert_total p h : Inv NB p -> exists q, put_insert p h = Some q.
  Proof.
    intro I. pose proof I as [Hlb Hll Hcur [k [Hk Hlive]]]. unfold bucket in *.
    unfold Model_Flood.put_insert.
    assert (L : live p (pl_cur p)).
    { apply Hlive; auto. unfold dist. rewrite Nat.leb_refl. lia. }
    destruct L as [m Em]. rewrite Em.
    destruct (nth_error_in_range (pl_len p) (pl_cur p) ltac:(lia)) as [l El]. rewrite El.
    cbv zeta. destruct (LB <=? l + 1)%Z; [|eauto].
    assert (Hn : (next_idx NB (pl_cur p) < NB)%nat).
    { unfold next_idx. destruct (Nat.leb_spec NB (S (pl_cur p))); lia. }
    assert (X1 : (next_idx NB (pl_cur p) < length (set_nth (pl_cur p) (Some (h :: m)) (pl_buckets p)))%nat)
      by (rewrite set_nth_length, Hlb; assumption).
    assert (X2 : (next_idx NB (pl_cur p) < length (set_nth (pl_cur p) (l + 1)%Z (pl_len p)))%nat)
      by (rewrite set_nth_length, Hll; assumption).
    destruct (nth_error_in_range _ _ X1) as [x ->].
    destruct (nth_error_in_range _ _ X2) as [y ->]. eauto.
  Qed.

  (* REFUTED variant: if the test and the insertion of Put can be scheduled separately, two
     callers holding the same new hash are both told "new" — from every pool state in which
     the hash is not present (and the second insertion does not even fail) *)
  Lemma split_put_refuted p h : Inv NB p -> contains p h = Some false ->
    exists p1 p2, put_insert p h = Some p1 /\ put_insert p1 h = Some p2 /\
      put_split p h [] [SCheck 0; SCheck 1; SInsert 0; SInsert 1] = Some (p2, [0%nat; 1%nat]).
  Proof.
    intros I C.
    destruct (put_insert_total p h I) as [p1 E1].
    assert (I1 : Inv NB p1).
    { apply (put_inv NB LB NB_pos p h p1 true I). rewrite put_check_then_insert, C, E1. reflexivity. }
    destruct (put_insert_total p1 h I1) as [p2 E2].
    exists p1, p2. repeat split; auto.
    cbn [Model_Flood.put_split]. rewrite C. cbn [seen_lookup Nat.eqb]. rewrite E1. cbn [seen_lookup Nat.eqb].
    rewrite E2. reflexivity.
  Qed.

  (* with atomic Puts the same hash offered n times in a row is new at most once *)
  Lemma tracked_repeat n : forall p h c, tracked NB LB p h c -> (1 <= c)%Z ->
    puts p (repeat h n) = Some (p, repeat false n).
  Proof.
    induction n as [|n IH]; intros p h c T Hc; cbn [repeat Model_Flood.puts]; [reflexivity|].
    pose proof (tracked_contains NB LB NB_pos p h c T Hc) as C.
    unfold Model_Flood.put. rewrite C. rewrite (IH p h c T Hc). reflexivity.
  Qed.

  Lemma count_true_repeat_false n : count_true (repeat false n) = O.
  Proof. induction n; cbn; auto. Qed.

  Lemma atomic_same_hash n : forall p h p' rs, Inv NB p -> (0 < Z.of_nat (NB - 1) * LB)%Z ->
    puts p (repeat h n) = Some (p', rs) -> (count_true rs <= 1)%nat.
  Proof.
    induction n as [|n IH]; intros p h p' rs I W E; cbn [repeat Model_Flood.puts] in E.
    - inversion E; subst. cbn. lia.
    - destruct (put p h) as [[p1 r]|] eqn:E1; [|discriminate].
      destruct (puts p1 (repeat h n)) as [[p2 rs']|] eqn:E2; [|discriminate].
      inversion E; subst. cbn [count_true]. destruct r.
      + pose proof (tracked_put_new NB LB NB_pos p h p1 I E1) as T.
        pose proof (LBp_ge NB LB NB_pos) as [G1 G2].
        rewrite (tracked_repeat n p1 h _ T) in E2 by nia.
        inversion E2; subst. rewrite count_true_repeat_false. lia.
      + apply put_old in E1. subst p1. specialize (IH _ _ _ _ I W E2). lia.
  Qed.

  (* a schedule in which every caller's test and insertion are adjacent is a sequence of Puts *)
  Definition atomic_sched (cs : list nat) : list split_act :=
    concat (map (fun c => [SCheck c; SInsert c]) cs).

  Lemma put_split_atomic cs : forall p h seen p' ws,
    put_split p h seen (atomic_sched cs) = Some (p', ws) ->
    exists rs, puts p (repeat h (length cs)) = Some (p', rs) /\ length ws = count_true rs.
  Proof.
    induction cs as [|c cs IH]; intros p h seen p' ws E.
    - cbn in E. inversion E; subst. exists []. auto.
    - cbn [atomic_sched map concat app Model_Flood.put_split] in E. fold (atomic_sched cs) in E.
      cbn [length repeat Model_Flood.puts]. rewrite put_check_then_insert.
      destruct (contains p h) as [b|]; [|discriminate].
      cbn [seen_lookup] in E. rewrite Nat.eqb_refl in E. destruct b.
      + apply IH in E as [rs [Ep El]]. rewrite Ep. exists (false :: rs). auto.
      + destruct (put_insert p h) as [p1|]; [|discriminate].
        destruct (put_split p1 h _ (atomic_sched cs)) as [[p2 ws']|] eqn:E2; [|discriminate].
        inversion E; subst. apply IH in E2 as [rs [Ep El]]. rewrite Ep. exists (true :: rs).
        cbn. auto.
  Qed.

  Lemma atomic_put_one_winner cs p h seen p' ws : Inv NB p -> (0 < Z.of_nat (NB - 1) * LB)%Z ->
    put_split p h seen (atomic_sched cs) = Some (p', ws) -> (length ws <= 1)%nat.
  Proof.
    intros I W E. apply put_split_atomic in E as [rs [Ep El]]. rewrite El.
    eapply atomic_same_hash; eauto.
  Qed.
End Atomicity.

(* the refutation is not vacuous: production shape, fresh pool *)
Example ex_split_put_default :
  option_map snd (put_split 20 500 (new_pool 20) 7 [] [SCheck 0; SCheck 1; SInsert 0; SInsert 1])
  = Some [0%nat; 1%nat]
  /\ option_map snd (put_split 20 500 (new_pool 20) 7 [] [SCheck 0; SInsert 0; SCheck 1; SInsert 1])
  = Some [0%nat].
Proof. split; vm_compute; reflexivity. Qed.
