(* Model_Bloom.v — service/txresult/logsbloom.go: the 2048-bit event-log bloom.
   A bloom is the non-negative big.Int of the code, i.e. a number whose bit k is
   bloom bit k.  Mirrors: addBit, addLog, AddAddressOfLog, AddIndexedOfLog,
   AddLog, Merge, Contain, Bytes, LogBytes, CompressedBytes, SetCompressedBytes,
   and the accumulation done by receipt.AddLog / transition (Merge of receipt
   blooms into the block bloom).  No proofs here. *)
From Goloop Require Import lib.Bytes.
Open Scope N_scope.

Definition bloom := N.

Definition logs_bloom_bits : N := 2048.
Definition logs_bloom_bytes : nat := 256.

(* an event log as AddLog sees it: the 21 address bytes (type byte, 20 id bytes)
   and the indexed values; None is a nil entry (skipped by AddLog) *)
Record log := { l_addr : bytes; l_indexed : list (option bytes) }.

(* the byte string that is hashed for an item *)
Definition addr_item (a : bytes) : bytes := 255 :: a.               (* bs[0] = 0xff; copy(bs[1:], addr.Bytes()) *)
Definition indexed_item (i : N) (v : bytes) : bytes := (i mod 256) :: v.   (* bs[0] = byte(i) *)

(* items of the indexed values, positions counted from i *)
Fixpoint indexed_items (i : N) (vs : list (option bytes)) : list bytes :=
  match vs with
  | [] => []
  | None :: r => indexed_items (i + 1) r
  | Some v :: r => indexed_item i v :: indexed_items (i + 1) r
  end.

(* what AddLog adds, in the order it adds it: nothing at all for a log without
   indexed values (len(log) == 0 returns early, before the address) *)
Definition items_of (l : log) : list bytes :=
  match l_indexed l with
  | [] => []
  | vs => addr_item (l_addr l) :: indexed_items 0 vs
  end.

(* LogsBloom.Merge: big.Int.Or *)
Definition merge (a b : bloom) : bloom := N.lor a b.

(* LogsBloom.Contain: every set bit of q is set in b (word-wise in the code) *)
Definition contain (b q : bloom) : bool := N.land b q =? q.

Definition merge_all (bs : list bloom) : bloom := fold_left merge bs 0.

(* a merge expression of any shape *)
Inductive mtree :=
| MLeaf (b : bloom)
| MNode (l r : mtree).

Fixpoint mt_eval (t : mtree) : bloom :=
  match t with
  | MLeaf b => b
  | MNode l r => merge (mt_eval l) (mt_eval r)
  end.

Fixpoint mt_leaves (t : mtree) : list bloom :=
  match t with
  | MLeaf b => [b]
  | MNode l r => mt_leaves l ++ mt_leaves r
  end.

(* big.Int.Bytes: minimal big-endian form; LogBytes: left-padded to 256 bytes *)
Definition byte_len (b : N) : nat := N.to_nat ((N.size b + 7) / 8).
(* the n low-order bytes of v, least significant first, then reversed *)
Fixpoint le_bytes (n : nat) (v : N) : bytes :=
  match n with
  | O => []
  | S k => N.land v 255 :: le_bytes k (N.shiftr v 8)
  end.
Definition n_be_bytes (n : nat) (v : N) : bytes := rev (le_bytes n v).
Definition bloom_bytes (b : bloom) : bytes := n_be_bytes (byte_len b) b.
Definition bloom_log_bytes (b : bloom) : bytes := n_be_bytes logs_bloom_bytes b.
(* big.Int.SetBytes *)
Definition bloom_of_bytes (bs : bytes) : bloom := be_val bs.

Section WithHash.
  (* SHA3-256 of the item, the 32-byte digest read as a big-endian number.
     (crypto.SHA3Sum256; configLogsBloomSHA256 = false) *)
  Variable H : bytes -> N.

  (* binary.BigEndian.Uint16(h[i*2:i*2+2]) & (LogsBloomBits-1), i = 0,1,2 *)
  Definition digest_u16 (d : N) (i : N) : N := N.land (N.shiftr d (240 - 16 * i)) 65535.
  Definition digest_idx (d : N) (i : N) : N := N.land (digest_u16 d i) (logs_bloom_bits - 1).

  (* addBit: big.Int.SetBit(idx, 1) *)
  Definition add_bit (b : bloom) (idx : N) : bloom := N.setbit b idx.

  (* addLog *)
  Definition add_item (b : bloom) (item : bytes) : bloom :=
    let d := H item in
    add_bit (add_bit (add_bit b (digest_idx d 0)) (digest_idx d 1)) (digest_idx d 2).

  (* the query bloom of one item: NewLogsBloom(nil) + AddAddressOfLog / AddIndexedOfLog *)
  Definition item_mask (item : bytes) : bloom := add_item 0 item.

  (* AddLog on an existing bloom *)
  Definition add_log (b : bloom) (l : log) : bloom := fold_left add_item (items_of l) b.

  Definition bloom_of (l : log) : bloom := add_log 0 l.

  (* a receipt accumulates its logs into one bloom (receipt.AddLog) *)
  Definition receipt_bloom (ls : list log) : bloom := fold_left add_log ls 0.

  (* a query bloom of several items (EventFilter.Compile) *)
  Definition query_bloom (items : list bytes) : bloom := fold_left add_item items 0.
End WithHash.

Section WithCodec.
  (* common.Compress / common.Decompress (property C25) *)
  Variable compress : bytes -> bytes.
  Variable decompress : bytes -> option bytes.

  (* CompressedBytes = Compress(Int.Bytes()); SetCompressedBytes = SetBytes(Decompress(bs)) *)
  Definition compressed_bytes (b : bloom) : bytes := compress (bloom_bytes b).
  Definition of_compressed (bs : bytes) : option bloom := option_map bloom_of_bytes (decompress bs).
End WithCodec.
