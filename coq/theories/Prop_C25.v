(* Property C25 — Header compression is lossless and format-stable.
   This file holds only the property theorems; proofs are in Proofs_Lzw.v.
   compress / decompress are Model_Lzw's independent LZW encoder and decoder
   (MSB first, literal width 8, clear = 256, eof = 257, no leading clear code);
   their byte equality with common.Compress / common.Decompress is the
   correspondence check (run/Run_C25.v). *)
From Goloop Require Import lib.Bytes Model_Lzw Proofs_Lzw.

(* every byte string, of any length: includes table resets at code 4095, the
   code that is being defined (KwKwK) and every width step *)
Theorem C25_roundtrip : forall x, bytes_ok x = true -> decompress (compress x) = Some x.
Proof. exact lzw_roundtrip. Qed.
Print Assumptions C25_roundtrip.

(* what common.Decompress returns (it drops the reader's error) *)
Theorem C25_roundtrip_lenient : forall x, bytes_ok x = true -> decompress_lenient (compress x) = x.
Proof. exact lzw_roundtrip_lenient. Qed.
Print Assumptions C25_roundtrip_lenient.

Theorem C25_empty : compress [] = [] /\ decompress [] = Some [] /\ decompress_lenient [] = [].
Proof. exact lzw_empty. Qed.
Print Assumptions C25_empty.

(* the first 9 bits of a compressed non-empty string are its first byte as a
   literal code, not the clear code *)
Theorem C25_no_leading_clear : forall a p, bytes_ok (a :: p) = true ->
  first_code (compress (a :: p)) = Some a /\ a <> clear_code.
Proof. exact lzw_no_leading_clear. Qed.
Print Assumptions C25_no_leading_clear.

(* distinct strings have distinct compressed forms; only the empty string compresses to nothing *)
Theorem C25_injective : forall x y,
  bytes_ok x = true -> bytes_ok y = true -> compress x = compress y -> x = y.
Proof. exact lzw_compress_injective. Qed.
Print Assumptions C25_injective.

Theorem C25_nonempty : forall x, bytes_ok x = true -> x <> [] -> compress x <> [].
Proof. exact lzw_nonempty. Qed.
Print Assumptions C25_nonempty.

(* the two halves the round trip is built from *)
Theorem C25_code_roundtrip : forall a p, bytes_ok (a :: p) = true ->
  dec_loop dstate0 (map snd (encode (a :: p))) = (a :: p, StEof).
Proof. exact lzw_code_roundtrip. Qed.
Print Assumptions C25_code_roundtrip.

Theorem C25_bit_roundtrip : forall l, wf_stream sched0 l ->
  fst (read_codes (length (bits_of_bytes (pack_bytes (stream_bits l)))) sched0
                  (bits_of_bytes (pack_bytes (stream_bits l)))) = map snd l.
Proof. exact lzw_bit_roundtrip. Qed.
Print Assumptions C25_bit_roundtrip.

(* the widths the encoder writes with are the ones the reader reads with *)
Theorem C25_widths_agree : forall a p, bytes_ok (a :: p) = true -> wf_stream sched0 (encode (a :: p)).
Proof. exact encode_wf. Qed.
Print Assumptions C25_widths_agree.

(* the reader also takes streams that start with a clear code (Go's compress/lzw) *)
Theorem C25_reader_accepts_leading_clear : forall cs,
  dec_loop dstate0 (clear_code :: cs) = dec_loop dstate0 cs.
Proof. exact lzw_reader_accepts_leading_clear. Qed.
Print Assumptions C25_reader_accepts_leading_clear.
