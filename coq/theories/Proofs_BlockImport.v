(* Proofs_BlockImport.v — lemmas about Model_BlockImport (property C07).
   Style: stdlib only; arithmetic closed by lia with the euclidean-division hook. *)
From Coq Require Import Sorting.Permutation Sorting.Sorted.
From Coq Require Import ZifyBool ZifyN ZifyNat.
From Goloop Require Import lib.Bytes lib.GoInt Model_BlockImport.
Open Scope Z_scope.

Ltac Zify.zify_post_hook ::= Z.to_euclidean_division_equations.

(* ================================================================== sorting *)

Lemma insert_perm x l : Permutation (x :: l) (insert x l).
Proof.
  induction l as [|y r IH]; cbn; [reflexivity|].
  destruct (x <=? y); [reflexivity|].
  rewrite perm_swap. now apply perm_skip.
Qed.

Lemma isort_perm l : Permutation l (isort l).
Proof.
  induction l as [|x r IH]; cbn; [constructor|].
  rewrite <- insert_perm. now apply perm_skip.
Qed.

Lemma isort_length l : length (isort l) = length l.
Proof. symmetry. apply Permutation_length, isort_perm. Qed.

Lemma insert_sorted x l : StronglySorted Z.le l -> StronglySorted Z.le (insert x l).
Proof.
  induction 1 as [|y r Hs IH Hall]; cbn.
  - repeat constructor.
  - destruct (x <=? y) eqn:E.
    + constructor; [now constructor|].
      constructor; [lia|].
      eapply Forall_impl; [|exact Hall]. cbn; intros; lia.
    + constructor; [exact IH|].
      eapply Permutation_Forall; [apply insert_perm|].
      constructor; [lia|exact Hall].
Qed.

Lemma isort_sorted l : StronglySorted Z.le (isort l).
Proof.
  induction l as [|x r IH]; cbn; [constructor|]. now apply insert_sorted.
Qed.

(* the ascending arrangement of a multiset of integers is unique *)
Lemma sorted_perm_unique l1 :
  forall l2, StronglySorted Z.le l1 -> StronglySorted Z.le l2 -> Permutation l1 l2 -> l1 = l2.
Proof.
  induction l1 as [|x r IH]; intros l2 H1 H2 HP.
  - apply Permutation_nil in HP. now subst.
  - destruct l2 as [|y s].
    + symmetry in HP. apply Permutation_nil in HP. discriminate.
    + inversion H1 as [|? ? Hr Hx]; subst. inversion H2 as [|? ? Hs Hy]; subst.
      assert (x = y).
      { assert (In x (y :: s)) as Ix by (eapply Permutation_in; [exact HP|now left]).
        assert (In y (x :: r)) as Iy
            by (eapply Permutation_in; [symmetry; exact HP|now left]).
        destruct Ix as [->|Ix]; [reflexivity|].
        destruct Iy as [->|Iy]; [reflexivity|].
        rewrite Forall_forall in Hx, Hy.
        specialize (Hx _ Iy). specialize (Hy _ Ix). lia. }
      subst y. f_equal. apply IH; try assumption.
      eapply Permutation_cons_inv; exact HP.
Qed.

Lemma isort_perm_inv l l' : Permutation l l' -> isort l = isort l'.
Proof.
  intro HP. apply sorted_perm_unique; try apply isort_sorted.
  rewrite <- (isort_perm l), <- (isort_perm l'). exact HP.
Qed.

Lemma isort_of_sorted l : StronglySorted Z.le l -> isort l = l.
Proof.
  intro H. apply sorted_perm_unique; [apply isort_sorted|exact H|].
  symmetry. apply isort_perm.
Qed.

Lemma sorted_adjacent s :
  StronglySorted Z.le s ->
  forall i a b, nth_error s i = Some a -> nth_error s (S i) = Some b -> a <= b.
Proof.
  induction 1 as [|x r Hs IH Hall]; intros i a b Ha Hb.
  - destruct i; discriminate.
  - destruct i as [|i]; cbn in *.
    + injection Ha as <-. rewrite Forall_forall in Hall. apply Hall.
      destruct r; [discriminate|]. cbn in Hb. injection Hb as <-. now left.
    + eapply IH; eassumption.
Qed.

(* ================================================================== median *)

Lemma skipn_nth_error {A} k : forall (s : list A),
  skipn k s = match nth_error s k with Some x => x :: skipn (S k) s | None => [] end.
Proof.
  induction k as [|k IH]; intros [|y s]; cbn; try reflexivity.
  rewrite IH. destruct (nth_error s k); reflexivity.
Qed.

Lemma nth_error_some_lt {A} (s : list A) k : (k < length s)%nat -> exists x, nth_error s k = Some x.
Proof.
  intro H. destruct (nth_error s k) eqn:E; [eauto|].
  apply nth_error_None in E. lia.
Qed.

Lemma div2_odd k : Nat.div2 (2 * k + 1) = k.
Proof. replace (2 * k + 1)%nat with (S (2 * k)) by lia. apply Nat.div2_succ_double. Qed.
Lemma div2_even k : Nat.div2 (2 * k + 2) = S k.
Proof.
  replace (2 * k + 2)%nat with (2 * S k)%nat by lia. apply Nat.div2_double.
Qed.
Lemma odd_odd k : Nat.odd (2 * k + 1) = true.
Proof. replace (2 * k + 1)%nat with (1 + 2 * k)%nat by lia. rewrite Nat.odd_add_mul_2. reflexivity. Qed.
Lemma odd_even k : Nat.odd (2 * k + 2) = false.
Proof. replace (2 * k + 2)%nat with (0 + 2 * S k)%nat by lia. rewrite Nat.odd_add_mul_2. reflexivity. Qed.

Lemma median_nil : median [] = 0.
Proof. reflexivity. Qed.

(* odd number of items: the middle element of the sorted list *)
Lemma median_odd l k :
  length l = (2 * k + 1)%nat -> nth_error (isort l) k = Some (median l).
Proof.
  intro HL. unfold median. rewrite isort_length, HL.
  replace (2 * k + 1)%nat with (S (2 * k)) at 1 by lia.
  rewrite odd_odd, div2_odd, skipn_nth_error.
  destruct (nth_error_some_lt (isort l) k) as [x Hx]; [rewrite isort_length; lia|].
  now rewrite Hx.
Qed.

(* even number of items: wrapping sum of the two middle elements, halved toward zero *)
Lemma median_even l k :
  length l = (2 * k + 2)%nat ->
  exists a b, nth_error (isort l) k = Some a /\ nth_error (isort l) (S k) = Some b /\
              a <= b /\ median l = Z.quot (wrap_i64 (a + b)) 2.
Proof.
  intro HL. unfold median. rewrite isort_length, HL.
  replace (2 * k + 2)%nat with (S (2 * k + 1)) at 1 by lia.
  rewrite odd_even, div2_even.
  replace (S k - 1)%nat with k by lia.
  destruct (nth_error_some_lt (isort l) k) as [a Ha]; [rewrite isort_length; lia|].
  destruct (nth_error_some_lt (isort l) (S k)) as [b Hb]; [rewrite isort_length; lia|].
  rewrite skipn_nth_error, Ha, skipn_nth_error, Hb.
  exists a, b. split; [reflexivity|]. split; [reflexivity|].
  split; [|replace (2 * k + 2)%nat with (S (2 * k + 1)) by lia; reflexivity].
  eapply sorted_adjacent; [apply isort_sorted|exact Ha|exact Hb].
Qed.

Lemma median_perm l l' : Permutation l l' -> median l = median l'.
Proof. intro HP. unfold median. now rewrite (isort_perm_inv _ _ HP). Qed.

Lemma mean2_between a b lo hi :
  lo <= a <= hi -> lo <= b <= hi -> min_i64 <= a + b <= max_i64 ->
  lo <= mean2 a b <= hi.
Proof. intros. unfold mean2. rewrite wrap_i64_small by lia. lia. Qed.

Lemma mean2_middle a b :
  a <= b -> min_i64 <= a + b <= max_i64 -> a <= mean2 a b <= b.
Proof. intros. apply mean2_between; lia. Qed.

Lemma nat_parity n : n = O \/ (exists k, n = 2 * k + 1)%nat \/ (exists k, n = 2 * k + 2)%nat.
Proof.
  destruct n as [|n]; [now left|right].
  destruct (Nat.Even_or_Odd n) as [[k ->]|[k ->]]; [left|right]; exists k; lia.
Qed.

Notation ts_lo := (-4611686018427387904) (only parsing).   (* -2^62 *)
Notation ts_hi := 4611686018427387903 (only parsing).      (*  2^62 - 1 *)

(* when every timestamp is in [-2^62, 2^62) the sum cannot wrap and the median lies
   between the smallest and the largest timestamp *)
Lemma median_between l lo hi :
  l <> [] ->
  (forall x, In x l -> ts_lo <= x <= ts_hi) ->
  (forall x, In x l -> lo <= x <= hi) ->
  lo <= median l <= hi.
Proof.
  intros Hne Hr Hb.
  assert (Hin : forall i x, nth_error (isort l) i = Some x -> In x l).
  { intros i x Hx. apply nth_error_In in Hx.
    eapply Permutation_in; [symmetry; apply isort_perm|exact Hx]. }
  destruct (nat_parity (length l)) as [H0|[[k Hk]|[k Hk]]].
  - destruct l; [congruence|discriminate].
  - pose proof (median_odd l k Hk) as Hm. apply Hin in Hm. now apply Hb.
  - destruct (median_even l k Hk) as (a & b & Ha & Hb' & Hab & ->).
    apply Hin in Ha. apply Hin in Hb'.
    pose proof (Hr _ Ha). pose proof (Hr _ Hb'). pose proof (Hb _ Ha). pose proof (Hb _ Hb').
    change (lo <= mean2 a b <= hi). apply mean2_between; lia.
Qed.

Lemma median_spec :
  (forall l l', Permutation l l' -> median l = median l') /\
  (forall l, Permutation l (isort l) /\ StronglySorted Z.le (isort l)) /\
  median [] = 0 /\
  (forall l k, length l = (2 * k + 1)%nat -> nth_error (isort l) k = Some (median l)) /\
  (forall l k, length l = (2 * k + 2)%nat ->
     exists a b, nth_error (isort l) k = Some a /\ nth_error (isort l) (S k) = Some b /\
                 a <= b /\ median l = Z.quot (wrap_i64 (a + b)) 2) /\
  (forall l lo hi, l <> [] ->
     (forall x, In x l -> ts_lo <= x <= ts_hi) ->
     (forall x, In x l -> lo <= x <= hi) ->
     lo <= median l <= hi).
Proof.
  exact (conj median_perm (conj (fun l => conj (isort_perm l) (isort_sorted l))
          (conj median_nil (conj median_odd (conj median_even median_between))))).
Qed.

(* the range hypothesis is needed: 2^62 + 2^62 wraps to -2^63 *)
Example median_wraps :
  median [4611686018427387904; 4611686018427387904] = -4611686018427387904.
Proof. reflexivity. Qed.

(* truncation is toward zero, not toward minus infinity *)
Example median_truncates : median [-3; -2] = -2 /\ median [2; 3] = 2 /\ median [-1; 0] = 0.
Proof. repeat split. Qed.

Example median_examples :
  median [30; 10; 20] = 20 /\ median [40; 10; 30; 20] = 25 /\ median [7] = 7 /\
  median [5; 5; 9; 1] = 5 /\ median [10; 11] = 10.
Proof. repeat split. Qed.

(* ================================================================== votes *)

Lemma memN_In x l : memN x l = true <-> In x l.
Proof.
  induction l as [|y r IH]; cbn; [split; [discriminate|tauto]|].
  rewrite orb_true_iff, IH, N.eqb_eq. split; intros [H|H]; auto.
Qed.

Lemma memZ_In x l : memZ x l = true <-> In x l.
Proof.
  induction l as [|y r IH]; cbn; [split; [discriminate|tauto]|].
  rewrite orb_true_iff, IH, Z.eqb_eq. split; intros [H|H]; auto.
Qed.

(* the signers named by the ground truth of the items *)
Definition signers (vs : list vote) : list N :=
  flat_map (fun v => match v_signer v with Some s => [s] | None => [] end) vs.

Definition good_vote (pid : bytes) (voters : list N) (v : vote) : Prop :=
  v_for v = pid /\ exists s, v_signer v = Some s /\ In s voters.

Lemma signers_cons_some v r s : v_signer v = Some s -> signers (v :: r) = s :: signers r.
Proof. intro H. unfold signers. cbn. now rewrite H. Qed.

Lemma scan_votes_spec pid voters vs : forall seen,
  scan_votes pid voters seen vs = true <->
  (forall v, In v vs -> good_vote pid voters v) /\ NoDup (signers vs) /\
  (forall s, In s (signers vs) -> ~ In s seen).
Proof.
  induction vs as [|v r IH]; intro seen; cbn [scan_votes].
  - split; [intros _|reflexivity].
    split; [intros v []|]. split; [constructor|intros s []].
  - destruct (bytes_eqb (v_for v) pid) eqn:Ef; cbn [negb].
    2:{ split; [discriminate|]. intros (Hg & _).
        destruct (Hg v (or_introl eq_refl)) as (Hf & _).
        apply bytes_eqb_eq in Hf. congruence. }
    apply bytes_eqb_eq in Ef.
    destruct (v_signer v) as [s|] eqn:Es.
    2:{ split; [discriminate|]. intros (Hg & _).
        destruct (Hg v (or_introl eq_refl)) as (_ & s & Hs & _). congruence. }
    rewrite (signers_cons_some v r s Es).
    destruct (memN s voters) eqn:Ev; cbn [negb].
    2:{ split; [discriminate|]. intros (Hg & _).
        destruct (Hg v (or_introl eq_refl)) as (_ & s' & Hs & Hin).
        assert (s' = s) by congruence. subst s'.
        apply memN_In in Hin. congruence. }
    apply memN_In in Ev.
    destruct (memN s seen) eqn:Ese.
    { split; [discriminate|]. intros (_ & _ & Hd).
      apply memN_In in Ese. exfalso. apply (Hd s); [now left|exact Ese]. }
    assert (~ In s seen) as Hns by (intro Hc; apply memN_In in Hc; congruence).
    rewrite IH. split.
    + intros (Hg & Hnd & Hd). split; [|split].
      * intros v' [<-|Hv']; [|now apply Hg]. split; [exact Ef|eauto].
      * constructor; [|exact Hnd]. intro Hc. apply (Hd s Hc). now left.
      * intros s' [<-|Hs'] Hc; [contradiction|]. apply (Hd s' Hs'). now right.
    + intros (Hg & Hnd & Hd). inversion Hnd as [|? ? Hni Hnd']; subst. split; [|split].
      * intros v' Hv'. apply Hg. now right.
      * exact Hnd'.
      * intros s' Hs' [<-|Hc]; [contradiction|]. apply (Hd s'); [now right|exact Hc].
Qed.

Lemma enough_vote_spec voted voters :
  0 <= voters ->
  enough_vote voted voters = true <-> voters = 0 \/ 3 * voted > 2 * voters.
Proof. intro H. unfold enough_vote. destruct (voters =? 0) eqn:E; lia. Qed.

(* what a vote list has to be for a parent: nothing at height 0 / without voters;
   otherwise correct precommits for the parent by distinct voters, more than 2/3 of them *)
Definition votes_valid (p : parent) (vs : list vote) : Prop :=
  match p_voters p with
  | None => vs = []
  | Some vl =>
      (p_height p = 0 /\ vs = []) \/
      (p_height p <> 0 /\
       (forall v, In v vs -> good_vote (p_id p) vl v) /\ NoDup (signers vs) /\
       (vl = [] \/ 3 * Z.of_nat (length vs) > 2 * Z.of_nat (length vl)))
  end.

Lemma verify_votes_spec p vs : verify_votes p vs = true <-> votes_valid p vs.
Proof.
  unfold verify_votes, votes_valid. destruct (p_voters p) as [vl|].
  2:{ destruct vs; split; congruence. }
  destruct (p_height p =? 0) eqn:Eh.
  - split.
    + intro H. left. split; [lia|]. destruct vs; congruence.
    + intros [[_ ->]|[Hn _]]; [reflexivity|lia].
  - rewrite andb_true_iff, scan_votes_spec, enough_vote_spec by lia. split.
    + intros [(Hg & Hnd & _) He]. right.
      split; [lia|]. split; [exact Hg|]. split; [exact Hnd|].
      destruct He as [He|He]; [left|right; exact He].
      destruct vl; [reflexivity|cbn in He; lia].
    + intros [[H0 _]|(_ & Hg & Hnd & He)]; [lia|].
      split; [split; [exact Hg|split; [exact Hnd|intros s _ []]]|].
      destruct He as [->|He]; [now left|now right].
Qed.

Lemma verify_votes_first p v r : verify_votes p (v :: r) = true -> v_for v = p_id p.
Proof.
  intro H. apply verify_votes_spec in H. unfold votes_valid in H.
  destruct (p_voters p); [|discriminate].
  destruct H as [[_ H]|(_ & Hg & _)]; [discriminate|].
  now destruct (Hg v (or_introl eq_refl)).
Qed.

(* ================================================================== verifyNewBlock *)

(* the conjunction of the property *)
Definition extends_parent (p : parent) (c : candidate) : Prop :=
  c_height c = p_height p + 1 /\
  c_prev c = p_id p /\
  c_version c = p_next_version p /\
  verify_votes p (c_votes c) = true /\
  (c_height c > 1 -> c_ts c = median (vote_times c) /\ c_ts c > p_ts p).

Lemma verify_timestamp_accept p c :
  verify_timestamp p c = Accept <->
  (c_height c > 1 -> c_ts c = median (vote_times c) /\ c_ts c > p_ts p).
Proof.
  unfold verify_timestamp.
  destruct (c_height c >? 1) eqn:Eh; cbn.
  - destruct (c_ts c =? median (vote_times c)) eqn:Em; cbn.
    + destruct (p_ts p >=? c_ts c) eqn:Ep; split; intro H; try discriminate; try reflexivity.
      * specialize (H ltac:(lia)). lia.
      * intros _. lia.
    + split; [discriminate|]. intro H. specialize (H ltac:(lia)). lia.
  - split; [intros _ Hc; lia|reflexivity].
Qed.

Lemma accept_iff p c : verify_new_block p c = Accept <-> extends_parent p c.
Proof.
  unfold verify_new_block, extends_parent.
  destruct (c_version c =? p_next_version p) eqn:Ev; cbn.
  2:{ split; [discriminate|]. intros (_ & _ & H & _). lia. }
  destruct (c_height c =? p_height p + 1) eqn:Eh; cbn.
  2:{ split; [discriminate|]. intros (H & _). lia. }
  destruct (bytes_eqb (c_prev c) (p_id p)) eqn:Ep; cbn.
  2:{ split; [discriminate|]. intros (_ & H & _). apply bytes_eqb_eq in H. congruence. }
  apply bytes_eqb_eq in Ep.
  destruct (verify_votes p (c_votes c)) eqn:Evo; cbn.
  2:{ split; [discriminate|]. intros (_ & _ & _ & H & _). discriminate. }
  rewrite verify_timestamp_accept. split.
  - intro H. repeat split; try assumption; try lia; now apply H.
  - intros (_ & _ & _ & _ & H). exact H.
Qed.

(* spelled out with the vote conditions *)
Lemma accept_iff_full p c :
  verify_new_block p c = Accept <->
  c_height c = p_height p + 1 /\ c_prev c = p_id p /\ c_version c = p_next_version p /\
  votes_valid p (c_votes c) /\
  (c_height c > 1 -> c_ts c = median (vote_times c) /\ c_ts c > p_ts p).
Proof. rewrite accept_iff. unfold extends_parent. now rewrite verify_votes_spec. Qed.

Lemma single_field_deviation p c :
  verify_new_block p c = Accept ->
  (forall h', h' <> c_height c -> verify_new_block p (with_height c h') <> Accept) /\
  (forall id', id' <> c_prev c -> verify_new_block p (with_prev c id') <> Accept) /\
  (forall v', v' <> c_version c -> verify_new_block p (with_version c v') <> Accept) /\
  (c_height c > 1 -> forall t', t' <> c_ts c -> verify_new_block p (with_ts c t') <> Accept).
Proof.
  intro H. apply accept_iff in H. destruct H as (Hh & Hp & Hv & Hvo & Ht).
  repeat split.
  - intros h' Hne Hc. apply accept_iff in Hc. destruct Hc as (Hc & _). cbn in Hc. congruence.
  - intros id' Hne Hc. apply accept_iff in Hc. destruct Hc as (_ & Hc & _). cbn in Hc. congruence.
  - intros v' Hne Hc. apply accept_iff in Hc. destruct Hc as (_ & _ & Hc & _). cbn in Hc. congruence.
  - intros Hgt t' Hne Hc. apply accept_iff in Hc. destruct Hc as (_ & _ & _ & _ & Hc).
    cbn in Hc. destruct (Hc Hgt) as [Hm _]. destruct (Ht Hgt) as [Hm' _].
    unfold vote_times in *. cbn in Hm. congruence.
Qed.

(* at height 1 (and below) the timestamp is free *)
Lemma height1_timestamp_free p c t' :
  verify_new_block p c = Accept -> c_height c <= 1 ->
  verify_new_block p (with_ts c t') = Accept.
Proof.
  intros H Hle. apply accept_iff in H. apply accept_iff.
  destruct H as (Hh & Hp & Hv & Hvo & _). unfold extends_parent; cbn.
  repeat split; try assumption; lia.
Qed.

(* ================================================================== import *)

Lemma find_parent_some nodes id p :
  find_parent nodes id = Some p -> In p nodes /\ p_id p = id.
Proof.
  induction nodes as [|q r IH]; cbn; [discriminate|].
  destruct (bytes_eqb (p_id q) id) eqn:E.
  - intro H. injection H as <-. apply bytes_eqb_eq in E. auto.
  - intro H. destruct (IH H). auto.
Qed.

Lemma import_accept_iff nodes c :
  import_block nodes c = Accept <->
  exists p, find_parent nodes (c_prev c) = Some p /\ verify_new_block p c = Accept /\
            c_exec_ok c = true.
Proof.
  unfold import_block. destruct (find_parent nodes (c_prev c)) as [p|].
  2:{ split; [discriminate|]. intros (p & H & _). discriminate. }
  split.
  - intro H. exists p. split; [reflexivity|].
    destruct (verify_new_block p c); try discriminate.
    destruct (c_exec_ok c); [auto|discriminate].
  - intros (q & Hq & Hv & He). injection Hq as <-. now rewrite Hv, He.
Qed.

Lemma import_accept_only_if nodes c :
  import_block nodes c = Accept ->
  exists p, In p nodes /\ extends_parent p c /\ c_exec_ok c = true.
Proof.
  intro H. apply import_accept_iff in H. destruct H as (p & Hf & Hv & He).
  exists p. apply find_parent_some in Hf. apply accept_iff in Hv. tauto.
Qed.

Lemma import_reader_accept active nodes hv c :
  import_reader active nodes hv c = Accept <->
  In hv active /\ import_block nodes (with_version c hv) = Accept.
Proof.
  unfold import_reader. destruct (memZ hv active) eqn:E.
  - apply memZ_In in E. tauto.
  - split; [discriminate|]. intros [H _]. apply memZ_In in H. congruence.
Qed.

(* any single-field deviation of an accepted candidate makes the import fail; the previous
   id is pinned by the votes (a candidate at height 1 has none: there the node map has
   to hold a single block of height 0) *)
Lemma import_single_field_deviation nodes c :
  import_block nodes c = Accept ->
  (forall h', h' <> c_height c -> import_block nodes (with_height c h') <> Accept) /\
  (forall v', v' <> c_version c -> import_block nodes (with_version c v') <> Accept) /\
  (c_height c > 1 -> forall t', t' <> c_ts c -> import_block nodes (with_ts c t') <> Accept) /\
  (c_votes c <> [] -> forall id', id' <> c_prev c -> import_block nodes (with_prev c id') <> Accept).
Proof.
  intro H. apply import_accept_iff in H. destruct H as (p & Hf & Hv & He).
  destruct (single_field_deviation p c Hv) as (Dh & _ & Dv & Dt).
  repeat split.
  - intros h' Hne Hc. apply import_accept_iff in Hc. destruct Hc as (q & Hq & Hc & _).
    cbn in Hq. rewrite Hf in Hq. injection Hq as <-. now apply (Dh h').
  - intros v' Hne Hc. apply import_accept_iff in Hc. destruct Hc as (q & Hq & Hc & _).
    cbn in Hq. rewrite Hf in Hq. injection Hq as <-. now apply (Dv v').
  - intros Hgt t' Hne Hc. apply import_accept_iff in Hc. destruct Hc as (q & Hq & Hc & _).
    cbn in Hq. rewrite Hf in Hq. injection Hq as <-. now apply (Dt Hgt t').
  - intros Hvs id' Hne Hc. apply import_accept_iff in Hc. destruct Hc as (q & Hq & Hc & _).
    cbn in Hq. apply find_parent_some in Hq. destruct Hq as [_ Hq].
    apply find_parent_some in Hf. destruct Hf as [_ Hf].
    apply accept_iff in Hv. destruct Hv as (_ & _ & _ & Hvo & _).
    apply accept_iff in Hc. destruct Hc as (_ & _ & _ & Hvo' & _). cbn in Hvo'.
    destruct (c_votes c) as [|v r]; [congruence|].
    apply verify_votes_first in Hvo. apply verify_votes_first in Hvo'. congruence.
Qed.

(* ================================================================== non-vacuity *)

Definition ex_gid : bytes := [1; 2; 3]%N.
Definition ex_pid : bytes := [9; 9; 9; 9]%N.

Definition ex_genesis : parent :=
  {| p_height := 0; p_id := ex_gid; p_ts := 0; p_next_version := 2; p_voters := None |}.
Definition ex_parent : parent :=
  {| p_height := 1; p_id := ex_pid; p_ts := 24; p_next_version := 2;
     p_voters := Some [0; 1; 2; 3]%N |}.

Definition ex_vote (t : Z) (s : N) : vote := {| v_ts := t; v_signer := Some s; v_for := ex_pid |}.

Definition ex_c1 : candidate :=
  {| c_height := 1; c_prev := ex_gid; c_version := 2; c_ts := 0; c_votes := []; c_exec_ok := true |}.
Definition ex_c2 : candidate :=
  {| c_height := 2; c_prev := ex_pid; c_version := 2; c_ts := 25;
     c_votes := [ex_vote 10 2; ex_vote 40 0; ex_vote 30 3]; c_exec_ok := true |}.
Definition ex_c2_even : candidate :=
  {| c_height := 2; c_prev := ex_pid; c_version := 2; c_ts := 25;
     c_votes := [ex_vote 10 2; ex_vote 40 0; ex_vote 30 3; ex_vote 20 1]; c_exec_ok := true |}.

Example ex_accept_h1 : verify_new_block ex_genesis ex_c1 = Accept /\ c_height ex_c1 <= 1.
Proof. split; [reflexivity|cbn; lia]. Qed.

Example ex_accept_h2 :
  verify_new_block ex_parent ex_c2_even = Accept /\ c_height ex_c2_even > 1 /\
  c_votes ex_c2_even <> [] /\
  import_block [ex_genesis; ex_parent] ex_c2_even = Accept.
Proof. repeat split; try reflexivity; try discriminate. Qed.

(* three votes of four voters pass (3*3 > 2*4) but their median is 30, not 25; two do not pass *)
Example ex_reject :
  verify_new_block ex_parent ex_c2 = BadTimestamp /\
  verify_new_block ex_parent (with_ts ex_c2 30) = Accept /\
  verify_new_block ex_parent (with_ts ex_c2_even 24) = BadTimestamp /\
  verify_new_block ex_parent
    {| c_height := 2; c_prev := ex_pid; c_version := 2; c_ts := 24;
       c_votes := [ex_vote 23 0; ex_vote 24 1; ex_vote 25 2]; c_exec_ok := true |} = NonIncreasing /\
  verify_new_block ex_parent
    {| c_height := 2; c_prev := ex_pid; c_version := 2; c_ts := 25;
       c_votes := [ex_vote 20 0; ex_vote 30 1]; c_exec_ok := true |} = BadVotes /\
  import_block [ex_genesis; ex_parent] (with_prev ex_c2_even [7]%N) = NoParent /\
  import_block [ex_genesis; ex_parent] (with_prev ex_c2_even ex_gid) = BadHeight /\
  import_reader [2] [ex_genesis; ex_parent] 3 ex_c2_even = Unsupported.
Proof. repeat split. Qed.

Example ex_votes_valid : votes_valid ex_parent (c_votes ex_c2_even).
Proof. apply verify_votes_spec. reflexivity. Qed.

Example ex_median_hyps :
  [10; 40; 30; 20] <> [] /\
  (forall x, In x [10; 40; 30; 20] -> ts_lo <= x <= ts_hi) /\
  (forall x, In x [10; 40; 30; 20] -> 10 <= x <= 40) /\
  length [10; 40; 30; 20] = (2 * 1 + 2)%nat /\
  Permutation [10; 40; 30; 20] [20; 30; 40; 10] /\ median [10; 40; 30; 20] = 25.
Proof.
  split; [discriminate|]. split; [intros x Hx; cbn in Hx; lia|].
  split; [intros x Hx; cbn in Hx; lia|]. split; [reflexivity|].
  split; [apply (Permutation_rev [10; 40; 30; 20])|reflexivity].
Qed.
