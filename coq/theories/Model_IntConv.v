(* Model_IntConv.v — common/intconv/bytes.go, common/intconv/string.go and the
   text/binary methods of common/hexint.go (HexInt, HexInt16..HexUint64).

   Integers are Z (signed) / N (unsigned), byte strings and texts are list N
   (texts: the bytes of the Go string).  Every function is total and
   computable; there are no proofs in this file (facts are in
   Proofs_IntConv.v, which is meant to be imported by other properties too).

   Conventions used to mirror the Go code:
     v & 0xff      ->  N.land v 255 / Z.land v 255
     v >> 8        ->  N.shiftr v 8 / Z.shiftr v 8     (arithmetic shift on int64)
     (v << 8) | b  ->  v * 256 + b   (b < 256, no carry: this is lib.be_val)
     b ^ 0xff      ->  N.lxor b 255
     b & 0x80 != 0 ->  negb (N.land b 128 =? 0)
   math/big primitives (BitLen, Bytes, SetBytes, SetBit, SetString) and
   strconv.ParseInt/ParseUint are modelled by their documented effect; each is
   marked "primitive" below and is compared with the real library on every
   run of the harness. *)
From Goloop Require Import lib.Bytes.
Open Scope N_scope.

(* ------------------------------------------------------------------ *)
(* math/big primitives                                                 *)
(* ------------------------------------------------------------------ *)

(* primitive: big.Int.BitLen — length of |x| in bits, 0 for 0 *)
Definition bitlen (n : N) : N := N.size n.

(* primitive: big.Int.Bytes — big-endian |x| without leading zero bytes, [] for 0 *)
Definition nat_bytes (n : N) : bytes := be_bytes (N.to_nat ((bitlen n + 7) / 8)) n.

(* primitive: big.Int.SetBytes is lib.be_val (big-endian, unsigned, any length) *)

(* ------------------------------------------------------------------ *)
(* specification-side helpers (used by theorems and by the oracle)      *)
(* ------------------------------------------------------------------ *)

(* two's-complement, big-endian, exactly k bytes *)
Definition tc_bytes (k : nat) (z : Z) : bytes :=
  be_bytes k (Z.to_N (z mod 256 ^ Z.of_nat k)%Z).

(* value of a byte string read as two's complement ([] is 0) *)
Definition tc_val (bs : bytes) : Z :=
  match bs with
  | [] => 0%Z
  | b :: _ => if b <? 128 then Z.of_N (be_val bs)
              else (Z.of_N (be_val bs) - 256 ^ Z.of_nat (length bs))%Z
  end.

(* minimal number of bytes of a two's-complement representation, from the bit
   length of z (z >= 0) or of -z-1 (z < 0); always >= 1 *)
Definition tc_len (z : Z) : nat :=
  N.to_nat (bitlen (Z.to_N (if (z <? 0)%Z then (- z - 1)%Z else z)) / 8 + 1).

(* the first byte of a string is redundant: dropping it keeps the value *)
Definition redundant (bs : bytes) : bool :=
  match bs with
  | b0 :: b1 :: _ => ((b0 =? 0) && (b1 <? 128)) || ((b0 =? 255) && (128 <=? b1))
  | _ => false
  end.

(* ------------------------------------------------------------------ *)
(* intconv/bytes.go                                                    *)
(* ------------------------------------------------------------------ *)

Definition bytes_for_zero : bytes := [0].

(* BigIntToBytes (nil is treated like 0 by the code; the model has no nil) *)
Definition bigint_to_bytes (i : Z) : bytes :=
  match i with
  | Z0 => bytes_for_zero
  | Zpos _ =>
      let n := Z.to_N i in
      let bl := bitlen n in
      if bl mod 8 =? 0 then 0 :: nat_bytes n      (* make(bl/8+1); copy(bs[1:], Bytes()) *)
      else nat_bytes n
  | Zneg _ =>
      let ti := (i + 1)%Z in
      let bl := bitlen (Z.abs_N ti) in
      let nb := (2 ^ Z.of_N ((bl + 8) / 8 * 8) + i)%Z in   (* SetBit(0, (bl+8)/8*8, 1) + i *)
      nat_bytes (Z.to_N nb)
  end.

(* BigIntSetBytes *)
Definition bigint_set_bytes (bs : bytes) : Z :=
  let v := be_val bs in
  match bs with
  | b :: _ =>
      if negb (N.land b 128 =? 0) then (Z.of_N v - 2 ^ Z.of_N (bitlen v))%Z
      else Z.of_N v
  | [] => Z.of_N v
  end.

(* Uint64ToBytes: 9 slots, filled from the right *)
Fixpoint uint64_loop (n : nat) (v : N) (acc : bytes) : bytes :=
  match n with
  | O => acc
  | S k =>
      let tv := N.land v 255 in
      let acc' := tv :: acc in
      let v' := N.shiftr v 8 in
      if (v' =? 0) && (N.land tv 128 =? 0) then acc' else uint64_loop k v' acc'
  end.
Definition uint64_to_bytes (v : N) : bytes :=
  if v =? 0 then bytes_for_zero else uint64_loop 9 v [].

(* SizeToBytes: 8 slots *)
Fixpoint size_loop (n : nat) (v : N) (acc : bytes) : bytes :=
  match n with
  | O => acc
  | S k =>
      let acc' := N.land v 255 :: acc in
      let v' := N.shiftr v 8 in
      if v' =? 0 then acc' else size_loop k v' acc'
  end.
Definition size_to_bytes (v : N) : bytes :=
  if v =? 0 then bytes_for_zero else size_loop 8 v [].

(* SafeBytesToUint64: None = (0,false); BytesToUint64 panics exactly then *)
Definition bytes_to_uint64 (bs : bytes) : option N :=
  match bs with
  | [] => Some 0
  | b :: r =>
      if b =? 0 then
        (if Nat.ltb 8 (length r) then None else Some (be_val r))
      else if negb (N.land b 128 =? 0) then None
      else if Nat.ltb 8 (length bs) then None else Some (be_val bs)
  end.

(* SafeBytesToSize64 *)
Definition bytes_to_size64 (bs : bytes) : option N :=
  match bs with
  | [] => Some 0
  | _ => if Nat.ltb 8 (length bs) then None else Some (be_val bs)
  end.

(* SafeBytesToSize on a 64-bit platform: additionally <= math.MaxInt *)
Definition max_int : N := 2 ^ 63 - 1.
Definition bytes_to_size (bs : bytes) : option N :=
  match bytes_to_size64 bs with
  | Some v => if v <=? max_int then Some v else None
  | None => None
  end.

(* SafeBytesToInt64: None = (0,false); BytesToInt64 panics exactly then *)
Definition bytes_to_int64 (bs : bytes) : option Z :=
  match bs with
  | [] => Some 0%Z
  | b :: _ =>
      if Nat.ltb 8 (length bs) then None
      else if negb (N.land b 128 =? 0) then
        Some (- Z.of_N (be_val (map (fun x => N.lxor x 255) bs)) - 1)%Z
      else Some (Z.of_N (be_val bs))
  end.

(* Int64ToBytes: mask = -0x80, target = 0 or mask *)
Fixpoint int64_loop (n : nat) (target : Z) (v : Z) (acc : bytes) : bytes :=
  match n with
  | O => acc
  | S k =>
      let acc' := Z.to_N (Z.land v 255) :: acc in
      if (Z.land v (-128) =? target)%Z then acc' else int64_loop k target (Z.shiftr v 8) acc'
  end.
Definition int64_to_bytes (v : Z) : bytes :=
  if (v =? 0)%Z then bytes_for_zero
  else int64_loop 8 (if (v <? 0)%Z then (-128)%Z else 0%Z) v [].

Definition in_int64 (v : Z) : bool := ((- 2 ^ 63 <=? v) && (v <? 2 ^ 63))%Z.
Definition in_uint64 (v : Z) : bool := ((0 <=? v) && (v <? 2 ^ 64))%Z.
Definition in_intn (bits : N) (v : Z) : bool :=
  ((- 2 ^ (Z.of_N bits - 1) <=? v) && (v <? 2 ^ (Z.of_N bits - 1)))%Z.

(* ------------------------------------------------------------------ *)
(* characters                                                          *)
(* ------------------------------------------------------------------ *)
Definition c_0 := 48.  Definition c_9 := 57.
Definition c_a := 97.  Definition c_f := 102. Definition c_z := 122.
Definition c_A := 65.  Definition c_Z := 90.
Definition c_b := 98.  Definition c_B := 66.
Definition c_o := 111. Definition c_O := 79.
Definition c_x := 120. Definition c_X := 88.
Definition c_minus := 45. Definition c_plus := 43. Definition c_us := 95.

(* ------------------------------------------------------------------ *)
(* intconv/string.go : formatting                                      *)
(* ------------------------------------------------------------------ *)

(* primitive: hex.EncodeToString — two lower-case digits per byte *)
Definition hexdigit (n : N) : N := if n <? 10 then 48 + n else 87 + n.
Fixpoint hex_encode (bs : bytes) : bytes :=
  match bs with
  | [] => []
  | b :: r => hexdigit (b / 16) :: hexdigit (b mod 16) :: hex_encode r
  end.

(* encodeHexNumber *)
Definition encode_hex_number (neg : bool) (b : bytes) : bytes :=
  match hex_encode b with
  | [] => [c_0; c_x; c_0]
  | c :: r =>
      let s := if c =? c_0 then r else c :: r in
      if neg then c_minus :: c_0 :: c_x :: s else c_0 :: c_x :: s
  end.

(* FormatBigInt, HexInt.String *)
Definition format_bigint (i : Z) : bytes :=
  encode_hex_number (i <? 0)%Z (nat_bytes (Z.abs_N i)).

(* FormatInt (v an int64; uint64(-v) is |v| also for MinInt64), HexInt16/32/64.String *)
Definition format_int (v : Z) : bytes :=
  encode_hex_number (v <? 0)%Z (size_to_bytes (Z.abs_N v)).

(* FormatUint, HexUint16/32/64.String *)
Definition format_uint (v : N) : bytes :=
  encode_hex_number false (size_to_bytes v).

(* ------------------------------------------------------------------ *)
(* primitive: big.Int SetString(s, base), base = 0 or 2..36             *)
(*   sign [+-]?, then nat.scan, then the whole input must be consumed.   *)
(*   base 0: prefix 0b/0B 0o/0O 0x/0X or a bare leading 0 (octal);       *)
(*   '_' allowed only for base 0 and only after a digit or a prefix,     *)
(*   never last.  Letters of either case are digits 10..35.              *)
(* ------------------------------------------------------------------ *)
Inductive prevc := PNone | PDigit | PSep.      (* '.', '0', '_' in nat.scan *)

Definition prev_is_digit (p : prevc) : bool := match p with PDigit => true | _ => false end.
Definition prev_is_sep (p : prevc) : bool := match p with PSep => true | _ => false end.

Definition big_digit_val (ch : N) : N :=
  if (c_0 <=? ch) && (ch <=? c_9) then ch - c_0
  else if (c_a <=? ch) && (ch <=? c_z) then ch - c_a + 10
  else if (c_A <=? ch) && (ch <=? c_Z) then ch - c_A + 10
  else 63.                                        (* MaxBase + 1 *)

Record scan_state := { sc_acc : N; sc_count : N; sc_prev : prevc; sc_inval : bool; sc_rest : bytes }.

(* the digit loop of nat.scan; stops (UnreadByte) at the first non-digit *)
Fixpoint scan_loop (base0 : bool) (b : N) (s : bytes) (pv : prevc) (inval : bool)
         (count acc : N) : scan_state :=
  match s with
  | [] => {| sc_acc := acc; sc_count := count; sc_prev := pv; sc_inval := inval; sc_rest := [] |}
  | ch :: r =>
      if (ch =? c_us) && base0 then
        scan_loop base0 b r PSep (inval || negb (prev_is_digit pv)) count acc
      else
        let d := big_digit_val ch in
        if b <=? d then
          {| sc_acc := acc; sc_count := count; sc_prev := pv; sc_inval := inval; sc_rest := s |}
        else scan_loop base0 b r PDigit inval (count + 1) (acc * b + d)
  end.

(* the tail of nat.scan: errInvalSep / errNoDigits; octal0 = "prefix == '0'" *)
Definition scan_finish (octal0 : bool) (st : scan_state) : option (N * bytes) :=
  let err := sc_inval st || prev_is_sep (sc_prev st) in
  if sc_count st =? 0 then
    (if octal0 then (if err then None else Some (0, sc_rest st)) else None)
  else if err then None else Some (sc_acc st, sc_rest st).

(* nat.scan(r, base, fracOk=false): value and unread rest, None = error *)
Definition nat_scan (base : N) (s : bytes) : option (N * bytes) :=
  if base =? 0 then
    match s with
    | ch0 :: r0 =>
        if ch0 =? c_0 then
          match r0 with
          | [] => (* "0": prev='0', count=1, loop not entered *)
              scan_finish false {| sc_acc := 0; sc_count := 1; sc_prev := PDigit; sc_inval := false; sc_rest := [] |}
          | ch1 :: r1 =>
              if (ch1 =? c_b) || (ch1 =? c_B) then scan_finish false (scan_loop true 2 r1 PDigit false 0 0)
              else if (ch1 =? c_o) || (ch1 =? c_O) then scan_finish false (scan_loop true 8 r1 PDigit false 0 0)
              else if (ch1 =? c_x) || (ch1 =? c_X) then scan_finish false (scan_loop true 16 r1 PDigit false 0 0)
              else scan_finish true (scan_loop true 8 r0 PDigit false 0 0)
          end
        else scan_finish false (scan_loop true 10 s PNone false 0 0)
    | [] => scan_finish false (scan_loop true 10 [] PNone false 0 0)
    end
  else scan_finish false (scan_loop false base s PNone false 0 0).

Definition big_set_string (s : bytes) (base : N) : option Z :=
  match s with
  | [] => None                                   (* scanSign: EOF *)
  | ch :: r =>
      let neg := ch =? c_minus in
      let body := if (ch =? c_minus) || (ch =? c_plus) then r else s in
      match nat_scan base body with
      | Some (v, []) => Some (if neg then (- Z.of_N v)%Z else Z.of_N v)
      | _ => None                                 (* error, or input not consumed *)
      end
  end.

(* ------------------------------------------------------------------ *)
(* intconv/string.go : ParseBigInt                                     *)
(* ------------------------------------------------------------------ *)

(* regexp `_([0-9]+)` replaced by `$1`: every '_' directly followed by a
   decimal digit is removed *)
Definition is_dec (c : N) : bool := (c_0 <=? c) && (c <=? c_9).
Fixpoint strip_under_digit (s : bytes) : bytes :=
  match s with
  | [] => []
  | c :: r =>
      match r with
      | d :: _ => if (c =? c_us) && is_dec d then strip_under_digit r else c :: strip_under_digit r
      | [] => [c]
      end
  end.

(* ParseBigInt: None = error.  (HexInt.UnmarshalJSON of a JSON string) *)
Definition parse_bigint (s : bytes) : option Z :=
  let s2 := match s with c :: r => if c =? c_minus then r else s | [] => s end in
  match s2 with
  | c0 :: c1 :: _ =>
      if c0 =? c_0 then
        if (c1 =? c_o) || (c1 =? c_O) || (c1 =? c_X) || (c1 =? c_b) || (c1 =? c_B) then None
        else if c1 =? c_x then big_set_string s 0
        else big_set_string (strip_under_digit s) 10
      else big_set_string s 0
  | _ => big_set_string s 0
  end.

(* HexInt.UnmarshalJSON when the input is not a JSON string: SetString(raw, 0) *)
Definition hexint_unmarshal_raw (s : bytes) : option Z := big_set_string s 0.

(* ------------------------------------------------------------------ *)
(* primitive: strconv.ParseUint(s, 0, bits) / ParseInt(s, 0, bits)       *)
(* ------------------------------------------------------------------ *)
Definition lower (c : N) : N := N.lor c 32.      (* c | ('x' - 'X') *)

(* underscoreOK *)
Inductive sawc := SBegin | SDigit | SUnder | SOther.
Fixpoint underscore_loop (hex : bool) (s : bytes) (saw : sawc) : bool :=
  match s with
  | [] => match saw with SUnder => false | _ => true end
  | c :: r =>
      if ((c_0 <=? c) && (c <=? c_9)) || (hex && (c_a <=? lower c) && (lower c <=? c_f))
      then underscore_loop hex r SDigit
      else if c =? c_us then
        match saw with SDigit => underscore_loop hex r SUnder | _ => false end
      else match saw with SUnder => false | _ => underscore_loop hex r SOther end
  end.
Definition underscore_ok (s : bytes) : bool :=
  let s1 := match s with c :: r => if (c =? c_minus) || (c =? c_plus) then r else s | [] => s end in
  match s1 with
  | c0 :: c1 :: r =>
      if (c0 =? c_0) && ((lower c1 =? c_b) || (lower c1 =? c_o) || (lower c1 =? c_x))
      then underscore_loop (lower c1 =? c_x) r SDigit
      else underscore_loop false s1 SBegin
  | _ => underscore_loop false s1 SBegin
  end.

Definition max_uint64 : N := 2 ^ 64 - 1.

(* digit loop of ParseUint: None = syntax or range error; the bool records
   whether an underscore was skipped (base argument is 0, so base0 = true) *)
Fixpoint parse_uint_loop (base cutoff maxval : N) (s : bytes) (n : N) (us : bool) : option (N * bool) :=
  match s with
  | [] => Some (n, us)
  | c :: r =>
      if c =? c_us then parse_uint_loop base cutoff maxval r n true
      else
        let d := if (c_0 <=? c) && (c <=? c_9) then Some (c - c_0)
                 else if (c_a <=? lower c) && (lower c <=? c_z) then Some (lower c - c_a + 10)
                 else None in
        match d with
        | None => None
        | Some d =>
            if base <=? d then None
            else if cutoff <=? n then None
            else let n1 := n * base + d in
                 if maxval <? n1 then None else parse_uint_loop base cutoff maxval r n1 us
        end
  end.

(* strconv.ParseUint(s, 0, bits), bits in 1..64; intconv.ParseUint *)
Definition parse_uint (s : bytes) (bits : N) : option N :=
  match s with
  | [] => None
  | c0 :: r0 =>
      let '(base, body) :=
        if c0 =? c_0 then
          match r0 with
          | c1 :: r1 =>
              if Nat.leb 3 (length s) && (lower c1 =? c_b) then (2, r1)
              else if Nat.leb 3 (length s) && (lower c1 =? c_o) then (8, r1)
              else if Nat.leb 3 (length s) && (lower c1 =? c_x) then (16, r1)
              else (8, r0)
          | [] => (8, r0)
          end
        else (10, s) in
      let cutoff := max_uint64 / base + 1 in
      let maxval := 2 ^ bits - 1 in
      match parse_uint_loop base cutoff maxval body 0 false with
      | None => None
      | Some (n, us) => if us && negb (underscore_ok s) then None else Some n
      end
  end.

(* strconv.ParseInt(s, 0, bits); intconv.ParseInt.  A range error of
   ParseUint yields un = maxVal >= cutoff, hence again an error. *)
Definition parse_int (s : bytes) (bits : N) : option Z :=
  match s with
  | [] => None
  | c :: r =>
      let neg := c =? c_minus in
      let body := if (c =? c_plus) || (c =? c_minus) then r else s in
      match parse_uint body bits with
      | None => None
      | Some un =>
          let cutoff := 2 ^ (bits - 1) in
          if negb neg && (cutoff <=? un) then None
          else if neg && (cutoff <? un) then None
          else Some (if neg then (- Z.of_N un)%Z else Z.of_N un)
      end
  end.
