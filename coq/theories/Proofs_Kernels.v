(* Proofs_Kernels.v -- umbrella: re-exports the characterising lemmas of every kernel
   that tools/go2coq re-generates from /repo (theories/gen/K_<name>.v, one file per
   line of tools/go2coq/kernels.list).

   The lemmas live in one file per kernel, Proofs_K_<name>.v, each importing only its
   own gen/K_<name>.v (lemmas relating several kernels are in Proofs_KX_<topic>.v and
   import exactly the kernels they relate).  Each lemma states, in plain arithmetic,
   exactly what the CURRENT Go code decides; editing a comparison, a constant or an
   operator in the Go source changes the generated definition and the lemma of THAT
   kernel stops compiling -- and with it only the property files that import it.

   Property developments (Link_Cxx.v, Proofs_*.v, Prop_Cxx.v) must import the
   per-kernel files they use, NOT this umbrella: importing it would make every
   property depend on every kernel.  See docs/notes/kernel_linking.md. *)
From Goloop Require Export Proofs_K_tactics.
From Goloop Require Export Proofs_K_enoughVote.
From Goloop Require Export Proofs_K_hasOverTwoThirds.
From Goloop Require Export Proofs_K_overTwoThirdsDecision.
From Goloop Require Export Proofs_KX_thresholds_agree.
From Goloop Require Export Proofs_K_matchNID.
From Goloop Require Export Proofs_K_isValidTransition.
From Goloop Require Export Proofs_K_getProposerIndex.
From Goloop Require Export Proofs_K_psidAppData.
From Goloop Require Export Proofs_K_destructPSIDAppData.
From Goloop Require Export Proofs_KX_psidAppData_roundtrip.
From Goloop Require Export Proofs_K_CheckTxTimestamp.
From Goloop Require Export Proofs_K_timestampRangeMin.
From Goloop Require Export Proofs_K_timestampRangeMax.
From Goloop Require Export Proofs_KX_timestampRange_window.
From Goloop Require Export Proofs_K_trackerHasGuard.
From Goloop Require Export Proofs_K_locatorCacheMiss.
From Goloop Require Export Proofs_K_LevelFromLen.
From Goloop Require Export Proofs_K_powerOf16.
From Goloop Require Export Proofs_K_minProofLenForKey.
From Goloop Require Export Proofs_K_rlpCountBytesForSize.
From Goloop Require Export Proofs_K_onPacketIsOneHop.
From Goloop Require Export Proofs_K_onPacketIsBroadcast.
From Goloop Require Export Proofs_KX_onPacket_exclusive.
From Goloop Require Export Proofs_K_onPacketDropOneHop.
From Goloop Require Export Proofs_K_onPacketDropBroadcast.
From Goloop Require Export Proofs_K_peerRoleHas.
From Goloop Require Export Proofs_K_newPacketDestInfo.
From Goloop Require Export Proofs_K_packetDestInfoDest.
From Goloop Require Export Proofs_KX_packetDestInfo_roundtrip.
From Goloop Require Export Proofs_K_newPacketExtendInfo.
From Goloop Require Export Proofs_K_packetExtendInfoHint.
From Goloop Require Export Proofs_K_packetExtendInfoLen.
From Goloop Require Export Proofs_KX_packetExtendInfo_roundtrip.
From Goloop Require Export Proofs_K_ntmNotEnoughParts.
From Goloop Require Export Proofs_KX_ntm_threshold.
From Goloop Require Export Proofs_K_ntmPartIndexOutOfRange.
