(* Proofs_Kernels.v -- the characterising lemma of every kernel that
   tools/go2coq re-generates from /repo (theories/gen/K_<name>.v, one file per
   line of tools/go2coq/kernels.list).

   Each lemma states, in plain arithmetic, exactly what the CURRENT Go code
   decides; property theorems depend on these lemmas and never on the shape of
   the generated text.  Editing a comparison, a constant or an operator in the
   Go source changes the generated definition and the lemma below stops
   compiling.
   Style: stdlib only; arithmetic closed by lia with the euclidean-division hook. *)
From Coq Require Import ZArith Bool String List Lia.
From Coq Require Import ZifyBool.
From Goloop Require Import lib.GoInt.
From Goloop.gen Require Import
  K_enoughVote K_matchNID K_isValidTransition K_hasOverTwoThirds K_overTwoThirdsDecision
  K_getProposerIndex K_psidAppData K_destructPSIDAppData
  K_CheckTxTimestamp K_timestampRangeMin K_timestampRangeMax
  K_trackerHasGuard K_locatorCacheMiss
  K_LevelFromLen K_powerOf16 K_minProofLenForKey
  K_rlpCountBytesForSize
  K_onPacketIsOneHop K_onPacketIsBroadcast K_onPacketDropOneHop K_onPacketDropBroadcast
  K_peerRoleHas K_newPacketDestInfo K_packetDestInfoDest
  K_newPacketExtendInfo K_packetExtendInfoHint K_packetExtendInfoLen
  K_ntmNotEnoughParts K_ntmPartIndexOutOfRange.
Import ListNotations.
Local Open Scope Z_scope.

Ltac Zify.zify_post_hook ::= Z.to_euclidean_division_equations.

(* half of the int range: n*2 does not overflow *)
Notation half_i64 := 4611686018427387903 (only parsing).

Local Ltac split_ifs :=
  repeat match goal with
         | |- context [if ?c then _ else _] => destruct c eqn:?
         end.

(* Shape-independent closing tactic: after unfolding the kernel, case-split its
   conditionals, expand every wrap into `mod` by a literal and let lia (with the
   euclidean-division hook: Z.quot, Z.rem, /, mod by literals) finish.  Proofs
   closed this way survive semantics-preserving edits of the Go source (renamed
   locals, `n*2/3` rewritten as `2*n/3`, reordered tests) and break exactly when
   the decision changes. *)
Local Ltac kernel_lia := intros; cbv zeta; split_ifs; wrap_unfold; lia.

(* ========================================================================= *)
(* consensus: vote thresholds                                                 *)
(* ========================================================================= *)

Lemma enoughVote_spec voted voters :
  0 <= voters <= half_i64 ->
  enoughVote voted voters = true <-> (voters = 0 \/ 3 * voted > 2 * voters).
Proof. unfold enoughVote. kernel_lia. Qed.

Lemma enoughVote_params_ok : enoughVote_params = ["voted"; "voters"]%string.
Proof. reflexivity. Qed.

Lemma hasOverTwoThirds_spec count n :
  0 <= n <= half_i64 ->
  hasOverTwoThirds count n = true <-> 3 * count > 2 * n.
Proof. unfold hasOverTwoThirds. kernel_lia. Qed.

Lemma hasOverTwoThirds_params_ok : hasOverTwoThirds_params = ["vs.count"; "len(vs.msgs)"]%string.
Proof. reflexivity. Qed.

(* the test inside getOverTwoThirdsRoundDecisionDigest: the best counter vs the same bound *)
Lemma overTwoThirdsDecision_spec max n :
  0 <= n <= half_i64 ->
  overTwoThirdsDecision max n = true <-> 3 * max > 2 * n.
Proof. unfold overTwoThirdsDecision. kernel_lia. Qed.

Lemma overTwoThirdsDecision_params_ok : overTwoThirdsDecision_params = ["max"; "len(vs.msgs)"]%string.
Proof. reflexivity. Qed.

(* all three consensus thresholds are the same predicate *)
Lemma thresholds_agree x n :
  0 < n <= half_i64 ->
  enoughVote x n = hasOverTwoThirds x n /\ hasOverTwoThirds x n = overTwoThirdsDecision x n.
Proof.
  intros Hn. split; apply bool_eq_iff.
  - rewrite enoughVote_spec, hasOverTwoThirds_spec by lia. lia.
  - rewrite hasOverTwoThirds_spec, overTwoThirdsDecision_spec by lia. lia.
Qed.

(* two sets both over two thirds of n intersect: the quorum-intersection arithmetic *)
Lemma over_two_thirds_intersect a b n :
  0 <= n <= half_i64 -> a <= n -> b <= n ->
  hasOverTwoThirds a n = true -> hasOverTwoThirds b n = true -> 3 * (a + b - n) > n.
Proof. intros Hn Ha Hb. rewrite !hasOverTwoThirds_spec by lia. lia. Qed.

Example enoughVote_boundary :
  enoughVote 14 21 = false /\ enoughVote 15 21 = true /\ enoughVote 2 3 = false /\
  enoughVote 3 4 = true /\ enoughVote 0 0 = true.
Proof. repeat split; reflexivity. Qed.

(* ---------------------------------------------------------------- matchNID *)

Lemma matchNID_spec nid1 nid2 :
  matchNID nid1 nid2 = true <-> (nid1 = 0 \/ nid2 = 0 \/ nid1 = nid2).
Proof. unfold matchNID. kernel_lia. Qed.

Lemma matchNID_sym nid1 nid2 : matchNID nid1 nid2 = matchNID nid2 nid1.
Proof. apply bool_eq_iff. rewrite !matchNID_spec. lia. Qed.

(* ------------------------------------------------------- isValidTransition *)

(* step constants (consensus/step.go iota block), as resolved by the translator:
   stepNewHeight = 0, stepNewRound = 2, stepCommit = 8 *)
Lemma isValidTransition_spec from to :
  isValidTransition from to = true <->
  (to = 0 /\ (from = 0 \/ from = 8)) \/ to = 2 \/ (to <> 0 /\ to <> 2 /\ from < to).
Proof. unfold isValidTransition. kernel_lia. Qed.

(* within one round (no return to NewHeight / NewRound) steps only move forward *)
Lemma isValidTransition_forward from to :
  isValidTransition from to = true -> to <> 0 -> to <> 2 -> from < to.
Proof. rewrite isValidTransition_spec. lia. Qed.

(* ---------------------------------------------------------- getProposerIndex *)

Lemma getProposerIndex_spec height round n :
  0 <= height -> 0 <= round -> height + round <= max_i64 -> 0 < n <= max_i64 ->
  getProposerIndex height round n = (height + round) mod n.
Proof.
  intros. unfold getProposerIndex. rewrite !wrap_i64_small by lia.
  apply rem_nonneg; lia.
Qed.

Lemma getProposerIndex_range height round n :
  0 <= height -> 0 <= round -> height + round <= max_i64 -> 0 < n <= max_i64 ->
  0 <= getProposerIndex height round n < n.
Proof. intros. rewrite getProposerIndex_spec by lia. apply Z.mod_pos_bound. lia. Qed.

Lemma getProposerIndex_params_ok :
  getProposerIndex_params = ["height"; "round"; "validators.Len()"]%string.
Proof. reflexivity. Qed.

(* ----------------------------------------------------------- psid app data *)

Lemma psidAppData_spec nid cnt :
  0 <= nid <= max_u32 -> 0 <= cnt <= max_u16 ->
  psidAppData nid cnt = nid * 65536 + cnt.
Proof.
  intros Hn Hc. unfold psidAppData.
  assert (Hs : Z.shiftl nid 16 = nid * 65536) by (rewrite shiftl_mul by lia; reflexivity).
  rewrite (wrap_u64_small (Z.shiftl nid 16)) by (rewrite Hs; lia).
  rewrite lor_shiftl_low by (change (2 ^ 16) with 65536; lia). reflexivity.
Qed.

Lemma destructPSIDAppData_spec a :
  0 <= a <= max_u64 ->
  destructPSIDAppData a = ((a / 65536) mod 4294967296, a mod 65536).
Proof.
  intros Ha. unfold destructPSIDAppData. cbv zeta.
  rewrite shiftr_div by lia. reflexivity.
Qed.

Lemma psidAppData_roundtrip nid cnt :
  0 <= nid <= max_u32 -> 0 <= cnt <= max_u16 ->
  destructPSIDAppData (psidAppData nid cnt) = (nid, cnt).
Proof.
  intros Hn Hc. rewrite psidAppData_spec by lia.
  rewrite destructPSIDAppData_spec by lia. f_equal; lia.
Qed.

(* ========================================================================= *)
(* service: transaction timestamp window                                      *)
(* ========================================================================= *)

Lemma CheckTxTimestamp_spec min max ts :
  CheckTxTimestamp min max ts = ENil <-> min < ts <= max.
Proof.
  unfold CheckTxTimestamp. cbv zeta. split_ifs; split; intro H; try discriminate; try lia; reflexivity.
Qed.

Lemma CheckTxTimestamp_expired min max ts :
  CheckTxTimestamp min max ts = EErr "ExpiredTransactionError" <-> ts <= min.
Proof.
  unfold CheckTxTimestamp. cbv zeta. split_ifs; split; intro H; try discriminate; try lia; reflexivity.
Qed.

Lemma CheckTxTimestamp_future min max ts :
  CheckTxTimestamp min max ts = EErr "FutureTransactionError" <-> min < ts /\ max < ts.
Proof.
  unfold CheckTxTimestamp. cbv zeta. split_ifs; split; intro H; try discriminate; try lia; reflexivity.
Qed.

Lemma CheckTxTimestamp_params_ok :
  CheckTxTimestamp_params = ["min"; "max"; "tx.Timestamp()"]%string.
Proof. reflexivity. Qed.

Lemma timestampRangeMin_spec bts th :
  min_i64 <= bts - th <= max_i64 -> timestampRangeMin bts th = bts - th.
Proof. unfold timestampRangeMin. kernel_lia. Qed.

Lemma timestampRangeMax_spec bts th :
  min_i64 <= bts + th <= max_i64 -> timestampRangeMax bts th = bts + th.
Proof. unfold timestampRangeMax. kernel_lia. Qed.

(* NewTimestampRange(bts, th).CheckTx accepts exactly the window (bts-th, bts+th] *)
Lemma timestampRange_window bts th ts :
  min_i64 <= bts - th <= max_i64 -> min_i64 <= bts + th <= max_i64 ->
  CheckTxTimestamp (timestampRangeMin bts th) (timestampRangeMax bts th) ts = ENil
  <-> bts - th < ts <= bts + th.
Proof.
  intros. rewrite timestampRangeMin_spec, timestampRangeMax_spec by lia.
  apply CheckTxTimestamp_spec.
Qed.

(* ---------------------------------------------------------------- txlocator *)

(* tracker.Has: `ts >= t.list.ts + t.list.th` -- the transaction is too new for this list *)
Lemma trackerHasGuard_spec ts lts lth :
  min_i64 <= lts + lth <= max_i64 ->
  trackerHasGuard ts lts lth = true <-> lts + lth <= ts.
Proof. unfold trackerHasGuard. kernel_lia. Qed.

Lemma trackerHasGuard_params_ok :
  trackerHasGuard_params = ["ts"; "t.list.ts"; "t.list.th"]%string.
Proof. reflexivity. Qed.

(* manager.hasLocatorInCache: a known maximum timestamp in the DB below ts means "not in DB" *)
Lemma locatorCacheMiss_spec maxTS ts :
  locatorCacheMiss maxTS ts = true <-> maxTS <> 0 /\ maxTS < ts.
Proof. unfold locatorCacheMiss. kernel_lia. Qed.

Lemma locatorCacheMiss_params_ok :
  locatorCacheMiss_params = ["m.cache[group].maxTSInDB"; "ts"]%string.
Proof. reflexivity. Qed.

(* ========================================================================= *)
(* icon/merkle/hexary                                                         *)
(* ========================================================================= *)

Lemma LevelFromLen_0 : LevelFromLen 0 = 0.
Proof. reflexivity. Qed.

(* LevelFromLen len is the least L with len <= 16^L *)
Lemma LevelFromLen_spec len :
  1 <= len <= max_i64 ->
  0 <= LevelFromLen len <= 16 /\
  len <= 16 ^ LevelFromLen len /\
  (0 < LevelFromLen len -> 16 ^ (LevelFromLen len - 1) < len).
Proof.
  intros Hl. unfold LevelFromLen. destruct (len =? 0) eqn:E; [lia|].
  rewrite (wrap_u64_small len) by lia. rewrite wrap_u64_small by lia.
  destruct (Z.eq_dec len 1) as [->|Hne].
  { cbn. lia. }
  assert (Hpos : 0 < len - 1) by lia.
  pose proof (bits_len64_spec (len - 1) Hpos) as [Hlo Hhi].
  pose proof (bits_len64_le_64 (len - 1) ltac:(lia)) as Hle.
  assert (Hb1 : 1 <= bits_len64 (len - 1)).
  { unfold bits_len64. destruct (len - 1 <=? 0) eqn:E2; [lia|].
    pose proof (Z.log2_nonneg (len - 1)). lia. }
  set (b := bits_len64 (len - 1)) in *.
  rewrite (wrap_int_small (b + 3)) by lia.
  rewrite quot_nonneg by lia. rewrite wrap_int_small by lia.
  set (L := (b + 3) / 4).
  assert (HL : 4 * L - 3 <= b <= 4 * L) by (subst L; lia).
  assert (H16 : forall k, 0 <= k -> 16 ^ k = 2 ^ (4 * k)).
  { intros k Hk. change 16 with (2 ^ 4). rewrite <- Z.pow_mul_r by lia. reflexivity. }
  split; [lia|]. split.
  - rewrite H16 by lia.
    assert (2 ^ b <= 2 ^ (4 * L)) by (apply Z.pow_le_mono_r; lia). lia.
  - intros HLpos. rewrite H16 by lia.
    assert (2 ^ (4 * (L - 1)) <= 2 ^ (b - 1)) by (apply Z.pow_le_mono_r; lia). lia.
Qed.

(* ---------------------------------------------------------------- powerOf16 *)

Definition is_pow16 (n : Z) : Prop := exists k, 0 <= k /\ n = 16 ^ k.

Lemma is_pow16_step n :
  15 < n -> (is_pow16 n <-> n mod 16 = 0 /\ is_pow16 (n / 16)).
Proof.
  intros Hn. split.
  - intros [k [Hk ->]].
    assert (k <> 0) by (intros ->; cbn in Hn; lia).
    replace k with (Z.succ (k - 1)) by lia. rewrite Z.pow_succ_r by lia.
    split.
    + rewrite Z.mul_comm. apply Z.mod_mul. lia.
    + exists (k - 1). split; [lia|]. rewrite Z.mul_comm. rewrite Z.div_mul by lia. reflexivity.
  - intros [Hm [k [Hk He]]]. exists (k + 1). split; [lia|].
    rewrite Z.pow_add_r by lia. rewrite <- He. change (16 ^ 1) with 16. lia.
Qed.

Lemma is_pow16_small n : 0 <= n <= 15 -> (is_pow16 n <-> n = 1).
Proof.
  intros Hn. split.
  - intros [k [Hk ->]]. destruct (Z.eq_dec k 0) as [->|]; [reflexivity|].
    assert (16 ^ 1 <= 16 ^ k) by (apply Z.pow_le_mono_r; lia). change (16 ^ 1) with 16 in *. lia.
  - intros ->. exists 0. split; [lia|reflexivity].
Qed.

Lemma powerOf16_loop1_spec fuel : forall n,
  0 <= n < 16 * 16 ^ Z.of_nat fuel ->
  (exists m, powerOf16_loop1 (S fuel) n = Some (inr m) /\ 0 <= m <= 15 /\ (is_pow16 n <-> m = 1)) \/
  (powerOf16_loop1 (S fuel) n = Some (inl false) /\ ~ is_pow16 n).
Proof.
  induction fuel as [|fuel IH]; intros n Hn.
  - change (16 ^ Z.of_nat 0) with 1 in Hn. cbn [powerOf16_loop1].
    destruct (n >? 15) eqn:E; [lia|].
    left. exists n. split; [reflexivity|]. split; [lia|]. apply is_pow16_small. lia.
  - remember (S fuel) as f eqn:Hf. cbn [powerOf16_loop1]. destruct (n >? 15) eqn:E.
    + assert (H15 : 15 < n) by lia.
      change 15 with (2 ^ 4 - 1). rewrite land_ones_mod by lia. change (2 ^ 4) with 16.
      rewrite shiftr_div by lia. change (2 ^ 4) with 16.
      destruct (negb (n mod 16 =? 0)) eqn:E2.
      * right. split; [reflexivity|]. rewrite is_pow16_step by lia. lia.
      * assert (Hm : n mod 16 = 0) by lia.
        assert (Hr : 0 <= n / 16 < 16 * 16 ^ Z.of_nat fuel).
        { subst f. rewrite Nat2Z.inj_succ, Z.pow_succ_r in Hn by lia. lia. }
        subst f.
        destruct (IH (n / 16) Hr) as [[m [He [Hm15 Hiff]]]|[He Hnot]].
        -- left. exists m. split; [exact He|]. split; [exact Hm15|].
           rewrite is_pow16_step by lia. tauto.
        -- right. split; [exact He|]. rewrite is_pow16_step by lia. tauto.
    + left. exists n. split; [reflexivity|]. split; [lia|]. apply is_pow16_small. lia.
Qed.

(* 17 rounds of fuel suffice for every uint64; the result is "n is a power of 16" *)
Lemma powerOf16_spec fuel n :
  (17 <= fuel)%nat -> 0 <= n <= max_u64 ->
  exists b, powerOf16 fuel n = Some b /\ (b = true <-> is_pow16 n).
Proof.
  intros Hf Hn. destruct fuel as [|fuel]; [lia|].
  assert (Hlt : 0 <= n < 16 * 16 ^ Z.of_nat fuel).
  { split; [lia|]. assert (16 ^ 16 <= 16 ^ Z.of_nat fuel) by (apply Z.pow_le_mono_r; lia).
    change (16 ^ 16) with 18446744073709551616 in *. lia. }
  unfold powerOf16.
  destruct (powerOf16_loop1_spec fuel n Hlt) as [[m [He [Hm Hiff]]]|[He Hnot]]; rewrite He.
  - exists (m =? 1). split; [reflexivity|]. rewrite Hiff. lia.
  - exists false. split; [reflexivity|]. split; [discriminate|tauto].
Qed.

Example powerOf16_examples :
  powerOf16 17 1 = Some true /\ powerOf16 17 16 = Some true /\ powerOf16 17 4096 = Some true /\
  powerOf16 17 0 = Some false /\ powerOf16 17 32 = Some false /\ powerOf16 17 17 = Some false /\
  powerOf16 17 1152921504606846976 = Some true.
Proof. repeat split; vm_compute; reflexivity. Qed.

(* -------------------------------------------------------- minProofLenForKey *)

(* the scalar skeleton: the capped value of (tz + 3)/4 - 1, where tz is the number of
   trailing zero bits of ^uint64(key ^ (key-1)) *)
Definition minProofLen_tz (key : Z) : Z :=
  bits_tz64 (wrap_u64 (Z.lnot (wrap_u64 (Z.lxor key (wrap_i64 (key - 1)))))).

Lemma minProofLenForKey_spec key level :
  0 <= level <= max_i64 ->
  minProofLenForKey key level = Z.min level ((minProofLen_tz key + 3) / 4 - 1).
Proof.
  intros Hl. unfold minProofLenForKey. fold (minProofLen_tz key).
  pose proof (bits_tz64_range (wrap_u64 (Z.lnot (wrap_u64 (Z.lxor key (wrap_i64 (key - 1))))))
                (wrap_u64_range _)) as Htz.
  fold (minProofLen_tz key) in Htz.
  rewrite (wrap_int_small (minProofLen_tz key + 3)) by lia.
  rewrite quot_nonneg by lia. rewrite (wrap_int_small (_ / 4)) by lia.
  rewrite wrap_int_small by lia. cbv zeta. split_ifs; lia.
Qed.

Lemma minProofLenForKey_le_level key level :
  0 <= level <= max_i64 -> minProofLenForKey key level <= level.
Proof. intros. rewrite minProofLenForKey_spec by lia. lia. Qed.

Lemma minProofLen_tz_pow2_odd t r :
  0 <= t -> 0 <= r -> 2 ^ t * (2 * r + 1) <= max_i64 ->
  minProofLen_tz (2 ^ t * (2 * r + 1)) = t + 1.
Proof.
  intros Ht Hr Hmax.
  assert (Hp : 0 < 2 ^ t) by (apply Z.pow_pos_nonneg; lia).
  assert (Hk : 1 <= 2 ^ t * (2 * r + 1)) by nia.
  assert (Ht62 : t <= 62).
  { destruct (Z_le_gt_dec t 62); [assumption|].
    assert (2 ^ 63 <= 2 ^ t) by (apply Z.pow_le_mono_r; lia).
    change (2 ^ 63) with 9223372036854775808 in *. nia. }
  assert (Hle : 2 ^ (t + 1) <= 2 ^ 63) by (apply Z.pow_le_mono_r; lia).
  change (2 ^ 63) with 9223372036854775808 in Hle.
  assert (Hp1 : 0 < 2 ^ (t + 1)) by (apply Z.pow_pos_nonneg; lia).
  unfold minProofLen_tz.
  rewrite wrap_i64_small by lia. rewrite lxor_pred_pow2_odd by lia.
  rewrite (wrap_u64_small (2 ^ (t + 1) - 1)) by lia.
  replace (Z.lnot (2 ^ (t + 1) - 1)) with (- 2 ^ (t + 1)) by (unfold Z.lnot; lia).
  assert (E64 : 18446744073709551616 = 2 ^ (t + 1) * (2 * 2 ^ (62 - t))).
  { change 18446744073709551616 with (2 ^ 64).
    replace 64 with ((t + 1) + (1 + (62 - t))) by lia.
    rewrite (Z.pow_add_r 2 (t + 1)) by lia. rewrite (Z.pow_add_r 2 1) by lia. reflexivity. }
  assert (Hq : 0 < 2 ^ (62 - t)) by (apply Z.pow_pos_nonneg; lia).
  assert (Ew : wrap_u64 (- 2 ^ (t + 1)) = 2 ^ (t + 1) * (2 * (2 ^ (62 - t) - 1) + 1)).
  { unfold wrap_u64.
    replace (- 2 ^ (t + 1)) with (18446744073709551616 - 2 ^ (t + 1) + (-1) * 18446744073709551616) by lia.
    rewrite Z.mod_add by lia. rewrite Z.mod_small by lia.
    rewrite E64 at 1. lia. }
  rewrite Ew. apply bits_tz64_pow2_odd. lia.
Qed.

(* the meaning: with key = 2^t * odd (t trailing zero bits), the minimal proof length is
   the number of whole trailing zero hex digits of key, capped by the tree level *)
Lemma minProofLenForKey_trailing_zeros key level t r :
  0 <= level <= max_i64 -> 0 <= t -> 0 <= r ->
  key = 2 ^ t * (2 * r + 1) -> key <= max_i64 ->
  minProofLenForKey key level = Z.min level (t / 4).
Proof.
  intros Hl Ht Hr -> Hk. rewrite minProofLenForKey_spec by lia.
  rewrite minProofLen_tz_pow2_odd by lia. lia.
Qed.

Lemma minProofLenForKey_key0 level :
  0 <= level <= max_i64 -> minProofLenForKey 0 level = Z.min level 15.
Proof. intros Hl. rewrite minProofLenForKey_spec by lia. reflexivity. Qed.

Lemma minProofLenForKey_params_ok : minProofLenForKey_params = ["key"; "sa.level"]%string.
Proof. reflexivity. Qed.

Example minProofLenForKey_examples :
  minProofLenForKey 1 5 = 0 /\ minProofLenForKey 15 5 = 0 /\ minProofLenForKey 16 5 = 1 /\
  minProofLenForKey 48 5 = 1 /\ minProofLenForKey 256 5 = 2 /\ minProofLenForKey 4096 2 = 2 /\
  minProofLenForKey 0 5 = 5 /\ minProofLenForKey 0 20 = 15.
Proof. repeat split; vm_compute; reflexivity. Qed.

(* ========================================================================= *)
(* common/containerdb: rlpCountBytesForSize                                   *)
(* ========================================================================= *)

Lemma rlpCount_loop1_spec fuel : forall b cnt,
  0 <= b < 256 ^ Z.of_nat fuel -> 0 <= cnt -> cnt + Z.of_nat fuel <= max_i64 ->
  exists b' cnt', rlpCountBytesForSize_loop1 (S fuel) b cnt = Some (b', cnt') /\
    cnt <= cnt' <= cnt + Z.of_nat fuel /\ b < 256 ^ (cnt' - cnt) /\
    (cnt < cnt' -> 256 ^ (cnt' - cnt - 1) <= b).
Proof.
  induction fuel as [|fuel IH]; intros b cnt Hb Hc Hf.
  - change (256 ^ Z.of_nat 0) with 1 in Hb. cbn [rlpCountBytesForSize_loop1].
    destruct (b >? 0) eqn:E; [lia|].
    exists b, cnt. split; [reflexivity|]. split; [lia|].
    replace (cnt - cnt) with 0 by lia. cbn. lia.
  - remember (S fuel) as f eqn:Hfe. cbn [rlpCountBytesForSize_loop1]. destruct (b >? 0) eqn:E.
    + rewrite shiftr_div by lia. change (2 ^ 8) with 256.
      rewrite wrap_int_small by lia.
      assert (Hr : 0 <= b / 256 < 256 ^ Z.of_nat fuel).
      { subst f. rewrite Nat2Z.inj_succ, Z.pow_succ_r in Hb by lia. lia. }
      subst f.
      destruct (IH (b / 256) (cnt + 1) Hr ltac:(lia) ltac:(lia)) as [b' [cnt' [He [Hc' [Hlt Hge]]]]].
      exists b', cnt'. split; [exact He|]. split; [lia|].
      replace (cnt' - cnt) with (Z.succ (cnt' - (cnt + 1))) by lia.
      rewrite Z.pow_succ_r by lia. split; [lia|].
      intros _. replace (Z.succ (cnt' - (cnt + 1)) - 1) with (cnt' - (cnt + 1)) by lia.
      destruct (Z.eq_dec cnt' (cnt + 1)) as [->|Hne].
      * replace (cnt + 1 - (cnt + 1)) with 0 by lia. cbn. lia.
      * specialize (Hge ltac:(lia)).
        replace (cnt' - (cnt + 1)) with (Z.succ (cnt' - (cnt + 1) - 1)) by lia.
        rewrite Z.pow_succ_r by lia. lia.
    + exists b, cnt. split; [reflexivity|]. split; [lia|].
      replace (cnt - cnt) with 0 by lia. cbn. lia.
Qed.

(* the number of bytes of the big-endian representation of b (1 for b = 0) *)
Lemma rlpCountBytesForSize_spec fuel b :
  (8 <= fuel <= 1000)%nat -> 0 <= b <= max_i64 ->
  exists c, rlpCountBytesForSize fuel b = Some c /\
    1 <= c <= 8 /\ b < 256 ^ c /\ (1 < c -> 256 ^ (c - 1) <= b).
Proof.
  intros Hf Hb. destruct fuel as [|fuel]; [lia|].
  unfold rlpCountBytesForSize. cbv zeta.
  rewrite shiftr_div by lia. change (2 ^ 8) with 256.
  assert (Hr : 0 <= b / 256 < 256 ^ Z.of_nat fuel).
  { split; [lia|]. assert (256 ^ 7 <= 256 ^ Z.of_nat fuel) by (apply Z.pow_le_mono_r; lia).
    change (256 ^ 7) with 72057594037927936 in *. lia. }
  destruct (rlpCount_loop1_spec fuel (b / 256) 1 Hr ltac:(lia) ltac:(lia)) as [b' [c [He [Hc [Hlt Hge]]]]].
  rewrite He. exists c. split; [reflexivity|].
  assert (Hpow : b < 256 ^ c).
  { replace c with (Z.succ (c - 1)) by lia. rewrite Z.pow_succ_r by lia. lia. }
  assert (Hc8 : c <= 8).
  { destruct (Z_le_gt_dec c 8); [assumption|].
    specialize (Hge ltac:(lia)).
    assert (256 ^ 7 <= 256 ^ (c - 1 - 1)) by (apply Z.pow_le_mono_r; lia).
    change (256 ^ 7) with 72057594037927936 in *. lia. }
  split; [lia|]. split; [exact Hpow|].
  intros Hc1. specialize (Hge ltac:(lia)).
  replace (c - 1) with (Z.succ (c - 1 - 1)) by lia. rewrite Z.pow_succ_r by lia. lia.
Qed.

Example rlpCountBytesForSize_examples :
  rlpCountBytesForSize 8 0 = Some 1 /\ rlpCountBytesForSize 8 255 = Some 1 /\
  rlpCountBytesForSize 8 256 = Some 2 /\ rlpCountBytesForSize 8 65535 = Some 2 /\
  rlpCountBytesForSize 8 65536 = Some 3 /\ rlpCountBytesForSize 8 9223372036854775807 = Some 8.
Proof. repeat split; vm_compute; reflexivity. Qed.

(* ========================================================================= *)
(* network: onPacket decisions, role flags, packet info words                 *)
(* ========================================================================= *)

(* p2pDestPeer = 0xFF, p2pDestAny = 0x00 (resolved from network/packet.go) *)
Lemma onPacketIsOneHop_spec ttl dest :
  onPacketIsOneHop ttl dest = true <-> (ttl <> 0 \/ dest = 255).
Proof. unfold onPacketIsOneHop. kernel_lia. Qed.

Lemma onPacketIsOneHop_params_ok : onPacketIsOneHop_params = ["pkt.ttl"; "pkt.dest"]%string.
Proof. reflexivity. Qed.

Lemma onPacketIsBroadcast_spec dest ttl :
  onPacketIsBroadcast dest ttl = true <-> (dest = 0 /\ ttl = 0).
Proof. unfold onPacketIsBroadcast. kernel_lia. Qed.

Lemma onPacketIsBroadcast_params_ok : onPacketIsBroadcast_params = ["pkt.dest"; "pkt.ttl"]%string.
Proof. reflexivity. Qed.

(* a packet is never both a one-hop packet and a broadcast *)
Lemma onPacket_oneHop_broadcast_exclusive ttl dest :
  onPacketIsBroadcast dest ttl = true -> onPacketIsOneHop ttl dest = false.
Proof.
  rewrite onPacketIsBroadcast_spec. intros [-> ->]. reflexivity.
Qed.

(* drop rule 1: a one-hop packet must come from the peer that sent it *)
Lemma onPacketDropOneHop_spec isOneHop isSourcePeer :
  onPacketDropOneHop isOneHop isSourcePeer = true <-> (isOneHop = true /\ isSourcePeer = false).
Proof. unfold onPacketDropOneHop. destruct isOneHop, isSourcePeer; cbn; intuition congruence. Qed.

Lemma onPacketDropOneHop_params_ok : onPacketDropOneHop_params = ["isOneHop"; "isSourcePeer"]%string.
Proof. reflexivity. Qed.

(* drop rule 2: a broadcast whose source is the sending peer needs the root (validator) role *)
Lemma onPacketDropBroadcast_spec isBroadcast isSourcePeer hasRoot :
  onPacketDropBroadcast isBroadcast isSourcePeer hasRoot = true <->
  (isBroadcast = true /\ isSourcePeer = true /\ hasRoot = false).
Proof.
  unfold onPacketDropBroadcast. destruct isBroadcast, isSourcePeer, hasRoot; cbn; intuition congruence.
Qed.

Lemma onPacketDropBroadcast_params_ok :
  onPacketDropBroadcast_params = ["isBroadcast"; "isSourcePeer"; "p.HasRole(p2pRoleRoot)"]%string.
Proof. reflexivity. Qed.

Lemma peerRoleHas_spec pr o : peerRoleHas pr o = true <-> Z.land pr o = o.
Proof. unfold peerRoleHas. apply Z.eqb_eq. Qed.

Lemma peerRoleHas_bits pr o :
  peerRoleHas pr o = true <->
  (forall n, 0 <= n -> Z.testbit o n = true -> Z.testbit pr n = true).
Proof.
  rewrite peerRoleHas_spec. split.
  - intros H n Hn Ho. rewrite <- H in Ho. rewrite Z.land_spec in Ho.
    apply andb_true_iff in Ho. tauto.
  - intros H. apply Z.bits_inj'. intros n Hn. rewrite Z.land_spec.
    destruct (Z.testbit o n) eqn:Eo.
    + rewrite (H n Hn Eo). reflexivity.
    + apply andb_false_r.
Qed.

Lemma newPacketDestInfo_spec dest ttl :
  0 <= dest <= max_u8 -> 0 <= ttl <= max_u8 ->
  newPacketDestInfo dest ttl = dest * 256 + ttl.
Proof.
  intros Hd Ht. unfold newPacketDestInfo.
  rewrite (wrap_int_small (Z.shiftl dest 8))
    by (rewrite shiftl_mul by lia; change (2 ^ 8) with 256; lia).
  rewrite lor_shiftl_low by (change (2 ^ 8) with 256; lia).
  change (2 ^ 8) with 256. apply wrap_u16_small. lia.
Qed.

Lemma packetDestInfoDest_roundtrip dest ttl :
  0 <= dest <= max_u8 -> 0 <= ttl <= max_u8 ->
  packetDestInfoDest (newPacketDestInfo dest ttl) = dest.
Proof.
  intros Hd Ht. rewrite newPacketDestInfo_spec by lia. unfold packetDestInfoDest.
  rewrite shiftr_div by lia. change (2 ^ 8) with 256.
  replace ((dest * 256 + ttl) / 256) with dest by lia. apply wrap_u8_small. lia.
Qed.

(* packetExtendMaxHint = 0x3F, packetExtendMaxLen = 0x03FF *)
Lemma newPacketExtendInfo_spec hint len :
  0 <= hint <= 63 ->
  newPacketExtendInfo hint len = hint * 1024 + len mod 1024.
Proof.
  intros Hh. unfold newPacketExtendInfo.
  change 1023 with (2 ^ 10 - 1). rewrite land_ones_mod by lia. change (2 ^ 10) with 1024.
  rewrite (wrap_int_small (Z.shiftl hint 10))
    by (rewrite shiftl_mul by lia; change (2 ^ 10) with 1024; lia).
  rewrite lor_shiftl_low by (change (2 ^ 10) with 1024; lia).
  change (2 ^ 10) with 1024. apply wrap_u16_small. lia.
Qed.

Lemma packetExtendInfo_roundtrip hint len :
  0 <= hint <= 63 ->
  packetExtendInfoHint (newPacketExtendInfo hint len) = hint /\
  packetExtendInfoLen (newPacketExtendInfo hint len) = len mod 1024.
Proof.
  intros Hh. rewrite newPacketExtendInfo_spec by lia.
  unfold packetExtendInfoHint, packetExtendInfoLen. cbv zeta.
  rewrite shiftr_div by lia.
  change 63 with (2 ^ 6 - 1). change 1023 with (2 ^ 10 - 1).
  rewrite !land_ones_mod by lia. change (2 ^ 10) with 1024. change (2 ^ 6) with 64.
  split; [rewrite wrap_u8_small by lia|]; lia.
Qed.

(* ========================================================================= *)
(* btp/ntm: secp256k1 proof context                                           *)
(* ========================================================================= *)

(* Verify rejects ("not enough proof parts") exactly when valid is NOT over two thirds *)
Lemma ntmNotEnoughParts_spec valid n :
  0 <= n <= half_i64 ->
  ntmNotEnoughParts valid n = true <-> 3 * valid <= 2 * n.
Proof.
  unfold ntmNotEnoughParts. kernel_lia.
Qed.

Lemma ntmNotEnoughParts_params_ok :
  ntmNotEnoughParts_params = ["valid"; "len(pc.Validators)"]%string.
Proof. reflexivity. Qed.

(* the BTP proof threshold is the complement of the consensus threshold *)
Lemma ntm_threshold_is_consensus_threshold valid n :
  0 <= n <= half_i64 ->
  ntmNotEnoughParts valid n = negb (hasOverTwoThirds valid n).
Proof.
  intros Hn. apply bool_eq_iff. rewrite negb_true_iff.
  rewrite ntmNotEnoughParts_spec by lia.
  destruct (hasOverTwoThirds valid n) eqn:E.
  - apply hasOverTwoThirds_spec in E; [|lia]. split; [lia|discriminate].
  - split; [reflexivity|]. intros _.
    destruct (Z_le_gt_dec (3 * valid) (2 * n)); [assumption|].
    assert (hasOverTwoThirds valid n = true) by (apply hasOverTwoThirds_spec; lia). congruence.
Qed.

(* VerifyPart rejects a proof part whose index is outside [0, len(Validators)) *)
Lemma ntmPartIndexOutOfRange_spec idx n :
  ntmPartIndexOutOfRange idx n = false <-> 0 <= idx < n.
Proof. unfold ntmPartIndexOutOfRange. kernel_lia. Qed.

Lemma ntmPartIndexOutOfRange_params_ok :
  ntmPartIndexOutOfRange_params = ["epp.Index"; "len(pc.Validators)"]%string.
Proof. reflexivity. Qed.
