(* Property C36 — Addresses have one canonical text and byte form.
   This file holds only the property theorems; proofs are in Proofs_Address.v. *)
From Goloop Require Import lib.Bytes Model_Address Proofs_Address.

Theorem C36_strict_roundtrip : forall a, addr_ok a = true -> parse_strict (to_string a) = Some a.
Proof. exact strict_roundtrip. Qed.
Print Assumptions C36_strict_roundtrip.

Theorem C36_strict_only_canonical : forall s a, parse_strict s = Some a -> to_string a = s /\ addr_ok a = true.
Proof. exact strict_only_canonical. Qed.
Print Assumptions C36_strict_only_canonical.

Theorem C36_bytes_roundtrip : forall a, addr_ok a = true -> of_bytes (to_bytes a) = Some a.
Proof. exact bytes_roundtrip. Qed.
Print Assumptions C36_bytes_roundtrip.

Theorem C36_bytes_canonical : forall b a, length b = 21%nat -> of_bytes b = Some a -> to_bytes a = b.
Proof. exact of_bytes_21_canonical. Qed.
Print Assumptions C36_bytes_canonical.

Theorem C36_bytes_accept_set : forall b, (exists a, of_bytes b = Some a) <->
  (length b = 20%nat \/ (length b = 21%nat /\ exists id, b = 0%N :: id \/ b = 1%N :: id)).
Proof. exact of_bytes_accepts. Qed.
Print Assumptions C36_bytes_accept_set.

Theorem C36_rpc_regex_agrees : forall s, rpc_regex s = true <-> exists a, parse_strict s = Some a.
Proof. exact rpc_regex_agrees. Qed.
Print Assumptions C36_rpc_regex_agrees.
