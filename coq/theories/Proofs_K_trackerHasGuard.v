(* Proofs_K_trackerHasGuard.v -- common/txlocator tracker.Has: the guard on list.ts+list.th
   Split out of Proofs_Kernels.v: this file imports ONLY the generated kernel(s)
   gen/K_trackerHasGuard.v, so an edit of another kernel's Go source cannot break it.
   Style: stdlib only; arithmetic closed by lia with the euclidean-division hook. *)
From Coq Require Import ZArith Bool String List Lia.
From Coq Require Import ZifyBool.
From Goloop Require Import lib.GoInt Proofs_K_tactics.
From Goloop.gen Require Import K_trackerHasGuard.
Import ListNotations.
Local Open Scope Z_scope.

Ltac Zify.zify_post_hook ::= Z.to_euclidean_division_equations.

(* tracker.Has: `ts >= t.list.ts + t.list.th` -- the transaction is too new for this list *)
Lemma trackerHasGuard_spec ts lts lth :
  min_i64 <= lts + lth <= max_i64 ->
  trackerHasGuard ts lts lth = true <-> lts + lth <= ts.
Proof. unfold trackerHasGuard. kernel_lia. Qed.

Lemma trackerHasGuard_params_ok :
  trackerHasGuard_params = ["ts"; "t.list.ts"; "t.list.th"]%string.
Proof. reflexivity. Qed.
