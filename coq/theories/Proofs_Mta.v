(* Proofs_Mta.v — lemmas about Model_Mta (common/trie/mta/accumulator.go).

   The accumulator is related to an abstract binary counter of perfect hash
   trees ([ptree]); every operation keeps the relation, so witnesses are a
   function of the item sequence alone, they verify, Flush/Recover keep them,
   and no error branch is reachable.  Nothing assumes that the hash is
   injective: statements that depend on what the bucket returns end in
   "... \/ collision" and the proof exhibits the colliding pair. *)
From Coq Require Import ZifyBool ZifyN ZifyNat.
From Goloop Require Import lib.Bytes lib.BytesMap Model_Mta.
Ltac Zify.zify_post_hook ::= Z.div_mod_to_equations.
Open Scope N_scope.

(* ------------------------------------------------------------------ *)
(* copy semantics                                                       *)

Lemma copy_at_length buf off src : (off <= length buf)%nat -> length (copy_at buf off src) = length buf.
Proof.
  intro Hle. unfold copy_at. rewrite !app_length, firstn_length, firstn_length, skipn_length. lia.
Qed.

Lemma firstn_app_exact {A} (a r : list A) n : length a = n -> firstn n (a ++ r) = a.
Proof.
  intro E. rewrite firstn_app, E, Nat.sub_diag. cbn [firstn]. rewrite app_nil_r.
  apply firstn_all2. lia.
Qed.

Lemma skipn_app_exact {A} (a r : list A) n : length a = n -> skipn n (a ++ r) = r.
Proof.
  intro E. rewrite skipn_app, E, Nat.sub_diag. cbn [skipn]. rewrite skipn_all2 by lia. reflexivity.
Qed.

Lemma copy_at_pair buf a b :
  length buf = 64%nat -> length a = 32%nat -> length b = 32%nat ->
  copy_at (copy_at buf 0 a) hash_size b = a ++ b.
Proof.
  intros Hb Ha Hbb. unfold hash_size.
  assert (E1 : copy_at buf 0 a = a ++ skipn 32 buf).
  { unfold copy_at. cbn [firstn app]. rewrite Hb, Ha. cbn [Nat.sub Nat.add].
    rewrite firstn_all2 by lia. reflexivity. }
  rewrite E1. unfold copy_at.
  assert (Lr : length (skipn 32 buf) = 32%nat) by (rewrite skipn_length; lia).
  rewrite (firstn_app_exact a _ 32 Ha).
  rewrite app_length, Lr, Ha, Hbb. cbn [Nat.add Nat.sub].
  rewrite (firstn_all2 (n:=32) b) by lia.
  rewrite skipn_all2 by (rewrite app_length; lia).
  now rewrite app_nil_r.
Qed.

Lemma zeros64_length : length zeros64 = 64%nat.
Proof. reflexivity. Qed.

Lemma pair_bytes_32 a b : length a = 32%nat -> length b = 32%nat -> pair_bytes a b = a ++ b.
Proof. intros. unfold pair_bytes. apply copy_at_pair; auto. Qed.

Lemma pow2_pos n : 0 < 2 ^ n.
Proof. apply N.neq_0_lt_0. apply N.pow_nonzero. discriminate. Qed.

Lemma pow2_S d : 2 ^ N.of_nat (S d) = 2 * 2 ^ N.of_nat d.
Proof. rewrite Nat2N.inj_succ, N.pow_succ_r'. reflexivity. Qed.

(* the only assumption on the hash function *)
Definition hash32 (H : bytes -> bytes) : Prop := forall x, length (H x) = 32%nat.

(* ------------------------------------------------------------------ *)
Section Proofs.
Variable H : bytes -> bytes.
Hypothesis H_len : forall x, length (H x) = 32%nat.

Definition collision : Prop := exists a b : bytes, a <> b /\ H a = H b.

(* abstract hash trees *)
Inductive ptree := PLeaf (x : bytes) | PNode (l r : ptree).

Fixpoint pt_hash (t : ptree) : bytes :=
  match t with PLeaf x => x | PNode l r => H (pt_hash l ++ pt_hash r) end.

Fixpoint pt_leaves (t : ptree) : list bytes :=
  match t with PLeaf x => [x] | PNode l r => pt_leaves l ++ pt_leaves r end.

(* perfect of height h, leaves are 32-byte hashes *)
Fixpoint perfect (h : nat) (t : ptree) : Prop :=
  match h, t with
  | O, PLeaf x => length x = 32%nat
  | S h', PNode l r => perfect h' l /\ perfect h' r
  | _, _ => False
  end.

Lemma perfect_hash_len h t : perfect h t -> length (pt_hash t) = 32%nat.
Proof. destruct t; destruct h; cbn; try tauto. intros _. apply H_len. Qed.

Lemma perfect_leaves_len : forall h t, perfect h t -> N.of_nat (length (pt_leaves t)) = 2 ^ N.of_nat h.
Proof.
  induction h; intros [x|l r]; cbn [perfect pt_leaves]; try tauto.
  intros [Hl Hr]. rewrite pow2_S, app_length, Nat2N.inj_add. rewrite (IHh _ Hl), (IHh _ Hr). lia.
Qed.

(* the bucket holds the whole tree below the hash of t *)
Fixpoint stored (m : bmap bytes) (t : ptree) : Prop :=
  match t with
  | PLeaf _ => True
  | PNode l r => bm_get (pt_hash t) m = Some (pt_hash l ++ pt_hash r) /\ stored m l /\ stored m r
  end.

(* node n realises tree t *)
Fixpoint tree_ok (m : bmap bytes) (n : node) (t : ptree) {struct n} : Prop :=
  match n with
  | NHash hv => hv = pt_hash t /\ stored m t
  | NData _ hv d => t = PLeaf hv /\ hv = H d
  | NBranch fl hv l r =>
      match t with
      | PNode tl tr => hv = pt_hash t /\ tree_ok m l tl /\ tree_ok m r tr /\ (fl = true -> stored m t)
      | PLeaf _ => False
      end
  end.

Lemma tree_ok_hash m n t : tree_ok m n t -> node_hash n = pt_hash t.
Proof.
  destruct n; cbn.
  - tauto.
  - intros [-> _]. reflexivity.
  - destruct t; tauto.
Qed.

Definition sound (m : bmap bytes) : Prop := forall k v, bm_get k m = Some v -> H v = k.
Definition ext (m m' : bmap bytes) : Prop := forall k v, bm_get k m = Some v -> bm_get k m' = Some v.

Lemma ext_refl m : ext m m. Proof. intros k v; auto. Qed.
Lemma ext_trans a b c : ext a b -> ext b c -> ext a c. Proof. intros X Y k v Hk; auto. Qed.

Lemma stored_ext m m' t : ext m m' -> stored m t -> stored m' t.
Proof.
  intro He. induction t; cbn; auto. intros (Hg & Hl & Hr). auto.
Qed.

Lemma tree_ok_ext m m' : ext m m' -> forall n t, tree_ok m n t -> tree_ok m' n t.
Proof.
  intro He. induction n; intros t; cbn.
  - intros [? ?]; split; eauto using stored_ext.
  - auto.
  - destruct t; auto. intros (Hh & Hl & Hr & Hf).
    split; [auto|]. split; [auto|]. split; [auto|].
    intro F. eapply stored_ext; eauto.
Qed.

Lemma sound_empty : sound bm_empty.
Proof. intros k v. rewrite bm_get_empty. discriminate. Qed.

Lemma set_sound m v : sound m -> sound (bm_set (H v) v m).
Proof.
  intros Hs k v'. destruct (bytes_eqb (H v) k) eqn:E.
  - apply bytes_eqb_eq in E. subst k. rewrite bm_gss. congruence.
  - assert (H v <> k) by (intro X; rewrite X, bytes_eqb_refl in E; discriminate).
    rewrite bm_gso by assumption. apply Hs.
Qed.

Lemma set_ext m v : sound m -> ext m (bm_set (H v) v m) \/ collision.
Proof.
  intro Hs. destruct (bm_get (H v) m) as [v0|] eqn:G.
  - destruct (bytes_eqb v0 v) eqn:E.
    + apply bytes_eqb_eq in E. subst v0. left. intros k v' Hk.
      destruct (bytes_eqb (H v) k) eqn:E2.
      * apply bytes_eqb_eq in E2. subst k. rewrite bm_gss. congruence.
      * rewrite bm_gso; auto. intro X. rewrite X, bytes_eqb_refl in E2. discriminate.
    + right. exists v0, v. split.
      * intro X. subst. rewrite bytes_eqb_refl in E. discriminate.
      * now apply Hs.
  - left. intros k v' Hk.
    destruct (bytes_eqb (H v) k) eqn:E2.
    + apply bytes_eqb_eq in E2. subst k. congruence.
    + rewrite bm_gso; auto. intro X. rewrite X, bytes_eqb_refl in E2. discriminate.
Qed.

(* ------------------------------------------------------------------ *)
(* the abstract binary counter                                          *)

Fixpoint aadd_node (ar : list (option ptree)) (t : ptree) : list (option ptree) :=
  match ar with
  | [] => [Some t]
  | None :: rest => Some t :: rest
  | Some t0 :: rest => None :: aadd_node rest (PNode t0 t)
  end.

Definition aroots_of (ls : list bytes) : list (option ptree) :=
  fold_left (fun ar x => aadd_node ar (PLeaf x)) ls [].

Definition opt_leaves (o : option ptree) : list bytes :=
  match o with Some t => pt_leaves t | None => [] end.

(* oldest first: the highest slot holds the oldest items *)
Fixpoint all_leaves (ar : list (option ptree)) : list bytes :=
  match ar with [] => [] | o :: rest => all_leaves rest ++ opt_leaves o end.

Fixpoint heights_ok (h : nat) (ar : list (option ptree)) : Prop :=
  match ar with
  | [] => True
  | o :: rest => match o with Some t => perfect h t | None => True end /\ heights_ok (S h) rest
  end.

Definition slot_ok (m : bmap bytes) (on : option node) (ot : option ptree) : Prop :=
  match on, ot with
  | None, None => True
  | Some n, Some t => tree_ok m n t
  | _, _ => False
  end.

Definition rel (m : bmap bytes) := Forall2 (slot_ok m).

Lemma rel_ext m m' rs ar : ext m m' -> rel m rs ar -> rel m' rs ar.
Proof.
  intros He Hr. induction Hr; constructor; auto.
  destruct x, y; cbn in *; auto. eapply tree_ok_ext; eauto.
Qed.

Lemma add_node_ok m : forall roots ar n t w h,
  rel m roots ar -> heights_ok h ar -> tree_ok m n t -> perfect h t ->
  rel m (fst (add_node H roots n w)) (aadd_node ar t) /\
  heights_ok h (aadd_node ar t) /\
  all_leaves (aadd_node ar t) = all_leaves ar ++ pt_leaves t.
Proof.
  induction roots as [|r roots IH]; intros ar n t w h Hrel Hh Hn Hp; inversion Hrel; subst.
  - cbn. repeat split; auto. repeat constructor; auto.
  - destruct r as [root|], y as [t0|]; cbn in H2; try contradiction.
    + cbn [add_node aadd_node]. destruct Hh as [Hp0 Hh].
      destruct (add_node H roots (mk_branch H root n) (w ++ [mkW Left (node_hash root)])) as [rest' w'] eqn:E.
      assert (Hb : tree_ok m (mk_branch H root n) (PNode t0 t)).
      { unfold mk_branch. cbn [tree_ok pt_hash].
        split; [|split; [auto|split; [auto|discriminate]]].
        rewrite (tree_ok_hash _ _ _ H2), (tree_ok_hash _ _ _ Hn).
        rewrite pair_bytes_32; eauto using perfect_hash_len. }
      specialize (IH l' (mk_branch H root n) (PNode t0 t) (w ++ [mkW Left (node_hash root)]) (S h) H4 Hh Hb).
      rewrite E in IH. cbn [fst] in *. destruct IH as (R & Hh' & L); [cbn; auto|].
      repeat split; auto.
      * constructor; cbn; auto.
      * cbn [all_leaves opt_leaves]. rewrite L. cbn [pt_leaves]. rewrite app_nil_r, app_assoc. reflexivity.
    + cbn [add_node aadd_node fst]. destruct Hh as [_ Hh]. repeat split; auto.
      * constructor; auto.
      * cbn. now rewrite app_nil_r.
Qed.

(* ------------------------------------------------------------------ *)
(* witnesses inside one tree                                            *)

Fixpoint pt_witness (t : ptree) (d : nat) (idx : N) : list witness :=
  match d, t with
  | S d', PNode l r =>
      if idx <? 2 ^ N.of_nat d' then pt_witness l d' idx ++ [mkW Right (pt_hash r)]
      else pt_witness r d' (idx - 2 ^ N.of_nat d') ++ [mkW Left (pt_hash l)]
  | _, _ => []
  end.

Lemma nw_branch m d fl hv l r idx w :
  node_witness m (S d) (NBranch fl hv l r) idx w =
  if idx <? 2 ^ N.of_nat d then
    let (l', rw) := node_witness m d l idx w in
    (NBranch fl hv l' r, match rw with Ok w' => Ok (w' ++ [mkW Right (node_hash r)]) | Err e => Err e end)
  else
    let (r', rw) := node_witness m d r (idx - 2 ^ N.of_nat d) w in
    (NBranch fl hv l r', match rw with Ok w' => Ok (w' ++ [mkW Left (node_hash l)]) | Err e => Err e end).
Proof. reflexivity. Qed.

Lemma nw_hash m d hv idx w :
  node_witness m (S d) (NHash hv) idx w =
  match resolve m hv with
  | Err e => (NHash hv, Err e)
  | Ok (lh, rh) => node_witness m (S d) (NBranch true hv (NHash lh) (NHash rh)) idx w
  end.
Proof. cbn [node_witness]. destruct (resolve m hv) as [[lh rh]|e]; reflexivity. Qed.

Lemma resolve_stored m d tl tr :
  perfect d tl -> perfect d tr -> stored m (PNode tl tr) ->
  resolve m (pt_hash (PNode tl tr)) = Ok (pt_hash tl, pt_hash tr).
Proof.
  intros Hl Hr (Hg & _). unfold resolve. rewrite Hg.
  pose proof (perfect_hash_len _ _ Hl) as L1. pose proof (perfect_hash_len _ _ Hr) as L2.
  rewrite app_length, L1, L2. unfold hash_size.
  rewrite (firstn_app_exact _ _ 32 L1), (skipn_app_exact _ _ 32 L1). reflexivity.
Qed.

Lemma node_witness_ok m : forall d n t idx w,
  tree_ok m n t -> perfect d t -> idx < 2 ^ N.of_nat d ->
  exists n', node_witness m d n idx w = (n', Ok (w ++ pt_witness t d idx)) /\ tree_ok m n' t.
Proof.
  induction d as [|d IH]; intros n t idx w Hn Hp Hi.
  - destruct t as [x|]; [|destruct Hp]. cbn [pt_witness]. rewrite app_nil_r.
    destruct n; cbn in Hn |- *; try tauto; eexists; split; eauto; cbn; auto.
  - destruct t as [|tl tr]; [destruct Hp|]. destruct Hp as [Hpl Hpr].
    assert (Hbranch : forall fl hv l r, tree_ok m (NBranch fl hv l r) (PNode tl tr) ->
       exists n', node_witness m (S d) (NBranch fl hv l r) idx w =
                  (n', Ok (w ++ pt_witness (PNode tl tr) (S d) idx)) /\ tree_ok m n' (PNode tl tr)).
    { intros fl hv l r (Hh & Hl & Hr & Hf). rewrite nw_branch. cbn [pt_witness].
      destruct (idx <? 2 ^ N.of_nat d) eqn:E.
      - destruct (IH l tl idx w Hl Hpl) as (l' & E1 & Hl'); [lia|]. rewrite E1.
        eexists; split.
        + rewrite (tree_ok_hash _ _ _ Hr), app_assoc. reflexivity.
        + cbn. auto.
      - destruct (IH r tr (idx - 2 ^ N.of_nat d) w Hr Hpr) as (r' & E1 & Hr').
        { rewrite pow2_S in Hi. lia. }
        rewrite E1. eexists; split.
        + rewrite (tree_ok_hash _ _ _ Hl), app_assoc. reflexivity.
        + cbn. auto. }
    destruct n as [hv|fl hv dd|fl hv l r].
    + destruct Hn as [-> Hst]. rewrite nw_hash.
      rewrite (resolve_stored m d tl tr Hpl Hpr Hst).
      apply Hbranch. cbn. destruct Hst as (Hg & Hsl & Hsr). repeat split; auto.
    + cbn in Hn. destruct Hn as [X _]. discriminate.
    + apply Hbranch. exact Hn.
Qed.

(* ------------------------------------------------------------------ *)
(* the root loop                                                        *)

Fixpoint aw_loop (ar : list (option ptree)) (offset : nat) (idx : N) : option (nat * ptree * N) :=
  match offset with
  | O => None
  | S o =>
      match nth_error ar o with
      | None => None
      | Some None => aw_loop ar o idx
      | Some (Some t) =>
          if idx <? 2 ^ N.of_nat o then Some (o, t, idx) else aw_loop ar o (idx - 2 ^ N.of_nat o)
      end
  end.

(* the witness as a function of the abstract roots alone *)
Definition spec_witness (ar : list (option ptree)) (idx : N) : list witness :=
  match aw_loop ar (length ar) idx with
  | Some (o, t, i) => pt_witness t o i
  | None => []
  end.

Lemma heights_nth : forall ar h k t,
  heights_ok h ar -> nth_error ar k = Some (Some t) -> perfect (h + k) t.
Proof.
  induction ar as [|o ar IH]; intros h k t Hh Hn.
  - destruct k; discriminate.
  - destruct Hh as [Ho Hh]. destruct k; cbn in Hn.
    + inversion Hn; subst. now rewrite Nat.add_0_r.
    + rewrite Nat.add_succ_r. apply (IH (S h) k t Hh Hn).
Qed.

Lemma rel_nth m : forall rs ar k, rel m rs ar ->
  match nth_error rs k, nth_error ar k with
  | Some a, Some b => slot_ok m a b
  | None, None => True
  | _, _ => False
  end.
Proof.
  induction rs; intros ar k Hr; inversion Hr; subst; destruct k; cbn; auto.
  apply IHrs; auto.
Qed.

Lemma rel_set_nth m : forall rs ar k n t,
  rel m rs ar -> nth_error ar k = Some (Some t) -> tree_ok m n t -> rel m (set_nth rs k (Some n)) ar.
Proof.
  induction rs; intros ar k n t Hr Hn Ht; inversion Hr; subst.
  - constructor.
  - destruct k; cbn in *.
    + inversion Hn; subst. constructor; auto.
    + constructor; auto. eapply IHrs; eauto.
Qed.

Lemma wf_loop_ok m rs ar : rel m rs ar -> heights_ok 0 ar ->
  forall offset idx o t i, aw_loop ar offset idx = Some (o, t, i) ->
  exists rs', wf_loop m rs offset idx = (rs', Ok (pt_witness t o i)) /\ rel m rs' ar /\
              nth_error ar o = Some (Some t) /\ i < 2 ^ N.of_nat o /\ perfect o t.
Proof.
  intros Hr Hh. induction offset as [|k IH]; intros idx o t i Ha; cbn in Ha; [discriminate|].
  cbn [wf_loop]. pose proof (rel_nth m rs ar k Hr) as Hk.
  destruct (nth_error ar k) as [[tk|]|] eqn:En; [| |discriminate].
  - destruct (nth_error rs k) as [[root|]|] eqn:Er; cbn in Hk; try contradiction.
    destruct (idx <? 2 ^ N.of_nat k) eqn:E.
    + inversion Ha; subst. pose proof (heights_nth _ _ _ _ Hh En) as Hp. cbn in Hp.
      destruct (node_witness_ok m o root t i [] Hk Hp) as (n' & E1 & Hn'); [lia|].
      rewrite E1. cbn [app]. eexists; repeat split; eauto.
      * eapply rel_set_nth; eauto.
      * lia.
    + apply IH. exact Ha.
  - destruct (nth_error rs k) as [[root|]|] eqn:Er; cbn in Hk; try contradiction.
    apply IH. exact Ha.
Qed.

Lemma all_leaves_app a b : all_leaves (a ++ b) = all_leaves b ++ all_leaves a.
Proof.
  induction a; cbn.
  - now rewrite app_nil_r.
  - rewrite IHa, app_assoc. reflexivity.
Qed.

Lemma firstn_S_nth {A} : forall (l : list A) k x, nth_error l k = Some x -> firstn (S k) l = firstn k l ++ [x].
Proof.
  induction l; intros k x Hn; destruct k; cbn in *; try discriminate.
  - inversion Hn; subst. reflexivity.
  - f_equal. apply IHl. exact Hn.
Qed.

(* the idx-th item is the i-th leaf of the located tree *)
Lemma aw_loop_spec ar : heights_ok 0 ar ->
  forall offset idx x, (offset <= length ar)%nat ->
  nth_error (all_leaves (firstn offset ar)) (N.to_nat idx) = Some x ->
  exists o t i, aw_loop ar offset idx = Some (o, t, i) /\ nth_error (pt_leaves t) (N.to_nat i) = Some x.
Proof.
  intro Hh. induction offset as [|k IH]; intros idx x Hle Hn.
  - cbn in Hn. destruct (N.to_nat idx); discriminate.
  - destruct (nth_error ar k) as [ok|] eqn:En.
    2:{ apply nth_error_None in En. lia. }
    rewrite (firstn_S_nth _ _ _ En), all_leaves_app in Hn. cbn [all_leaves app] in Hn.
    cbn [aw_loop]. rewrite En. destruct ok as [t|].
    + pose proof (heights_nth _ _ _ _ Hh En) as Hp. cbn in Hp.
      pose proof (perfect_leaves_len _ _ Hp) as Hl. cbn [opt_leaves] in Hn.
      destruct (idx <? 2 ^ N.of_nat k) eqn:E.
      * rewrite nth_error_app1 in Hn by lia. eauto.
      * rewrite nth_error_app2 in Hn by lia.
        apply (IH (idx - 2 ^ N.of_nat k) x); [lia|].
        replace (N.to_nat (idx - 2 ^ N.of_nat k)) with (N.to_nat idx - length (pt_leaves t))%nat by lia.
        exact Hn.
    + cbn [opt_leaves app] in Hn. apply IH; [lia|exact Hn].
Qed.

(* ------------------------------------------------------------------ *)
(* Verify                                                               *)

Lemma verify_loop_app : forall w1 w2 buf h k, length buf = 64%nat ->
  exists buf', length buf' = 64%nat /\
    verify_loop H buf h (w1 ++ w2) k =
    verify_loop H buf' (fst (verify_loop H buf h w1 k)) w2 (snd (verify_loop H buf h w1 k)).
Proof.
  induction w1 as [|w w1 IH]; intros w2 buf h k Hb.
  - exists buf. split; auto.
  - cbn [app verify_loop]. apply IH.
    destruct (w_dir w); rewrite !copy_at_length; auto; rewrite ?copy_at_length; unfold hash_size; lia.
Qed.

Lemma verify_loop_ok : forall d t i x buf k,
  perfect d t -> nth_error (pt_leaves t) (N.to_nat i) = Some x -> length buf = 64%nat ->
  verify_loop H buf x (pt_witness t d i) k = (pt_hash t, (k + d)%nat).
Proof.
  induction d as [|d IH]; intros t i x buf k Hp Hn Hb.
  - destruct t as [y|]; [|destruct Hp]. cbn in *.
    destruct (N.to_nat i) as [|[|]]; cbn in Hn; try discriminate.
    inversion Hn; subst. now rewrite Nat.add_0_r.
  - destruct t as [|l r]; [destruct Hp|]. destruct Hp as [Hl Hr].
    pose proof (perfect_leaves_len _ _ Hl) as Ll.
    cbn [pt_witness pt_leaves] in *.
    destruct (i <? 2 ^ N.of_nat d) eqn:E.
    + rewrite nth_error_app1 in Hn by lia.
      destruct (verify_loop_app (pt_witness l d i) [mkW Right (pt_hash r)] buf x k Hb) as (buf' & Hb' & ->).
      rewrite (IH l i x buf k Hl Hn Hb). cbn [fst snd verify_loop w_dir w_hash].
      rewrite copy_at_pair by eauto using perfect_hash_len.
      cbn [pt_hash]. f_equal. lia.
    + rewrite nth_error_app2 in Hn by lia.
      replace (N.to_nat i - length (pt_leaves l))%nat with (N.to_nat (i - 2 ^ N.of_nat d)) in Hn by lia.
      destruct (verify_loop_app (pt_witness r d (i - 2 ^ N.of_nat d)) [mkW Left (pt_hash l)] buf x k Hb) as (buf' & Hb' & ->).
      rewrite (IH r _ x buf k Hr Hn Hb). cbn [fst snd verify_loop w_dir w_hash].
      rewrite copy_at_pair by eauto using perfect_hash_len.
      cbn [pt_hash]. f_equal. lia.
Qed.

(* ------------------------------------------------------------------ *)
(* the accumulator invariant                                            *)

Definition inv (m : bmap bytes) (a : acc) (ar : list (option ptree)) : Prop :=
  rel m (a_roots a) ar /\ heights_ok 0 ar /\ a_len a = N.of_nat (length (all_leaves ar)).

Lemma rel_length m rs ar : rel m rs ar -> length rs = length ar.
Proof. induction 1; cbn; auto. Qed.

Lemma verify_inv m a ar o t i x :
  inv m a ar -> nth_error ar o = Some (Some t) -> perfect o t ->
  nth_error (pt_leaves t) (N.to_nat i) = Some x ->
  verify H a (pt_witness t o i) x = Ok tt.
Proof.
  intros (Hr & Hh & Hl) Hn Hp Hx. unfold verify.
  rewrite (verify_loop_ok o t i x zeros64 0 Hp Hx zeros64_length). cbn [Nat.add].
  pose proof (rel_nth m _ _ o Hr) as Hk. rewrite Hn in Hk.
  destruct (nth_error (a_roots a) o) as [[root|]|]; cbn in Hk; try contradiction.
  rewrite (tree_ok_hash _ _ _ Hk), bytes_eqb_refl. reflexivity.
Qed.

(* WitnessFor of a stored item: total, equal to the specification witness,
   accepted by Verify; the lazily resolved accumulator keeps the invariant *)
Lemma witness_for_inv s a ar idx x :
  inv (s_nodes s) a ar -> nth_error (all_leaves ar) (N.to_nat idx) = Some x ->
  exists a', witness_for s a idx = (a', Ok (spec_witness ar idx)) /\
             inv (s_nodes s) a' ar /\
             verify H a' (spec_witness ar idx) x = Ok tt /\
             verify H a (spec_witness ar idx) x = Ok tt.
Proof.
  intros Hinv Hx. pose proof Hinv as (Hr & Hh & Hl).
  assert (Hlt : (N.to_nat idx < length (all_leaves ar))%nat) by (apply nth_error_Some; congruence).
  unfold witness_for. destruct (a_len a <=? idx) eqn:E; [lia|].
  rewrite (rel_length _ _ _ Hr).
  destruct (aw_loop_spec ar Hh (length ar) idx x (le_n _)) as (o & t & i & Ha & Hi).
  { now rewrite firstn_all. }
  destruct (wf_loop_ok _ _ _ Hr Hh _ _ _ _ _ Ha) as (rs' & E1 & Hr' & Hn & Hlt' & Hp).
  rewrite E1. unfold spec_witness. rewrite Ha.
  eexists; split; [reflexivity|].
  assert (Hinv' : inv (s_nodes s) (mkAcc rs' (a_len a)) ar) by (repeat split; auto).
  repeat split; auto; eapply verify_inv; eauto.
Qed.

Lemma witness_for_keeps_inv s a ar idx :
  inv (s_nodes s) a ar -> inv (s_nodes s) (fst (witness_for s a idx)) ar.
Proof.
  intro Hinv. destruct (nth_error (all_leaves ar) (N.to_nat idx)) as [x|] eqn:E.
  - destruct (witness_for_inv s a ar idx x Hinv E) as (a' & -> & Hi & _). exact Hi.
  - apply nth_error_None in E. destruct Hinv as (Hr & Hh & Hl).
    unfold witness_for. destruct (a_len a <=? idx) eqn:E2; [|lia]. cbn. repeat split; auto.
Qed.

(* items *)
Definition item_ok (it : item) : Prop :=
  match it with IHash h => length h = 32%nat | IData _ => True end.

Lemma item_hash_len it : item_ok it -> length (item_hash H it) = 32%nat.
Proof. destruct it; cbn; auto. Qed.

Lemma add_inv m a ar it : inv m a ar -> item_ok it ->
  inv m (fst (add H a it)) (aadd_node ar (PLeaf (item_hash H it))).
Proof.
  intros (Hr & Hh & Hl) Hit. unfold add.
  destruct (add_node H (a_roots a) (leaf_of H it) []) as [rs w] eqn:E. cbn [fst].
  assert (Ht : tree_ok m (leaf_of H it) (PLeaf (item_hash H it))).
  { destruct it; cbn; auto. }
  destruct (add_node_ok m _ _ _ _ [] 0%nat Hr Hh Ht (item_hash_len it Hit)) as (R & Hh' & L).
  rewrite E in R. repeat split; auto. cbn [a_len]. rewrite L, Hl, app_length. cbn. lia.
Qed.

Lemma aroots_snoc ls x : aroots_of (ls ++ [x]) = aadd_node (aroots_of ls) (PLeaf x).
Proof. unfold aroots_of. now rewrite fold_left_app. Qed.

Lemma aadd_node_shape : forall ar t h, heights_ok h ar -> perfect h t ->
  heights_ok h (aadd_node ar t) /\ all_leaves (aadd_node ar t) = all_leaves ar ++ pt_leaves t.
Proof.
  induction ar as [|[t0|] ar IHar]; intros t h Hha Hp; cbn.
  - auto.
  - destruct Hha as [Hp0 Hha]. destruct (IHar (PNode t0 t) (S h) Hha) as [A B]; [cbn; auto|].
    split; auto. rewrite B. cbn. now rewrite app_nil_r, app_assoc.
  - destruct Hha as [_ Hha]. split; auto. now rewrite app_nil_r.
Qed.

Lemma aroots_leaves : forall ls, Forall (fun x => length x = 32%nat) ls ->
  heights_ok 0 (aroots_of ls) /\ all_leaves (aroots_of ls) = ls.
Proof.
  induction ls using rev_ind; intro F.
  - cbn. auto.
  - apply Forall_app in F. destruct F as [F1 F2]. inversion F2; subst.
    destruct (IHls F1) as [Hh Hl]. rewrite aroots_snoc.
    destruct (aadd_node_shape (aroots_of ls) (PLeaf x) 0%nat Hh) as [A B]; [assumption|].
    split; auto. rewrite B, Hl. reflexivity.
Qed.

Lemma fold_add_inv m : forall items a ls,
  inv m a (aroots_of ls) -> Forall item_ok items ->
  inv m (fold_left (fun a it => fst (add H a it)) items a) (aroots_of (ls ++ map (item_hash H) items)).
Proof.
  induction items as [|it items IH]; intros a ls Hi F; cbn [fold_left map].
  - now rewrite app_nil_r.
  - inversion F; subst.
    replace (ls ++ item_hash H it :: map (item_hash H) items)
      with ((ls ++ [item_hash H it]) ++ map (item_hash H) items) by (now rewrite <- app_assoc).
    apply IH; auto. rewrite aroots_snoc. apply add_inv; auto.
Qed.

Lemma inv_empty m : inv m acc_empty (aroots_of []).
Proof. repeat split; cbn; auto. constructor. Qed.

Lemma add_all_inv m items : Forall item_ok items ->
  inv m (add_all H items) (aroots_of (map (item_hash H) items)).
Proof. intro F. apply (fold_add_inv m items acc_empty [] (inv_empty m) F). Qed.

Lemma items_hash_len items : Forall item_ok items ->
  Forall (fun x => length x = 32%nat) (map (item_hash H) items).
Proof. induction 1; cbn; constructor; auto using item_hash_len. Qed.

(* ------------------------------------------------------------------ *)
(* Flush / Recover                                                      *)

Definition flush_post (m : bmap bytes) (n : node) (t : ptree) (res : node * bmap bytes) : Prop :=
  sound (snd res) /\ ext m (snd res) /\ tree_ok (snd res) (fst res) t /\ stored (snd res) t /\
  node_hash (fst res) = node_hash n.

Lemma flush_node_ok : forall n t m d,
  sound m -> tree_ok m n t -> perfect d t -> flush_post m n t (flush_node n m) \/ collision.
Proof.
  induction n as [hv|fl hv d0|fl hv l IHl r IHr]; intros t m d Hs Hn Hp.
  - left. cbn. destruct Hn. repeat split; auto using ext_refl.
  - destruct Hn as [-> ->]. destruct fl; cbn [flush_node].
    + left. repeat split; cbn; auto using ext_refl.
    + destruct (set_ext m d0 Hs) as [He|C]; [left|right; exact C].
      repeat split; cbn; auto using set_sound.
  - destruct t as [|tl tr]; [destruct Hn|]. destruct Hn as (Hh & Hl & Hr & Hf).
    destruct d as [|d]; [destruct Hp|]. destruct Hp as [Hpl Hpr].
    destruct fl; cbn [flush_node].
    + left. unfold flush_post. cbn [fst snd].
      split; [auto|]. split; [apply ext_refl|]. split; [|split; auto].
      cbn [tree_ok]. auto.
    + destruct (IHl tl m d Hs Hl Hpl) as [(S1 & X1 & T1 & St1 & Hh1)|C]; [|right; exact C].
      destruct (flush_node l m) as [l' m1]. cbn [fst snd] in *.
      destruct (IHr tr m1 d S1 (tree_ok_ext m m1 X1 r tr Hr) Hpr) as [(S2 & X2 & T2 & St2 & Hh2)|C]; [|right; exact C].
      destruct (flush_node r m1) as [r' m2]. cbn [fst snd] in *.
      rewrite (tree_ok_hash _ _ _ Hl), (tree_ok_hash _ _ _ Hr).
      rewrite pair_bytes_32 by eauto using perfect_hash_len.
      cbn [pt_hash] in Hh. rewrite Hh.
      set (v := pt_hash tl ++ pt_hash tr) in *.
      destruct (set_ext m2 v S2) as [X3|C]; [left|right; exact C].
      unfold flush_post. cbn [fst snd node_hash].
      split; [apply set_sound; auto|].
      split; [eauto using ext_trans|].
      assert (Sl : stored (bm_set (H v) v m2) tl) by eauto using stored_ext.
      assert (Sr : stored (bm_set (H v) v m2) tr) by eauto using stored_ext.
      assert (St : stored (bm_set (H v) v m2) (PNode tl tr)).
      { cbn [stored pt_hash]. fold v. rewrite bm_gss. auto. }
      split; [|split; auto].
      cbn [tree_ok pt_hash]. fold v.
      split; [reflexivity|]. split; [eauto using tree_ok_ext|]. split; [eauto using tree_ok_ext|auto].
Qed.

Definition opt_stored (m : bmap bytes) (o : option ptree) : Prop :=
  match o with Some t => stored m t | None => True end.
Definition all_stored (m : bmap bytes) (ar : list (option ptree)) : Prop := Forall (opt_stored m) ar.

Lemma all_stored_ext m m' ar : ext m m' -> all_stored m ar -> all_stored m' ar.
Proof.
  intros He Ha. induction Ha; constructor; auto. destruct x; cbn in *; eauto using stored_ext.
Qed.

Lemma flush_roots_ok : forall rs ar m h rs' m' hs,
  rel m rs ar -> heights_ok h ar -> sound m -> flush_roots rs m = (rs', m', hs) ->
  (sound m' /\ ext m m' /\ rel m' rs' ar /\ all_stored m' ar /\ hs = map (option_map pt_hash) ar)
  \/ collision.
Proof.
  induction rs as [|r rs IH]; intros ar m h rs' m' hs Hrel Hh Hs E; inversion Hrel; subst; cbn [flush_roots] in E.
  - inversion E; subst. left. repeat split; auto using ext_refl. constructor.
  - destruct Hh as [Hp Hh].
    destruct r as [n|], y as [t|]; cbn in H2; try contradiction.
    + destruct (flush_node_ok n t m h Hs H2 Hp) as [(S1 & X1 & T1 & St1 & Hh1)|C]; [|right; exact C].
      destruct (flush_node n m) as [n' m1]. cbn [fst snd] in *.
      destruct (flush_roots rs m1) as [[r' m2] hs'] eqn:E2.
      destruct (IH l' m1 (S h) r' m2 hs' (rel_ext _ _ _ _ X1 H4) Hh S1 E2)
        as [(S2 & X2 & R2 & A2 & Ehs)|C]; [|right; exact C].
      inversion E; subst. left.
      split; [auto|]. split; [eauto using ext_trans|].
      split; [constructor; auto; cbn; eauto using tree_ok_ext|].
      split; [constructor; auto; cbn; eauto using stored_ext|].
      cbn [map option_map]. rewrite (tree_ok_hash _ _ _ T1). reflexivity.
    + destruct (flush_roots rs m) as [[r' m2] hs'] eqn:E2.
      destruct (IH l' m (S h) r' m2 hs' H4 Hh Hs E2)
        as [(S2 & X2 & R2 & A2 & Ehs)|C]; [|right; exact C].
      inversion E; subst. left.
      split; [auto|]. split; [auto|].
      split; [constructor; auto; cbn; auto|].
      split; [constructor; auto; cbn; auto|]. reflexivity.
Qed.

Lemma recover_rel m : forall ar h, heights_ok h ar -> all_stored m ar ->
  rel m (map recover_root (map (option_map pt_hash) ar)) ar.
Proof.
  induction ar as [|o ar IH]; intros h Hh Ha; cbn [map]; constructor.
  - inversion Ha; subst. destruct Hh as [Hp _]. destruct o as [t|]; cbn; auto.
    rewrite (perfect_hash_len _ _ Hp). cbn. auto.
  - inversion Ha; subst. destruct Hh as [_ Hh]. eapply IH; eauto.
Qed.

Lemma rel_hashes m rs ar : rel m rs ar ->
  map (option_map node_hash) rs = map (option_map pt_hash) ar.
Proof.
  induction 1; cbn; auto. rewrite IHForall2. f_equal.
  destruct x, y; cbn in *; try contradiction; auto. now rewrite (tree_ok_hash _ _ _ H0).
Qed.

(* Flush, and Flush followed by Recover into a fresh accumulator, keep the invariant *)
Lemma flush_inv a s ar : inv (s_nodes s) a ar -> sound (s_nodes s) ->
  (let a1 := fst (flush a s) in let s1 := snd (flush a s) in
   inv (s_nodes s1) a1 ar /\ sound (s_nodes s1) /\ inv (s_nodes s1) (recover s1) ar /\
   ext (s_nodes s) (s_nodes s1))
  \/ collision.
Proof.
  intros (Hr & Hh & Hl) Hs. unfold flush.
  destruct (flush_roots (a_roots a) (s_nodes s)) as [[rs' m'] hs] eqn:E.
  destruct (flush_roots_ok _ _ _ _ _ _ _ Hr Hh Hs E) as [(S1 & X1 & R1 & A1 & Ehs)|C]; [left|right; exact C].
  cbn [fst snd s_nodes]. split; [repeat split; auto|]. split; [auto|]. split; [|auto].
  unfold recover. cbn [s_state]. subst hs. repeat split; auto. cbn [a_roots].
  eapply recover_rel; eauto.
Qed.

(* ------------------------------------------------------------------ *)
(* histories                                                            *)

Definition Inv (st : acc * store) (ls : list bytes) : Prop :=
  inv (s_nodes (snd st)) (fst st) (aroots_of ls) /\ sound (s_nodes (snd st)) /\
  Forall (fun x => length x = 32%nat) ls.

Definition op_ok (o : op) : Prop := match o with OpAdd it => item_ok it | _ => True end.

Lemma step_inv st ls o : Inv st ls -> op_ok o ->
  Inv (step H st o) (ls ++ map (item_hash H) (op_items o)) \/ collision.
Proof.
  destruct st as [a s]. intros (Hi & Hs & F) Ho. cbn [fst snd] in *.
  destruct o as [it| | |idx]; cbn [step op_items map].
  - left. split; [|split; auto].
    + cbn [fst snd]. rewrite aroots_snoc. apply add_inv; auto.
    + apply Forall_app. split; auto. constructor; auto using item_hash_len.
  - rewrite app_nil_r. destruct (flush_inv a s _ Hi Hs) as [(I1 & S1 & _ & _)|C]; [left|right; exact C].
    destruct (flush a s) as [a1 s1]. cbn [fst snd] in *. split; [assumption|split; assumption].
  - rewrite app_nil_r. destruct (flush_inv a s _ Hi Hs) as [(_ & S1 & I2 & _)|C]; [left|right; exact C].
    destruct (flush a s) as [a1 s1]. cbn [fst snd] in *. split; [assumption|split; assumption].
  - rewrite app_nil_r. left. split; [|split; auto]. cbn [fst snd].
    apply witness_for_keeps_inv; auto.
Qed.

Lemma ops_items_cons o ops : ops_items (o :: ops) = op_items o ++ ops_items ops.
Proof. reflexivity. Qed.

Lemma ops_items_app a b : ops_items (a ++ b) = ops_items a ++ ops_items b.
Proof. unfold ops_items. apply flat_map_app. Qed.

Lemma items_ok_op o : Forall item_ok (op_items o) -> op_ok o.
Proof. destruct o; cbn; auto. intro F. now inversion F. Qed.

Lemma steps_inv : forall ops st ls, Inv st ls -> Forall item_ok (ops_items ops) ->
  Inv (fold_left (step H) ops st) (ls ++ map (item_hash H) (ops_items ops)) \/ collision.
Proof.
  induction ops as [|o ops IH]; intros st ls Hi F.
  - left. cbn. now rewrite app_nil_r.
  - rewrite ops_items_cons in F. apply Forall_app in F. destruct F as [Fo F].
    cbn [fold_left]. destruct (step_inv st ls o Hi (items_ok_op o Fo)) as [Hi'|C]; [|right; exact C].
    destruct (IH _ _ Hi' F) as [Hi2|C]; [left|right; exact C].
    rewrite ops_items_cons, map_app, app_assoc. exact Hi2.
Qed.

Lemma Inv_init : Inv (acc_empty, store_empty) [].
Proof. split; [apply inv_empty|]. split; [apply sound_empty|constructor]. Qed.

Lemma run_inv ops : Forall item_ok (ops_items ops) ->
  Inv (run H ops) (map (item_hash H) (ops_items ops)) \/ collision.
Proof. intro F. apply (steps_inv ops _ [] Inv_init F). Qed.

(* ------------------------------------------------------------------ *)
(* the statements of Prop_C27                                           *)

Definition spec_of (items : list item) (i : nat) : list witness :=
  spec_witness (aroots_of (map (item_hash H) items)) (N.of_nat i).

Lemma Inv_query st ls i x : Inv st ls -> nth_error ls i = Some x ->
  exists a', witness_for (snd st) (fst st) (N.of_nat i) = (a', Ok (spec_witness (aroots_of ls) (N.of_nat i))) /\
             verify H a' (spec_witness (aroots_of ls) (N.of_nat i)) x = Ok tt /\
             verify H (fst st) (spec_witness (aroots_of ls) (N.of_nat i)) x = Ok tt.
Proof.
  intros (Hi & Hs & F) Hx. destruct (aroots_leaves ls F) as [_ Hl].
  destruct (witness_for_inv (snd st) (fst st) (aroots_of ls) (N.of_nat i) x Hi) as (a' & E & _ & V1 & V2).
  - now rewrite Hl, Nat2N.id.
  - eauto.
Qed.

Theorem witness_verifies items i it s :
  Forall item_ok items -> nth_error items i = Some it ->
  exists a', witness_for s (add_all H items) (N.of_nat i) = (a', Ok (spec_of items i)) /\
             verify H a' (spec_of items i) (item_hash H it) = Ok tt /\
             verify H (add_all H items) (spec_of items i) (item_hash H it) = Ok tt.
Proof.
  intros F Hn. unfold spec_of.
  destruct (aroots_leaves _ (items_hash_len items F)) as [_ Hl].
  destruct (witness_for_inv s (add_all H items) _ (N.of_nat i) (item_hash H it)
              (add_all_inv (s_nodes s) items F)) as (a' & E & _ & V1 & V2).
  - rewrite Hl, Nat2N.id. now apply map_nth_error.
  - eauto.
Qed.

(* every history of additions, flushes, recoveries and queries *)
Theorem history_witness_verifies ops i it :
  Forall item_ok (ops_items ops) -> nth_error (ops_items ops) i = Some it ->
  (exists a', witness_for (snd (run H ops)) (fst (run H ops)) (N.of_nat i)
                = (a', Ok (spec_of (ops_items ops) i)) /\
              verify H a' (spec_of (ops_items ops) i) (item_hash H it) = Ok tt /\
              verify H (fst (run H ops)) (spec_of (ops_items ops) i) (item_hash H it) = Ok tt)
  \/ collision.
Proof.
  intros F Hn. destruct (run_inv ops F) as [I|C]; [left|right; exact C].
  apply Inv_query; auto. now apply map_nth_error.
Qed.

(* no error branch: a stored index never yields an error *)
Theorem witness_total ops idx :
  Forall item_ok (ops_items ops) -> idx < a_len (fst (run H ops)) ->
  (exists w, snd (witness_for (snd (run H ops)) (fst (run H ops)) idx) = Ok w) \/ collision.
Proof.
  intros F Hlt. destruct (run_inv ops F) as [I|C]; [left|right; exact C].
  pose proof I as ((Hr & Hh & Hl) & Hs & F32).
  destruct (aroots_leaves _ F32) as [_ Hal]. rewrite Hal in Hl.
  destruct (nth_error (map (item_hash H) (ops_items ops)) (N.to_nat idx)) as [x|] eqn:E.
  - destruct (Inv_query _ _ (N.to_nat idx) x I E) as (a' & Ew & _). rewrite N2Nat.id in Ew.
    rewrite Ew. cbn [snd]. eauto.
  - apply nth_error_None in E. lia.
Qed.

Theorem persist ops :
  Forall item_ok (ops_items ops) ->
  (let a := fst (run H ops) in let s := snd (run H ops) in
   let a1 := fst (flush a s) in let s1 := snd (flush a s) in let a2 := recover s1 in
   a_len a2 = a_len a /\
   map (option_map node_hash) (a_roots a2) = map (option_map node_hash) (a_roots a) /\
   forall i it, nth_error (ops_items ops) i = Some it ->
     exists w b b1 b2,
       witness_for s a (N.of_nat i) = (b, Ok w) /\
       witness_for s1 a1 (N.of_nat i) = (b1, Ok w) /\
       witness_for s1 a2 (N.of_nat i) = (b2, Ok w) /\
       verify H b2 w (item_hash H it) = Ok tt)
  \/ collision.
Proof.
  intro F. destruct (run_inv ops F) as [I|C]; [|right; exact C].
  destruct I as (Hi & Hs & F32).
  destruct (flush_inv _ _ _ Hi Hs) as [(I1 & S1 & I2 & X)|C]; [left|right; exact C].
  cbv zeta. set (a := fst (run H ops)) in *. set (s := snd (run H ops)) in *.
  set (a1 := fst (flush a s)) in *. set (s1 := snd (flush a s)) in *.
  split; [|split].
  - destruct I2 as (_ & _ & L2). destruct Hi as (_ & _ & L). congruence.
  - destruct I2 as (R2 & _). destruct Hi as (R & _).
    rewrite (rel_hashes _ _ _ R2), (rel_hashes _ _ _ R). reflexivity.
  - intros i it Hn. apply (map_nth_error (item_hash H)) in Hn.
    destruct (Inv_query (a, s) _ i _ (conj Hi (conj Hs F32)) Hn) as (b & E & _).
    destruct (Inv_query (a1, s1) _ i _ (conj I1 (conj S1 F32)) Hn) as (b1 & E1 & _).
    destruct (Inv_query (recover s1, s1) _ i _ (conj I2 (conj S1 F32)) Hn) as (b2 & E2 & V2 & _).
    cbn [fst snd] in *. eauto 10.
Qed.

(* the witness returned by AddHash/AddData verifies at once *)
Lemma add_node_witness m : forall roots ar n t w h x buf k,
  rel m roots ar -> heights_ok h ar -> tree_ok m n t -> perfect h t ->
  length buf = 64%nat -> verify_loop H buf x w k = (pt_hash t, h) ->
  exists o t', nth_error (aadd_node ar t) o = Some (Some t') /\
    verify_loop H buf x (snd (add_node H roots n w)) k = (pt_hash t', (h + o)%nat).
Proof.
  induction roots as [|r roots IH]; intros ar n t w h x buf k Hrel Hh Hn Hp Hb Hv; inversion Hrel; subst.
  - exists 0%nat, t. cbn. rewrite Nat.add_0_r. auto.
  - destruct r as [root|], y as [t0|]; cbn in H2; try contradiction.
    + cbn [add_node aadd_node]. destruct Hh as [Hp0 Hh].
      destruct (add_node H roots (mk_branch H root n) (w ++ [mkW Left (node_hash root)])) as [rest' w'] eqn:E.
      assert (Hb' : tree_ok m (mk_branch H root n) (PNode t0 t)).
      { unfold mk_branch. cbn [tree_ok pt_hash].
        split; [|split; [auto|split; [auto|discriminate]]].
        rewrite (tree_ok_hash _ _ _ H2), (tree_ok_hash _ _ _ Hn).
        rewrite pair_bytes_32; eauto using perfect_hash_len. }
      destruct (verify_loop_app w [mkW Left (node_hash root)] buf x k Hb) as (buf1 & Hb1 & Ev).
      rewrite Hv in Ev. cbn [fst snd verify_loop w_dir w_hash] in Ev.
      rewrite (tree_ok_hash _ _ _ H2) in Ev.
      rewrite copy_at_pair in Ev by eauto using perfect_hash_len.
      destruct (IH l' (mk_branch H root n) (PNode t0 t) (w ++ [mkW Left (node_hash root)]) (S h) x buf k
                  H4 Hh Hb') as (o & t' & Hn' & Hv'); [cbn; auto|exact Hb|rewrite (tree_ok_hash _ _ _ H2); exact Ev|].
      rewrite E in Hv'. cbn [snd] in *.
      exists (S o), t'. cbn [nth_error]. split; auto.
      rewrite Hv'. f_equal. lia.
    + cbn [add_node aadd_node snd]. exists 0%nat, t. cbn. rewrite Nat.add_0_r. auto.
Qed.

Theorem add_witness_verifies ops it :
  Forall item_ok (ops_items ops) -> item_ok it ->
  verify H (fst (add H (fst (run H ops)) it)) (snd (add H (fst (run H ops)) it)) (item_hash H it) = Ok tt
  \/ collision.
Proof.
  intros F Hit. destruct (run_inv ops F) as [I|C]; [left|right; exact C].
  destruct I as (Hi & Hs & F32). pose proof (add_inv _ _ _ it Hi Hit) as Hi'.
  destruct Hi as (Hr & Hh & Hl).
  assert (Ht : tree_ok (s_nodes (snd (run H ops))) (leaf_of H it) (PLeaf (item_hash H it))).
  { destruct it; cbn; auto. }
  destruct (add_node_witness _ _ _ _ _ [] 0%nat (item_hash H it) zeros64 0%nat Hr Hh Ht
              (item_hash_len it Hit) zeros64_length eq_refl) as (o & t' & Hn & Hv).
  unfold add in *. destruct (add_node H (a_roots (fst (run H ops))) (leaf_of H it) []) as [rs w] eqn:E.
  cbn [fst snd] in *. unfold verify. cbn [a_roots]. rewrite Hv. cbn [Nat.add].
  destruct Hi' as (Hr' & _). cbn [a_roots] in Hr'.
  pose proof (rel_nth _ _ _ o Hr') as Hk. rewrite Hn in Hk.
  destruct (nth_error rs o) as [[root|]|]; cbn in Hk; try contradiction.
  rewrite (tree_ok_hash _ _ _ Hk), bytes_eqb_refl. reflexivity.
Qed.

(* ------------------------------------------------------------------ *)
(* shape: slot k is occupied iff bit k of the length is set, and holds the
   perfect tree over the items [len / 2^(k+1) * 2^(k+1), + 2^k)            *)

Definition occupied (o : option ptree) : bool := match o with Some _ => true | None => false end.

Fixpoint occ_value (ar : list (option ptree)) : N :=
  match ar with [] => 0 | o :: r => 2 * occ_value r + N.b2n (occupied o) end.

Lemma leaves_count : forall ar h, heights_ok h ar ->
  N.of_nat (length (all_leaves ar)) = 2 ^ N.of_nat h * occ_value ar.
Proof.
  induction ar as [|o ar IH]; intros h Hh; cbn [all_leaves occ_value length].
  - cbn. lia.
  - destruct Hh as [Hp Hh]. rewrite app_length, Nat2N.inj_add, (IH _ Hh), pow2_S.
    destruct o as [t|]; cbn [opt_leaves occupied N.b2n length].
    + rewrite (perfect_leaves_len _ _ Hp). ring.
    + change (N.of_nat 0) with 0. ring.
Qed.

Lemma occ_testbit : forall ar k,
  N.testbit (occ_value ar) (N.of_nat k) =
  match nth_error ar k with Some o => occupied o | None => false end.
Proof.
  induction ar as [|o ar IH]; intros k.
  - cbn [occ_value]. rewrite N.bits_0. destruct k; reflexivity.
  - cbn [occ_value]. destruct k.
    + cbn [N.of_nat nth_error]. apply N.testbit_0_r.
    + rewrite Nat2N.inj_succ, N.testbit_succ_r. cbn [nth_error]. apply IH.
Qed.

Lemma heights_skipn : forall j ar h, heights_ok h ar -> heights_ok (h + j) (skipn j ar).
Proof.
  induction j; intros ar h Hh; cbn [skipn].
  - now rewrite Nat.add_0_r.
  - destruct ar as [|o ar]; [exact I|]. destruct Hh as [_ Hh].
    rewrite Nat.add_succ_r. apply (IHj ar (S h) Hh).
Qed.

Lemma occ_skipn : forall j ar, occ_value (skipn j ar) = occ_value ar / 2 ^ N.of_nat j.
Proof.
  induction j; intros ar; cbn [skipn].
  - cbn. now rewrite N.div_1_r.
  - destruct ar as [|o ar].
    + cbn [occ_value]. now rewrite N.div_0_l by (apply N.pow_nonzero; discriminate).
    + rewrite IHj, pow2_S. cbn [occ_value].
      rewrite <- N.div_div by (try apply N.pow_nonzero; discriminate).
      f_equal. destruct (occupied o); cbn [N.b2n]; lia.
Qed.

Lemma slot_range : forall ar k t, heights_ok 0 ar -> nth_error ar k = Some (Some t) ->
  pt_leaves t = firstn (N.to_nat (2 ^ N.of_nat k))
                  (skipn (N.to_nat (N.of_nat (length (all_leaves ar)) / 2 ^ N.of_nat (S k) * 2 ^ N.of_nat (S k)))
                         (all_leaves ar)).
Proof.
  intros ar k t Hh Hn.
  pose proof (heights_nth _ _ _ _ Hh Hn) as Hp. cbn [Nat.add] in Hp.
  pose proof (perfect_leaves_len _ _ Hp) as Lt.
  assert (Esplit : ar = firstn k ar ++ [Some t] ++ skipn (S k) ar).
  { rewrite <- (firstn_skipn k ar) at 1. f_equal.
    clear - Hn. revert k Hn. induction ar; intros [|k] Hn; cbn in *; try discriminate.
    - inversion Hn; subst. reflexivity.
    - apply IHar. exact Hn. }
  pose proof (heights_skipn (S k) ar 0 Hh) as Hhs. cbn [Nat.add] in Hhs.
  pose proof (leaves_count _ _ Hhs) as Ls. rewrite occ_skipn in Ls.
  pose proof (leaves_count _ _ Hh) as La. change (2 ^ N.of_nat 0) with 1 in La. rewrite N.mul_1_l in La.
  assert (Eleaves : all_leaves ar = all_leaves (skipn (S k) ar) ++ pt_leaves t ++ all_leaves (firstn k ar)).
  { rewrite Esplit at 1. rewrite !all_leaves_app. cbn [all_leaves opt_leaves app]. now rewrite <- app_assoc. }
  rewrite La.
  replace (N.to_nat (occ_value ar / 2 ^ N.of_nat (S k) * 2 ^ N.of_nat (S k)))
    with (length (all_leaves (skipn (S k) ar))) by lia.
  rewrite Eleaves at 1. rewrite skipn_app_exact by reflexivity.
  rewrite firstn_app_exact by lia. reflexivity.
Qed.

Lemma shape_of_inv m a ar :
  inv m a ar ->
  (forall k, (exists n, nth_error (a_roots a) k = Some (Some n)) <-> N.testbit (a_len a) (N.of_nat k) = true) /\
  (forall k n, nth_error (a_roots a) k = Some (Some n) ->
     exists t, perfect k t /\ node_hash n = pt_hash t /\
       pt_leaves t = firstn (N.to_nat (2 ^ N.of_nat k))
                       (skipn (N.to_nat (a_len a / 2 ^ N.of_nat (S k) * 2 ^ N.of_nat (S k))) (all_leaves ar))).
Proof.
  intros (Hr & Hh & Hl).
  assert (Ev : a_len a = occ_value ar).
  { rewrite Hl, (leaves_count _ _ Hh). change (2 ^ N.of_nat 0) with 1. lia. }
  split.
  - intro k. rewrite Ev, occ_testbit. pose proof (rel_nth _ _ _ k Hr) as Hk.
    destruct (nth_error (a_roots a) k) as [[n|]|], (nth_error ar k) as [[t|]|]; cbn in Hk |- *; try contradiction;
      split; intro X; try discriminate; eauto; destruct X; discriminate.
  - intros k n Hn. pose proof (rel_nth _ _ _ k Hr) as Hk. rewrite Hn in Hk.
    destruct (nth_error ar k) as [[t|]|] eqn:Ea; cbn in Hk; try contradiction.
    exists t. pose proof (heights_nth _ _ _ _ Hh Ea) as Hp. cbn [Nat.add] in Hp.
    split; [auto|]. split; [eauto using tree_ok_hash|].
    rewrite Hl. apply slot_range; auto.
Qed.

Theorem roots_shape items :
  Forall item_ok items ->
  let a := add_all H items in
  a_len a = N.of_nat (length items) /\
  (forall k, (exists n, nth_error (a_roots a) k = Some (Some n)) <->
             N.testbit (N.of_nat (length items)) (N.of_nat k) = true) /\
  (forall k n, nth_error (a_roots a) k = Some (Some n) ->
     exists t, perfect k t /\ node_hash n = pt_hash t /\
       pt_leaves t = firstn (N.to_nat (2 ^ N.of_nat k))
                       (skipn (N.to_nat (N.of_nat (length items) / 2 ^ N.of_nat (S k) * 2 ^ N.of_nat (S k)))
                              (map (item_hash H) items))).
Proof.
  intros F a. pose proof (add_all_inv bm_empty items F) as Hi. fold a in Hi.
  destruct (aroots_leaves _ (items_hash_len items F)) as [_ Hal].
  assert (El : a_len a = N.of_nat (length items)).
  { destruct Hi as (_ & _ & L). rewrite L, Hal, map_length. reflexivity. }
  destruct (shape_of_inv _ _ _ Hi) as [S1 S2]. rewrite Hal, El in *. auto.
Qed.

Theorem history_roots_shape ops :
  Forall item_ok (ops_items ops) ->
  (let a := fst (run H ops) in let items := ops_items ops in
   a_len a = N.of_nat (length items) /\
   (forall k, (exists n, nth_error (a_roots a) k = Some (Some n)) <->
              N.testbit (N.of_nat (length items)) (N.of_nat k) = true) /\
   (forall k n, nth_error (a_roots a) k = Some (Some n) ->
      exists t, perfect k t /\ node_hash n = pt_hash t /\
        pt_leaves t = firstn (N.to_nat (2 ^ N.of_nat k))
                        (skipn (N.to_nat (N.of_nat (length items) / 2 ^ N.of_nat (S k) * 2 ^ N.of_nat (S k)))
                               (map (item_hash H) items))))
  \/ collision.
Proof.
  intro F. destruct (run_inv ops F) as [(Hi & Hs & F32)|C]; [left|right; exact C].
  cbv zeta. destruct (aroots_leaves _ F32) as [_ Hal].
  assert (El : a_len (fst (run H ops)) = N.of_nat (length (ops_items ops))).
  { destruct Hi as (_ & _ & L). rewrite L, Hal, map_length. reflexivity. }
  destruct (shape_of_inv _ _ _ Hi) as [S1 S2]. rewrite Hal, El in *. auto.
Qed.

(* ------------------------------------------------------------------ *)
(* the code before /repo commit 2615bc1 fails the property               *)

Lemma flush_old_refuted :
  exists items, Forall item_ok items /\ flush_old (add_all H items) store_empty = Err EPanic.
Proof. exists [IData []; IData []]. split; [repeat constructor|reflexivity]. Qed.

Lemma witness_for_old_refuted :
  exists items idx, Forall item_ok items /\ idx < N.of_nat (length items) /\
    snd (witness_for_old store_empty (add_all H items) idx) = Err EPanic.
Proof.
  exists [IData []; IData []; IData []; IData []; IData []], 4.
  split; [repeat constructor|]. split; [reflexivity|reflexivity].
Qed.

End Proofs.

(* ------------------------------------------------------------------ *)
(* the hypotheses are satisfiable: a 32-byte "hash", well-formed items, a
   history that flushes, recovers, keeps adding and queries               *)
Definition H_example (x : bytes) : bytes := firstn 32 (x ++ repeat 0 32).

Example H_example_len : forall x, length (H_example x) = 32%nat.
Proof.
  intro x. unfold H_example. rewrite firstn_length, app_length, repeat_length. lia.
Qed.

Example items_example :
  Forall item_ok [IHash (repeat 7 32); IData [1; 2; 3]; IData []; IHash (repeat 9 32); IData [255]] /\
  nth_error [IHash (repeat 7 32); IData [1; 2; 3]; IData []; IHash (repeat 9 32); IData [255]] 4 = Some (IData [255]).
Proof. split; [repeat constructor|reflexivity]. Qed.

Example history_example :
  let ops := [OpAdd (IData [1]); OpAdd (IHash (repeat 7 32)); OpFlush; OpAdd (IData [2]);
              OpFlushRecover; OpAdd (IData [3]); OpAdd (IData [4]); OpQuery 1; OpFlushRecover; OpQuery 4] in
  Forall item_ok (ops_items ops) /\ nth_error (ops_items ops) 4 = Some (IData [4]) /\
  4 < a_len (fst (run H_example ops)).
Proof. cbv zeta. split; [repeat constructor|]. split; reflexivity. Qed.
