(* Link_C29.v -- ties the two scalar tests of the BTP proof model (property C29) to the
   kernels that tools/go2coq re-generates from btp/ntm/secp256k1proof.go on every run:

     ntmNotEnoughParts        <->  Model_Quorum.ntm_too_few            (end of Verify:
                                   valid <= 2*len(pc.Validators)/3  -> "not enough proof parts")
     ntmPartIndexOutOfRange   <->  the index guard of Model_BTPProof.verify_part
                                   (VerifyPart: Index < 0 || Index >= len(Validators))

   The models work on nat / unbounded Z, the kernels wrap Go int arithmetic; the
   equalities hold for every validator count a Go slice can have (n <= 2^62-1 for the
   threshold; any n for the guard).  Proved from the kernels' characterising lemmas
   (Proofs_K_<name>.v) and ntm_too_few_spec (Proofs_Quorum.v), never from the shape of
   the generated text: `<=` turned into `<` in Verify, or `>=` into `>` in VerifyPart,
   breaks Proofs_K_<name>.v, hence this file, hence Prop_C29.v.
   Model_Quorum.v is shared with C05 and C01: this file is imported by Prop_C29.v only,
   and it does not import Proofs_KX_ntm_threshold (which also depends on hasOverTwoThirds).
   Style: stdlib, lia. *)
From Coq Require Import Arith List Lia Bool ZArith ZifyBool ZifyNat.
From Goloop Require Import lib.Bytes lib.GoInt Model_Quorum Proofs_Quorum Model_BTPProof Proofs_BTPProof.
From Goloop Require Import Proofs_K_tactics Proofs_K_ntmNotEnoughParts Proofs_K_ntmPartIndexOutOfRange.
From Goloop.gen Require Export K_ntmNotEnoughParts K_ntmPartIndexOutOfRange.
Import ListNotations.

Ltac Zify.zify_post_hook ::= Z.to_euclidean_division_equations.

(* ---- the threshold at the end of Verify ---- *)

Lemma ntm_too_few_is_ntmNotEnoughParts (valid validators : nat) :
  (Z.of_nat validators <= 4611686018427387903)%Z ->
  ntm_too_few valid validators = ntmNotEnoughParts (Z.of_nat valid) (Z.of_nat validators).
Proof.
  intros Hv. apply bool_eq_iff. rewrite ntmNotEnoughParts_spec by lia.
  pose proof (ntm_too_few_spec valid validators) as S.
  destruct (ntm_too_few valid validators).
  - split; [intros _|reflexivity].
    destruct (le_gt_dec (3 * valid) (2 * validators)) as [L|G]; [lia|].
    apply S in G. discriminate.
  - split; [discriminate|]. intros L. assert (3 * valid > 2 * validators) by (apply S; reflexivity). lia.
Qed.

(* ---- the index guard of VerifyPart ---- *)

Lemma index_guard_is_ntmPartIndexOutOfRange (idx : Z) (n : nat) :
  ((idx <? 0) || (Z.of_nat n <=? idx))%Z = ntmPartIndexOutOfRange idx (Z.of_nat n).
Proof.
  pose proof (ntmPartIndexOutOfRange_spec idx (Z.of_nat n)) as S.
  destruct (ntmPartIndexOutOfRange idx (Z.of_nat n)).
  - destruct ((idx <? 0) || (Z.of_nat n <=? idx))%Z eqn:E; [reflexivity|].
    assert (true = false) by (apply S; lia). discriminate.
  - assert (0 <= idx < Z.of_nat n)%Z by (apply S; reflexivity). lia.
Qed.

(* verify_part refuses whatever the kernel refuses *)
Lemma verify_part_refuses_out_of_range {sigT addrT : Type}
      (addr_eqb : addrT -> addrT -> bool) (recover : decision -> sigT -> option addrT)
      (d : decision) (vals : list (option addrT)) (idx : Z) (s : option sigT) :
  ntmPartIndexOutOfRange idx (Z.of_nat (length vals)) = true ->
  verify_part addr_eqb recover d vals idx s = None.
Proof.
  intros K. unfold verify_part. rewrite index_guard_is_ntmPartIndexOutOfRange, K. reflexivity.
Qed.

(* and an accepted part passed the kernel's test *)
Lemma verify_part_accept_in_range {sigT addrT : Type}
      (addr_eqb : addrT -> addrT -> bool) (recover : decision -> sigT -> option addrT)
      (d : decision) (vals : list (option addrT)) (idx : Z) (s : option sigT) (i : nat) :
  verify_part addr_eqb recover d vals idx s = Some i ->
  ntmPartIndexOutOfRange idx (Z.of_nat (length vals)) = false.
Proof.
  intros A. destruct (ntmPartIndexOutOfRange idx (Z.of_nat (length vals))) eqn:K; [|reflexivity].
  rewrite (verify_part_refuses_out_of_range addr_eqb recover d vals idx s K) in A. discriminate.
Qed.

Definition kernel_params_pinned : Prop :=
  ntmNotEnoughParts_params = ["valid"; "len(pc.Validators)"]%string /\
  ntmPartIndexOutOfRange_params = ["epp.Index"; "len(pc.Validators)"]%string.

Lemma kernel_params_ok : kernel_params_pinned.
Proof. exact (conj ntmNotEnoughParts_params_ok ntmPartIndexOutOfRange_params_ok). Qed.

Example link_c29_nontrivial :
  ntm_too_few 14 21 = true /\ ntmNotEnoughParts 14 21 = true /\
  ntm_too_few 15 21 = false /\ ntmNotEnoughParts 15 21 = false /\
  ntmNotEnoughParts 0 0 = true /\
  ntmPartIndexOutOfRange 3 3 = true /\ ntmPartIndexOutOfRange 2 3 = false /\
  ntmPartIndexOutOfRange (-1) 3 = true.
Proof. repeat split; reflexivity. Qed.
