(* Model_TxExec.v — executable model of transaction execution and fee charging.

   Mirrors, for the `basic` platform at its default revision 4 (flags
   InputCostingWithJSON, FixLostFeeByDeposit; NOT LegacyFeeCharge,
   LegacyBalanceCheck; ExpandErrorCode is a parameter because it is the only
   flag on these paths that differs between revision 4 and the latest
   revision 8), WITHOUT fee sharing / deposits:

     service/transaction/transactionhandler.go   checkBalance, DoExecute, Execute
     service/contract/callframe.go               deductSteps, event-log / BTP buffers
     service/contract/callcontext.go             pushFrame, popFrame, Call, ApplyCallSteps, validateStatus
     service/contract/transferhandler.go         DoExecuteSync
     service/contract/contractmanager.go         GetHandler dispatch
     service/contract/callhandler.go             the failing prefixes of CallHandler / TransferAndCallHandler
     service/transition.go                       doExecute: fee gathering, treasury credit

   Accounts are numbers; balances are a total map N -> Z (every address has an
   account, balance 0 by default), storage is N -> N -> N (0 = absent).
   A contract call is a SCRIPT: a flat list of instructions run by a frame
   stack machine that follows pushFrame/popFrame (snapshot on entry, Reset on
   failure, log / BTP buffers merged into the parent on success, step
   accounting per frame).  The scripted contract has two flavours (t_async):
   synchronous nested calls (cc.Call: a callee's Timeout is a caught failure) and
   asynchronous ones (cc.OnCall / waitResult: a Timeout at any depth takes the
   cleanUpFrames(target) path and ends the whole call).  No proofs in this file. *)
From Coq Require Import List NArith ZArith Bool.
Import ListNotations.
Open Scope Z_scope.

(* ------------------------------------------------------------------ state *)

(* vals: the validator list (ValidatorState), world state like everything else *)
Record wstate := mkW { bal : N -> Z; sto : N -> N -> N; vals : list N }.

Definition upd {A} (f : N -> A) (a : N) (v : A) : N -> A :=
  fun x => if N.eqb x a then v else f x.

Definition set_bal (s : wstate) (a : N) (v : Z) : wstate :=
  mkW (upd (bal s) a v) (sto s) (vals s).

Definition set_sto (s : wstate) (a k v : N) : wstate :=
  mkW (bal s) (upd (sto s) a (upd (sto s a) k v)) (vals s).

Definition set_vals (s : wstate) (l : list N) : wstate := mkW (bal s) (sto s) l.

(* the only way a fee is taken: AccountState.SetBalance(bal - fee) *)
Definition charge_fee (s : wstate) (payer : N) (fee : Z) : wstate :=
  set_bal s payer (bal s payer - fee).

(* ------------------------------------------------------------------ inputs *)

Inductive logent :=
| LScript (id : N)               (* event emitted by the scripted contract *)
| LXfer (to : N) (amt : Z).      (* ICXTransfer event of a contract-originated transfer *)

Inductive op :=
| OSet (a k v : N)
| OMove (f t : N) (amt : Z)
| OLog (id : N)
| OBtp (id : N)
| OBurn (n : Z)
| OEnter
| OXfer (t : N) (amt : Z)
| OExit (st : N)
| OHang
| OGrant (v : N)                (* ValidatorState.Add *)
| ORevoke (v : N).              (* ValidatorState.Remove (the scripted contract keeps the last validator) *)                        (* the frame never answers: the call-context timer fires *)

Inductive dtype := DNone | DMessage | DCall.

Record tx := mkTx {
  t_from : N; t_to : N; t_value : Z; t_limit : Z;
  t_dt : dtype;
  t_datalen : Z;          (* bytes of the compact JSON data field *)
  t_async : bool;         (* the scripted contract runs as an engine-backed (asynchronous) handler *)
  t_ops : list op          (* the script, used when the call reaches the scripted contract *)
}.

Record params := mkParams {
  p_price : Z;             (* step price *)
  p_cdefault : Z;          (* step cost "default" *)
  p_cinput : Z;            (* step cost "input" *)
  p_ccall : Z;             (* step cost "contractCall" *)
  p_invoke : Z;            (* step limit "invoke" *)
  p_expand : bool;         (* Revision.ExpandErrorCode *)
  p_treasury : N;
  p_script : N;            (* the contract account served by the scripted contract *)
  p_nocontract : list N    (* contract-form addresses that hold no contract *)
}.

Fixpoint memN (a : N) (l : list N) : bool :=
  match l with [] => false | x :: r => N.eqb a x || memN a r end.

Fixpoint remove_first (a : N) (l : list N) : list N :=
  match l with [] => [] | x :: r => if N.eqb a x then r else x :: remove_first a r end.

(* ValidatorState.IndexOf: position in the list, -1 when absent *)
Fixpoint index_of (a : N) (l : list N) : Z :=
  match l with
  | [] => -1
  | x :: r => if N.eqb a x then 0 else let i := index_of a r in if i <? 0 then -1 else i + 1
  end.

(* Address.IsContract() of the address / AccountState.IsContract() of the account *)
Definition contract_form (p : params) (a : N) : bool := N.eqb a (p_script p) || memN a (p_nocontract p).
Definition contract_acct (p : params) (a : N) : bool := N.eqb a (p_script p).

(* module.Status codes used below *)
Definition StSuccess : N := 0%N.
Definition StContractNotFound : N := 2%N.
Definition StInvalidParameter : N := 6%N.
Definition StOutOfStep : N := 10%N.
Definition StOutOfBalance : N := 11%N.
Definition StTimeout : N := 12%N.

Definition ok (st : N) : bool := N.eqb st 0.

(* callcontext.validateStatus: without ExpandErrorCode codes in (99, 999] become 99 *)
Definition clamp (p : params) (st : N) : N :=
  if p_expand p then st else if (N.ltb 99 st && N.leb st 999)%bool then 99%N else st.

(* ------------------------------------------------------------------ frames *)

Record frame := mkF {
  f_snap : wstate; f_logs : list logent; f_btp : list N; f_used : Z; f_limit : Z }.

Definition new_frame (s : wstate) (limit : Z) : frame := mkF s [] [] 0 limit.

(* callframe.deductSteps: add, and clamp to the limit when it is exceeded *)
Definition deduct (f : frame) (steps : Z) : bool * frame :=
  let u := f_used f + steps in
  if f_limit f <? u
  then (false, mkF (f_snap f) (f_logs f) (f_btp f) (f_limit f) (f_limit f))
  else (true, mkF (f_snap f) (f_logs f) (f_btp f) u (f_limit f)).

Definition avail (f : frame) : Z := f_limit f - f_used f.

Definition add_log (f : frame) (l : logent) : frame :=
  mkF (f_snap f) (f_logs f ++ [l]) (f_btp f) (f_used f) (f_limit f).
Definition add_btp (f : frame) (m : N) : frame :=
  mkF (f_snap f) (f_logs f) (f_btp f ++ [m]) (f_used f) (f_limit f).

(* popFrame(success) followed by the caller's cc.DeductSteps(used):
   success: buffers go to the parent, state stays; failure: Reset(frame.snapshot) *)
Definition pop_into (st : N) (cur : wstate) (f par : frame) : wstate * frame :=
  let par1 := if ok st
              then mkF (f_snap par) (f_logs par ++ f_logs f) (f_btp par ++ f_btp f) (f_used par) (f_limit par)
              else par in
  (if ok st then cur else f_snap f, snd (deduct par1 (f_used f))).

(* ------------------------------------------------------------------ transfer *)

(* debit a, then credit b (the credit reads the balance after the debit, so a = b is a no-op) *)
Definition move (s : wstate) (a b : N) (amt : Z) : wstate :=
  let s1 := set_bal s a (bal s a - amt) in set_bal s1 b (bal s1 b + amt).

(* TransferHandler.DoExecuteSync(from -> to, v); the sender's account kind
   always matches its address form in this model.  Returns status and state
   (the state may be partially modified on failure: the debit happens before
   the recipient check). *)
Definition do_transfer (p : params) (s : wstate) (from to : N) (v : Z) : N * wstate :=
  if v <? 0 then (StInvalidParameter, s)
  else if bal s from <? v then (StOutOfBalance, s)
  else if negb (Bool.eqb (contract_acct p to) (contract_form p to))
       then (StInvalidParameter, set_bal s from (bal s from - v))
       else (StSuccess, move s from to v).

(* ------------------------------------------------------------------ the scripted contract *)

(* all open frames return success *)
Fixpoint unwind (cur : wstate) (f : frame) (stk : list frame) : N * wstate * frame :=
  match stk with
  | [] => (StSuccess, cur, f)
  | par :: stk' => unwind (fst (pop_into StSuccess cur f par)) (snd (pop_into StSuccess cur f par)) stk'
  end.

(* the outermost frame of the running call and its snapshot (the `target` of
   callContext.Call / waitResult / cleanUpFrames) *)
Fixpoint root_snap (f : frame) (stk : list frame) : wstate :=
  match stk with [] => f_snap f | par :: stk' => root_snap par stk' end.
Fixpoint root_frame (f : frame) (stk : list frame) : frame :=
  match stk with [] => f | par :: stk' => root_frame par stk' end.

(* the snapshot of the innermost frame: what a WRONG cleanUpFrames would reset to *)
Definition inner_snap (f : frame) (stk : list frame) : wstate := f_snap f.

(* the current frame f returns status st; k continues the script in the caller.
   At the root of the call the result is: status, state after popFrame, root frame.
   Asynchronous handlers (engine-backed contracts: frames pushed by waitResult on a
   call request): a Timeout status at ANY depth makes handleResult take the
   cleanUpFrames(target) path: every frame up to the call's root frame is dropped,
   the world is reset to `cl f stk` (the code: target.snapshot = root_snap) and
   the whole call returns Timeout.  Synchronous nested cc.Call: the callee's frame
   is its own target, so the failure is an ordinary caught failure. *)
Definition leave_k (cl : frame -> list frame -> wstate) (async : bool)
           (k : wstate -> frame -> list frame -> N * wstate * frame)
           (stk : list frame) (st : N) (cur : wstate) (f : frame) : N * wstate * frame :=
  if async && N.eqb st StTimeout then (StTimeout, cl f stk, root_frame f stk)
  else
  match stk with
  | [] => (st, if ok st then cur else f_snap f, f)
  | par :: stk' => k (fst (pop_into st cur f par)) (snd (pop_into st cur f par)) stk'
  end.

(* inter-call TransferHandler (contract -> EOA t) in its own frame:
   ApplyStepsForInterCall, DoExecuteSync, ICXTransfer event.
   Returns the callee's status, the state it left, its frame. *)
Definition xfer_call (p : params) (cur : wstate) (f : frame) (t : N) (amt : Z) : N * wstate * frame :=
  let d := deduct (new_frame cur (avail f)) (p_ccall p) in
  if fst d then
    let r := do_transfer p cur (p_script p) t amt in
    (fst r, snd r, if ok (fst r) && (0 <? amt) then add_log (snd d) (LXfer t amt) else snd d)
  else (StOutOfStep, cur, snd d).

(* run: `cur` current world state, `f` current frame, `stk` its ancestors
   inside this call (innermost first).  Result: status of the call's root
   frame, the world state after popFrame of the root frame, the root frame.
   A callee's failure is caught: the caller continues with the next instruction
   (except the asynchronous timeout path, see leave_k).
   `cl` = which snapshot cleanUpFrames resets to; the code is `run` = run_gen root_snap. *)
Fixpoint run_gen (cl : frame -> list frame -> wstate) (p : params) (async : bool)
         (ops : list op) (cur : wstate) (f : frame) (stk : list frame)
  : N * wstate * frame :=
  match ops with
  | [] => unwind cur f stk
  | o :: rest =>
    let k := run_gen cl p async rest in
    let leave := leave_k cl async k in
    match o with
    | OSet a key v => k (set_sto cur a key v) f stk
    | OMove a b amt =>
        if amt <? 0 then leave stk StInvalidParameter cur f
        else if bal cur a <? amt then leave stk StOutOfBalance cur f
        else k (move cur a b amt) f stk
    | OLog id => k cur (add_log f (LScript id)) stk
    | OBtp id => k cur (add_btp f id) stk
    | OBurn n =>
        let d := deduct f (Z.max 0 n) in
        if fst d then k cur (snd d) stk else leave stk StOutOfStep cur (snd d)
    | OEnter =>
        (* cc.Call(sub, StepAvailable) / cc.OnCall(sub, StepAvailable): pushFrame; the
           callee first pays contractCall *)
        let d := deduct (new_frame cur (avail f)) (p_ccall p) in
        if fst d then k cur (snd d) (f :: stk) else leave (f :: stk) StOutOfStep cur (snd d)
    | OXfer t amt =>
        if contract_form p t then k cur f stk
        else let r := xfer_call p cur f t amt in
             leave (f :: stk) (fst (fst r)) (snd (fst r)) (snd r)
    | OExit st => leave stk (clamp p (st mod 1000)%N) cur f
    | OHang => leave stk StTimeout cur f
    | OGrant v =>
        if contract_form p v || memN v (vals cur) then k cur f stk
        else k (set_vals cur (vals cur ++ [v])) f stk
    | ORevoke v =>
        if memN v (vals cur) && (1 <? Z.of_nat (length (vals cur)))
        then k (set_vals cur (remove_first v (vals cur))) f stk
        else k cur f stk
    end
  end.

Notation run := (run_gen root_snap).

(* ------------------------------------------------------------------ the call of a transaction *)

(* error exit of CallHandler / TransferAndCallHandler.ExecuteAsync: the deferred
   ApplyCallSteps may turn the status into OutOfStep; the frame is popped as failed *)
Definition fail_with_call_steps (p : params) (s : wstate) (fr : frame) (st : N) : N * wstate * frame :=
  let d := deduct fr (p_ccall p) in
  ((if fst d then st else StOutOfStep), s, snd d).

(* TransferAndCallHandler: transfer, then the callee lookup fails (no account of
   this model has API info): ContractNotFound *)
Definition transfer_and_call (p : params) (t : tx) (s : wstate) (fr : frame) : N * wstate * frame :=
  let r := do_transfer p s (t_from t) (t_to t) (t_value t) in
  fail_with_call_steps p s fr (if ok (fst r) then StContractNotFound else fst r).

(* TransferHandler.ExecuteSync, not an inter-call: no call steps *)
Definition plain_transfer (p : params) (t : tx) (s : wstate) (fr : frame) : N * wstate * frame :=
  let r := do_transfer p s (t_from t) (t_to t) (t_value t) in
  (fst r, (if ok (fst r) then snd r else s), fr).

(* the scripted contract: contractCall steps, value transfer, script *)
Definition script_call_gen (cl : frame -> list frame -> wstate) (p : params) (t : tx) (s : wstate) (fr : frame) : N * wstate * frame :=
  let d := deduct fr (p_ccall p) in
  if negb (fst d) then (StOutOfStep, s, snd d)
  else
    let r := if 0 <? t_value t then do_transfer p s (t_from t) (t_to t) (t_value t) else (StSuccess, s) in
    if ok (fst r) then run_gen cl p (t_async t) (t_ops t) (snd r) (snd d) [] else (fst r, s, snd d).

Notation script_call := (script_call_gen root_snap).

(* what the handler returned by ContractManager.GetHandler does inside the
   frame pushed by cc.Call(handler, avail).  Result as for `run`: status,
   state after popFrame, the call's frame. *)
Definition call_gen (cl : frame -> list frame -> wstate) (p : params) (t : tx) (s : wstate) (av : Z) : N * wstate * frame :=
  let fr := new_frame s av in
  match t_dt t with
  | DNone | DMessage =>
      if contract_form p (t_to t) then transfer_and_call p t s fr else plain_transfer p t s fr
  | DCall =>
      if N.eqb (t_to t) (p_script p) then script_call_gen cl p t s fr
      else if 0 <? t_value t then transfer_and_call p t s fr
      else if contract_form p (t_to t) then fail_with_call_steps p s fr StContractNotFound
      else fail_with_call_steps p s fr StInvalidParameter
  end.

Notation call := (call_gen root_snap).

(* ------------------------------------------------------------------ Execute *)

Record receipt := mkR {
  r_status : N; r_used : Z; r_price : Z; r_logs : list logent; r_btp : list N;
  r_loop_ok : bool   (* false iff the out-of-balance loop of Execute did not terminate *)
}.

Definition tx_limit (p : params) (t : tx) : Z :=
  if p_invoke p <? t_limit t then p_invoke p else t_limit t.

(* cc.Call + the caller's cc.DeductSteps(used) + the timeout rule of DoExecute *)
Definition after_call (b2 : frame) (r : N * wstate * frame) : N * wstate * frame :=
  let st := fst (fst r) in
  (* popFrame of the call's frame into the base frame + cc.DeductSteps(used) *)
  let b3 := snd (pop_into st (snd (fst r)) (snd r) b2) in
  (* TimeoutError consumes all steps *)
  let b4 := if N.eqb st StTimeout then snd (deduct b3 (avail b3)) else b3 in
  (st, snd (fst r), b4).

(* transactionHandler.DoExecute: status, world state, base frame *)
Definition do_execute_gen (cl : frame -> list frame -> wstate) (p : params) (t : tx) (s : wstate) : N * wstate * frame :=
  let b0 := new_frame s (tx_limit p t) in
  (* checkBalance *)
  if bal s (t_from t) <? p_price p * t_limit t + t_value t then (StOutOfBalance, s, b0)
  else
    let d1 := deduct b0 (p_cdefault p) in
    if negb (fst d1) then (StOutOfStep, s, snd d1)
    else
      let d2 := deduct (snd d1) (p_cinput p * t_datalen t) in
      if negb (fst d2) then (StOutOfStep, s, snd d2)
      else after_call (snd d2) (call_gen cl p t s (avail (snd d2))).

Notation do_execute := (do_execute_gen root_snap).

(* the `for bal.Cmp(fee) < 0` loop of Execute, non-legacy branch.
   wcs: snapshot taken before the transaction; cur: current world state. *)
Record charged := mkC { c_ok : bool; c_status : N; c_state : wstate; c_price : Z; c_fee : Z; c_bal : Z }.

Fixpoint charge_loop (fuel : nat) (wcs : wstate) (from : N) (used : Z)
         (st : N) (cur : wstate) (price fee b : Z) : charged :=
  if b <? fee then
    match fuel with
    | O => mkC false st cur price fee b
    | S k =>
        if ok st
        then (* rollback all changes: ctx.Reset(wcs); bal = as.GetBalance(); fee.Mul(stepToPay, stepPrice) *)
             charge_loop k wcs from used StOutOfBalance wcs price (used * price) (bal wcs from)
        else (* status = OutOfBalance; stepPrice = 0; fee = 0 *)
             charge_loop k wcs from used StOutOfBalance cur 0 0 b
    end
  else mkC true st cur price fee b.

Definition execute_gen (cl : frame -> list frame -> wstate) (p : params) (t : tx) (s : wstate) : receipt * wstate :=
  let st := fst (fst (do_execute_gen cl p t s)) in
  let s1 := snd (fst (do_execute_gen cl p t s)) in
  let base := snd (do_execute_gen cl p t s) in
  let used0 := f_used base in
  (* sustain minimum *)
  let used := if used0 <? p_cdefault p then p_cdefault p else used0 in
  let fee := used * p_price p in
  let c := charge_loop 3 s (t_from t) used st s1 (p_price p) fee (bal s1 (t_from t)) in
  let s2 := set_bal (c_state c) (t_from t) (c_bal c - c_fee c) in
  (mkR (c_status c) used (c_price c)
       (if ok (c_status c) then f_logs base else [])
       (if ok (c_status c) then f_btp base else [])
       (c_ok c),
   s2).

Notation execute := (execute_gen root_snap).

Definition fee_of (r : receipt) : Z := r_used r * r_price r.

(* executeTxsSequential *)
Fixpoint exec_txs (p : params) (txs : list tx) (s : wstate) : list receipt * wstate :=
  match txs with
  | [] => ([], s)
  | t :: rest =>
      let e := execute p t s in
      let er := exec_txs p rest (snd e) in
      (fst e :: fst er, snd er)
  end.

Definition gathered (rs : list receipt) : Z := fold_right (fun r acc => fee_of r + acc) 0 rs.

(* doExecute: run the transactions, then credit the gathered fee to the treasury *)
Definition exec_block (p : params) (txs : list tx) (s : wstate) : list receipt * wstate :=
  let e := exec_txs p txs s in
  (fst e, set_bal (snd e) (p_treasury p) (bal (snd e) (p_treasury p) + gathered (fst e))).

(* the world state after a successful call, used to state the charge equation *)
Definition call_effect (p : params) (t : tx) (s : wstate) : wstate :=
  snd (fst (do_execute p t s)).

(* ------------------------------------------------------------------ finite views *)

Fixpoint sum_on (U : list N) (b : N -> Z) : Z :=
  match U with [] => 0 | a :: r => b a + sum_on r b end.

Definition op_ids (o : op) : list N :=
  match o with
  | OSet a _ _ => [a] | OMove a b _ => [a; b] | OXfer t _ => [t] | _ => []
  end.

Definition tx_ids (p : params) (t : tx) : list N :=
  t_from t :: t_to t :: p_script p :: flat_map op_ids (t_ops t).

Definition block_ids (p : params) (txs : list tx) : list N :=
  p_treasury p :: flat_map (tx_ids p) txs.
