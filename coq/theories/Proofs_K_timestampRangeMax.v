(* Proofs_K_timestampRangeMax.v -- service NewTimestampRange: field max
   Split out of Proofs_Kernels.v: this file imports ONLY the generated kernel(s)
   gen/K_timestampRangeMax.v, so an edit of another kernel's Go source cannot break it.
   Style: stdlib only; arithmetic closed by lia with the euclidean-division hook. *)
From Coq Require Import ZArith Bool String List Lia.
From Coq Require Import ZifyBool.
From Goloop Require Import lib.GoInt Proofs_K_tactics.
From Goloop.gen Require Import K_timestampRangeMax.
Import ListNotations.
Local Open Scope Z_scope.

Ltac Zify.zify_post_hook ::= Z.to_euclidean_division_equations.

Lemma timestampRangeMax_spec bts th :
  min_i64 <= bts + th <= max_i64 -> timestampRangeMax bts th = bts + th.
Proof. unfold timestampRangeMax. kernel_lia. Qed.
